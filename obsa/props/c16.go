package props

import (
	"go/constant"
	"go/token"
	"strconv"
	"strings"

	"golang.org/x/tools/go/ssa"

	"obsa/eng"
)

func init() {
	register(&Prop{
		ID: "C16",
		Explanation: "Structural necessary conditions of 'a revoked certificate is reported revoked everywhere until it expires' in the PKI backend, on every CFG path: " +
			"(1) revokeCert writes the revocation record (revoked/<normalised serial>, holding the certificate's own bytes) and only across the success edge of that write rebuilds the CRL or writes the delta WAL; a response saying state=revoked is returned only after the record exists and, with auto-rebuild off, only across the success edge of crlBuilder.rebuild (which always forces the build); every caller of revokeCert holds revokeStorageLock for writing; only tabled functions write or delete revoked/ entries; " +
			"(2) crlBuilder._doRebuild clears the force flag before the fallible buildCRLs, holds the builder lock across it, sets the flag again on its failure edge and returns the error; every stage of the build propagates its errors; readers of the CRL run the pending rebuild first; " +
			"(3) writer, CRL builder, OCSP, cert/<serial>, ACME and tidy address revocation records through the same prefix value (revokedPath) and the same serial normalisation; OCSP reports Revoked whenever a record is found and never answers from a failed lookup; " +
			"(4) an existing record returns the stored revocation before any write; " +
			"(5) tidy deletes a revoked/ entry only across {entry nil, empty value, unparseable certificate and tidy_invalid_certs, NotAfter+buffer passed and tidy_revoked_certs}, judged on the certificate stored under the same serial; " +
			"(6) the CRL builder turns every listed revocation record into a CRL entry (or fails), hands all of them to buildCRL (the list built for an issuer set is append-only: no member's entries replace what was collected before), skips a record as 'an issuer's own certificate' only on equality of the complete certificate encodings (Raw of the parsed record vs Raw of a candidate issuer), numbers each CRL with the counter it increments on the same path, never resets a counter, writes the CRL before reporting success and persists the counters after the CRLs were built.; " +
			"(8) the CRL builder attributes a revocation record to an issuer by subject match plus signature verification only — no other test lets the loop pass over a candidate issuer — accepts a recorded issuer only if it is still an issuer, and places every parsed record on an issuer's list or on the unassigned list (the one reviewed skip: the record is one of the issuers' own certificates); " +
			"(gaps) buildAnyCRLs groups the issuers into (key, subject) sets by appending only (the per-key map is created only when absent, a set is only ever extended), leaves an issuer out of the sets only when it has no key, and reports success without building only for a disabled CRL or a delta request; " +
			"augmentWithRevokedIssuers appends a revoked issuer, under its own serial, onto the list of exactly the issuer whose certificate verified its signature; " +
			"every complete build stamps LastModified (the If-Modified-Since cache key) before buildCRL; " +
			"config/crl answers success only after a forced crlBuilder.rebuild when auto_rebuild is switched off or the CRL is re-enabled; " +
			"issuer/:ref/revoke writes the revocation state, time and record only for an issuer that is not yet revoked; " +
			"in the member loop of buildAnyCRLsWithCerts the next member is reached only through the read of revokedCertsMap[member], so a member without crl-signing usage still contributes the revocations recorded against it; " +
			"the builder's pending-work flags dirty (re-read config/crl) and invalidate (flush the CRL modification time) are cleared only by the function doing that work, and only across its success edge or with the flag set again on every failure edge; " +
			"getLocalRevokedCertEntries passes over a revocation record as an issuer's own certificate only behind issuerEntry.Revoked == true (only such issuers are listed by augmentWithRevokedIssuers), so the two sources of CRL entries together cover every serial with a revoked/ record.",
		NotDecided: "CRL/OCSP signature validity; multi-issuer interleavings and other schedules; restart after a prefix of the storage writes (crash points); that normalizeSerial/serialFromBigInt compute matching strings (value level); expiry arithmetic.",
		Run:        runC16,
	})
}

func runC16(c *eng.Ctx, thorough bool) {
	c16Association(c)
	c16CRLIdentity(c)
	V, ok := c.P.ConstValue("pki.revokedPath")
	if !ok {
		c.Unresolved("pki.revokedPath")
		return
	}
	vq := `^const:` + reQuote(strconv.Quote(V)) + `$`
	c16Revoke(c, V, vq)
	c16Callers(c, V)
	c16Rebuild(c)
	c16Paths(c, V, vq)
	c16Ocsp(c, V)
	c16Tidy(c, V)
	c16Builder(c, V)
	runC16Gaps2(c)
}

// ---------------------------------------------------------------------------
// helpers

func c16Str(v ssa.Value) (string, bool) {
	k, ok := v.(*ssa.Const)
	if !ok || k.Value == nil || k.Value.Kind() != constant.String {
		return "", false
	}
	return constant.StringVal(k.Value), true
}

// c16SplitKey: v == "<const>" + tail.
func c16SplitKey(v ssa.Value) (string, ssa.Value, bool) {
	b, ok := v.(*ssa.BinOp)
	if !ok || b.Op != token.ADD {
		return "", nil, false
	}
	s, ok := c16Str(b.X)
	if !ok {
		return "", nil, false
	}
	return s, b.Y, true
}

// c16ConstPrefixes: the string constants a storage key may start with.
func c16ConstPrefixes(v ssa.Value) []string {
	var out []string
	for _, o := range eng.Origins(v) {
		if o.Kind == "const" {
			if s, ok := c16Str(o.Val); ok {
				out = append(out, s)
			}
		}
	}
	return out
}

func c16Has(xs []string, s string) bool {
	for _, x := range xs {
		if x == s {
			return true
		}
	}
	return false
}

func c16One(c *eng.Ctx, f *ssa.Function, what, pat string) ssa.CallInstruction {
	cs := eng.Calls(f, pat)
	if !c.Floor(f, what, len(cs), 1) {
		return nil
	}
	return cs[0]
}

// c16ErrPropagated (R4): the error of call is never swallowed: it is returned
// unchanged, or every return reachable from its failure edges carries it or a
// freshly built error.
func c16ErrPropagated(c *eng.Ctx, f *ssa.Function, call ssa.CallInstruction, errIdx int) bool {
	site := "on{" + eng.CalleeName(call.Common()) + " failed} error returned"
	ev := eng.ErrValue(call)
	if ev == nil {
		c.Violation(f, site, call.Pos(), "the error result is discarded", nil)
		return false
	}
	fe := eng.CallFailEdges(call)
	if len(fe) == 0 {
		// returned directly?
		direct := false
		if refs := ev.Referrers(); refs != nil {
			for _, r := range *refs {
				switch x := r.(type) {
				case *ssa.Return:
					if errIdx < len(x.Results) && x.Results[errIdx] == ev {
						direct = true
					}
				case *ssa.Store:
					if _, isAlloc := x.Addr.(*ssa.Alloc); isAlloc && x.Val == ev {
						direct = true
					}
				}
			}
		}
		if direct {
			c.OK(f, site, call.Pos(), "the callee's error is returned unchanged")
			return true
		}
		c.Violation(f, site, call.Pos(), "the error result is neither tested nor returned", nil)
		return false
	}
	for _, r := range eng.ReturnsFrom(f, fe, nil, nil) {
		if errIdx >= len(r.Results) {
			continue
		}
		vals, _, _ := eng.ReturnVals(r, errIdx)
		for _, v := range vals {
			if v == ev || (v != nil && eng.NonNilAt(f, v, r)) {
				continue
			}
			// a phi that merges only the error itself / fresh errors
			okPhi := v != nil
			if okPhi {
				for _, o := range eng.Origins(v) {
					if o.Val == ev || eng.NonNilAt(f, o.Val, r) {
						continue
					}
					okPhi = false
				}
			}
			if okPhi {
				continue
			}
			c.Violation(f, site, r.Pos(), "a return reachable after the failure may carry a nil error ("+eng.Expr(r.Results[errIdx])+"): the failure is swallowed", nil)
			return false
		}
	}
	c.OK(f, site, call.Pos(), "every return reachable from the failure edge carries the error or a fresh one")
	return true
}

// c16Unreach records that no target is reachable from the start edges.
func c16Unreach(c *eng.Ctx, f *ssa.Function, site string, q eng.Query, okPos token.Pos, bad, good string) bool {
	if len(q.StartEdges) == 0 && q.StartAfter == nil {
		c.Undecided(f, site, token.NoPos, "start edge not found (anchor moved?)")
		return false
	}
	if h := eng.Reach(q); h != nil {
		c.Violation(f, site, h.Instr.Pos(), bad, h.Witness)
		return false
	}
	c.OK(f, site, okPos, good)
	return true
}

// c16RevokedReports: returns of f whose response literal carries state=revoked.
func c16RevokedReports(f *ssa.Function) []ssa.Instruction {
	maps := map[ssa.Value]bool{}
	for _, in := range eng.Instrs(f, func(in ssa.Instruction) bool { _, ok := in.(*ssa.MapUpdate); return ok }) {
		mu := in.(*ssa.MapUpdate)
		k, ok1 := c16Str(mu.Key)
		var v string
		var ok2 bool
		if mi, ok := mu.Value.(*ssa.MakeInterface); ok {
			v, ok2 = c16Str(mi.X)
		} else {
			v, ok2 = c16Str(mu.Value)
		}
		if ok1 && ok2 && k == "state" && v == "revoked" {
			maps[mu.Map] = true
		}
	}
	var out []ssa.Instruction
	for _, r := range eng.Returns(f) {
		if len(r.Results) == 0 {
			continue
		}
		a, ok := r.Results[0].(*ssa.Alloc)
		if !ok {
			continue
		}
		for _, d := range eng.StructLitField(a, "Data") {
			if maps[d] {
				out = append(out, r)
			}
		}
	}
	return out
}

func c16AllocOf(v ssa.Value) *ssa.Alloc {
	for i := 0; i < 4 && v != nil; i++ {
		switch x := v.(type) {
		case *ssa.Alloc:
			return x
		case *ssa.MakeInterface:
			v = x.X
		case *ssa.UnOp:
			v = x.X
		case *ssa.ChangeType:
			v = x.X
		default:
			return nil
		}
	}
	return nil
}

const (
	c16Put    = `^<logical\.Storage>\.Put$`
	c16Get    = `^<logical\.Storage>\.Get$`
	c16Delete = `^<logical\.Storage>\.Delete$`
	c16List   = `^<logical\.Storage>\.List$`
)

// ---------------------------------------------------------------------------
// C16.1 / C16.4 revokeCert

func c16Revoke(c *eng.Ctx, V, vq string) {
	f := c.Fn("pki.revokeCert")
	if f == nil {
		return
	}
	put := c16One(c, f, "Storage.Put of the revocation record", c16Put)
	rebuild, rebuildInner := c16Forwarded(c, f, "crlBuilder.rebuild", `^pki\.\(\*crlBuilder\)\.rebuild$`)
	wal := c16One(c, f, "writeRevocationDeltaWALs", `^pki\.writeRevocationDeltaWALs$`)
	fri := c16One(c, f, "fetchRevocationInfo", `^pki\.\(\*storageContext\)\.fetchRevocationInfo$`)
	if put == nil || rebuild == nil || wal == nil || fri == nil {
		return
	}
	after := []ssa.Instruction{rebuild, wal}
	putOK := eng.GCallOK(f, c16Put)

	// record first, then CRL / delta WAL
	c.Clause("R3", "C16.1")
	c.Cut(f, "crlBuilder.rebuild / delta WAL write", after, putOK, nil)
	c16ErrPropagated(c, f, put, 1)

	// what is written
	c.Clause("R5", "C16.1")
	c.Prov(f, "entry written by revokeCert", put, put.Common().Args[1], `^call:logical\.StorageEntryJSON#0$`)
	var sej ssa.CallInstruction
	if ex, ok := put.Common().Args[1].(*ssa.Extract); ok {
		sej, _ = ex.Tuple.(ssa.CallInstruction)
	}
	var serialVal ssa.Value
	if sej != nil {
		key := sej.Common().Args[0]
		c.Prov(f, "key of the revocation record", sej, key, vq, `^call:pki\.normalizeSerial$`)
		if p, tail, ok := c16SplitKey(key); ok && p == V {
			if ns, ok := tail.(*ssa.Call); ok && len(ns.Call.Args) == 1 {
				serialVal = ns.Call.Args[0]
				c.Prov(f, "serial normalised into the key", ns, serialVal, `^call:pki\.serialFromCert$`)
				if sc, ok := serialVal.(*ssa.Call); ok && len(sc.Call.Args) == 1 {
					c.Prov(f, "certificate whose serial is recorded", sc, sc.Call.Args[0], `^param:cert$`)
				}
			}
		} else {
			c.Violation(f, "key of the revocation record", sej.Pos(), "the key is not revokedPath + normalizeSerial(serial): "+eng.ExprDeep(key), nil)
		}
		if a := c16AllocOf(sej.Common().Args[1]); a != nil {
			for fld, pat := range map[string]string{"CertificateBytes": `^field:cert\.Raw$`, "RevocationTime": `^call:time\.\(Time\)\.Unix$`, "RevocationTimeUTC": `^call:time\.\(Time\)\.UTC$`} {
				vals := eng.StructLitField(a, fld)
				if len(vals) == 0 {
					c.Violation(f, "revocation record "+fld, sej.Pos(), "the revocation record literal does not set "+fld, nil)
				}
				for _, v := range vals {
					c.Prov(f, "revocation record "+fld, sej, v, pat)
				}
			}
		} else {
			c.Undecided(f, "revocation record literal", sej.Pos(), "value handed to StorageEntryJSON is not a local revocationInfo")
		}
	}

	// what "revoked" is reported on
	reports := c16RevokedReports(f)
	if c.Floor(f, "responses with state=revoked", len(reports), 2) {
		found := eng.G(f, `^pki\.\(\*storageContext\)\.fetchRevocationInfo\(\)#0 == nil$`, false)
		c.Clause("R2", "C16.1")
		c.Cut(f, "response state=revoked", reports, eng.Or(eng.Guard{Desc: putOK.Desc, Edges: putOK.Edges}, found), nil)
		pe := eng.CallOKEdges(put)
		c16Unreach(c, f, "after{record written} state=revoked needs the CRL rebuilt or auto-rebuild on",
			eng.Query{Fn: f, StartEdges: pe, Blocked: append(eng.CallOKEdges(rebuild), eng.CondEdges(f, `^config\.AutoRebuild$`, true)...), Target: eng.IsTarget(reports)},
			rebuild.Pos(), "with auto-rebuild off revokeCert can report state=revoked without a successful crlBuilder.rebuild: the served CRL would not list the serial",
			"every state=revoked return after the write crosses the success edge of crlBuilder.rebuild or config.AutoRebuild == true")
		c16Unreach(c, f, "on{delta CRLs enabled} state=revoked needs the delta WAL entry",
			eng.Query{Fn: f, StartEdges: eng.CondEdges(f, `^config\.EnableDelta$`, true), Blocked: eng.CallOKEdges(wal), Target: eng.IsTarget(reports)},
			wal.Pos(), "state=revoked can be reported with delta CRLs enabled without the delta WAL entry written", "the delta arm reports success only across the success edge of writeRevocationDeltaWALs")
		c.Clause("R4", "C16.1")
		c16Unreach(c, f, "on{crlBuilder.rebuild failed} no state=revoked",
			eng.Query{Fn: f, StartEdges: eng.CallFailEdges(rebuild), Target: eng.IsTarget(reports)},
			rebuild.Pos(), "a failed CRL rebuild can still be answered with state=revoked", "a failed rebuild never leads to a state=revoked response")
		c16ErrPropagated(c, f, wal, 1)
	}
	c.Clause("R12", "C16.1")
	if a := rebuildInner.Common().Args; len(a) == 3 {
		c.Prov(rebuildInner.Parent(), "storage context rebuilt", rebuildInner, a[1], `^param:sc$`, `^freevar:sc$`)
	}

	// ---- C16.4 idempotent
	c.Clause("R2", "C16.4")
	writes := []ssa.Instruction{put, rebuild, wal}
	c.Cut(f, "record write / rebuild / WAL", writes, eng.G(f, `^pki\.\(\*storageContext\)\.fetchRevocationInfo\(\)#0 == nil$`, true), nil)
	c.Cut(f, "record write / rebuild / WAL", writes, eng.GCallOK(f, `^pki\.\(\*storageContext\)\.fetchRevocationInfo$`), nil)
	c.Clause("R5", "C16.4")
	if serialVal != nil {
		if fri.Common().Args[1] == serialVal {
			c.OK(f, "serial looked up == serial recorded", fri.Pos(), "fetchRevocationInfo and the record key use the same serialFromCert(cert) value")
		} else {
			c.Violation(f, "serial looked up == serial recorded", fri.Pos(), "the existing-revocation lookup uses "+eng.ExprDeep(fri.Common().Args[1])+" but the record is keyed by "+eng.ExprDeep(serialVal), nil)
		}
	}
	// reported time: stored on the idempotent arm, the written one otherwise
	foundEdges := eng.CondEdges(f, `^pki\.\(\*storageContext\)\.fetchRevocationInfo\(\)#0 == nil$`, false)
	reachFound := eng.ReachableBlocks(f, foundEdges)
	n := 0
	for _, in := range eng.Instrs(f, func(in ssa.Instruction) bool { _, ok := in.(*ssa.MapUpdate); return ok }) {
		mu := in.(*ssa.MapUpdate)
		if k, ok := c16Str(mu.Key); !ok || k != "revocation_time" {
			continue
		}
		n++
		if reachFound[mu.Block()] {
			c.Prov(f, "revocation_time reported for an existing revocation", mu, mu.Value, `^field:pki\.\(\*storageContext\)\.fetchRevocationInfo\(\)#0\.RevocationTime$`)
		} else {
			c.Prov(f, "revocation_time reported for a new revocation", mu, mu.Value, `^field:&\w+\.RevocationTime$`)
		}
	}
	c.Floor(f, "revocation_time fields", n, 2)

	// ---- rebuild always forces; rebuildIfForced honours the flag
	ign, ok1 := c.P.ConstValue("pki._ignoreForceFlag")
	enf, ok2 := c.P.ConstValue("pki._enforceForceFlag")
	if !ok1 || !ok2 {
		c.Unresolved("pki._ignoreForceFlag")
		return
	}
	if g := c.Fn("pki.(*crlBuilder).rebuild"); g != nil {
		c.Clause("R12", "C16.1")
		if d := c16One(c, g, "_doRebuild", `^pki\.\(\*crlBuilder\)\._doRebuild$`); d != nil {
			a := d.Common().Args
			if got := eng.Expr(a[3]); got == ign && ign == "true" {
				c.OK(g, "const{_doRebuild(..., ignoreForceFlag=_ignoreForceFlag)}", d.Pos(), "a write API always rebuilds")
			} else {
				c.Violation(g, "const{_doRebuild(..., ignoreForceFlag=_ignoreForceFlag)}", d.Pos(), "crlBuilder.rebuild passes ignoreForceFlag="+got+": a revocation would only rebuild the CRL when a rebuild happened to be pending", nil)
			}
			c.Clause("R4", "C16.2")
			c16ErrPropagated(c, g, d, 1)
			c.Clause("R5", "C16.1")
			c.Prov(g, "forceNew handed on", d, a[2], `^param:forceNew$`)
		}
	}
	if g := c.Fn("pki.(*crlBuilder).rebuildIfForced"); g != nil {
		if d := c16One(c, g, "_doRebuild", `^pki\.\(\*crlBuilder\)\._doRebuild$`); d != nil {
			c.Clause("R4", "C16.2")
			set := c16FlagLoadEdges(g, true)
			c.CleanupOnEdges(g, "forceRebuild set", set, "_doRebuild", []ssa.Instruction{d})
			c16ErrPropagated(c, g, d, 1)
			c.Clause("R12", "C16.2")
			a := d.Common().Args
			if eng.Expr(a[2]) == "true" && eng.Expr(a[3]) == enf {
				c.OK(g, "const{_doRebuild(sc, forceNew=true, _enforceForceFlag)}", d.Pos(), "a pending rebuild is a complete, forced one")
			} else {
				c.Violation(g, "const{_doRebuild(sc, forceNew=true, _enforceForceFlag)}", d.Pos(), "unexpected flags forceNew="+eng.Expr(a[2])+" ignoreForceFlag="+eng.Expr(a[3]), nil)
			}
		}
	}
}

// c16CompleteBuild: the call in _doRebuild that builds the complete CRLs: buildCRLs(sc, forceNew), or
// (wrapper inlined) buildAnyCRLs(sc, forceNew, false). Both take (sc, forceNew) first.
func c16CompleteBuild(c *eng.Ctx, f *ssa.Function) ssa.CallInstruction {
	var cs []ssa.CallInstruction
	cs = append(cs, eng.Calls(f, `^pki\.buildCRLs$`)...)
	for _, b := range eng.Calls(f, `^pki\.buildAnyCRLs$`) {
		if a := b.Common().Args; len(a) == 3 && eng.Expr(a[2]) == "false" {
			cs = append(cs, b)
		}
	}
	if !c.Floor(f, "buildCRLs", len(cs), 1) {
		return nil
	}
	return cs[0]
}

// c16Forwarded finds the call of callee pattern pat in f. When f does not call it directly but
// through a local forwarding closure (fn := func() (...) { return X.callee(args) }; fn()), the call
// of the closure stands for it: the closure must consist of that single call and return its
// results unchanged. inner is the real call (== call when direct).
func c16Forwarded(c *eng.Ctx, f *ssa.Function, what, pat string) (call, inner ssa.CallInstruction) {
	if cs := eng.Calls(f, pat); len(cs) > 0 {
		c.Floor(f, what, len(cs), 1)
		return cs[0], cs[0]
	}
	for _, cl := range eng.Calls(f, `.`) {
		callee := cl.Common().StaticCallee()
		if callee == nil || callee.Parent() != f || len(callee.Blocks) != 1 {
			continue
		}
		in := eng.Calls(callee, pat)
		rets := eng.Returns(callee)
		if len(in) != 1 || len(rets) != 1 || len(eng.Calls(callee, `.`)) != 1 {
			continue
		}
		iv, ok := in[0].(ssa.Value)
		fwd := ok
		for i, r := range rets[0].Results {
			ex, isEx := r.(*ssa.Extract)
			if !(isEx && ex.Tuple == iv && ex.Index == i) && !(len(rets[0].Results) == 1 && r == iv) {
				fwd = false
			}
		}
		if fwd {
			c.Floor(f, what, 1, 1)
			return cl, in[0]
		}
	}
	c.Floor(f, what, 0, 1)
	return nil, nil
}

// c16SkipHelper: a call in f, branched on, of a same-package function returning bool that decides by bytes.Equal.
type c16SkipHelper struct{ Call *ssa.Call }

// c16IssuerSkip: the edges of f on which a revocation record is recognised as one of the issuers' own
// certificates: the true-edges of a boolean flag {false|true} (set behind bytes.Equal, checked by the
// caller) and the true-edges of calls of a same-package bool helper whose bytes.Equal calls all compare
// the Raw encodings of two x509 certificates (a helper comparing anything narrower is not a reviewed skip:
// its true-edge then counts as a record that was dropped).
func c16IssuerSkip(f *ssa.Function) ([]eng.Edge, []c16SkipHelper) {
	edges := eng.CondEdges(f, `^φ\w+\{false\|true\}$`, true)
	var hs []c16SkipHelper
	for _, b := range f.Blocks {
		ifi := eng.IfOf(b)
		if ifi == nil {
			continue
		}
		cl, ok := eng.Normalize(ifi.Cond).Val.(*ssa.Call)
		if !ok {
			continue
		}
		callee := cl.Call.StaticCallee()
		if callee == nil || callee.Pkg == nil || callee.Pkg != f.Pkg || len(callee.Blocks) == 0 {
			continue
		}
		if res := callee.Signature.Results(); res.Len() != 1 || res.At(0).Type().Underlying().String() != "bool" {
			continue
		}
		// it decides by comparing complete certificate encodings (Raw vs Raw) and nothing else
		eqs := eng.Calls(callee, `^bytes\.Equal$`)
		whole := len(eqs) > 0
		for _, e := range eqs {
			a := e.Common().Args
			if len(a) != 2 {
				whole = false
				continue
			}
			_, ok0 := c16CertRawBase(a[0])
			_, ok1 := c16CertRawBase(a[1])
			whole = whole && ok0 && ok1
		}
		if !whole {
			continue
		}
		edges = append(edges, eng.BoolEdges(cl, true)...)
		hs = append(hs, c16SkipHelper{cl})
	}
	return edges, hs
}

// c16FlagLoadEdges: edges on which forceRebuild.Load() == want.
func c16FlagLoadEdges(f *ssa.Function, want bool) []eng.Edge {
	var out []eng.Edge
	for _, l := range eng.Calls(f, `^\(\*sync/atomic\.Bool\)\.Load$`) {
		if !strings.HasSuffix(eng.Expr(l.Common().Args[0]), ".forceRebuild") {
			continue
		}
		if v, ok := l.(ssa.Value); ok {
			out = append(out, eng.BoolEdges(v, want)...)
		}
	}
	return out
}

// ---------------------------------------------------------------------------
// C16.1 who may call / write / delete, and the lock

func c16Callers(c *eng.Ctx, V string) {
	c.Clause("R1", "C16.1")
	sites := c.P.FindCalls(mustStatic(c, "pki.revokeCert"), nil)
	c.CallerTable("pki.revokeCert", sites, map[string]string{
		"pki.(*backend).pathRevokeWrite":         "revoke / revoke-with-key",
		"pki.(*backend).secretCredsRevoke":       "lease revocation of an issued certificate",
		"pki.(*backend).acmeRevocationByPoP":     "ACME revocation by proof of possession",
		"pki.(*backend).acmeRevocationByAccount": "ACME revocation by the issuing account",
	}, 4)
	c.Clause("R9", "C16.1")
	for _, s := range sites {
		held := eng.MustHold(s.Fn, eng.LockCall(`\.revokeStorageLock$`, "Lock"), eng.LockCall(`\.revokeStorageLock$`, "Unlock"))
		if held(s.Call) {
			c.OK(s.Fn, "lock{revokeStorageLock} held at revokeCert", s.Call.Pos(), "write lock held on every path to the call")
		} else {
			c.Violation(s.Fn, "lock{revokeStorageLock} held at revokeCert", s.Call.Pos(), "revokeCert is called without holding revokeStorageLock for writing: the existing-revocation check and the record write are not atomic against tidy and other revocations", nil)
		}
	}
	// writers and deleters of revoked/ records, package-wide
	c.Clause("R1", "C16.1")
	inPki := func(fn *ssa.Function) bool { return eng.InPkg(fn, "pki") }
	var wr, del []eng.CallSite
	for _, s := range c.P.FindCalls(mustStatic(c, "logical.StorageEntryJSON"), inPki) {
		if c16Has(c16ConstPrefixes(s.Call.Common().Args[0]), V) {
			wr = append(wr, s)
		}
	}
	for _, fn := range c.P.Funcs {
		if !inPki(fn) {
			continue
		}
		for _, d := range eng.Calls(fn, c16Delete) {
			a := d.Common().Args
			if c16Has(c16ConstPrefixes(a[len(a)-1]), V) {
				del = append(del, eng.CallSite{Fn: fn, Call: d})
			}
		}
		// entries re-keyed by hand
		for _, st := range eng.Stores(fn, `\.Key$`) {
			if c16Has(c16ConstPrefixes(st.Val), V) {
				wr = append(wr, eng.CallSite{Fn: fn, Call: nil})
			}
		}
	}
	c.CallerTable("writers of revoked/ records", wr, map[string]string{
		"pki.revokeCert":                       "the revocation itself",
		"pki.getLocalRevokedCertEntries":       "CRL build: persist the issuer association of an existing record",
		"pki.(*backend).doTidyRevocationStore": "tidy: persist the issuer association of an existing record",
		"pki.(*backend).pathRevokeIssuer":      "issuer revocation",
		"pki.fetchCertBySerial":                "migration of a legacy colon-serial key to the hyphen form",
	}, 5)
	c.CallerTable("deleters of revoked/ records", del, map[string]string{
		"pki.(*backend).doTidyCertStore":       "tidy of expired certificates",
		"pki.(*backend).doTidyRevocationStore": "tidy of expired / unusable revocation records",
		"pki.fetchCertBySerial":                "removal of the legacy key after the copy to the new key succeeded",
	}, 6)
	// fetchCertBySerial: the legacy key is only removed after the new key was written
	if f := c.Fn("pki.fetchCertBySerial"); f != nil {
		c.Clause("R3", "C16.1")
		c.Cut(f, "Delete of the legacy key", instrsOf(eng.Calls(f, c16Delete)), eng.GCallOK(f, c16Put), nil)
	}
	// issuer revocation: record before rebuild
	if f := c.Fn("pki.(*backend).pathRevokeIssuer"); f != nil {
		c.Clause("R3", "C16.1")
		rb := eng.Calls(f, `^pki\.\(\*crlBuilder\)\.rebuild$`)
		puts := eng.Calls(f, c16Put)
		if c.Floor(f, "rebuild", len(rb), 1) && c.Floor(f, "Storage.Put", len(puts), 1) {
			for _, p := range puts {
				c16Unreach(c, f, "on{revocation record write failed} no rebuild",
					eng.Query{Fn: f, StartEdges: eng.CallFailEdges(p), Target: eng.IsTarget(rb)}, p.Pos(),
					"the CRL is rebuilt although writing the issuer's revocation record failed", "a failed record write returns before the rebuild")
				c16ErrPropagated(c, f, p, 1)
			}
			c.Before(f, "writeIssuer (Revoked=true)", instrsOf(eng.Calls(f, `^pki\.\(\*storageContext\)\.writeIssuer$`)), "crlBuilder.rebuild", instrsOf(rb))
			c.Clause("R4", "C16.1")
			for _, r := range rb {
				c16Unreach(c, f, "on{crlBuilder.rebuild failed} no plain success",
					eng.Query{Fn: f, StartEdges: eng.CallFailEdges(r), Target: eng.IsTarget(instrsOf(eng.Calls(f, `^pki\.respondReadIssuer$`)))}, r.Pos(),
					"a failed rebuild still answers with the issuer's data", "a failed rebuild returns an error (response)")
			}
		}
	}
}

// ---------------------------------------------------------------------------
// C16.2 a failed rebuild leaves a retry pending; readers honour it

func c16Rebuild(c *eng.Ctx) {
	inPki := func(fn *ssa.Function) bool { return eng.InPkg(fn, "pki") }
	if f := c.Fn("pki.(*crlBuilder)._doRebuild"); f != nil {
		build := c16CompleteBuild(c, f)
		var setTrue, setFalse []ssa.Instruction
		for _, s := range eng.Calls(f, `^\(\*sync/atomic\.Bool\)\.Store$`) {
			a := s.Common().Args
			if eng.Expr(a[0]) != "cb.forceRebuild" {
				continue
			}
			switch eng.Expr(a[1]) {
			case "true":
				setTrue = append(setTrue, s)
			case "false":
				setFalse = append(setFalse, s)
			}
		}
		if build != nil {
			c.Clause("R3", "C16.2")
			c.Before(f, "forceRebuild.Store(false)", setFalse, "buildCRLs", []ssa.Instruction{build})
			c.Clause("R4", "C16.2")
			if fe := eng.CallFailEdges(build); len(fe) == 0 {
				c.Violation(f, "on{buildCRLs failed} cleanup{forceRebuild.Store(true)}", build.Pos(), "the error of buildCRLs is not tested in _doRebuild: the force flag was cleared before the build and nothing sets it again when the build fails, so the stale CRL is served and no retry is pending", nil)
			} else {
				c.CleanupOnEdges(f, "buildCRLs failed", fe, "forceRebuild.Store(true)", setTrue)
			}
			c16ErrPropagated(c, f, build, 1)
			// a requested rebuild is performed
			req := append(c16FlagLoadEdges(f, true), eng.CondEdges(f, `^ignoreForceFlag$`, true)...)
			c.CleanupOnEdges(f, "rebuild requested (flag set or caller forces)", req, "buildCRLs", []ssa.Instruction{build})
			c.Clause("R9", "C16.2")
			held := eng.MustHold(f, eng.LockCall(`^cb\._builder$`, "Lock"), eng.LockCall(`^cb\._builder$`, "Unlock"))
			ok := held(build)
			for _, s := range append(append([]ssa.Instruction{}, setTrue...), setFalse...) {
				ok = ok && held(s)
			}
			if ok {
				c.OK(f, "lock{cb._builder} held across flag reset, buildCRLs and flag restore", build.Pos(), "builder mutex held at all four points")
			} else {
				c.Violation(f, "lock{cb._builder} held across flag reset, buildCRLs and flag restore", build.Pos(), "the CRL build or the force-flag bookkeeping runs without the builder mutex: a concurrent build that listed the records earlier can overwrite a newer CRL", nil)
			}
			c.Clause("R5", "C16.2")
			c.Prov(f, "forceNew given to buildCRLs", build, build.Common().Args[1], `^param:forceNew$`, `^const:true$`)
			c.Prov(f, "storage context given to buildCRLs", build, build.Common().Args[0], `^param:sc$`)
			// the clearing happens after the flag was read (the read value decides forceNew)
			c.Clause("R3", "C16.2")
			var loads []ssa.Instruction
			for _, l := range eng.Calls(f, `^\(\*sync/atomic\.Bool\)\.Load$`) {
				if eng.Expr(l.Common().Args[0]) == "cb.forceRebuild" {
					loads = append(loads, l)
				}
			}
			c.Before(f, "forceRebuild.Load()", loads, "forceRebuild.Store(false)", setFalse)
		}
	}
	// who may clear the flag
	c.Clause("R1", "C16.2")
	var clears []eng.CallSite
	for _, fn := range c.P.Funcs {
		if !inPki(fn) {
			continue
		}
		for _, s := range eng.Calls(fn, `^\(\*sync/atomic\.Bool\)\.(Store|CompareAndSwap|Swap)$`) {
			a := s.Common().Args
			if !strings.HasSuffix(eng.Expr(a[0]), ".forceRebuild") {
				continue
			}
			if eng.Expr(a[len(a)-1]) != "true" {
				clears = append(clears, eng.CallSite{Fn: fn, Call: s})
			}
		}
	}
	c.CallerTable("clearing crlBuilder.forceRebuild", clears, map[string]string{
		"pki.(*crlBuilder)._doRebuild": "cleared right before the build, restored when it fails",
	}, 1)
	// who may build
	// the complete build is entered through buildCRLs, or (wrapper inlined) by _doRebuild itself calling
	// buildAnyCRLs(sc, forceNew, isDelta=false) under the builder mutex (checked above)
	var sites []eng.CallSite
	haveWrapper := c.P.Func("pki.buildCRLs") != nil
	if haveWrapper {
		sites = c.P.FindCalls(mustStatic(c, "pki.buildCRLs"), nil)
		c.CallerTable("pki.buildCRLs", sites, map[string]string{"pki.(*crlBuilder)._doRebuild": "the only complete-CRL entry point (holds the builder mutex)"}, 1)
	}
	sites = c.P.FindCalls(mustStatic(c, "pki.buildAnyCRLs"), nil)
	c.CallerTable("pki.buildAnyCRLs", sites, map[string]string{
		"pki.buildCRLs":                                 "complete build",
		"pki.(*crlBuilder)._doRebuild":                  "complete build without the buildCRLs wrapper (isDelta must be the constant false; mutex held)",
		"pki.(*crlBuilder).rebuildDeltaCRLsHoldingLock": "delta build, caller holds the builder mutex",
	}, 2)
	nDirect := 0
	for _, st := range sites {
		if eng.FuncName(eng.TopFunc(st.Fn)) != "pki.(*crlBuilder)._doRebuild" {
			continue
		}
		nDirect++
		c.Clause("R12", "C16.2")
		if a := st.Call.Common().Args; len(a) == 3 && eng.Expr(a[2]) == "false" {
			c.OK(st.Fn, "const{buildAnyCRLs(sc, forceNew, isDelta=false)}", st.Call.Pos(), "_doRebuild builds complete CRLs")
		} else {
			c.Violation(st.Fn, "const{buildAnyCRLs(sc, forceNew, isDelta=false)}", st.Call.Pos(), "_doRebuild calls buildAnyCRLs with a non-constant or true isDelta", nil)
		}
		c.Clause("R1", "C16.2")
	}
	if !haveWrapper && nDirect == 0 {
		c.Unresolved("pki.buildCRLs")
	}
	sites = c.P.FindCalls(mustStatic(c, "pki.(*crlBuilder).rebuildDeltaCRLsHoldingLock"), nil)
	c.CallerTable("crlBuilder.rebuildDeltaCRLsHoldingLock", sites, map[string]string{
		"pki.buildAnyCRLs":                           "delta rebuild at the end of a complete build (mutex held by _doRebuild)",
		"pki.(*crlBuilder).rebuildDeltaCRLsIfForced": "periodic / rotate-delta",
	}, 2)
	if f := c.Fn("pki.(*crlBuilder).rebuildDeltaCRLsIfForced"); f != nil {
		c.Clause("R9", "C16.2")
		held := eng.MustHold(f, eng.LockCall(`^cb\._builder$`, "Lock"), eng.LockCall(`^cb\._builder$`, "Unlock"))
		for _, d := range eng.Calls(f, `^pki\.\(\*crlBuilder\)\.rebuildDeltaCRLsHoldingLock$`) {
			if held(d) {
				c.OK(f, "lock{cb._builder} held at rebuildDeltaCRLsHoldingLock", d.Pos(), "builder mutex held")
			} else {
				c.Violation(f, "lock{cb._builder} held at rebuildDeltaCRLsHoldingLock", d.Pos(), "delta build without the builder mutex", nil)
			}
		}
	}
	if f := c.P.Func("pki.buildCRLs"); f != nil {
		if b := c16One(c, f, "buildAnyCRLs", `^pki\.buildAnyCRLs$`); b != nil {
			c.Clause("R12", "C16.2")
			if eng.Expr(b.Common().Args[2]) == "false" {
				c.OK(f, "const{buildAnyCRLs(sc, forceNew, isDelta=false)}", b.Pos(), "buildCRLs builds complete CRLs")
			} else {
				c.Violation(f, "const{buildAnyCRLs(sc, forceNew, isDelta=false)}", b.Pos(), "isDelta="+eng.Expr(b.Common().Args[2]), nil)
			}
			c.Clause("R4", "C16.2")
			c16ErrPropagated(c, f, b, 1)
		}
	}
	// every stage of the build reports its failures
	c.Clause("R4", "C16.2")
	for _, st := range []struct {
		fn, callee string
		idx, min   int
	}{
		{"pki.buildAnyCRLs", `^pki\.buildAnyLocalCRLs$`, 1, 1},
		{"pki.buildAnyCRLs", `^pki\.\(\*storageContext\)\.listIssuers$`, 1, 1},
		{"pki.buildAnyCRLs", `^pki\.\(\*crlBuilder\)\.(clearLocalDeltaWAL|rebuildDeltaCRLsHoldingLock)$`, 1, 2},
		{"pki.buildAnyLocalCRLs", `^pki\.(getLocalRevokedCertEntries|buildAnyCRLsWithCerts|augmentWithRevokedIssuers)$`, 2, 3},
		{"pki.buildAnyLocalCRLs", `^pki\.\(\*storageContext\)\.(getLocalCRLConfig|setLocalCRLConfig)$`, 2, 2},
		{"pki.buildAnyCRLsWithCerts", `^pki\.buildCRL$`, 1, 1},
		{"pki.buildCRL", `^crypto/x509\.CreateRevocationList$|` + c16Put + `|^pki\.\(\*storageContext\)\.fetchCAInfoByIssuerId$`, 1, 3},
		{"pki.getLocalRevokedCertEntries", c16List + `|` + c16Get + `|` + c16Put + `|^logical\.\(\*StorageEntry\)\.DecodeJSON$|^crypto/x509\.ParseCertificate$`, 2, 5},
	} {
		f := c.Fn(st.fn)
		if f == nil {
			continue
		}
		cs := eng.Calls(f, st.callee)
		c.Floor(f, "fallible steps "+st.callee, len(cs), st.min)
		for _, cl := range cs {
			c16ErrPropagated(c, f, cl, st.idx)
		}
	}
	// readers run the pending rebuild first
	legacy, ok1 := c.P.ConstValue("pki.legacyCRLPath")
	delta, ok2 := c.P.ConstValue("pki.deltaCRLPath")
	if !ok1 || !ok2 {
		c.Unresolved("pki.legacyCRLPath")
	} else if f := c.Fn("pki.fetchCertBySerial"); f != nil {
		c.Clause("R3", "C16.2")
		gets := instrsOf(eng.Calls(f, c16Get))
		g := eng.GCallOK(f, `^pki\.\(\*crlBuilder\)\.rebuildIfForced$`)
		qc, qd := `^serial == `+reQuote(`"`+legacy+`"`)+`$`, `^serial == `+reQuote(`"`+delta+`"`)+`$`
		c.Cut(f, "Storage.Get (serial = "+legacy+")", gets, g, map[string]bool{`^strings\.HasPrefix\(\)$`: false, qc: true})
		c.Cut(f, "Storage.Get (serial = "+delta+")", gets, g, map[string]bool{`^strings\.HasPrefix\(\)$`: false, qc: false, qd: true})
	}
	if f := c.Fn("pki.(*backend).pathGetIssuerCRL"); f != nil {
		c.Clause("R3", "C16.2")
		c.Cut(f, "Storage.Get of the issuer's CRL", instrsOf(eng.Calls(f, c16Get)), eng.GCallOK(f, `^pki\.\(\*crlBuilder\)\.rebuildIfForced$`), nil)
	}
	// periodic retry: the flag is consulted and the error surfaces
	if f := c.Fn("pki.(*backend).periodicFunc"); f != nil {
		c.Clause("R11", "C16.2")
		n := 0
		for _, cl := range eng.Closures(f) {
			for _, r := range eng.Calls(cl, `^pki\.\(\*crlBuilder\)\.rebuildIfForced$`) {
				n++
				c16ErrPropagated(c, cl, r, 0)
			}
		}
		c.Floor(f, "rebuildIfForced in the periodic function", n, 1)
	}
	sites = c.P.FindCalls(mustStatic(c, "pki.(*crlBuilder).rebuildIfForced", "pki.(*crlBuilder).rebuild"), nil)
	c.Clause("R11", "C16.2")
	for _, s := range sites {
		c.ErrChecked(s.Fn, s.Call)
	}
	c.Floor(nil, "callers of rebuild / rebuildIfForced", len(sites), 10)
}

// ---------------------------------------------------------------------------
// C16.3 reader and writer agree on where revocation records live

func c16Paths(c *eng.Ctx, V, vq string) {
	inPki := func(fn *ssa.Function) bool { return eng.InPkg(fn, "pki") }
	sameConst := func(f *ssa.Function, site string, at ssa.Instruction, v ssa.Value) {
		if s, ok := c16Str(v); ok && s == V {
			c.OK(f, site, at.Pos(), "prefix constant == revokedPath ("+V+")")
		} else {
			c.Violation(f, site, at.Pos(), "revocation records are addressed through "+eng.ExprDeep(v)+", but revokeCert writes them under revokedPath = "+V, nil)
		}
	}
	// ---- fetchCertBySerial: the revoked arm
	if f := c.Fn("pki.fetchCertBySerial"); f != nil {
		c.Clause("R7", "C16.3")
		n := 0
		for _, hp := range eng.Calls(f, `^strings\.HasPrefix$`) {
			a := hp.Common().Args
			if eng.Expr(a[0]) != "prefix" {
				continue
			}
			n++
			sameConst(f, "prefix tested by fetchCertBySerial", hp, a[1])
		}
		c.Floor(f, "strings.HasPrefix(prefix, revoked)", n, 1)
		gets := eng.Calls(f, c16Get)
		if c.Floor(f, "Storage.Get", len(gets), 2) {
			first := gets[0]
			fe := eng.Feasible(f, map[string]bool{`^strings\.HasPrefix\(\)$`: true})
			key := first.Common().Args[1]
			var rs []string
			good := true
			nConst, nNorm := 0, 0
			for _, r := range eng.Roots(key, fe) {
				rs = append(rs, eng.ExprDeep(r))
				if s, ok := c16Str(r); ok {
					nConst++
					good = good && s == V
					continue
				}
				if cl, ok := r.(*ssa.Call); ok && eng.CalleeName(&cl.Call) == "pki.normalizeSerial" && len(cl.Call.Args) == 1 && eng.Expr(cl.Call.Args[0]) == "serial" {
					nNorm++
					continue
				}
				good = false
			}
			if good && nConst == 1 && nNorm == 1 {
				c.OK(f, "key read on the revoked arm", first.Pos(), "revokedPath + normalizeSerial(serial): the key revokeCert writes")
			} else {
				c.Violation(f, "key read on the revoked arm", first.Pos(), "with a revoked/ prefix fetchCertBySerial reads "+strings.Join(rs, " , ")+" instead of revokedPath + normalizeSerial(serial)", nil)
			}
			c.Clause("R4", "C16.3")
			c16ErrPropagated(c, f, first, 1)
			// a record that exists is returned
			ent := eng.ResultValue(first, 0)
			if ent != nil {
				var succ []ssa.Instruction
				for _, r := range eng.SuccessReturns(f, 1) {
					if eng.IsNilConst(r.(*ssa.Return).Results[0]) {
						succ = append(succ, r)
					}
				}
				c16Unreach(c, f, "on{record found} no (nil, nil)", eng.Query{Fn: f, StartEdges: eng.ValueNilEdges(ent, false), Target: eng.IsTarget(succ)}, first.Pos(),
					"an existing record can be answered with (nil, nil) = 'not revoked'", "an entry found under the key is returned (or an error)")
			}
		}
	}
	// ---- every lookup of revocation records names the same prefix
	c.Clause("R7", "C16.3")
	n := 0
	for _, s := range c.P.FindCalls(mustStatic(c, "pki.fetchCertBySerial", "pki.fetchCertBySerialBigInt"), inPki) {
		p := s.Call.Common().Args[1]
		str, ok := c16Str(p)
		if !ok {
			continue
		}
		if strings.HasPrefix(str, "revoke") || strings.HasPrefix(V, str) && str != "" {
			n++
			sameConst(s.Fn, "lookup prefix "+str, s.Call, p)
		}
	}
	c.Floor(nil, "revocation lookups through fetchCertBySerial", n, 4)
	if f := c.Fn("pki.fetchCertBySerialBigInt"); f != nil {
		if cl := c16One(c, f, "fetchCertBySerial", `^pki\.fetchCertBySerial$`); cl != nil {
			c.Clause("R5", "C16.3")
			a := cl.Common().Args
			c.Prov(f, "prefix handed through", cl, a[1], `^param:prefix$`)
			c.Prov(f, "serial handed through", cl, a[2], `^call:pki\.serialFromBigInt$`)
			c.Clause("R4", "C16.3")
			c16ErrPropagated(c, f, cl, 1)
		}
	}
	if f := c.Fn("pki.serialFromCert"); f != nil {
		c.Clause("R7", "C16.3")
		for _, r := range eng.Returns(f) {
			c.Prov(f, "serialFromCert is serialFromBigInt(cert.SerialNumber)", r, r.Results[0], `^call:pki\.serialFromBigInt$`)
		}
		for _, cl := range eng.Calls(f, `^pki\.serialFromBigInt$`) {
			c.Prov(f, "number formatted", cl, cl.Common().Args[0], `^field:cert\.SerialNumber$`)
		}
	}
	if f := c.Fn("pki.(*storageContext).fetchRevocationInfo"); f != nil {
		if cl := c16One(c, f, "fetchCertBySerial", `^pki\.fetchCertBySerial$`); cl != nil {
			c.Clause("R5", "C16.3")
			c.Prov(f, "serial looked up", cl, cl.Common().Args[2], `^param:serial$`)
			c.Clause("R4", "C16.4")
			c16ErrPropagated(c, f, cl, 1)
			dec := eng.Calls(f, `^logical\.\(\*StorageEntry\)\.DecodeJSON$`)
			if ent := eng.ResultValue(cl, 0); ent != nil && c.Floor(f, "DecodeJSON", len(dec), 1) {
				c16Unreach(c, f, "on{record found} success needs the record decoded",
					eng.Query{Fn: f, StartEdges: eng.ValueNilEdges(ent, false), Barriers: instrsOf(dec), Target: eng.IsTarget(eng.SuccessReturns(f, 1))}, cl.Pos(),
					"an existing record can be reported as 'no revocation info'", "a found record is decoded before any nil-error return")
				c16ErrPropagated(c, f, dec[0], 1)
				c.Clause("R5", "C16.4")
				c.Prov(f, "entry decoded", dec[0], dec[0].Common().Args[0], `^call:pki\.fetchCertBySerial#0$`)
			}
		}
	}
	if f := c.Fn("pki.(*storageContext).listRevokedCertsPage"); f != nil {
		c.Clause("R7", "C16.3")
		for _, l := range eng.Calls(f, `^<logical\.Storage>\.ListPage$`) {
			sameConst(f, "prefix listed by certs/revoked", l, l.Common().Args[1])
		}
	}
	// ---- the CRL builder lists and reads the same keys
	if f := c.Fn("pki.getLocalRevokedCertEntries"); f != nil {
		c.Clause("R7", "C16.3")
		if l := c16One(c, f, "Storage.List", c16List); l != nil {
			fe := eng.Feasible(f, map[string]bool{`^isDelta$`: false})
			roots := eng.Roots(l.Common().Args[1], fe)
			if len(roots) == 1 {
				sameConst(f, "prefix listed for a complete CRL", l, roots[0])
			} else {
				c.Violation(f, "prefix listed for a complete CRL", l.Pos(), "the listing prefix of a complete build is not a single constant: "+eng.ExprDeep(l.Common().Args[1]), nil)
			}
			listed := eng.ResultValue(l, 0)
			var getTail ssa.Value
			if g := c16One(c, f, "Storage.Get", c16Get); g != nil {
				p, tail, ok := c16SplitKey(g.Common().Args[1])
				if ok && p == V {
					getTail = tail
					c.OK(f, "record read for each listed serial", g.Pos(), "Get(revokedPath + listed serial)")
					c.Clause("R5", "C16.3")
					if ia, ok := rootIndexBase(tail); !ok || ia != listed {
						c.Violation(f, "serial of the record read is an element of the listing", g.Pos(), "read key tail "+eng.ExprDeep(tail), nil)
					} else {
						c.OK(f, "serial of the record read is an element of the listing", g.Pos(), "element of Storage.List()#0")
					}
				} else {
					c.Violation(f, "record read for each listed serial", g.Pos(), "the CRL builder reads "+eng.ExprDeep(g.Common().Args[1])+" instead of revokedPath + serial", nil)
				}
			}
			// the write-back goes to the key that was read
			c.Clause("R5", "C16.3")
			for _, sj := range eng.Calls(f, `^logical\.StorageEntryJSON$`) {
				p, tail, ok := c16SplitKey(sj.Common().Args[0])
				if ok && p == V && tail == getTail && getTail != nil {
					c.OK(f, "write-back key == key read", sj.Pos(), "the issuer association is written to the record it was decoded from")
				} else {
					c.Violation(f, "write-back key == key read", sj.Pos(), "the CRL builder rewrites "+eng.ExprDeep(sj.Common().Args[0])+", not the record it read: another revocation entry could be altered", nil)
				}
			}
		}
	}
	// ---- cert/<serial> and ACME
	if f := c.Fn("pki.(*backend).pathFetchRead"); f != nil {
		c.Clause("R5", "C16.3")
		var certCall, revCall ssa.CallInstruction
		for _, cl := range eng.Calls(f, `^pki\.fetchCertBySerial$`) {
			if s, ok := c16Str(cl.Common().Args[1]); ok && s == V {
				revCall = cl
			} else {
				certCall = cl
			}
		}
		if revCall == nil || certCall == nil {
			c.Violation(f, "revocation lookup of cert/<serial>", f.Pos(), "pathFetchRead no longer looks the serial up under revokedPath", nil)
		} else {
			if revCall.Common().Args[2] == certCall.Common().Args[2] {
				c.OK(f, "revocation lookup uses the serial of the certificate lookup", revCall.Pos(), "same value")
			} else {
				c.Violation(f, "revocation lookup uses the serial of the certificate lookup", revCall.Pos(), eng.ExprDeep(revCall.Common().Args[2])+" vs "+eng.ExprDeep(certCall.Common().Args[2]), nil)
			}
			m := 0
			for _, in := range eng.Instrs(f, func(in ssa.Instruction) bool { _, ok := in.(*ssa.MapUpdate); return ok }) {
				mu := in.(*ssa.MapUpdate)
				if k, ok := c16Str(mu.Key); ok && k == "revocation_time" {
					m++
					c.Prov(f, "revocation_time reported by cert/<serial>", mu, mu.Value, `^field:&\w+\.RevocationTime$`, `^const:0$`)
				}
			}
			c.Floor(f, "revocation_time field", m, 1)
			dec := eng.Calls(f, `^logical\.\(\*StorageEntry\)\.DecodeJSON$`)
			if c.Floor(f, "DecodeJSON of the revocation record", len(dec), 1) {
				c.Prov(f, "record decoded", dec[0], dec[0].Common().Args[0], `^call:pki\.fetchCertBySerial#0$`)
				if ex, ok := dec[0].Common().Args[0].(*ssa.Extract); !ok || ex.Tuple != revCall.(ssa.Value) {
					c.Violation(f, "record decoded is the revocation lookup's", dec[0].Pos(), "DecodeJSON is applied to "+eng.ExprDeep(dec[0].Common().Args[0]), nil)
				} else {
					c.OK(f, "record decoded is the revocation lookup's", dec[0].Pos(), "fetchCertBySerial(revokedPath, serial)#0")
				}
				// a found record is decoded before the JSON answer is built
				c.Clause("R4", "C16.3")
				var jsonAns []ssa.Instruction
				for _, in := range eng.Instrs(f, func(in ssa.Instruction) bool { _, ok := in.(*ssa.MapUpdate); return ok }) {
					if k, ok := c16Str(in.(*ssa.MapUpdate).Key); ok && k == "revocation_time" {
						jsonAns = append(jsonAns, in)
					}
				}
				if ent := eng.ResultValue(revCall, 0); ent != nil {
					c16Unreach(c, f, "on{record found} answer needs the record decoded",
						eng.Query{Fn: f, StartEdges: eng.ValueNilEdges(ent, false), Barriers: instrsOf(dec), Target: eng.IsTarget(jsonAns)}, revCall.Pos(),
						"cert/<serial> can answer without reading the revocation record it found", "a found record is decoded before revocation_time is reported")
				}
				// a failed lookup is never answered as "not revoked"
				c.Clause("R2", "C16.3")
				c.Cut(f, "JSON answer with revocation_time", jsonAns, eng.G(f, `^φretErr\{.*\} == nil$`, true), nil)
				c.Cut(f, "JSON answer with revocation_time", jsonAns, eng.G(f, `^logical\.\(\*Response\)\.IsError\(\)$`, false), nil)
				c.Clause("R4", "C16.3")
				ev := eng.ErrValue(revCall)
				marked := eng.PhiEdges(f, "retErr", func(v ssa.Value) bool { return v == ev })
				marked = append(marked, eng.PhiEdges(f, "response", func(v ssa.Value) bool {
					cl, ok := v.(*ssa.Call)
					return ok && eng.CalleeName(&cl.Call) == "logical.ErrorResponse"
				})...)
				all := append([]ssa.Instruction{}, jsonAns...)
				for _, r := range eng.Returns(f) {
					all = append(all, r)
				}
				c16Unreach(c, f, "on{revocation lookup failed} retErr or an error response is set",
					eng.Query{Fn: f, StartEdges: c16DirectNilEdges(ev, false), Blocked: marked, Target: eng.IsTarget(all)}, revCall.Pos(),
					"a failed revocation lookup can reach the reply without recording the error: the certificate would be shown as not revoked", "every path from the failure records retErr = err or response = ErrorResponse before replying")
			}
		}
	}
}

// c16DirectNilEdges: edges of the branches that test v itself (not a phi merging it) against nil.
func c16DirectNilEdges(v ssa.Value, wantNil bool) []eng.Edge {
	var out []eng.Edge
	if v == nil || v.Referrers() == nil {
		return nil
	}
	for _, r := range *v.Referrers() {
		b, ok := r.(*ssa.BinOp)
		if !ok || (b.Op != token.EQL && b.Op != token.NEQ) {
			continue
		}
		other := b.Y
		if b.Y == v {
			other = b.X
		}
		if !eng.IsNilConst(other) {
			continue
		}
		out = append(out, eng.BoolEdges(b, (b.Op == token.EQL) == wantNil)...)
	}
	return out
}

// rootIndexBase: v is (a load of) an element of slice s; returns s.
func rootIndexBase(v ssa.Value) (ssa.Value, bool) {
	if u, ok := v.(*ssa.UnOp); ok {
		v = u.X
	}
	switch x := v.(type) {
	case *ssa.IndexAddr:
		return x.X, true
	case *ssa.Index:
		return x.X, true
	}
	return nil, false
}

// ---------------------------------------------------------------------------
// C16.3 OCSP

func c16Ocsp(c *eng.Ctx, V string) {
	revoked, ok := c.P.ImportedConst("pki", "golang.org/x/crypto/ocsp", "Revoked")
	if !ok {
		c.Unresolved("golang.org/x/crypto/ocsp.Revoked")
		return
	}
	if f := c.Fn("pki.getOcspStatus"); f != nil {
		if cl := c16One(c, f, "fetchCertBySerialBigInt", `^pki\.fetchCertBySerialBigInt$`); cl != nil {
			c.Clause("R5", "C16.3")
			c.Prov(f, "serial looked up by OCSP", cl, cl.Common().Args[2], `^field:ocspReq\.SerialNumber$`)
			c.Clause("R4", "C16.3")
			c16ErrPropagated(c, f, cl, 1)
			var rev, other []ssa.Instruction
			for _, st := range eng.Stores(f, `\.ocspStatus$`) {
				if eng.Expr(st.Val) == revoked {
					rev = append(rev, st)
				} else {
					other = append(other, st)
				}
			}
			if ent := eng.ResultValue(cl, 0); ent != nil {
				c16Unreach(c, f, "on{record found} success needs ocspStatus = Revoked",
					eng.Query{Fn: f, StartEdges: eng.ValueNilEdges(ent, false), Barriers: rev, Target: eng.IsTarget(eng.SuccessReturns(f, 1))}, cl.Pos(),
					"OCSP can answer for a serial with a revocation record without marking it Revoked", "every nil-error return after a record was found passes info.ocspStatus = ocsp.Revoked")
			}
			c.Clause("R3", "C16.3")
			c.NotAfter(f, "info.ocspStatus = ocsp.Revoked", rev, "another ocspStatus assignment", other)
			c.Clause("R5", "C16.3")
			for _, r := range eng.SuccessReturns(f, 1) {
				ret := r.(*ssa.Return)
				if a, ok := ret.Results[0].(*ssa.Alloc); ok {
					for _, v := range eng.StructLitField(a, "serialNumber") {
						c.Prov(f, "serial answered", r, v, `^field:ocspReq\.SerialNumber$`)
					}
				}
			}
		}
	}
	if f := c.Fn("pki.(*backend).ocspHandler"); f != nil {
		st := c16One(c, f, "getOcspStatus", `^pki\.getOcspStatus$`)
		gen := c16One(c, f, "genResponse", `^pki\.genResponse$`)
		if st != nil && gen != nil {
			c.Clause("R5", "C16.3")
			c.Prov(f, "status signed into the OCSP response", gen, gen.Common().Args[2], `^call:pki\.getOcspStatus#0$`)
			c.Clause("R2", "C16.3")
			c.Cut(f, "genResponse", []ssa.Instruction{gen}, eng.GCallOK(f, `^pki\.getOcspStatus$`), nil)
			c.Clause("R4", "C16.3")
			for _, r := range eng.ReturnsFrom(f, eng.CallFailEdges(st), nil, nil) {
				c.Prov(f, "answer after a failed status lookup", r, r.Results[0], `^call:pki\.logAndReturnInternalError$`)
			}
		}
	}
	if f := c.Fn("pki.genResponse"); f != nil {
		if cr := c16One(c, f, "ocsp.CreateResponse", `^golang\.org/x/crypto/ocsp\.CreateResponse$`); cr != nil {
			c.Clause("R5", "C16.3")
			if a := c16AllocOf(cr.Common().Args[2]); a != nil {
				for fld, pat := range map[string]string{"Status": `^field:info\.ocspStatus$`, "SerialNumber": `^field:info\.serialNumber$`} {
					vals := eng.StructLitField(a, fld)
					if len(vals) == 0 {
						c.Violation(f, "OCSP template "+fld, cr.Pos(), "the response template does not set "+fld, nil)
					}
					for _, v := range vals {
						c.Prov(f, "OCSP template "+fld, cr, v, pat)
					}
				}
				for _, s := range eng.Stores(f, `\.Status$`) {
					if fa, ok := s.Addr.(*ssa.FieldAddr); ok && fa.X == ssa.Value(a) {
						c.Violation(f, "OCSP template Status rewritten", s.Pos(), "the status is overwritten after the literal", nil)
					}
				}
			} else {
				c.Undecided(f, "OCSP template", cr.Pos(), "template argument is not a local literal")
			}
		}
	}
}

// ---------------------------------------------------------------------------
// C16.5 tidy removes only expired or unusable revocation records

// c16KeyedCalls: storage calls of clo (pattern pat) whose key is prefix + the
// callback's serial parameter; other prefixes are returned separately.
func c16KeyedCalls(clo *ssa.Function, pat, prefix string) (match []ssa.CallInstruction, prefixes []string) {
	for _, cl := range eng.Calls(clo, pat) {
		a := cl.Common().Args
		p, tail, ok := c16SplitKey(a[len(a)-1])
		if !ok {
			prefixes = append(prefixes, "?"+eng.ExprDeep(a[len(a)-1]))
			continue
		}
		prefixes = append(prefixes, p)
		if p == prefix && eng.Expr(tail) == "serial" {
			match = append(match, cl)
		}
	}
	return
}

func c16Tidy(c *eng.Ctx, V string) {
	const certs = "certs/"
	// ---- the revocation store pass
	if f := c.Fn("pki.(*backend).doTidyRevocationStore"); f != nil {
		var clo *ssa.Function
		var mcl *ssa.MakeClosure
		hl := c16One(c, f, "logical.HandleListPage", `^logical\.HandleListPage$`)
		if hl != nil {
			a := hl.Common().Args
			c.Clause("R7", "C16.3")
			if s, ok := c16Str(a[2]); ok && s == V {
				c.OK(f, "prefix paged by tidy", hl.Pos(), "HandleListPage(revokedPath)")
			} else {
				c.Violation(f, "prefix paged by tidy", hl.Pos(), "tidy pages "+eng.ExprDeep(a[2])+" instead of revokedPath", nil)
			}
			if mc, ok := a[4].(*ssa.MakeClosure); ok {
				clo, mcl = mc.Fn.(*ssa.Function), mc
			}
			c.Clause("R9", "C16.5")
			held := eng.MustHold(f, eng.LockCall(`\.revokeStorageLock$`, "Lock"), eng.LockCall(`\.revokeStorageLock$`, "Unlock"))
			if held(hl) {
				c.OK(f, "lock{revokeStorageLock} held while tidying revocation records", hl.Pos(), "write lock held at HandleListPage")
			} else {
				c.Violation(f, "lock{revokeStorageLock} held while tidying revocation records", hl.Pos(), "revocation records are tidied without revokeStorageLock: a concurrent revokeCert can see a record that is then deleted or rewritten", nil)
			}
		}
		if clo == nil {
			c.Unresolved("pki.(*backend).doTidyRevocationStore item callback")
		} else {
			dels, dp := c16KeyedCalls(clo, c16Delete, V)
			gets, gp := c16KeyedCalls(clo, c16Get, V)
			c.Clause("R7", "C16.3")
			bad := ""
			for _, p := range append(dp, gp...) {
				if p != V && p != certs {
					bad = p
				}
			}
			if bad == "" {
				c.OK(clo, "prefixes addressed by the revocation tidy", clo.Pos(), "only revokedPath and certs/")
			} else {
				c.Violation(clo, "prefixes addressed by the revocation tidy", clo.Pos(), "tidy addresses "+bad+": the literal no longer equals revokedPath = "+V, nil)
			}
			if c.Floor(clo, "Delete(revokedPath+serial)", len(dels), 4) && c.Floor(clo, "Get(revokedPath+serial)", len(gets), 1) {
				get := gets[0]
				ent := `<logical\.Storage>\.Get\(\)#0`
				gNil := eng.G(clo, `^`+ent+` == nil$`, true)
				gEmpty := eng.G(clo, `^len\(`+ent+`\.Value\) == 0$`, true)
				gParse := eng.G(clo, `^crypto/x509\.ParseCertificate\(\)#1 == nil$`, false)
				gInvalid := eng.G(clo, `^\^config\.InvalidCerts$`, true)
				gExpired := eng.G(clo, `< time\.Since\(\)$`, true)
				gRevoked := eng.G(clo, `^\^config\.RevokedCerts$`, true)
				sinks := instrsOf(dels)
				c.Clause("R2", "C16.5")
				c.Cut(clo, "Delete(revoked/serial)", sinks, eng.GCallOK(clo, c16Get), nil)
				c.Cut(clo, "Delete(revoked/serial)", sinks, eng.Or(gNil, gEmpty, gParse, gExpired), nil)
				c.Cut(clo, "Delete(revoked/serial)", sinks, eng.Or(gNil, gEmpty, gInvalid, gExpired), nil)
				c.Cut(clo, "Delete(revoked/serial)", sinks, eng.Or(gNil, gEmpty, gParse, gRevoked), nil)
				// a readable, parseable record is deleted only across the expiry edge
				parsedOK := eng.CondEdges(clo, `^crypto/x509\.ParseCertificate\(\)#1 == nil$`, true)
				c16Unreach(c, clo, "on{record parses} Delete needs the expiry edge",
					eng.Query{Fn: clo, StartEdges: parsedOK, Blocked: gExpired.Edges, Target: eng.IsTarget(sinks)}, get.Pos(),
					"a usable revocation record can be deleted without NotAfter + safety buffer having passed: the serial would drop off the CRL and OCSP would answer Good while the certificate is still valid",
					"after a successful parse every Delete lies behind revokedSafetyBuffer < time.Since(NotAfter)")
				c16Unreach(c, clo, "on{record parses} Delete needs tidy_revoked_certs",
					eng.Query{Fn: clo, StartEdges: parsedOK, Blocked: gRevoked.Edges, Target: eng.IsTarget(sinks)}, get.Pos(),
					"usable revocation records are deleted although tidy_revoked_certs is off", "after a successful parse every Delete lies behind config.RevokedCerts")
				// what the expiry is judged on
				c.Clause("R5", "C16.5")
				for _, ts := range eng.Calls(clo, `^time\.Since$`) {
					c.Prov(clo, "time compared with the safety buffer", ts, ts.Common().Args[0], `^field:crypto/x509\.ParseCertificate\(\)#0\.NotAfter$`)
				}
				for _, pc := range eng.Calls(clo, `^crypto/x509\.ParseCertificate$`) {
					c.Prov(clo, "certificate judged", pc, pc.Common().Args[0], `^field:\^\w+\.CertificateBytes$`)
				}
				for _, dj := range eng.Calls(clo, `^logical\.\(\*StorageEntry\)\.DecodeJSON$`) {
					if ex, ok := dj.Common().Args[0].(*ssa.Extract); ok && ex.Tuple == get.(ssa.Value) {
						c.OK(clo, "record decoded == record read", dj.Pos(), "DecodeJSON(Get(revoked/serial)#0, &revInfo)")
					} else {
						c.Violation(clo, "record decoded == record read", dj.Pos(), "decoded entry is "+eng.ExprDeep(dj.Common().Args[0]), nil)
					}
					c.Clause("R3", "C16.5")
					c.Before(clo, "DecodeJSON of the record", []ssa.Instruction{dj}, "ParseCertificate(revInfo.CertificateBytes)", instrsOf(eng.Calls(clo, `^crypto/x509\.ParseCertificate$`)))
					c.Clause("R4", "C16.5")
					c16ErrPropagated(c, clo, dj, 1)
					c.Clause("R5", "C16.5")
				}
				// the buffer: the configured one
				c16ExpiryBuffer(c, f, mcl, clo)
				// write-back goes to the key read, and not after a delete
				for _, sj := range eng.Calls(clo, `^logical\.StorageEntryJSON$`) {
					p, tail, ok := c16SplitKey(sj.Common().Args[0])
					if ok && p == V && eng.Expr(tail) == "serial" {
						c.OK(clo, "write-back key == key read", sj.Pos(), "revokedPath + serial")
					} else {
						c.Violation(clo, "write-back key == key read", sj.Pos(), "tidy rewrites "+eng.ExprDeep(sj.Common().Args[0]), nil)
					}
				}
				// the lock released for the pause is taken again before any storage access
				c.Clause("R9", "C16.5")
				var storage []ssa.Instruction
				storage = append(storage, storageCalls(clo, `\.(Get|Put|Delete|List)$`)...)
				relock := instrsOf(eng.Calls(clo, `^sync\.\(\*RWMutex\)\.Lock$`))
				for _, u := range eng.Calls(clo, `^sync\.\(\*RWMutex\)\.Unlock$`) {
					if !strings.HasSuffix(eng.Expr(u.Common().Args[0]), ".revokeStorageLock") {
						continue
					}
					c16Unreach(c, clo, "after{pause Unlock} Lock before any storage access",
						eng.Query{Fn: clo, StartAfter: u, Barriers: relock, Target: eng.IsTarget(storage)}, u.Pos(),
						"after releasing revokeStorageLock for the pause the callback touches storage without re-acquiring it", "the lock is re-acquired before the next storage access")
				}
			}
		}
	}
	// ---- the certificate store pass
	if f := c.Fn("pki.(*backend).doTidyCertStore"); f != nil {
		var clo *ssa.Function
		var mcl *ssa.MakeClosure
		if hl := c16One(c, f, "logical.HandleListPage", `^logical\.HandleListPage$`); hl != nil {
			if mc, ok := hl.Common().Args[4].(*ssa.MakeClosure); ok {
				clo, mcl = mc.Fn.(*ssa.Function), mc
			}
		}
		if clo == nil {
			c.Unresolved("pki.(*backend).doTidyCertStore item callback")
			return
		}
		dels, dp := c16KeyedCalls(clo, c16Delete, V)
		gets, gp := c16KeyedCalls(clo, c16Get, V)
		cgets, _ := c16KeyedCalls(clo, c16Get, certs)
		c.Clause("R7", "C16.3")
		bad := ""
		for _, p := range append(dp, gp...) {
			if p != V && p != certs {
				bad = p
			}
		}
		if bad == "" {
			c.OK(clo, "prefixes addressed by the certificate tidy", clo.Pos(), "only revokedPath and certs/")
		} else {
			c.Violation(clo, "prefixes addressed by the certificate tidy", clo.Pos(), "tidy addresses "+bad+": the literal no longer equals revokedPath = "+V, nil)
		}
		if !c.Floor(clo, "Delete(revokedPath+serial)", len(dels), 1) || !c.Floor(clo, "Get(revokedPath+serial)", len(gets), 1) || !c.Floor(clo, "Get(certs/serial)", len(cgets), 1) {
			return
		}
		sinks := instrsOf(dels)
		var revEnt ssa.Value = eng.ResultValue(gets[0], 0)
		c.Clause("R2", "C16.5")
		c.Cut(clo, "Delete(revoked/serial)", sinks, eng.G(clo, `< time\.Since\(\)$`, true), nil)
		c.Cut(clo, "Delete(revoked/serial)", sinks, eng.G(clo, `^\^config\.RevokedCerts$`, true), nil)
		c.Cut(clo, "Delete(revoked/serial)", sinks, eng.G(clo, `^crypto/x509\.ParseCertificate\(\)#1 == nil$`, true), nil)
		c.Cut(clo, "Delete(revoked/serial)", sinks, eng.Guard{Desc: "revocation record present", Edges: eng.ValueNilEdges(revEnt, false)}, nil)
		c.Clause("R5", "C16.5")
		for _, ts := range eng.Calls(clo, `^time\.Since$`) {
			c.Prov(clo, "time compared with the safety buffer", ts, ts.Common().Args[0], `^field:crypto/x509\.ParseCertificate\(\)#0\.NotAfter$`)
		}
		for _, pc := range eng.Calls(clo, `^crypto/x509\.ParseCertificate$`) {
			v := pc.Common().Args[0]
			good := false
			if fa, ok := v.(*ssa.UnOp); ok {
				if fad, ok := fa.X.(*ssa.FieldAddr); ok {
					if ex, ok := fad.X.(*ssa.Extract); ok && ex.Tuple == cgets[0].(ssa.Value) {
						good = true
					}
				}
			}
			if good {
				c.OK(clo, "certificate judged is the one stored under the same serial", pc.Pos(), "ParseCertificate(Get(certs/serial)#0.Value)")
			} else {
				c.Violation(clo, "certificate judged is the one stored under the same serial", pc.Pos(), "parsed bytes are "+eng.ExprDeep(v), nil)
			}
		}
		c16ExpiryBuffer(c, f, mcl, clo)
	}
}

// c16ExpiryBuffer (R5): every "buffer < time.Since(NotAfter)" test of the tidy
// callback compares against the configured safety buffer: config.SafetyBuffer
// itself, or a captured variable of the enclosing function that only ever
// holds config.SafetyBuffer / *config.RevokedSafetyBuffer.
func c16ExpiryBuffer(c *eng.Ctx, f *ssa.Function, mc *ssa.MakeClosure, clo *ssa.Function) {
	c.Clause("R5", "C16.5")
	n := 0
	for _, b := range clo.Blocks {
		ifi := eng.IfOf(b)
		if ifi == nil {
			continue
		}
		nc := eng.Normalize(ifi.Cond)
		bo, ok := nc.Val.(*ssa.BinOp)
		if !ok {
			continue
		}
		var buf ssa.Value
		for _, pair := range [][2]ssa.Value{{bo.X, bo.Y}, {bo.Y, bo.X}} {
			if cl, ok := pair[0].(*ssa.Call); ok && eng.CalleeName(&cl.Call) == "time.Since" {
				buf = pair[1]
			}
		}
		if buf == nil {
			continue
		}
		n++
		site := "buffer compared with time.Since(NotAfter)"
		if ld, ok := buf.(*ssa.UnOp); ok {
			if fv, ok := ld.X.(*ssa.FreeVar); ok && mc != nil {
				var bind ssa.Value
				for i, x := range clo.FreeVars {
					if x == fv && i < len(mc.Bindings) {
						bind = mc.Bindings[i]
					}
				}
				a, _ := bind.(*ssa.Alloc)
				if a == nil {
					c.Undecided(clo, site, ifi.Pos(), "captured buffer variable not resolvable")
					continue
				}
				for _, st := range eng.Stores(f, `.`) {
					if st.Addr == a {
						c.Prov(f, "captured safety buffer", st, st.Val, `^field:config\.SafetyBuffer$`, `^op:\*config\.RevokedSafetyBuffer$`)
					}
				}
				// and the callback itself never overwrites it
				for _, st := range eng.Stores(clo, `.`) {
					if st.Addr == fv {
						c.Violation(clo, site, st.Pos(), "the tidy callback overwrites the captured safety buffer", nil)
					}
				}
				continue
			}
		}
		c.Prov(clo, site, ifi, buf, `^field:\^config\.SafetyBuffer$`)
	}
	c.Floor(clo, "expiry comparisons", n, 1)
}

// ---------------------------------------------------------------------------
// C16.6 every record reaches the CRL; CRL numbers increase and are persisted

// c16AppendRoots walks back from a slice value through phis and append calls
// to the values it is assembled from.
func c16AppendRoots(v ssa.Value) []ssa.Value {
	var out []ssa.Value
	seen := map[ssa.Value]bool{}
	var walk func(v ssa.Value)
	walk = func(v ssa.Value) {
		if v == nil || seen[v] {
			return
		}
		seen[v] = true
		switch x := v.(type) {
		case *ssa.Phi:
			for _, e := range x.Edges {
				walk(e)
			}
		case *ssa.Call:
			if b, ok := x.Call.Value.(*ssa.Builtin); ok && b.Name() == "append" {
				for _, a := range x.Call.Args {
					walk(a)
				}
				return
			}
			out = append(out, x)
		case *ssa.Extract:
			// v, ok := m[k]
			if lk, ok := x.Tuple.(*ssa.Lookup); ok && x.Index == 0 {
				walk(lk.X)
				return
			}
			out = append(out, x)
		case *ssa.Lookup:
			walk(x.X)
		case *ssa.Slice:
			walk(x.X)
		default:
			out = append(out, v)
		}
	}
	walk(v)
	return out
}

// c16CertRawBase: v is a read of the Raw field (the complete DER encoding) of
// an x509.Certificate; returns the certificate it is read from.
func c16CertRawBase(v ssa.Value) (ssa.Value, bool) {
	var fld, base ssa.Value
	switch x := v.(type) {
	case *ssa.UnOp:
		fa, ok := x.X.(*ssa.FieldAddr)
		if x.Op != token.MUL || !ok {
			return nil, false
		}
		fld, base = fa, fa.X
	case *ssa.Field:
		fld, base = x, x.X
	default:
		return nil, false
	}
	fv := eng.FieldVar(fld)
	if fv == nil || fv.Name() != "Raw" || fv.Pkg() == nil || fv.Pkg().Path() != "crypto/x509" {
		return nil, false
	}
	if !strings.HasSuffix(strings.TrimPrefix(base.Type().String(), "*"), "crypto/x509.Certificate") {
		return nil, false
	}
	return base, true
}

// c16Accumulator (R5): slice value v (as handed to a sink) is built up by
// appending only: walking back through phis and append calls, every
// assignment is append(<the value so far>, ...); the only other values are the
// empty start (nil / a fresh make) entering from outside the loop that fills
// it. Returns the number of appends, and the first offending assignment.
func c16Accumulator(v ssa.Value) (appends int, bad string, badPos token.Pos) {
	seen := map[ssa.Value]bool{}
	var walk func(v ssa.Value, viaPhi *ssa.Phi, edge int)
	fail := func(s string, p token.Pos) {
		if bad == "" {
			bad, badPos = s, p
		}
	}
	walk = func(v ssa.Value, viaPhi *ssa.Phi, edge int) {
		if v == nil || seen[v] {
			return
		}
		switch x := v.(type) {
		case *ssa.Phi:
			seen[v] = true
			for i, e := range x.Edges {
				walk(e, x, i)
			}
			return
		case *ssa.Call:
			if b, ok := x.Call.Value.(*ssa.Builtin); ok && b.Name() == "append" && len(x.Call.Args) > 0 {
				seen[v] = true
				appends++
				// the first operand must itself be the list so far (a phi or an append of it)
				walk(x.Call.Args[0], nil, 0)
				return
			}
		}
		// a start value: empty, and entering from outside the loop the phi heads
		_, isMake := v.(*ssa.MakeSlice)
		if (eng.IsNilConst(v) || isMake) && viaPhi != nil {
			pred := viaPhi.Block().Preds[edge]
			if !viaPhi.Block().Dominates(pred) {
				return
			}
			fail("the list is reset to "+eng.Expr(v)+" inside the loop that fills it", viaPhi.Pos())
			return
		}
		pos := token.NoPos
		if viaPhi != nil {
			pos = viaPhi.Pos()
		}
		fail("the list is overwritten with "+eng.ExprDeep(v)+" (entries collected before are dropped)", pos)
	}
	walk(v, nil, 0)
	return appends, bad, badPos
}

func c16Builder(c *eng.Ctx, V string) {
	inPki := func(fn *ssa.Function) bool { return eng.InPkg(fn, "pki") }
	// ---- getLocalRevokedCertEntries: every listed record becomes a CRL entry
	if f := c.Fn("pki.getLocalRevokedCertEntries"); f != nil {
		c.Clause("R8", "C16.6")
		l := c16One(c, f, "Storage.List", c16List)
		var finalRet *ssa.Return
		for _, r := range eng.SuccessReturns(f, 2) {
			finalRet = r.(*ssa.Return)
		}
		if l != nil && finalRet != nil {
			mapVal := finalRet.Results[1]
			unassigned := finalRet.Results[0]
			var sinks []ssa.Instruction
			nMap, nUn := 0, 0
			for _, in := range eng.Instrs(f, func(in ssa.Instruction) bool { _, ok := in.(*ssa.MapUpdate); return ok }) {
				if in.(*ssa.MapUpdate).Map == mapVal {
					sinks = append(sinks, in)
					nMap++
				}
			}
			// appends that feed the unassigned result
			feeds := map[ssa.Value]bool{}
			var collect func(v ssa.Value)
			collect = func(v ssa.Value) {
				if v == nil || feeds[v] {
					return
				}
				feeds[v] = true
				if p, ok := v.(*ssa.Phi); ok {
					for _, e := range p.Edges {
						collect(e)
					}
				}
			}
			collect(unassigned)
			for _, ap := range eng.Calls(f, `^append$`) {
				if v, ok := ap.(ssa.Value); ok && feeds[v] {
					sinks = append(sinks, ap)
					nUn++
				}
			}
			c.Floor(f, "appends to the per-issuer map", nMap, 2)
			c.Floor(f, "appends to the unassigned bucket", nUn, 1)
			// the loop over the listing
			listed := eng.ResultValue(l, 0)
			var body []eng.Edge
			var header []ssa.Instruction
			for _, b := range f.Blocks {
				ifi := eng.IfOf(b)
				if ifi == nil {
					continue
				}
				bo, ok := ifi.Cond.(*ssa.BinOp)
				if !ok || bo.Op != token.LSS {
					continue
				}
				if ln, ok := bo.Y.(*ssa.Call); ok && len(ln.Call.Args) == 1 && ln.Call.Args[0] == listed {
					body = append(body, eng.Edge{From: b, Succ: 0})
					header = append(header, ifi)
				}
			}
			if c.Floor(f, "loop over the listed serials", len(body), 1) {
				// the only legitimate skip: the record is an issuer's own certificate (a boolean flag set behind bytes.Equal)
				// ... or the verdict of a same-package helper that says "true" only behind bytes.Equal)
				skipIssuer, skipHelpers := c16IssuerSkip(f)
				for _, e := range skipIssuer {
					if ph, ok := eng.IfOf(e.From).Cond.(*ssa.Phi); ok {
						set := eng.PhiEdges(f, eng.VarName(ph), func(v ssa.Value) bool { return eng.Expr(v) == "true" })
						c.CutEdges(f, "record skipped as an issuer certificate", set, eng.G(f, `^bytes\.Equal\(\)$`, true))
					}
				}
				for _, h := range skipHelpers {
					hf := h.Call.Call.StaticCallee()
					var yes []ssa.Instruction
					for _, r := range eng.Returns(hf) {
						if eng.Expr(r.Results[0]) != "false" {
							yes = append(yes, r)
						}
					}
					if c.Floor(hf, "verdict 'is an issuer certificate'", len(yes), 1) {
						c.Cut(hf, "record judged an issuer certificate", yes, eng.G(hf, `^bytes\.Equal\(\)$`, true), nil)
					}
				}
				next := append(append([]ssa.Instruction{}, header...), finalRet)
				c16Unreach(c, f, "each listed record is added to a CRL bucket (or is an issuer's own certificate, or the build fails)",
					eng.Query{Fn: f, StartEdges: body, Barriers: sinks, Blocked: skipIssuer, Assume: map[string]bool{`^isDelta$`: false}, Target: eng.IsTarget(next)}, l.Pos(),
					"the loop over the revocation records can move on to the next record (or finish) without adding the current one to the per-issuer map or the unassigned bucket: a revoked serial would silently miss every CRL",
					"every iteration appends to revokedCertsMap / unassignedCerts before continuing; only the issuer-certificate skip and error returns bypass it")
				c.Floor(f, "issuer-certificate skip edge", len(skipIssuer), 1)
				// what the skip compares: the whole encoding of the record's certificate with the whole
				// encoding of an issuer certificate. Serial numbers are unique per issuer only, so any
				// narrower comparison lets a leaf that shares a serial with some issuer drop off every CRL.
				c.Clause("R5", "C16.6")
				type eqSite struct {
					fn   *ssa.Function
					call ssa.CallInstruction
					at   *ssa.Call // call of the helper in f, nil when the comparison is in f itself
				}
				var eqs []eqSite
				for _, e := range eng.Calls(f, `^bytes\.Equal$`) {
					eqs = append(eqs, eqSite{f, e, nil})
				}
				for _, h := range skipHelpers {
					for _, e := range eng.Calls(h.Call.Call.StaticCallee(), `^bytes\.Equal$`) {
						eqs = append(eqs, eqSite{h.Call.Call.StaticCallee(), e, h.Call})
					}
				}
				// is this certificate value the one parsed from the record (directly, or as the helper's argument)?
				isRecord := func(es eqSite, b ssa.Value) bool {
					if ok, _, _ := eng.OriginsMatch(b, `^call:crypto/x509\.ParseCertificate#0$`); ok {
						return true
					}
					if pa, isParam := b.(*ssa.Parameter); isParam && es.at != nil {
						for i, fp := range es.fn.Params {
							if fp == pa && i < len(es.at.Call.Args) {
								ok, _, _ := eng.OriginsMatch(es.at.Call.Args[i], `^call:crypto/x509\.ParseCertificate#0$`)
								return ok
							}
						}
					}
					return false
				}
				if c.Floor(f, "bytes.Equal deciding the issuer-certificate skip", len(eqs), 1) {
					for _, es := range eqs {
						e, f := es.call, es.fn
						site := "issuer-certificate skip compares whole certificates"
						a := e.Common().Args
						if len(a) != 2 {
							c.Undecided(f, site, e.Pos(), "bytes.Equal without two operands")
							continue
						}
						b0, ok0 := c16CertRawBase(a[0])
						b1, ok1 := c16CertRawBase(a[1])
						if !ok0 || !ok1 {
							c.Violation(f, site, e.Pos(), "the skip compares "+eng.ExprDeep(a[0])+" with "+eng.ExprDeep(a[1])+": both operands must be the Raw (complete DER) field of an x509.Certificate, anything narrower (serial, subject) also matches certificates that are not the issuer itself", nil)
							continue
						}
						p0 := isRecord(es, b0)
						p1 := isRecord(es, b1)
						if p0 != p1 {
							c.OK(f, site, e.Pos(), eng.Expr(a[0])+" vs "+eng.Expr(a[1]))
						} else {
							c.Violation(f, site, e.Pos(), "the skip compares "+eng.ExprDeep(a[0])+" with "+eng.ExprDeep(a[1])+": exactly one operand must be the certificate parsed from the record, the other a candidate issuer", nil)
						}
					}
				}
			}
			// what is appended: the serial and time of the record read
			c.Clause("R5", "C16.6")
			for _, st := range eng.Stores(f, `^&complit\.SerialNumber$`) {
				c.Prov(f, "CRL entry serial", st, st.Val, `^field:crypto/x509\.ParseCertificate\(\)#0\.SerialNumber$`)
			}
			for _, pc := range eng.Calls(f, `^crypto/x509\.ParseCertificate$`) {
				c.Prov(f, "certificate of the record", pc, pc.Common().Args[0], `^field:&\w+\.CertificateBytes$`)
			}
			for _, st := range eng.Stores(f, `^&\w+\.RevocationTime$`) {
				c.Prov(f, "CRL entry revocation time", st, st.Val, `^field:&\w+\.RevocationTimeUTC$`, `^call:time\.\(Time\)\.UTC$`)
			}
			g := c16One(c, f, "Storage.Get", c16Get)
			for _, dj := range eng.Calls(f, `^logical\.\(\*StorageEntry\)\.DecodeJSON$`) {
				if ex, ok := dj.Common().Args[0].(*ssa.Extract); ok && g != nil && ex.Tuple == g.(ssa.Value) {
					c.OK(f, "record decoded == record read", dj.Pos(), "DecodeJSON(Get(revokedPath+serial)#0, &revInfo)")
				} else {
					c.Violation(f, "record decoded == record read", dj.Pos(), "decoded entry is "+eng.ExprDeep(dj.Common().Args[0]), nil)
				}
			}
			// a nil/empty record fails the build rather than being skipped
			c.Clause("R4", "C16.6")
			if g != nil {
				ent := eng.ResultValue(g, 0)
				c16Unreach(c, f, "on{listed record missing} the build fails",
					eng.Query{Fn: f, StartEdges: eng.ValueNilEdges(ent, true), Target: eng.IsTarget(append(append([]ssa.Instruction{}, header...), eng.SuccessReturns(f, 2)...))}, g.Pos(),
					"a listed serial whose record cannot be read is skipped silently", "a missing record aborts the build with an error")
			}
		}
	}
	// ---- buildAnyLocalCRLs: the collected entries are the ones built and the counters are persisted afterwards
	if f := c.Fn("pki.buildAnyLocalCRLs"); f != nil {
		bw := c16One(c, f, "buildAnyCRLsWithCerts", `^pki\.buildAnyCRLsWithCerts$`)
		set := c16One(c, f, "setLocalCRLConfig", `^pki\.\(\*storageContext\)\.setLocalCRLConfig$`)
		get := c16One(c, f, "getLocalRevokedCertEntries", `^pki\.getLocalRevokedCertEntries$`)
		if bw != nil && set != nil && get != nil {
			a := bw.Common().Args
			c.Clause("R5", "C16.6")
			c.Prov(f, "unassigned entries handed to the builder", bw, a[7], `^call:pki\.getLocalRevokedCertEntries#0$`, `^const:nil$`)
			c.Prov(f, "per-issuer entries handed to the builder", bw, a[8], `^call:pki\.getLocalRevokedCertEntries#1$`, `^const:nil$`)
			c.Prov(f, "CRL config updated by the builder", bw, a[3], `^call:pki\.\(\*storageContext\)\.getLocalCRLConfig#0$`)
			if set.Common().Args[1] == a[3] {
				c.OK(f, "config persisted == config updated by the builder", set.Pos(), "same *internalCRLConfigEntry")
			} else {
				c.Violation(f, "config persisted == config updated by the builder", set.Pos(), "setLocalCRLConfig persists "+eng.ExprDeep(set.Common().Args[1])+", not the config whose CRL numbers were incremented", nil)
			}
			c.Prov(f, "isDelta handed to the collector", get, get.Common().Args[2], `^param:isDelta$`)
			c.Clause("R2", "C16.6")
			// enabled CRL: the records are collected before building
			c.Cut(f, "buildAnyCRLsWithCerts", []ssa.Instruction{bw}, eng.Or(eng.Guard{Desc: "success edge of getLocalRevokedCertEntries", Edges: eng.CallOKEdges(get)}, eng.G(f, `^globalCRLConfig\.Disable$`, true)), nil)
			succ := eng.SuccessReturns(f, 2)
			c.Cut(f, "nil-error return", succ, eng.GCallOK(f, `^pki\.buildAnyCRLsWithCerts$`), nil)
			st := eng.GCallOK(f, `^pki\.\(\*storageContext\)\.setLocalCRLConfig$`)
			c.Cut(f, "nil-error return", succ, eng.Or(eng.Guard{Desc: st.Desc, Edges: st.Edges}, eng.G(f, `^wasLegacy$`, true)), nil)
			c.Clause("R3", "C16.6")
			c.Before(f, "buildAnyCRLsWithCerts", []ssa.Instruction{bw}, "setLocalCRLConfig", []ssa.Instruction{set})
		}
	}
	// ---- buildAnyCRLsWithCerts
	if f := c.Fn("pki.buildAnyCRLsWithCerts"); f != nil {
		bc := c16One(c, f, "buildCRL", `^pki\.buildCRL$`)
		if bc != nil {
			a := bc.Common().Args
			// revoked certs: assembled from the per-issuer map and the unassigned bucket
			c.Clause("R5", "C16.6")
			var rs []string
			haveMap, haveUn, bad := false, false, ""
			for _, r := range c16AppendRoots(a[4]) {
				s := eng.Expr(r)
				rs = append(rs, s)
				switch {
				case s == "revokedCertsMap":
					haveMap = true
				case s == "unassignedCerts":
					haveUn = true
				case eng.IsNilConst(r):
				default:
					bad = s
				}
			}
			if haveMap && haveUn && bad == "" {
				c.OK(f, "entries handed to buildCRL", bc.Pos(), "assembled from revokedCertsMap[issuer] and unassignedCerts: "+strings.Join(rs, ", "))
			} else {
				c.Violation(f, "entries handed to buildCRL", bc.Pos(), "the revoked list given to buildCRL is assembled from "+strings.Join(rs, ", ")+"; it must draw on both revokedCertsMap and unassignedCerts (and nothing else)", nil)
			}
			// ... and it is an accumulator: each member of the issuer set adds to what the
			// members before it (and the unassigned bucket) contributed, nothing replaces it
			{
				site := "entries handed to buildCRL are accumulated (append only)"
				n, badAcc, badPos := c16Accumulator(a[4])
				switch {
				case badAcc != "":
					if badPos == token.NoPos {
						badPos = bc.Pos()
					}
					c.Violation(f, site, badPos, badAcc+": the CRL of an issuer set would miss the revocations of the other members / the unassigned certificates", nil)
				case c.Floor(f, "appends building the list handed to buildCRL", n, 2):
					c.OK(f, site, bc.Pos(), strconv.Itoa(n)+" appends, each onto the list so far; the empty start enters from outside the member loop")
				}
			}
			// CRL number: a read of CRLNumberMap[id] that is incremented on the same path
			c.Clause("R5", "C16.6")
			num, isLk := a[6].(*ssa.Lookup)
			if !isLk || !strings.HasSuffix(eng.Expr(num.X), ".CRLNumberMap") {
				c.Violation(f, "CRL number handed to buildCRL", bc.Pos(), "crlNumber is "+eng.ExprDeep(a[6])+", not a read of internalCRLConfig.CRLNumberMap", nil)
			} else {
				c.OK(f, "CRL number handed to buildCRL", bc.Pos(), "read of "+eng.Expr(num.X)+"[crlIdentifier]")
				if num.Index == a[5] {
					c.OK(f, "CRL number belongs to the CRL being written", bc.Pos(), "counter key == identifier argument")
				} else {
					c.Violation(f, "CRL number belongs to the CRL being written", bc.Pos(), "counter key "+eng.ExprDeep(num.Index)+" differs from the identifier "+eng.ExprDeep(a[5]), nil)
				}
				var incs []ssa.Instruction
				for _, in := range eng.Instrs(f, func(in ssa.Instruction) bool { _, ok := in.(*ssa.MapUpdate); return ok }) {
					mu := in.(*ssa.MapUpdate)
					if !strings.HasSuffix(eng.Expr(mu.Map), ".CRLNumberMap") || mu.Key != num.Index {
						continue
					}
					if c16IsIncrement(mu) {
						incs = append(incs, mu)
					}
				}
				c.Clause("R3", "C16.6")
				c.Before(f, "CRLNumberMap[id] += 1", incs, "buildCRL", []ssa.Instruction{bc})
			}
			// the config it updates is the one handed in (and persisted by the caller)
			c.Clause("R5", "C16.6")
			if isLk {
				if ok, badO, _ := eng.OriginsMatch(num.X, `^field:internalCRLConfig\.CRLNumberMap$`); ok {
					c.OK(f, "counter lives in the config persisted by the caller", bc.Pos(), "internalCRLConfig.CRLNumberMap")
				} else {
					c.Violation(f, "counter lives in the config persisted by the caller", bc.Pos(), "counter read from "+badO, nil)
				}
			}
			// complete builds remember their number for the delta indicator
			for _, in := range eng.Instrs(f, func(in ssa.Instruction) bool { _, ok := in.(*ssa.MapUpdate); return ok }) {
				mu := in.(*ssa.MapUpdate)
				if strings.HasSuffix(eng.Expr(mu.Map), ".CRLExpirationMap") {
					c.Prov(f, "next update recorded", mu, mu.Value, `^call:pki\.buildCRL#0$`, `^op:\*pki\.buildCRL\(\)#0$`)
				}
			}
			c.Clause("R2", "C16.6")
			// a set with a usable issuer is built: once a representative was chosen, success is only reported after buildCRL ran for the set
			rep := eng.Nearest(f, eng.CondEdges(f, `^\(?φ\w+\{.*\}\)? == ""$`, false), []ssa.Instruction{bc})
			c16Unreach(c, f, "on{issuer set has a representative} success needs buildCRL",
				eng.Query{Fn: f, StartEdges: rep, Barriers: []ssa.Instruction{bc}, Target: eng.IsTarget(eng.SuccessReturns(f, 1))}, bc.Pos(),
				"an issuer set with a CRL-signing representative can be skipped without building its CRL", "after a representative was chosen every path to a nil-error return passes buildCRL")
		}
	}
	// ---- nobody resets a CRL counter
	c.Clause("R6", "C16.6")
	n := 0
	for _, fn := range c.P.Funcs {
		if !inPki(fn) {
			continue
		}
		for _, in := range eng.Instrs(fn, func(in ssa.Instruction) bool { _, ok := in.(*ssa.MapUpdate); return ok }) {
			mu := in.(*ssa.MapUpdate)
			if !strings.HasSuffix(eng.Expr(mu.Map), ".CRLNumberMap") {
				continue
			}
			n++
			site := "write to CRLNumberMap"
			switch {
			case c16IsIncrement(mu):
				c.OK(fn, site, mu.Pos(), "increment of the same counter")
			case func() bool { ok, _, _ := eng.OriginsMatch(mu.Key, `^call:pki\.genCRLId$`); return ok }() && eng.Expr(mu.Value) == "1":
				c.OK(fn, site, mu.Pos(), "initialisation of a counter for a freshly generated CRL id")
			case eng.FuncName(eng.TopFunc(fn)) == "pki.(*storageContext).getLocalCRLConfig" || eng.FuncName(eng.TopFunc(fn)) == "pki.(*storageContext).upgradeIssuerIfRequired":
				c.OK(fn, site, mu.Pos(), "default / migration initialisation when no config exists")
			default:
				c.Violation(fn, site, mu.Pos(), "CRLNumberMap is written with "+eng.ExprDeep(mu.Value)+" for key "+eng.ExprDeep(mu.Key)+": a counter that is reset or copied can repeat a CRL number", nil)
			}
		}
	}
	c.Floor(nil, "writes to CRLNumberMap", n, 2)
	// ---- buildCRL
	if f := c.Fn("pki.buildCRL"); f != nil {
		put := c16One(c, f, "Storage.Put of the CRL", c16Put)
		crl := c16One(c, f, "x509.CreateRevocationList", `^crypto/x509\.CreateRevocationList$`)
		if put != nil && crl != nil {
			c.Clause("R2", "C16.6")
			asm := map[string]bool{`^crlInfo\.Disable$`: false}
			succ := eng.SuccessReturns(f, 1)
			c.Cut(f, "nil-error return (CRL enabled)", succ, eng.GCallOK(f, c16Put), asm)
			c.Cut(f, "Storage.Put of the CRL", []ssa.Instruction{put}, eng.GCallOK(f, `^crypto/x509\.CreateRevocationList$`), nil)
			c.Clause("R5", "C16.6")
			if a := c16AllocOf(put.Common().Args[1]); a != nil {
				for _, v := range eng.StructLitField(a, "Value") {
					c.Prov(f, "bytes stored as the CRL", put, v, `^call:crypto/x509\.CreateRevocationList#0$`)
				}
				for _, v := range eng.StructLitField(a, "Key") {
					c.Prov(f, "key the CRL is stored under", put, v, `^const:"crls/"$`, `^call:pki\.\(crlID\)\.String$`, `^const:"`+reQuote(c16ConstOr(c, "pki.deltaCRLPathSuffix"))+`"$`, `^const:"`+reQuote(c16ConstOr(c, "pki.legacyCRLPath"))+`"$`)
				}
				for _, cs := range eng.Calls(f, `^pki\.\(crlID\)\.String$`) {
					c.Prov(f, "CRL id in the key", cs, cs.Common().Args[0], `^param:identifier$`)
				}
			}
			tmpl := c16AllocOf(crl.Common().Args[1])
			if tmpl == nil {
				if a, ok := crl.Common().Args[1].(*ssa.Alloc); ok {
					tmpl = a
				}
			}
			if tmpl != nil {
				for _, v := range eng.StructLitField(tmpl, "Number") {
					c.Prov(f, "CRL number signed", crl, v, `^call:math/big\.NewInt$`)
					if nb, ok := v.(*ssa.Call); ok {
						c.Prov(f, "CRL number signed (value)", crl, nb.Call.Args[0], `^param:crlNumber$`)
					}
				}
				vals := eng.StructLitField(tmpl, "RevokedCertificates")
				if len(vals) == 0 {
					c.Violation(f, "entries signed", crl.Pos(), "the revocation list template has no RevokedCertificates", nil)
				}
				fe := eng.Feasible(f, asm)
				for _, v := range vals {
					roots := eng.Roots(v, fe)
					if len(roots) == 1 && eng.Expr(roots[0]) == "revoked" {
						c.OK(f, "entries signed (CRL enabled)", crl.Pos(), "RevokedCertificates = the revoked parameter")
					} else {
						var rs []string
						for _, r := range roots {
							rs = append(rs, eng.Expr(r))
						}
						c.Violation(f, "entries signed (CRL enabled)", crl.Pos(), "with the CRL enabled the signed list is read out of "+strings.Join(rs, ", ")+" instead of the revoked parameter", nil)
					}
				}
			} else {
				c.Undecided(f, "revocation list template", crl.Pos(), "template is not a local literal")
			}
			a := crl.Common().Args
			c.Prov(f, "CRL signer certificate", crl, a[2], `fetchCAInfoByIssuerId\(\)#0\.ParsedCertBundle\.Certificate$`)
			c.Prov(f, "CRL signer key", crl, a[3], `fetchCAInfoByIssuerId\(\)#0\.ParsedCertBundle\.PrivateKey$`)
			for _, ca := range eng.Calls(f, `^pki\.\(\*storageContext\)\.fetchCAInfoByIssuerId$`) {
				c.Prov(f, "issuer whose key signs", ca, ca.Common().Args[1], `^param:thisIssuerId$`)
			}
		}
	}
}

func c16ConstOr(c *eng.Ctx, name string) string {
	v, ok := c.P.ConstValue(name)
	if !ok {
		c.Unresolved(name)
	}
	return v
}

// c16IsIncrement: m[k] = m[k] + <positive constant> on the same map expression and key.
func c16IsIncrement(mu *ssa.MapUpdate) bool {
	bo, ok := mu.Value.(*ssa.BinOp)
	if !ok || bo.Op != token.ADD {
		return false
	}
	lk, ok := bo.X.(*ssa.Lookup)
	if !ok || lk.Index != mu.Key || eng.Expr(lk.X) != eng.Expr(mu.Map) {
		return false
	}
	k, ok := bo.Y.(*ssa.Const)
	if !ok || k.Value == nil {
		return false
	}
	s := k.Value.ExactString()
	return s != "0" && !strings.HasPrefix(s, "-")
}
