// Package props holds the per-property rule tables.
package props

import "obsa/eng"

type Prop struct {
	ID          string
	Explanation string // what the rules decide (goes to evidence)
	NotDecided  string // what they do not decide
	Run         func(c *eng.Ctx, thorough bool)
}

var Registry = map[string]*Prop{}

func register(p *Prop) { Registry[p.ID] = p }
