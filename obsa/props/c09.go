package props

import (
	"fmt"
	"go/token"
	"sort"
	"strconv"
	"strings"

	"golang.org/x/tools/go/ssa"

	"obsa/eng"
)

func init() {
	register(&Prop{
		ID: "C09",
		Explanation: "Structural necessary conditions of 'replicas applying the same log reach the same state and verdicts': " +
			"(1) DEPENDS: every field of FSM / fsmTxnCommitIndexTracker / fsmTxnCommitIndexApplicationState read by code reachable from FSM.ApplyBatch (static call graph incl. closures), and every call to a nondeterminism source there, is in a reviewed table classifying it as replicated (log), persisted (bolt), batching-neutral or no-verdict-flow; the one in-memory input of the verdict (the record of recent writes) may answer 'unmodified' only for windows that start at or after the index the database was opened at, and is reset from the persisted index by the single loader shared by NewFSM and Restore; " +
			"(2) all data writes of a batch happen inside the single db.Update closure, whose failure panics; the persisted cursor is written in the same closure after the commands and only without error; the in-memory cursor is advanced after the update; " +
			"(3) the trim bound applied after a batch originates from the log entry (LogData.LowestActiveIndex); on the leader a transaction's own start index is excluded from the shipped bound only if it is the only active one at that index; " +
			"(4) the fast-path predicate requires: in a transaction, first command of the batch, and applied index == start index; the bypass predicates consult the tracker for exactly the (start, command] window; " +
			"(5) verification precedes every write of a transaction and a verification failure writes nothing; " +
			"gaps round 2: (3+) the per-start-index count of open write transactions behind the shipped bound is incremented on registration, decremented on completion and the index forgotten only with its last transaction, and trimming removes exactly the entries below the bound; node-local trim bounds and the bound applyLog ships are min(·, state machine index), and the entry is serialised / handed to raft only after applyLog stored that capped bound, whatever the caller pre-computed (shared with C08.7); " +
			"(6) every data-bucket write on the apply path is followed by logWrite of the same key before the next write or a successful return, the helpers in between hand on the written key / the transaction's own write set (plain writes recorded directly, transactional ones collected), verification asks the record about and reads back exactly the key / listed prefix of the operation, and the record tests a written key against the listed prefix itself (raw prefix match, as listing does), not a string derived from it; (7) every bolt write of package raft is in a reviewed table and the unlogged writers FSM.Put/Delete have no caller (DeletePrefix: chunk bookkeeping only); " +
			"(8) the persisted and in-memory cursor of a batch are index/term of its last entry, the synthetic snapshot shown to raft and the cursor written into a snapshot's database carry the state machine's / snapshot's index and term unchanged, witnessSnapshot moves the in-memory cursor only after the persisted one was written and moves either only across a comparison establishing that the snapshot's index is not behind the current cursor (the persisted one compared inside the bolt update that writes it); " +
			"(9) applyLog reports success for a transaction entry only if the response carries no conflict sentinel, and the sentinel's error is what it returns; (4+) the per-command state is built from its own arguments and starts outside a transaction; " +
			"(10) a snapshot streamed from the state machine is a complete copy: in FSM.writeTo every entry the cursor yields is written to the sink before the cursor moves on, no branch looks at the scanned key except the end-of-bucket test, key and value written are the cursor's, the bucket scanned is the bucket the apply path writes and the receiver fills, and the apply path's keys in the other bucket are those the snapshot metadata re-creates; " +
			"(11) every protobuf decode of package raft decodes a record on its own: it resets the message (plain proto.Unmarshal, or UnmarshalOptions whose Merge field is not set), or the message it merges into is freshly allocated / Reset for every record at every caller (the snapshot sink reuses one StorageEntry for the whole stream); the snapshot stream's delimited writer (FSM.writeTo) and reader (BoltSnapshotSink.writeBoltDBFile) exist, frame as uvarint length + one message, and agree on the record type.",
		NotDecided: "byte-identical state for all logs and batchings (values); chunked entries; hashicorp/raft's and bbolt's own guarantees (trusted); index arithmetic beyond the stated predicates.",
		Run:        runC09,
	})
}

// reachableFrom: functions reachable from roots through static calls, closures
// and bound methods, restricted to package pkgAlias.
func reachableFrom(c *eng.Ctx, pkgAlias string, roots ...*ssa.Function) map[*ssa.Function]bool {
	seen := map[*ssa.Function]bool{}
	var stack []*ssa.Function
	for _, r := range roots {
		if r != nil {
			stack = append(stack, r)
		}
	}
	for len(stack) > 0 {
		f := stack[len(stack)-1]
		stack = stack[:len(stack)-1]
		if seen[f] || f.Blocks == nil {
			continue
		}
		if !eng.InPkg(f, pkgAlias) {
			continue
		}
		seen[f] = true
		for _, a := range f.AnonFuncs {
			stack = append(stack, a)
		}
		for _, b := range f.Blocks {
			for _, in := range b.Instrs {
				if ci, ok := in.(ssa.CallInstruction); ok {
					if cal := ci.Common().StaticCallee(); cal != nil {
						stack = append(stack, cal)
					}
				}
				var ops []*ssa.Value
				for _, op := range in.Operands(ops) {
					if op == nil || *op == nil {
						continue
					}
					switch x := (*op).(type) {
					case *ssa.Function:
						stack = append(stack, x)
					case *ssa.MakeClosure:
						if fn, ok := x.Fn.(*ssa.Function); ok {
							stack = append(stack, fn)
						}
					}
				}
			}
		}
	}
	return seen
}

func runC09(c *eng.Ctx, thorough bool) {
	apply := c.Fn("raft.(*FSM).ApplyBatch")
	if apply == nil {
		return
	}
	// ---------- C09.1 DEPENDS
	c.Clause("R10", "C09.1")
	reach := reachableFrom(c, "raft", apply)
	c.Floor(apply, "functions reachable from ApplyBatch inside package raft", len(reach), 15)
	table := map[string]string{
		// FSM
		"raft.FSM.l":              "lock only",
		"raft.FSM.logger":         "logging, no verdict flow",
		"raft.FSM.db":             "the persisted state itself",
		"raft.FSM.latestIndex":    "mirror of the persisted latestIndexKey (loaded in openDBFile, advanced after db.Update; clause 2)",
		"raft.FSM.latestTerm":     "mirror of the persisted term",
		"raft.FSM.latestConfig":   "mirror of the persisted configuration",
		"raft.FSM.applyCallback":  "test hook, no verdict flow",
		"raft.FSM.restoreCb":      "callback fired on a replicated restoreCallbackOp, result unused",
		"raft.FSM.unknownOpTypes": "log-once bookkeeping for unknown op types, no verdict flow",
		"raft.FSM.invalidateHook": "cache invalidation after the batch, no verdict flow",
		"raft.FSM.fastTxnTracker": "access path to the tracker (its fields are tabled below)",
		"raft.FSM.chunker":        "chunk reassembly (outside this claim)",
		"raft.FSM.noopRestore":    "test switch",
		"raft.FSM.path":           "filesystem location",
		// tracker
		"raft.fsmTxnCommitIndexTracker.l":                "lock only",
		"raft.fsmTxnCommitIndexTracker.indexModifiedMap": "in-memory record of writes applied since the database was opened; may only skip verification for windows starting at/after completeSince (checked below); trimmed only by the replicated LowestActiveIndex",
		"raft.fsmTxnCommitIndexTracker.completeSince":    "applied index the database was opened at (persisted cursor)",
		"raft.fsmTxnCommitIndexTracker.sourceIndexMap":   "leader-local count of open transactions; not read on the apply path today (listed so that a new read is noticed)",
		// per-command state
		"raft.fsmTxnCommitIndexApplicationState.parent":             "access path to the tracker",
		"raft.fsmTxnCommitIndexApplicationState.latestAppliedIndex": "persisted cursor at the start of the batch",
		"raft.fsmTxnCommitIndexApplicationState.commandOffset":      "position in the batch: only enables the whole-transaction fast path for the first command, whose verdict equals the slow path's because nothing was applied since the start index",
		"raft.fsmTxnCommitIndexApplicationState.commandIndex":       "log index (replicated)",
		"raft.fsmTxnCommitIndexApplicationState.txnStartIndex":      "from the replicated beginTxOp",
		"raft.fsmTxnCommitIndexApplicationState.inTx":               "derived from the replicated operations",
		"raft.fsmTxnCommitIndexApplicationState.modifiedMap":        "writes of this replicated transaction",
	}
	notOnApplyPath := map[string]bool{"raft.fsmTxnCommitIndexTracker.sourceIndexMap": true}
	reads := map[string][]string{}
	readsValue := map[string]bool{} // some access lets the field's value flow somewhere that matters
	var fns []*ssa.Function
	for f := range reach {
		fns = append(fns, f)
	}
	sort.Slice(fns, func(i, j int) bool { return fns[i].String() < fns[j].String() })
	for _, f := range fns {
		for _, b := range f.Blocks {
			for _, in := range b.Instrs {
				var fv interface{ Name() string }
				var owner string
				switch x := in.(type) {
				case *ssa.FieldAddr:
					if v := eng.FieldVar(x); v != nil {
						fv, owner = v, structTypeName(x.X.Type())
					}
				case *ssa.Field:
					if v := eng.FieldVar(x); v != nil {
						fv, owner = v, structTypeName(x.X.Type())
					}
				}
				if fv == nil {
					continue
				}
				switch owner {
				case "raft.FSM", "raft.fsmTxnCommitIndexTracker", "raft.fsmTxnCommitIndexApplicationState":
					k := owner + "." + fv.Name()
					reads[k] = append(reads[k], eng.FuncName(f))
					if !c09AccessUnobserved(in.(ssa.Value)) {
						readsValue[k] = true
					}
				}
			}
		}
	}
	var keys []string
	for k := range reads {
		keys = append(keys, k)
	}
	sort.Strings(keys)
	for _, k := range keys {
		who := uniqStr(reads[k])
		if r, ok := table[k]; ok && !notOnApplyPath[k] {
			c.OK(apply, "depends{"+k+"}", apply.Pos(), fmt.Sprintf("reviewed: %s (accessed in %s)", r, strings.Join(who, ", ")))
		} else if _, tabled := table[k]; !tabled && !readsValue[k] {
			c.OK(apply, "depends{"+k+"}", apply.Pos(), fmt.Sprintf("untabled field, but on the apply path it is only stored to / incremented / handed to metrics and logging: its value reaches no verdict, bucket write or recorded state (accessed in %s)", strings.Join(who, ", ")))
		} else {
			c.Violation(apply, "depends{"+k+"}", apply.Pos(), fmt.Sprintf("state read on the apply path is not in the reviewed dependence table (or is tabled as never read there): %s accessed in %s. The commit-or-conflict verdict may only depend on the log and on persisted state; review and classify this input", k, strings.Join(who, ", ")), nil)
		}
	}
	c.Floor(apply, "distinct tabled fields read on the apply path", len(keys), 12)
	// nondeterminism sources on the apply path
	for _, f := range fns {
		for _, cl := range eng.Calls(f, `^(time\.Now|time\.Since|math/rand\..*|math/rand/v2\..*|crypto/rand\..*|os\.Getenv|os\.LookupEnv|runtime\.NumGoroutine)$`) {
			// a clock/random value that only ends up in a metrics or log call is harmless: follow the value
			onlyMetrics := c09OnlyObserved(cl)
			if onlyMetrics {
				c.OK(f, "nondeterminism{"+eng.CalleeName(cl.Common())+"}", cl.Pos(), "value flows only into metrics")
			} else {
				c.Violation(f, "nondeterminism{"+eng.CalleeName(cl.Common())+"}", cl.Pos(), "a node-local nondeterministic source is consulted on the apply path", nil)
			}
		}
	}

	// the in-memory record may say 'unmodified' only for windows it fully covers
	for _, fn := range []string{"raft.(*fsmTxnCommitIndexTracker).hasModifiedEntry", "raft.(*fsmTxnCommitIndexTracker).hasModifiedListEntry"} {
		f := c.Fn(fn)
		if f == nil {
			continue
		}
		c.Clause("R2", "C09.1")
		var unmodified []ssa.Instruction
		for _, r := range eng.Returns(f) {
			if r.Block().Comment == "recover" {
				continue
			}
			vals, _, _ := eng.ReturnVals(r, 1)
			for _, v := range vals {
				if v == nil || eng.Expr(v) == "false" {
					unmodified = append(unmodified, r)
					break
				}
			}
		}
		if c.Floor(f, "returns reporting 'not modified'", len(unmodified), 1) {
			c.Cut(f, "return (_, false): window unmodified", unmodified, eng.G(f, `^minIndex < t\.completeSince$`, false), nil)
			// and only after the whole record was scanned
			c.Cut(f, "return (_, false): window unmodified", unmodified, eng.G(f, `^next\(range\(t\.indexModifiedMap\)\)#0$`, false), nil)
		}
		// entries at or below the window start are skipped, nothing else
		c.Clause("R2", "C09.4")
		skip := eng.CondEdges(f, `^minIndex < next\(range\(t\.indexModifiedMap\)\)#1$`, false)
		if len(skip) == 0 {
			c.Violation(f, "window lower bound", f.Pos(), "the scan no longer skips exactly the entries with index <= minIndex", nil)
		} else {
			c.OK(f, "window lower bound", skip[0].From.Instrs[len(skip[0].From.Instrs)-1].Pos(), "entries are skipped iff index <= minIndex")
		}
	}
	// reset from the persisted index in the single loader
	c.Clause("R1", "C09.1")
	c.CallerTable("fsmTxnCommitIndexTracker.reset", c.P.FindCalls(mustStatic(c, "raft.(*fsmTxnCommitIndexTracker).reset"), nil), map[string]string{
		"raft.(*FSM).openDBFile": "the loader of the persisted cursor",
	}, 1)
	c.CallerTable("FSM.openDBFile", c.P.FindCalls(mustStatic(c, "raft.(*FSM).openDBFile"), nil), map[string]string{
		"raft.NewFSM":         "process start",
		"raft.(*FSM).Restore": "snapshot install",
	}, 2)
	if f := c.Fn("raft.(*FSM).openDBFile"); f != nil {
		c.Clause("R5", "C09.1")
		rs := eng.Calls(f, `raft\.\(\*fsmTxnCommitIndexTracker\)\.reset$`)
		for _, r := range rs {
			c.Prov(f, "index the tracker is reset to", r, r.Common().Args[1], `^call:\(\*sync/atomic\.Uint64\)\.Load$`)
			if s := eng.ExprDeep(r.Common().Args[1]); !strings.Contains(s, "f.latestIndex") {
				c.Violation(f, "index the tracker is reset to", r.Pos(), "reset is not given f.latestIndex: "+s, nil)
			}
		}
		c.Clause("R2", "C09.1")
		succ := eng.SuccessReturns(f, 0)
		if len(rs) > 0 {
			c.Before(f, "tracker reset", instrsOf(rs), "successful open", succ)
			// after the cursor was loaded from bolt
			c.Before(f, "db.Update loading latestIndex/latestTerm/latestConfig", instrsOf(eng.Calls(f, `bbolt\.DB\)\.Update$`)), "tracker reset", instrsOf(rs))
		}
	}
	if f := c.Fn("raft.(*fsmTxnCommitIndexTracker).reset"); f != nil {
		c.Clause("R5", "C09.1")
		st := eng.Stores(f, `^t\.completeSince$`)
		if len(st) == 0 {
			c.Violation(f, "completeSince set", f.Pos(), "reset no longer records the index", nil)
		}
		for _, s := range st {
			c.Prov(f, "completeSince", s, s.Val, `^param:appliedIndex$`)
		}
		if len(eng.Calls(f, `^clear$`)) == 0 {
			c.Violation(f, "record cleared", f.Pos(), "reset no longer clears the record of recent writes", nil)
		} else {
			c.OK(f, "record cleared", f.Pos(), "indexModifiedMap cleared on reset")
		}
	}
	// writers of the verdict-relevant tracker fields
	c.Clause("R6", "C09.1")
	for fld, allowed := range map[string]map[string]bool{
		"raft.fsmTxnCommitIndexTracker.completeSince":    {"raft.(*fsmTxnCommitIndexTracker).reset": true},
		"raft.fsmTxnCommitIndexTracker.indexModifiedMap": {"raft.FsmTxnCommitIndexTracker": true},
	} {
		fv := c.P.Field(fld)
		if fv == nil {
			c.Unresolved(fld)
			continue
		}
		for _, w := range c.P.FieldWriters(fv) {
			n := eng.FuncName(eng.TopFunc(w.Fn))
			if allowed[n] {
				c.OK(w.Fn, "writer{"+fld+"}", w.Store.Pos(), "tabled writer")
			} else {
				c.Violation(w.Fn, "writer{"+fld+"}", w.Store.Pos(), "unexpected writer of "+fld, nil)
			}
		}
	}
	// map updates of indexModifiedMap: only logWrite / logTxnWrites (apply path) and trimming/reset
	c.Clause("R6", "C09.1")
	n := 0
	for _, f := range c.P.Funcs {
		if !eng.InPkg(f, "raft") {
			continue
		}
		for _, b := range f.Blocks {
			for _, in := range b.Instrs {
				mu, ok := in.(*ssa.MapUpdate)
				if !ok || !strings.HasSuffix(eng.Expr(mu.Map), ".indexModifiedMap") {
					continue
				}
				n++
				nm := eng.FuncName(eng.TopFunc(f))
				if nm == "raft.(*fsmTxnCommitIndexTracker).logWrite" || nm == "raft.(*fsmTxnCommitIndexTracker).logTxnWrites" {
					c.OK(f, "mapwriter{indexModifiedMap}", in.Pos(), "records a write applied from the log")
					c.Prov(f, "index key of the record", in, mu.Key, `^param:index$`)
				} else {
					c.Violation(f, "mapwriter{indexModifiedMap}", in.Pos(), "the record of recent writes is updated outside logWrite/logTxnWrites", nil)
				}
			}
		}
	}
	c.Floor(nil, "updates of indexModifiedMap", n, 2)
	for _, fn := range []string{"raft.(*fsmTxnCommitIndexTracker).logWrite", "raft.(*fsmTxnCommitIndexTracker).logTxnWrites"} {
		c.CallerTable(fn, c.P.FindCalls(mustStatic(c, fn), nil), map[string]string{
			"raft.(*fsmTxnCommitIndexApplicationState).logWrite":  "apply path",
			"raft.(*fsmTxnCommitIndexApplicationState).finishTxn": "apply path",
		}, 1)
	}

	// ---------- C09.2 one bolt update per batch
	c.Clause("R2", "C09.2")
	upd := eng.Calls(apply, `bbolt\.DB\)\.Update$`)
	if c.Floor(apply, "db.Update call", len(upd), 1) {
		if len(upd) != 1 {
			c.Violation(apply, "single db.Update", upd[1].Pos(), "ApplyBatch opens more than one bolt update: a batch is no longer applied atomically", nil)
		}
		var panics []ssa.Instruction
		for _, b := range apply.Blocks {
			for _, in := range b.Instrs {
				if _, ok := in.(*ssa.Panic); ok {
					panics = append(panics, in)
				}
			}
		}
		c.Clause("R4", "C09.2")
		c.CleanupOnEdges(apply, "db.Update failed", eng.CallFailEdges(upd[0]), "panic", panics)
		// data writes only inside the update closure
		c.Clause("R1", "C09.2")
		var clo *ssa.Function
		if mc, ok := upd[0].Common().Args[len(upd[0].Common().Args)-1].(*ssa.MakeClosure); ok {
			clo = mc.Fn.(*ssa.Function)
		}
		if clo == nil {
			c.Undecided(apply, "update closure", upd[0].Pos(), "db.Update is not given a closure literal")
		} else {
			for _, fn := range []string{"raft.(*FSM).applyBatchNonTxOps", "raft.(*FSM).applyBatchTxOps"} {
				sites := c.P.FindCalls(mustStatic(c, fn), nil)
				for _, s := range sites {
					if s.Fn == clo {
						c.OK(s.Fn, "callers{"+fn+"}", s.Call.Pos(), "called inside the batch's db.Update closure")
					} else {
						c.Violation(s.Fn, "callers{"+fn+"}", s.Call.Pos(), "data-bucket writer called outside the batch's single db.Update closure", nil)
					}
				}
				c.Floor(nil, "callers of "+fn, len(sites), 1)
			}
			// bucket writes reachable from ApplyBatch are all below the closure
			below := reachableFrom(c, "raft", clo)
			for f := range reach {
				for _, w := range eng.Calls(f, `bbolt\.Bucket\)\.(Put|Delete)$`) {
					if below[f] {
						c.OK(f, "bolt write inside the update closure", w.Pos(), eng.CalleeName(w.Common()))
					} else {
						c.Violation(f, "bolt write inside the update closure", w.Pos(), "bolt bucket write on the apply path outside the batch's update closure", nil)
					}
				}
			}
			// the persisted cursor: written in the closure, after the commands, only without error
			c.Clause("R2", "C09.2")
			var cursorPut []ssa.Instruction
			for _, p := range eng.Calls(clo, `bbolt\.Bucket\)\.Put$`) {
				if strings.Contains(eng.ExprDeep(p.Common().Args[1]), "latestIndexKey") {
					cursorPut = append(cursorPut, p)
				}
			}
			if c.Floor(clo, "configB.Put(latestIndexKey)", len(cursorPut), 1) {
				c.Cut(clo, "persisted cursor write", cursorPut, eng.G(clo, `^φerr\{.*\} == nil$`, true), nil)
				c.Clause("R5", "C09.2")
				for _, p := range cursorPut {
					c.Prov(clo, "persisted cursor value", p, p.(ssa.CallInstruction).Common().Args[2], `^freevar:logIndex$`)
				}
			}
		}
		// in-memory cursor after the update
		c.Clause("R3", "C09.2")
		var memStore []ssa.Instruction
		for _, s := range eng.Calls(apply, `atomic\.Uint64\)\.Store$`) {
			if strings.Contains(eng.Expr(s.Common().Args[0]), "latestIndex") {
				memStore = append(memStore, s)
			}
		}
		if c.Floor(apply, "f.latestIndex.Store", len(memStore), 1) {
			c.Before(apply, "db.Update", instrsOf(upd), "in-memory cursor advance", memStore)
			c.Clause("R5", "C09.2")
			for _, s := range memStore {
				c.Prov(apply, "in-memory cursor value", s, s.(ssa.CallInstruction).Common().Args[1], `\.Index$`)
			}
		}
	}

	// ---------- C09.3 trimming driven by the log
	c.Clause("R5", "C09.3")
	type trimSite struct {
		call ssa.CallInstruction
		arg  ssa.Value
	}
	var trims []trimSite
	for _, ce := range eng.Calls(apply, `raft\.\(\*fsmTxnCommitIndexTracker\)\.clearOldEntries$`) {
		trims = append(trims, trimSite{ce, ce.Common().Args[1]})
	}
	// a function literal of ApplyBatch that merely forwards one of its parameters: the bound is what
	// ApplyBatch hands to the literal
	for _, clo := range eng.Closures(apply) {
		for _, ce := range eng.Calls(clo, `raft\.\(\*fsmTxnCommitIndexTracker\)\.clearOldEntries$`) {
			pi := -1
			for i, p := range clo.Params {
				if ce.Common().Args[1] == ssa.Value(p) {
					pi = i
				}
			}
			if pi < 0 {
				continue
			}
			for _, cl := range eng.Calls(apply, `.`) {
				if mc, ok := cl.Common().Value.(*ssa.MakeClosure); ok && mc.Fn == ssa.Value(clo) && pi < len(cl.Common().Args) {
					trims = append(trims, trimSite{cl, cl.Common().Args[pi]})
				}
			}
		}
	}
	for _, ts := range trims {
		ce, arg := ts.call, ts.arg
		okAll := true
		var rs []string
		for _, r := range eng.Roots(arg, nil) {
			s := eng.Expr(r)
			rs = append(rs, s)
			if !strings.Contains(s, "lowestActiveIndex") && !strings.Contains(s, "LowestActiveIndex") && !eng.IsNilConst(r) {
				okAll = false
			}
		}
		// the captured variable is only assigned from command.LowestActiveIndex
		if okAll {
			c.OK(apply, "trim bound after the batch", ce.Pos(), "bound read out of "+strings.Join(rs, ", "))
		} else {
			c.Violation(apply, "trim bound after the batch", ce.Pos(), "the trim bound applied after a batch does not come from the log entry: "+strings.Join(rs, ", "), nil)
		}
	}
	for _, f := range eng.Closures(apply) {
		for _, st := range eng.Stores(f, `^\^lowestActiveIndex$`) {
			c.Prov(f, "lowestActiveIndex assigned in the batch loop", st, st.Val, `\.LowestActiveIndex$`)
		}
	}
	c.Floor(apply, "clearOldEntries after the batch", len(trims), 1)
	raftTrimBoundSkip(c, "C09.3")

	raftFastPath(c, "C09.4")

	// ---------- C09.5 verify everything, then write
	if f := c.Fn("raft.(*FSM).applyBatchTxOps"); f != nil {
		c.Clause("R3", "C09.5")
		writes := c09WriteSites(f)
		vr := eng.Calls(f, `doVerify(Read|List)$`)
		if c.Floor(f, "bucket writes", c09WriteCount(f), 2) && c.Floor(f, "verification calls", len(vr), 2) {
			c.NotAfter(f, "the first bucket write", writes, "a verification call", instrsOf(vr))
			// a verification failure returns before any write
			c.Clause("R4", "C09.5")
			for _, v := range vr {
				ev := eng.ResultValue(v, 0)
				fe := eng.ValueNilEdges(ev, false)
				if len(fe) == 0 {
					c.Violation(f, "on{verification failed} no write", v.Pos(), "the verification result is not tested", nil)
					continue
				}
				if h := eng.Reach(eng.Query{Fn: f, StartEdges: fe, Target: eng.IsTarget(writes)}); h != nil {
					c.Violation(f, "on{verification failed} no write", h.Instr.Pos(), "a bucket write is reachable after a failed verification", h.Witness)
				} else {
					c.OK(f, "on{verification failed} no write", v.Pos(), "failure edge never reaches a bucket write")
				}
			}
			// each verification's own result is tested before the next operation is looked at
			// (a later successful verification must not overwrite an earlier failure)
			c.Clause("R3", "C09.5")
			for _, v := range vr {
				vv, _ := v.(ssa.Value)
				var tests []ssa.Instruction
				for _, b := range f.Blocks {
					iff := eng.IfOf(b)
					if iff == nil {
						continue
					}
					bo, ok := iff.Cond.(*ssa.BinOp)
					if !ok {
						continue
					}
					for _, side := range []ssa.Value{bo.X, bo.Y} {
						for _, o := range eng.Origins(side) {
							if o.Val == vv {
								tests = append(tests, iff)
							}
						}
					}
				}
				site := "verification result tested before the next operation"
				if len(tests) == 0 {
					c.Violation(f, site, v.Pos(), "the result of "+eng.CalleeName(v.Common())+" is never tested", nil)
					continue
				}
				target := func(in ssa.Instruction) bool {
					for _, o := range vr {
						if in == ssa.Instruction(o) {
							return true
						}
					}
					for _, w := range writes {
						if in == w {
							return true
						}
					}
					return false
				}
				if h := eng.Reach(eng.Query{Fn: f, StartAfter: v, Barriers: tests, Target: target}); h != nil {
					c.Violation(f, site, h.Instr.Pos(), "after "+eng.CalleeName(v.Common())+" the next verification (or a write) is reachable without testing its result: a later success overwrites an earlier failure and the writes are applied", h.Witness)
				} else {
					c.OK(f, site, v.Pos(), "every path from the call to the next verification or write crosses a test of its result")
				}
			}
			// writes only after the verification loop ended
			c.Clause("R2", "C09.5")
			loopDone := eng.CondEdges(f, `rangeindex.*len\(command\.Operations\)$`, false)
			c.Cut(f, "bucket writes of a transaction", writes, eng.Guard{Desc: "exit edge of a loop over command.Operations (the verification loop comes first)", Edges: loopDone}, nil)
			// the start index comes from the replicated beginTxOp
			c.Clause("R5", "C09.5")
			for _, s := range eng.Calls(f, `setStartIndex$`) {
				c.Prov(f, "transaction start index", s, s.Common().Args[1], `parseBeginTxOpValue`)
			}
			c.Floor(f, "setStartIndex", len(eng.Calls(f, `setStartIndex$`)), 1)
			c.Before(f, "setInTx", instrsOf(eng.Calls(f, `setInTx$`)), "verification", instrsOf(vr))
		}
	}
	if clo := apply; clo != nil {
		// only a commit failure of a transaction is turned into a per-entry verdict; any other
		// error (a node-local bolt error, say) fails the whole batch on this replica
		kv, okc := c.P.ConstValue("raft.fsmEntryTxErrorKey")
		if !okc {
			c.Unresolved("raft.fsmEntryTxErrorKey")
		}
		nv := 0
		// ApplyBatch, its function literals, and the functions of the package those call (the construction
		// of the sentinel extracted into a helper is held to the same conditions there)
		verdictFns := append([]*ssa.Function{apply}, eng.Closures(apply)...)
		for _, f := range append([]*ssa.Function{}, verdictFns...) {
			for _, cl := range eng.Calls(f, `^raft\.`) {
				g := cl.Common().StaticCallee()
				if g == nil || g.Blocks == nil || !eng.InPkg(g, "raft") {
					continue
				}
				dup := false
				for _, h := range verdictFns {
					dup = dup || h == g
				}
				if !dup {
					verdictFns = append(verdictFns, g)
				}
			}
		}
		for _, f := range verdictFns {
			for _, st := range eng.Instrs(f, func(in ssa.Instruction) bool {
				s, ok := in.(*ssa.Store)
				if !ok {
					return false
				}
				fa, ok := s.Addr.(*ssa.FieldAddr)
				if !ok || eng.FieldVar(fa) == nil || eng.FieldVar(fa).Name() != "Key" || !strings.Contains(fa.X.Type().String(), "FSMEntry") {
					return false
				}
				cst, ok := s.Val.(*ssa.Const)
				return ok && cst.Value != nil && (cst.Value.ExactString() == kv || eng.Expr(cst) == kv || eng.Expr(cst) == strconv.Quote(kv))
			}) {
				nv++
				c.Clause("R2", "C09.5")
				c.Cut(f, "conflict verdict entry", []ssa.Instruction{st}, eng.G(f, `^errors\.Is\(\)$`, true), nil)
				c.Cut(f, "conflict verdict entry", []ssa.Instruction{st}, c09InTx(f), nil)
				// what errors.Is compares with
				c.Clause("R5", "C09.5")
				for _, is := range eng.Calls(f, `^errors\.Is$`) {
					c.Prov(f, "error class turned into a verdict", is, is.Common().Args[1], `^global:physical\.ErrTransactionCommitFailure$`)
				}
			}
			// the batch error is cleared only on that arm
			for _, e := range eng.PhiEdges(f, "err", func(v ssa.Value) bool { return eng.IsNilConst(v) }) {
				_ = e
			}
		}
		c.Clause("R2", "C09.5")
		c.Floor(apply, "conflict verdict entry (FSMEntry{Key: fsmEntryTxErrorKey})", nv, 1)
		// applyState receives the batch-invariant latest index, the command's offset in the batch and its log index
		for _, f := range append([]*ssa.Function{apply}, eng.Closures(apply)...) {
			for _, as := range eng.Calls(f, `fsmTxnCommitIndexTracker\)\.applyState$`) {
				a := as.Common().Args
				c.Clause("R5", "C09.4")
				s1, s2, s3 := eng.ExprDeep(a[1]), eng.ExprDeep(a[2]), eng.ExprDeep(a[3])
				if strings.Contains(s1, "latestIndex") && strings.Contains(s1, "Load") {
					c.OK(f, "applyState latest index", as.Pos(), s1)
				} else {
					c.Violation(f, "applyState latest index", as.Pos(), "applyState's latest index is "+s1+", not f.latestIndex.Load()", nil)
				}
				if strings.Contains(s2, "rangeindex") {
					c.OK(f, "applyState command offset", as.Pos(), s2)
				} else {
					c.Violation(f, "applyState command offset", as.Pos(), "the command's offset in the batch is "+s2+", not the loop index over the batch: the fast path would fire for commands that are not first in their batch", nil)
				}
				if strings.Contains(s3, "logs[") && strings.HasSuffix(s3, ".Index") && strings.Contains(s3, "rangeindex") {
					c.OK(f, "applyState log index", as.Pos(), s3)
				} else {
					c.Violation(f, "applyState log index", as.Pos(), "the command's log index is "+s3+", not logs[i].Index of the same i", nil)
				}
			}
		}
	}
	// a transaction's writes are recorded in the tracker before the next command of the same batch is
	// looked at: later commands consult the tracker for their fast-path decision, so recording them only
	// after the batch makes the verdict depend on how the log is cut into batches (seed C09-b)
	if f := c.Fn("raft.(*FSM).applyBatchTxOps"); f != nil {
		c.Clause("R3", "C09.4")
		fin := instrsOf(eng.Calls(f, `fsmTxnCommitIndexApplicationState\)\.finishTxn$`))
		succ := eng.SuccessReturns(f, 0)
		site := "a committed transaction's writes are recorded before the next command"
		if len(fin) == 0 {
			c.Violation(f, site, f.Pos(), "applyBatchTxOps no longer records the transaction in the fast-path tracker (finishTxn) before it returns: later commands of the same batch do not see its writes", nil)
		} else if h := eng.Reach(eng.Query{Fn: f, Barriers: fin, Target: eng.IsTarget(succ)}); h != nil {
			c.Violation(f, site, h.Instr.Pos(), "applyBatchTxOps can report success without having recorded the transaction's writes (finishTxn)", h.Witness)
		} else {
			c.OK(f, site, fin[0].Pos(), "every nil-error return of applyBatchTxOps passes finishTxn")
		}
		c.Clause("R1", "C09.4")
		if m, miss := c.P.StaticCallee("raft.(*fsmTxnCommitIndexApplicationState).finishTxn"); len(miss) == 0 {
			c.CallerTable("fsmTxnCommitIndexApplicationState.finishTxn", c.P.FindCalls(m, nil), map[string]string{
				"raft.(*FSM).applyBatchTxOps": "at the end of the transaction's own application, inside the batch loop",
			}, 1)
		} else {
			c.Unresolved("raft.(*fsmTxnCommitIndexApplicationState).finishTxn")
		}
	}
	if f := c.Fn("raft.(*FSM).applyBatchNonTxOps"); f != nil {
		c.Clause("R3", "C09.4")
		lw := eng.Calls(f, `fsmTxnCommitIndexApplicationState\)\.logWrite$`)
		c.Floor(f, "writes recorded by non-transactional commands", len(lw), 1)
	}
	// writes are recorded under the command's own log index
	for _, pr := range []struct{ fn, callee string }{
		{"raft.(*fsmTxnCommitIndexApplicationState).logWrite", `fsmTxnCommitIndexTracker\)\.logWrite$`},
		{"raft.(*fsmTxnCommitIndexApplicationState).finishTxn", `fsmTxnCommitIndexTracker\)\.logTxnWrites$`},
	} {
		if f := c.Fn(pr.fn); f != nil {
			c.Clause("R5", "C09.4")
			type recSite struct {
				fn *ssa.Function
				cl ssa.CallInstruction
			}
			var cs []recSite
			for _, g := range append([]*ssa.Function{f}, eng.Closures(f)...) { // directly, or in a function literal of f
				for _, cl := range eng.Calls(g, pr.callee) {
					cs = append(cs, recSite{g, cl})
				}
			}
			if c.Floor(f, "tracker record call", len(cs), 1) {
				for _, r := range cs {
					c.Prov(r.fn, "index a write is recorded under", r.cl, r.cl.Common().Args[1], `^field:\^?s\.commandIndex$`)
				}
			}
		}
	}
	runC09Gaps2(c)
}

// raftTrimBoundSkip: on the leader a transaction's own start index is excluded
// from the bound it ships only if it is the only active one at that index.
// Shared by C09 (replicas trim alike) and C08 (a bound that is too high lets a
// sibling transaction begun at the same index commit with a stale read).
func raftTrimBoundSkip(c *eng.Ctx, clause string) {
	if f := c.Fn("raft.(*fsmTxnCommitIndexTracker).lowestActiveIndexAfterCommit"); f != nil {
		c.Clause("R2", clause)
		mins := instrsOf(eng.Calls(f, `^min$`))
		body := eng.CondEdges(f, `^next\(range\(t\.sourceIndexMap\)\)#0$`, true)
		hdr := eng.EdgeIfs(body)
		if c.Floor(f, "min() accumulation", len(mins), 1) && len(body) > 0 {
			for _, g := range []eng.Guard{
				eng.G(f, `^next\(range\(t\.sourceIndexMap\)\)#1 == transactionStartIndex$`, true),
				eng.G(f, `^next\(range\(t\.sourceIndexMap\)\)#2 == 1$`, true),
			} {
				site := "skip of a start index needs " + g.Desc
				if len(g.Edges) == 0 {
					c.Violation(f, site, f.Pos(), "the condition under which an active start index is ignored changed: "+g.Desc+" is no longer tested (a transaction's start index may only be excluded from the shipped bound when it is the committing transaction's own index and no sibling transaction is open at it)", nil)
					continue
				}
				if h := eng.Reach(eng.Query{Fn: f, StartEdges: body, Barriers: mins, Blocked: g.Edges, Target: eng.IsTarget(hdr)}); h != nil {
					c.Violation(f, site, h.Instr.Pos(), "an active start index can be skipped (not folded into the minimum) without "+g.Desc, h.Witness)
				} else {
					c.OK(f, site, mins[0].Pos(), "every loop iteration folds the index into the minimum unless "+g.Desc)
				}
			}
		}
	}
}

// c09FastTrueEdges: the CFG edges of f on which a fast-path predicate
// (canFastWrite / canFastWriteBypassRead / canFastWriteBypassList) is known to
// have returned true. The set F of boolean values that can only be true if a
// predicate returned true is closed under phis whose other inputs are false, or
// the constant true arriving over an edge already in the result (a || b).
func c09FastTrueEdges(f *ssa.Function) []eng.Edge {
	inF := map[ssa.Value]bool{}
	for _, cl := range eng.Calls(f, `fsmTxnCommitIndexApplicationState\)\.canFastWrite(Bypass(Read|List))?$`) {
		if v, ok := cl.(ssa.Value); ok {
			inF[v] = true
		}
	}
	for _, cl := range eng.Calls(f, `fsmTxnCommitIndexTracker\)\.hasModified(List)?Entry$`) {
		// inlined bypass predicate: the negation of the record's 'modified' answer
		if found := eng.ResultValue(cl, 1); found != nil && found.Referrers() != nil {
			for _, r := range *found.Referrers() {
				if u, ok := r.(*ssa.UnOp); ok && u.Op == token.NOT {
					inF[u] = true
				}
			}
		}
	}
	edges := map[eng.Edge]bool{}
	var out []eng.Edge
	for changed := true; changed; {
		changed = false
		for v := range inF {
			for _, e := range eng.BoolEdges(v, true) {
				if !edges[e] {
					edges[e] = true
					out = append(out, e)
					changed = true
				}
			}
		}
		for _, b := range f.Blocks {
			for _, in := range b.Instrs {
				p, ok := in.(*ssa.Phi)
				if !ok || inF[p] {
					continue
				}
				all := len(p.Edges) > 0
				for i, e := range p.Edges {
					switch {
					case inF[e]:
					case eng.Expr(e) == "false":
					case eng.Expr(e) == "true":
						pred, via := b.Preds[i], false
						for si, sb := range pred.Succs {
							if sb == b && edges[eng.Edge{From: pred, Succ: si}] {
								via = true
							}
						}
						if !via {
							all = false
						}
					default:
						all = false
					}
				}
				if all {
					inF[p] = true
					changed = true
				}
			}
		}
	}
	sort.Slice(out, func(i, j int) bool {
		if out[i].From.Index != out[j].From.Index {
			return out[i].From.Index < out[j].From.Index
		}
		return out[i].Succ < out[j].Succ
	})
	return out
}

// c09WriteSites: where f writes the data bucket: its own bucket writes and its
// calls of functions of the package that (transitively, two levels) contain
// bucket writes - a write loop extracted into a helper is still a write.
func c09WriteSites(f *ssa.Function) []ssa.Instruction {
	const pat = `bbolt\.Bucket\)\.(Put|Delete)$`
	var writesIn func(g *ssa.Function, depth int) bool
	writesIn = func(g *ssa.Function, depth int) bool {
		if g == nil || g.Blocks == nil || !eng.InPkg(g, "raft") {
			return false
		}
		if len(eng.Calls(g, pat)) > 0 {
			return true
		}
		if depth == 0 {
			return false
		}
		for _, cl := range eng.Calls(g, `^raft\.`) {
			if h := cl.Common().StaticCallee(); h != nil && h != g && writesIn(h, depth-1) {
				return true
			}
		}
		return false
	}
	out := instrsOf(eng.Calls(f, pat))
	for _, cl := range eng.Calls(f, `^raft\.`) {
		if g := cl.Common().StaticCallee(); g != nil && g != f && writesIn(g, 1) {
			out = append(out, cl)
		}
	}
	return out
}

// c09WriteCount: the number of bucket writes behind c09WriteSites(f) (a helper
// counts with the writes it contains), for vacuity floors.
func c09WriteCount(f *ssa.Function) int {
	const pat = `bbolt\.Bucket\)\.(Put|Delete)$`
	n := 0
	for _, in := range c09WriteSites(f) {
		n++
		if cl, ok := in.(ssa.CallInstruction); ok {
			if g := cl.Common().StaticCallee(); g != nil && eng.InPkg(g, "raft") {
				if k := len(eng.Calls(g, pat)); k > 1 {
					n += k - 1
				}
			}
		}
	}
	return n
}

// c09InTx: the edges of f on which the command is known to be a transaction:
// the per-command state's inTx field tested true - read directly, or through a
// function of the package that returns nothing but that field of its receiver.
func c09InTx(f *ssa.Function) eng.Guard {
	isField := func(v ssa.Value) bool {
		ld, ok := v.(*ssa.UnOp)
		if !ok || ld.Op != token.MUL {
			return false
		}
		fa, ok := ld.X.(*ssa.FieldAddr)
		if !ok {
			return false
		}
		fv := eng.FieldVar(fa)
		return fv != nil && fv.Name() == "inTx" && strings.HasSuffix(structTypeName(fa.X.Type()), "fsmTxnCommitIndexApplicationState")
	}
	g := eng.Guard{Desc: "[the per-command state's inTx]=true"}
	for _, b := range f.Blocks {
		ifi := eng.IfOf(b)
		if ifi == nil {
			continue
		}
		v := eng.Normalize(ifi.Cond).Val
		ok := isField(v)
		if cl, isCall := v.(*ssa.Call); isCall && !ok {
			if callee := cl.Call.StaticCallee(); callee != nil && len(callee.Blocks) > 0 && eng.InPkg(callee, "raft") {
				ok = true
				n := 0
				for _, r := range eng.Returns(callee) {
					if r.Block().Comment == "recover" {
						continue
					}
					n++
					if len(r.Results) != 1 || !isField(r.Results[0]) {
						ok = false
					}
				}
				ok = ok && n > 0
			}
		}
		if ok {
			g.Edges = append(g.Edges, eng.BoolEdges(v, true)...)
		}
	}
	return g
}

// c09OwnArgument: v, used in fn (top itself or a function literal of top), is
// top's own last parameter - directly, or as the parameter of the literal that
// top passes that argument to. Returns "" if so, else what v may be instead.
func c09OwnArgument(top, fn *ssa.Function, v ssa.Value) string {
	if len(top.Params) < 2 {
		return "the function has no such parameter"
	}
	want := ssa.Value(top.Params[len(top.Params)-1])
	var frames []*nfFrame
	if fn == top {
		frames = []*nfFrame{nil}
	} else {
		for _, ci := range nfAllCalls(top) {
			if g, _ := nfFuncValue(ci.Common().Value); g == fn {
				frames = append(frames, &nfFrame{call: ci})
				continue
			}
			// the literal is one of several a local variable may hold
			for _, r := range eng.Roots(ci.Common().Value, nil) {
				if g, _ := nfFuncValue(r); g == fn {
					frames = append(frames, &nfFrame{call: ci})
				}
			}
		}
	}
	if len(frames) == 0 {
		return "the function literal is not called from " + eng.FuncName(top)
	}
	for _, fr := range frames {
		os := nfOrigins(v, fr)
		if len(os) == 0 {
			return "no origin"
		}
		for _, o := range os {
			if o.Val == want {
				continue
			}
			// nfArgFor resolves only a literal that is the certain target of the call; for a call through
			// a variable that may hold several literals, resolve the parameter by position here
			if p, ok := o.Val.(*ssa.Parameter); ok && p.Parent() == fn && fr != nil {
				matched := false
				for i, q := range fn.Params {
					if q == p && i < len(fr.call.Common().Args) {
						for _, oo := range eng.Origins(fr.call.Common().Args[i]) {
							matched = oo.Val == want
						}
					}
				}
				if matched {
					continue
				}
			}
			return o.Kind + ":" + o.Desc
		}
	}
	return ""
}

func c09ObserverCall(cc *ssa.CallCommon) bool {
	n := eng.CalleeName(cc)
	return strings.Contains(n, "go-metrics") || strings.Contains(n, "go-hclog")
}

// c09OnlyObserved: the value produced at `from` (a clock reading, a random
// number, a counter) flows only into metrics / logging calls - possibly through
// arithmetic, conversions, time.* helpers, a variadic argument array, or the
// parameter of a function literal it is handed to. Anything else (a branch, a
// return, a store to shared memory, any other call) may carry it to a verdict.
func c09OnlyObserved(from ssa.Instruction) bool {
	v, ok := from.(ssa.Value)
	if !ok {
		return false
	}
	seen := map[ssa.Value]bool{}
	var flows func(v ssa.Value, depth int) bool
	useOK := func(v ssa.Value, r ssa.Instruction, depth int) bool {
		switch x := r.(type) {
		case *ssa.DebugRef:
			return true
		case *ssa.Convert, *ssa.ChangeType, *ssa.MakeInterface, *ssa.BinOp, *ssa.Phi, *ssa.Extract, *ssa.Field, *ssa.Slice, *ssa.ChangeInterface:
			return flows(x.(ssa.Value), depth+1)
		case *ssa.UnOp:
			return flows(x, depth+1)
		case *ssa.IndexAddr, *ssa.FieldAddr:
			// address computed from a tainted local array/struct: its loads and the calls it is handed to
			return flows(x.(ssa.Value), depth+1)
		case *ssa.Store:
			if x.Val != v {
				return true // stored *into* a tainted local: nothing leaves
			}
			// the cell must be function-local: an Alloc, or an element/field of one
			base := x.Addr
			for {
				switch a := base.(type) {
				case *ssa.IndexAddr:
					base = a.X
					continue
				case *ssa.FieldAddr:
					base = a.X
					continue
				}
				break
			}
			al, isAlloc := base.(*ssa.Alloc)
			if !isAlloc {
				return false
			}
			return flows(al, depth+1)
		case ssa.CallInstruction:
			cc := x.Common()
			if c09ObserverCall(cc) {
				return true
			}
			if n := eng.CalleeName(cc); strings.HasPrefix(n, "time.") || strings.HasPrefix(n, "(time.") {
				if cv, isV := x.(ssa.Value); isV {
					return flows(cv, depth+1)
				}
				return true
			}
			// handed to a function literal: follow the parameter
			var fn *ssa.Function
			switch cv := cc.Value.(type) {
			case *ssa.MakeClosure:
				fn, _ = cv.Fn.(*ssa.Function)
			case *ssa.Function:
				if cv.Parent() != nil {
					fn = cv
				}
			}
			if fn == nil || cc.IsInvoke() {
				return false
			}
			for i, a := range cc.Args {
				if a == v {
					if i >= len(fn.Params) || !flows(fn.Params[i], depth+1) {
						return false
					}
				}
			}
			if cv, isV := x.(ssa.Value); isV && cv.Referrers() != nil && len(*cv.Referrers()) > 0 {
				return false // the literal's result is used: not followed
			}
			return true
		}
		return false
	}
	flows = func(v ssa.Value, depth int) bool {
		if seen[v] {
			return true
		}
		seen[v] = true
		if depth > 12 {
			return false
		}
		refs := v.Referrers()
		if refs == nil {
			return true
		}
		for _, r := range *refs {
			if !useOK(v, r, depth) {
				return false
			}
		}
		return true
	}
	return flows(v, 0)
}

// c09AccessUnobserved: this access (FieldAddr / Field) of a struct field lets
// the field's value flow nowhere that matters: it is only stored to, or loaded
// to be incremented and stored back, or loaded into metrics / logging.
func c09AccessUnobserved(acc ssa.Value) bool {
	fa, ok := acc.(*ssa.FieldAddr)
	if !ok {
		return c09OnlyObserved(acc.(ssa.Instruction))
	}
	if fa.Referrers() == nil {
		return true
	}
	// the same field of the same object, whichever address instruction computes it
	sameCell := func(a ssa.Value) bool {
		o, ok := a.(*ssa.FieldAddr)
		return ok && (o == fa || (eng.FieldVar(o) == eng.FieldVar(fa) && eng.ExprDeep(o.X) == eng.ExprDeep(fa.X)))
	}
	for _, r := range *fa.Referrers() {
		switch x := r.(type) {
		case *ssa.DebugRef:
		case *ssa.Call:
			// an atomic counter: bumped or overwritten with the result dropped, or read into metrics/logging
			n := eng.CalleeName(x.Common())
			if !strings.HasPrefix(n, "(*sync/atomic.") || len(x.Call.Args) == 0 || x.Call.Args[0] != ssa.Value(fa) {
				return false
			}
			switch {
			case strings.HasSuffix(n, ").Add") || strings.HasSuffix(n, ").Store"):
				if x.Referrers() != nil && len(*x.Referrers()) > 0 {
					return false
				}
			case strings.HasSuffix(n, ").Load"):
				if !c09OnlyObserved(x) {
					return false
				}
			default:
				return false
			}
		case *ssa.Store:
			if x.Addr != ssa.Value(fa) {
				return false // the address itself escapes
			}
		case *ssa.UnOp:
			if x.Op != token.MUL || x.Referrers() == nil {
				return false
			}
			for _, lr := range *x.Referrers() {
				bo, isB := lr.(*ssa.BinOp)
				if isB && (bo.Op == token.ADD || bo.Op == token.SUB) {
					other := bo.Y
					if bo.Y == ssa.Value(x) {
						other = bo.X
					}
					if _, isC := other.(*ssa.Const); isC && bo.Referrers() != nil {
						back := true
						for _, br := range *bo.Referrers() {
							st, isSt := br.(*ssa.Store)
							if !isSt || !sameCell(st.Addr) {
								back = false
							}
						}
						if back {
							continue
						}
					}
				}
				return false
			}
		default:
			return false
		}
	}
	return true
}

func uniqStr(xs []string) []string {
	sort.Strings(xs)
	var out []string
	for i, x := range xs {
		if i == 0 || x != xs[i-1] {
			out = append(out, x)
		}
	}
	return out
}

// raftFastPath: the predicates that let a replica skip the verification of a
// transaction. Shared by C08 (serializability needs them to be conservative)
// and C09 (replicas must agree on them).
func raftFastPath(c *eng.Ctx, clause string) {
	// ---------- C09.4 fast-path predicates
	if f := c.Fn("raft.(*fsmTxnCommitIndexApplicationState).canFastWrite"); f != nil {
		c.Clause("R2", clause)
		var trueRets []ssa.Instruction
		for _, r := range eng.Returns(f) {
			if eng.Expr(r.Results[0]) != "false" {
				trueRets = append(trueRets, r)
			}
		}
		truthy := eng.PhiEdges(f, "&&", func(v ssa.Value) bool { return eng.Expr(v) != "false" })
		if len(truthy) == 0 {
			// not a short-circuit chain any more: fall back to the returns
			c.Cut(f, "canFastWrite = true", trueRets, eng.G(f, `^s\.inTx$`, true), nil)
			c.Cut(f, "canFastWrite = true", trueRets, eng.G(f, `^s\.commandOffset == 0$`, true), nil)
		} else {
			c.CutEdges(f, "canFastWrite may be true", truthy, eng.G(f, `^s\.inTx$`, true))
			c.CutEdges(f, "canFastWrite may be true", truthy, eng.G(f, `^s\.commandOffset == 0$`, true))
		}
		// the remaining conjunct compares applied index and start index
		found := false
		for _, b := range f.Blocks {
			for _, in := range b.Instrs {
				if bo, ok := in.(*ssa.BinOp); ok {
					s := eng.Expr(bo)
					if s == "s.latestAppliedIndex == s.txnStartIndex" || s == "s.txnStartIndex == s.latestAppliedIndex" {
						found = true
					}
				}
			}
		}
		if found {
			c.OK(f, "applied index == start index", f.Pos(), "third conjunct present")
		} else {
			c.Violation(f, "applied index == start index", f.Pos(), "canFastWrite no longer compares the applied index at the start of the batch with the transaction's start index", nil)
		}
	}
	// every query of the record of recent writes on the apply path asks about exactly the
	// (start, command] window; where the query sits in a bypass predicate of its own, the predicate
	// is the negation of the answer (inlined into doVerify*, c09FastTrueEdges holds it to the same)
	c.Clause("R5", clause)
	if m, miss := c.P.StaticCallee("raft.(*fsmTxnCommitIndexTracker).hasModifiedEntry", "raft.(*fsmTxnCommitIndexTracker).hasModifiedListEntry"); len(miss) == 0 {
		qs := c.P.FindCalls(m, func(fn *ssa.Function) bool { return eng.InPkg(fn, "raft") })
		sort.Slice(qs, func(i, j int) bool { return qs[i].Call.Pos() < qs[j].Call.Pos() })
		judged := map[*ssa.Function]bool{}
		for _, q := range qs {
			a := q.Call.Common().Args
			// (the receiver may be seen through a function literal's capture)
			c.Prov(q.Fn, "window lower bound", q.Call, a[1], `^field:\^?s\.txnStartIndex$`)
			c.Prov(q.Fn, "window upper bound", q.Call, a[2], `^field:\^?s\.commandIndex$`)
			top := eng.TopFunc(q.Fn)
			if !strings.Contains(eng.FuncName(top), "canFastWriteBypass") {
				continue
			}
			// the key asked about is the predicate's own argument (by position: its only one), also when
			// the query sits in a function literal of the predicate that is handed that argument
			site := "key queried"
			if len(top.Params) < 2 {
				c.Undecided(top, site, q.Call.Pos(), "the bypass predicate has no key parameter")
			} else {
				want := ssa.Value(top.Params[len(top.Params)-1])
				var frames []*nfFrame
				if q.Fn == top {
					frames = []*nfFrame{nil}
				} else {
					for _, ci := range nfAllCalls(top) {
						if g, _ := nfFuncValue(ci.Common().Value); g == q.Fn {
							frames = append(frames, &nfFrame{call: ci})
						}
					}
				}
				bad := ""
				if len(frames) == 0 {
					bad = "the function literal holding the query is not called from the predicate"
				}
				for _, fr := range frames {
					for _, o := range nfOrigins(a[3], fr) {
						if o.Val != want {
							bad = o.Kind + ":" + o.Desc
						}
					}
				}
				if bad == "" {
					c.OK(q.Fn, site, q.Call.Pos(), "the predicate's own argument "+eng.Expr(want))
				} else {
					c.Violation(q.Fn, site, q.Call.Pos(), "the record is asked about "+bad+", not about the key / prefix the bypass predicate was given", nil)
				}
			}
			// the predicate is the negation of the record's 'modified' answer (judged on what the
			// top-level predicate returns; the answer may come back through a function literal)
			if judged[top] {
				continue
			}
			judged[top] = true
			var answer, negated func(v ssa.Value, depth int) bool
			viaLiteral := func(v ssa.Value, depth int, each func(ssa.Value, int) bool) bool {
				cl, ok := v.(*ssa.Call)
				if !ok || depth == 0 {
					return false
				}
				g, _ := nfFuncValue(cl.Call.Value)
				if g == nil || eng.TopFunc(g) != top || len(g.Blocks) == 0 {
					return false
				}
				n := 0
				for _, r := range eng.Returns(g) {
					if r.Block().Comment == "recover" {
						continue
					}
					n++
					if len(r.Results) != 1 || !each(r.Results[0], depth-1) {
						return false
					}
				}
				return n > 0
			}
			answer = func(v ssa.Value, depth int) bool {
				if ex, ok := v.(*ssa.Extract); ok && ex.Index == 1 {
					if cl, isCall := ex.Tuple.(*ssa.Call); isCall && m(&cl.Call) {
						return true
					}
				}
				return viaLiteral(v, depth, answer)
			}
			negated = func(v ssa.Value, depth int) bool {
				if u, ok := v.(*ssa.UnOp); ok && u.Op == token.NOT {
					return answer(u.X, depth)
				}
				return viaLiteral(v, depth, negated)
			}
			for _, r := range eng.Returns(top) {
				if r.Block().Comment == "recover" {
					continue
				}
				s := eng.ExprDeep(r.Results[0])
				if negated(r.Results[0], 2) {
					c.OK(top, "bypass = !modified", r.Pos(), s)
				} else {
					c.Violation(top, "bypass = !modified", r.Pos(), "the bypass predicate is not the negation of the tracker's 'modified' answer: "+s, nil)
				}
			}
		}
		c.Floor(nil, "queries of the record of recent writes", len(qs), 2)
	} else {
		c.Unresolved(strings.Join(miss, ", "))
	}
	for fn, spec := range map[string][2]string{
		"raft.(*fsmTxnCommitIndexApplicationState).doVerifyRead": {`bbolt\.Bucket\)\.Get$`, `raft\.doVerifyEntry$`},
		"raft.(*fsmTxnCommitIndexApplicationState).doVerifyList": {`raft\.listPageInner$`, `raft\.doVerifyList$`},
	} {
		f := c.Fn(fn)
		if f == nil {
			continue
		}
		c.Clause("R2", clause)
		// a nil return without verifying against storage needs one of the two fast predicates
		ver := instrsOf(eng.Calls(f, spec[1]))
		if !c.Floor(f, "slow-path verification", len(ver), 1) {
			continue
		}
		var nilRets []ssa.Instruction
		for _, r := range eng.SuccessReturns(f, 0) {
			nilRets = append(nilRets, r)
		}
		// the edges on which one of the fast predicates is known to have answered true: tested directly,
		// through a flag it was assigned to, or through a short-circuit merge of them
		blocked := c09FastTrueEdges(f)
		for _, rd := range eng.Calls(f, spec[0]) {
			blocked = append(blocked, eng.CallFailEdges(rd)...) // a failed storage read is returned as an error
		}
		if h := eng.Reach(eng.Query{Fn: f, Barriers: ver, Blocked: blocked, Target: eng.IsTarget(nilRets)}); h != nil {
			c.Violation(f, "nil verdict needs a fast predicate or storage verification", h.Instr.Pos(), "verification can be reported successful without consulting storage and without a fast-path predicate", h.Witness)
		} else {
			c.OK(f, "nil verdict needs a fast predicate or storage verification", ver[0].Pos(), "every nil return crosses canFastWrite/canFastWriteBypass* == true or runs the storage verification")
		}
		c.Floor(f, "storage read on the slow path", len(eng.Calls(f, spec[0])), 1)
	}

}
