package props

import (
	"go/token"
	"go/types"
	"strings"

	"golang.org/x/tools/go/ssa"

	"obsa/eng"
)

func init() {
	register(&Prop{
		ID: "C18",
		Explanation: "Structural necessary conditions of 'a response-wrapping token reveals its payload exactly once': " +
			"(1) the wrapping token built by Core.wrapInCubbyhole is single-use (NumUses: 1), carries only the response-wrapping policy, and has TTL = ExplicitMaxTTL = the wrap TTL; the lease registered for it (the thing that expires it) carries that same entry's TTL and is not renewable; the payload and the wrap info are stored under that token's own cubbyhole (request ClientToken = the new token's ID, constant cubbyhole paths); " +
			"(2) once wrapInCubbyhole ran, Core.handleCancelableRequest returns only wrapInCubbyhole's own (error) response or a fresh response whose only populated fields are WrapInfo and Warnings — never the original response; " +
			"(3) the three sys/wrapping/{lookup,rewrap,unwrap} paths reach the request handlers only across validateWrappingToken == true, which is returned only for a looked-up token that IsWrappingToken accepts; third-party unwrap/rewrap consume the use count (UseTokenByID success) before reading the cubbyhole and revoke the token afterwards (deferred revokeOrphan), and the thirdParty flag that selects this is the constant true on every edge on which the token acted on was named in the request body (it is decided together with the choice of the token and is the value tested / handed to responseWrappingUnwrap, whose only caller is handleWrappingUnwrap) — calls are selected by their resolved callee (written directly, through a method value, or, for the revocation, on every path of a closure the function defers) and a condition kept in a boolean variable (ok := a != nil && f(a)) counts as the test it was built from; " +
			"(4) the decrement is the locked read-modify-write of C19; (5) lookup reports creation_path from the stored wrap info; " +
			"(6) the re-read UseToken decrements is made with tainted=false, and lookupInternal hands out a stored entry only across 'NumUses < 0' being false or tainted being true, so a token whose use was consumed is invisible to it; " +
			"(7) Core.handleCancelableRequest decides to wrap on the conjunction of the tabled facts only (response present, no error, not an error response, WrapInfo with a TTL, not wrapped yet), and handleRequest / handleLoginRequest set resp.WrapInfo on every path on which the effective wrap TTL is positive; " +
			"(8) wrapInCubbyhole overwrites / stores the request path as creation path only when the request is not a rewrap and stores the carried-over path when it is; " +
			"(9) every failing return of wrapInCubbyhole after CreateToken revokes the new token; " +
			"(10) the response by which handleWrappingRewrap hands the payload on always carries a literal WrapInfo whose TTL is the stored creation TTL; " +
			"(11) the built-in response-wrapping policy text names exactly cubbyhole/response [create, read] and sys/wrapping/unwrap [update], the policy is in the immutable table, and SetPolicy writes only across that table's refusal; " +
			"(12) handleWrappingLookup reads the wrap info through a context switched to the namespace found from the looked-up token's NamespaceID; " +
			"(13) handleWrappingRewrap consumes the use, reads the cubbyhole and revokes through a context switched to that namespace as well; " +
			"(14) the token revoked after a third-party unwrap / rewrap is named by the looked-up entry's own ID, not by the (external) form found in the request. (4b) UseTokenByID — how a third-party unwrap or rewrap claims the single use — hands back only UseToken's own results: a token that lookup no longer returns is an error, never a success (shared with C19.1). (15) writer/reader agreement on the WrapInfo that reaches wrapInCubbyhole, by field identity: every field wrapInCubbyhole loads through resp.WrapInfo is set — from the same field of the WrapInfo that is replaced — by each fresh WrapInfo literal handleRequest / handleLoginRequest assign to a response, and each field it loads only on the rewrap arm and files under a constant key of the stored wrap info (CreationPath / creation_path) is set by handleWrappingRewrap's WrapInfo literal from the old token's stored entry under that key. Throughout, a call is located by its resolved callee — written directly, made through a bound method value, made on every path by a closure of the function / an unexported helper of the package, or deferred through such a closure — and its arguments are followed back through captured variables, once-assigned locals and the parameters of such closures; what cannot be followed is reported as undecided.",
		NotDecided: "'exactly one of k concurrent unwraps succeeds' (schedules); TTL expiry behaviour; that the cubbyhole backend isolates tokens (C12.4).",
		Run:        runC18,
	})
}

func runC18(c *eng.Ctx, thorough bool) {
	c18Namespace(c)
	// ---- C18.4 the single use is consumed by the locked read-modify-write of C19.1
	useTokenAtomic(c, "C18.4")
	// ... and a third-party unwrap/rewrap claims it through UseTokenByID, which never reports success for a token
	// that lookup no longer returns (shared with C19.1; added after seed C18-d)
	c19gUseTokenByID(c, "C18.4")
	// ---- C18.1 the wrapping token literal
	if f := c.Fn("vault.(*Core).wrapInCubbyhole"); f != nil {
		c.Clause("R12", "C18.1")
		ct := c18Calls(f, `vault\.\(\*Core\)\.CreateToken$`)
		// the entry handed to CreateToken (followed out of a closure / helper the call may sit in)
		var created ssa.Value
		if len(ct) > 0 {
			created, _ = c18Val(ct[0].Effs[0].Call.Args[2], ct[0].Effs[0].Fr)
		}
		if c.Floor(f, "CreateToken call", len(ct), 1) {
			te := created
			want := map[string]string{"NumUses": `^const:1$`, "TTL": `^field:resp\.WrapInfo\.TTL$`, "ExplicitMaxTTL": `^field:resp\.WrapInfo\.TTL$`}
			for fld, pat := range want {
				vals := eng.StructLitField(te, fld)
				if len(vals) == 0 {
					c.Violation(f, "wrapping token "+fld, ct[0].At.Pos(), "the wrapping token literal does not set "+fld, nil)
				}
				for _, v := range vals {
					c18Prov(c, f, "wrapping token "+fld, ct[0].At, v, nil, pat)
				}
			}
			// policies: a one-element slice literal holding the response-wrapping policy
			pols := eng.StructLitField(te, "Policies")
			if len(pols) == 0 {
				c.Violation(f, "wrapping token Policies", ct[0].At.Pos(), "the wrapping token literal does not set Policies", nil)
			}
			for _, pv := range pols {
				s := eng.ExprDeep(pv)
				elems := sliceLitElems(pv)
				if len(elems) == 1 && elems[0] == `"response-wrapping"` {
					c.OK(f, "wrapping token Policies", ct[0].At.Pos(), `Policies = ["response-wrapping"]`)
				} else {
					c.Violation(f, "wrapping token Policies", ct[0].At.Pos(), "the wrapping token's policies are not exactly [\"response-wrapping\"]: "+s+" "+strings.Join(elems, ","), nil)
				}
			}
			// no later store widens the token before creation
			for _, st := range eng.Stores(f, `^&te\.(NumUses|Policies|TTL|ExplicitMaxTTL|Period|Parent)$`) {
				if fa, ok := st.Addr.(*ssa.FieldAddr); ok {
					// literal initialisation stores are the ones found by StructLitField; anything else is an extra write
					init := false
					for _, v := range eng.StructLitField(te, eng.FieldVar(fa).Name()) {
						if v == st.Val {
							init = true
						}
					}
					if !init {
						c.Violation(f, "wrapping token field rewritten", st.Pos(), "wrapping token field modified after the literal: "+eng.InstrStr(st), nil)
					}
				}
			}
		}
		// the cubbyhole requests are issued as the new token
		c.Clause("R5", "C18.1")
		n := 0
		for _, r := range c18Calls(f, `routing\.\(\*Router\)\.Route$`) {
			for _, e := range r.Effs {
				for _, v := range c18LitField(e.Call.Args[2], e.Fr, "ClientToken") {
					n++
					c18Prov(c, f, "cubbyhole request ClientToken", r.At, v.V, v.Fr, `^field:&te\.ID$`)
				}
			}
		}
		c.Floor(f, "cubbyhole requests carrying the wrapping token", n, 1)
		// the wrap info handed back names the new token
		for _, st := range eng.Stores(f, `^resp\.WrapInfo\.Token$`) {
			c.Prov(f, "resp.WrapInfo.Token", st, st.Val, `^field:&te\.ExternalID$`, `Serialize#0$`)
		}
		for _, st := range eng.Stores(f, `^resp\.WrapInfo\.CreationPath$`) {
			c.Prov(f, "resp.WrapInfo.CreationPath", st, st.Val, `^field:req\.Path$`)
		}
		// the lease of the wrapping token is not renewable and bounded by its TTL
		var ras []nfEff
		for _, s := range c18Calls(f, `vault\.\(\*ExpirationManager\)\.RegisterAuth$`) {
			ras = append(ras, s.Effs...)
		}
		c.Floor(f, "RegisterAuth of the wrapping token", len(ras), 1)
		for _, rae := range ras {
			ra := rae.Call.In
			auth, afr := c18Val(rae.Call.Args[3], rae.Fr)
			registered, _ := c18Val(rae.Call.Args[2], rae.Fr)
			for _, v := range c18LitField(rae.Call.Args[3], rae.Fr, "ClientToken") {
				c18Prov(c, f, "lease registered for the wrapping token", ra, v.V, v.Fr, `^field:&te\.ID$`)
			}
			// the token expires through this lease: its TTL is the wrapping token's own TTL (the wrap
			// TTL pinned above), read from the very entry handed to CreateToken, and it cannot be renewed
			nTTL := 0
			for _, lo := range c18NestedLit(auth, "LeaseOptions") {
				for _, v := range eng.StructLitField(lo, "TTL") {
					nTTL++
					site := "lease TTL of the wrapping token"
					if base, ok := c18FieldLoad(v, "TTL"); ok && created != nil && base == created && registered == created {
						c.OK(f, site, ra.Pos(), "LeaseOptions.TTL = TTL of the token entry created and registered ("+eng.Expr(v)+")")
					} else {
						c.Violation(f, site, ra.Pos(), "the lease registered for the wrapping token runs for "+eng.ExprDeep(v)+", not for the TTL field of the token entry handed to CreateToken/RegisterAuth: the token (and its payload) would outlive the wrap TTL", nil)
					}
				}
				// (an unset Renewable is the zero value false)
				for _, v := range eng.StructLitField(lo, "Renewable") {
					c18Prov(c, f, "lease of the wrapping token not renewable", ra, v, afr, `^const:false$`)
				}
			}
			c.Floor(f, "LeaseOptions.TTL of the wrapping token's lease", nTTL, 1)
		}
	}

	// ---- C18.2 the requester only gets the wrap info
	if f := c.Fn("vault.(*Core).handleCancelableRequest"); f != nil {
		c.Clause("R5", "C18.2")
		wcs := c18Plain(c18Calls(f, `vault\.\(\*Core\)\.wrapInCubbyhole$`))
		if c.Floor(f, "wrapInCubbyhole call", len(wcs), 1) && !wcs[0].Self() {
			// wrapInCubbyhole runs inside a closure / helper: which of its results is the wrap response is not followed
			c.Undecided(f, "response returned after wrapping", wcs[0].At.Pos(), "wrapInCubbyhole is not called by handleCancelableRequest itself (moved into "+eng.CalleeName(wcs[0].At.(ssa.CallInstruction).Common())+"?): the rule cannot be evaluated")
		} else if len(wcs) > 0 {
			wc := []ssa.CallInstruction{wcs[0].At.(ssa.CallInstruction)}
			wrapResp := eng.ResultValue(wc[0], 0)
			fe := eng.FeasibleAfter(wc[0])
			nRet := 0
			for _, r := range eng.ReturnsFrom(f, nil, wc[0], nil) {
				vals, _, _ := eng.ReturnVals(r, 0)
				for _, v := range vals {
					if eng.AllNilThroughPhi(v) {
						continue
					}
					nRet++
					bad := ""
					var rs []string
					for _, root := range eng.Roots(v, fe) {
						s := eng.Expr(root)
						rs = append(rs, s)
						switch {
						case eng.IsNilConst(root):
						case wrapResp != nil && root == wrapResp:
						case isAllocOf(root, "logical.Response"):
						default:
							bad = s
						}
					}
					if bad != "" {
						c.Violation(f, "response returned after wrapping", r.Pos(), "after wrapInCubbyhole ran, the returned response may be read out of "+bad+" (roots: "+strings.Join(rs, ", ")+"): the wrapped payload could reach the original requester", nil)
					} else {
						c.OK(f, "response returned after wrapping", r.Pos(), "returned response ∈ {wrapInCubbyhole's response, fresh logical.Response}: "+strings.Join(rs, ", "))
					}
				}
			}
			c.Floor(f, "response-carrying returns after wrapping", nRet, 1)
			// the fresh response has only WrapInfo and Warnings
			for _, b := range f.Blocks {
				for _, in := range b.Instrs {
					a, ok := in.(*ssa.Alloc)
					if !ok || !isAllocOf(a, "logical.Response") || !fe.Reach[b] {
						continue
					}
					if refs := a.Referrers(); refs != nil {
						for _, r := range *refs {
							if fa, ok := r.(*ssa.FieldAddr); ok {
								nm := eng.FieldVar(fa).Name()
								if nm == "WrapInfo" || nm == "Warnings" {
									c.OK(f, "fresh wrap response field "+nm, fa.Pos(), "populated field of the response handed to the requester")
									if nm == "WrapInfo" {
										for _, v := range eng.StructLitField(a, nm) {
											c.Prov(f, "wrap response WrapInfo", in, v, `\.WrapInfo$`)
										}
									}
								} else {
									c.Violation(f, "fresh wrap response field "+nm, fa.Pos(), "the response returned to the requester after wrapping also carries "+nm, nil)
								}
							}
						}
					}
				}
			}
		}
		// ---- C18.3 validation before the handlers on the three wrapping paths
		c.Clause("R2", "C18.3")
		handlers := c18Ats(c18Plain(c18Calls(f, `vault\.\(\*Core\)\.(handleRequest|handleLoginRequest)$`)))
		// the guard is the verdict of validateWrappingToken, whichever way the call is
		// written (c.validateWrappingToken(...) or through its method value): the
		// branches on the call's own results
		gValid := eng.Guard{Desc: "[^vault\\.\\(\\*Core\\)\\.validateWrappingToken\\(\\)#0$]=true"}
		gNoErr := eng.Guard{Desc: "[^vault\\.\\(\\*Core\\)\\.validateWrappingToken\\(\\)#1 == nil$]=true"}
		for _, v := range c18Plain(c18Calls(f, `^vault\.\(\*Core\)\.validateWrappingToken$`)) {
			if !v.Self() {
				continue // a wrapper's results are not known to be the verdict
			}
			call := v.At.(ssa.CallInstruction)
			if r0 := eng.ResultValue(call, 0); r0 != nil {
				gValid.Edges = append(gValid.Edges, eng.BoolEdges(r0, true)...)
			}
			gNoErr.Edges = append(gNoErr.Edges, eng.CallOKEdgesDirect(call)...)
		}
		for _, p := range []string{"sys/wrapping/lookup", "sys/wrapping/rewrap", "sys/wrapping/unwrap"} {
			asm := map[string]bool{`^req\.Path == "` + p + `"$`: true, `^strings\.HasPrefix\(\)$`: true}
			for _, q := range []string{"sys/wrapping/lookup", "sys/wrapping/rewrap", "sys/wrapping/unwrap"} {
				if q != p {
					asm[`^req\.Path == "`+q+`"$`] = false
				}
			}
			c.Cut(f, "request handlers (path "+p+")", handlers, gValid, asm)
			c.Cut(f, "request handlers (path "+p+")", handlers, gNoErr, asm)
		}
	}
	if f := c.Fn("vault.(*Core).validateWrappingToken"); f != nil {
		c.Clause("R2", "C18.3")
		var trueRets []ssa.Instruction
		for _, r := range eng.Returns(f) {
			if r.Block().Comment == "recover" {
				continue
			}
			vals, _, _ := eng.ReturnVals(r, 0)
			for _, v := range vals {
				if v == nil {
					continue
				}
				if s := eng.Expr(v); s != "false" {
					trueRets = append(trueRets, r)
					break
				}
			}
		}
		if c.Floor(f, "returns that may report valid", len(trueRets), 1) {
			c.Cut(f, "valid = true", trueRets, c18GCallOK(f, `vault\.\(\*TokenStore\)\.Lookup$`), nil)
			c.Cut(f, "valid = true", trueRets, c18G(f, `^vault\.\(\*TokenStore\)\.Lookup\(\)#0 == nil$`, false), nil)
			c.Cut(f, "valid = true", trueRets, c18G(f, `^vault\.IsWrappingToken\(\)$`, true), nil)
			c.Cut(f, "valid = true", trueRets, c18G(f, `^vault\.\(\*Core\)\.Sealed\(\)$`, false), nil)
		}
		c.Clause("R5", "C18.3")
		for _, w := range c18Calls(f, `^vault\.IsWrappingToken$`) {
			for _, e := range w.Effs {
				c18Prov(c, f, "token checked by IsWrappingToken", w.At, e.Call.Args[0], e.Fr, `^call:vault\.\(\*TokenStore\)\.Lookup#0$`)
			}
		}
	}
	if f := c.Fn("vault.IsWrappingToken"); f != nil {
		c.Clause("R2", "C18.3")
		var trueRets []ssa.Instruction
		for _, r := range eng.Returns(f) {
			if eng.Expr(r.Results[0]) != "false" {
				trueRets = append(trueRets, r)
			}
		}
		c.Cut(f, "IsWrappingToken = true", trueRets, c18G(f, `^len\(te\.Policies\) == 1$`, true), nil)
		c.Cut(f, "IsWrappingToken = true", trueRets, c18G(f, `^te\.Policies\[0\] == "response-wrapping"$`, true), nil)
	}
	// third-party unwrap / rewrap
	for _, fn := range []string{"vault.(*SystemBackend).responseWrappingUnwrap", "vault.(*SystemBackend).handleWrappingRewrap"} {
		f := c.Fn(fn)
		if f == nil {
			continue
		}
		c.Clause("R2", "C18.3")
		// sites are selected by their resolved callee: written directly, called
		// through a method value, or (the revocation) inside a deferred closure
		routeSites := c18Plain(c18Calls(f, `routing\.\(\*Router\)\.Route$`))
		route := c18Ats(routeSites)
		if !c.Floor(f, "cubbyhole read", len(route), 1) {
			continue
		}
		use := c18GCallOK(f, `vault\.\(\*TokenStore\)\.UseTokenByID$`)
		c.Cut(f, "cubbyhole read", route, eng.Or(eng.Guard{Desc: use.Desc, Edges: use.Edges}, c18G(f, `^φ?thirdParty(\{.*\})?$`, false)), nil)
		// the revocation is armed for a third-party call
		var defers []ssa.Instruction
		for _, d := range c18Calls(f, `vault\.\(\*TokenStore\)\.revokeOrphan$`) {
			if d.Kind == "defer" {
				defers = append(defers, d.At)
			}
		}
		if len(defers) == 0 {
			c.Violation(f, "deferred revocation of the wrapping token", f.Pos(), "third-party unwrap/rewrap no longer defers revokeOrphan of the wrapping token", nil)
		} else {
			tp := eng.CondEdges(f, `^φ?thirdParty(\{.*\})?$`, true)
			if h := eng.Reach(eng.Query{Fn: f, StartEdges: tp, Barriers: defers, Target: eng.IsTarget(route)}); h != nil {
				c.Violation(f, "on{third party} defer revokeOrphan before the cubbyhole read", h.Instr.Pos(), "the cubbyhole can be read for a third-party caller without arming the token's revocation", h.Witness)
			} else {
				c.OK(f, "on{third party} defer revokeOrphan before the cubbyhole read", defers[0].Pos(), "revocation armed before any cubbyhole read")
			}
		}
		c.Clause("R5", "C18.3")
		for _, r := range routeSites {
			for _, e := range r.Effs {
				for _, v := range c18LitField(e.Call.Args[2], e.Fr, "ClientToken") {
					c18Prov(c, f, "cubbyhole read as the wrapping token", r.At, v.V, v.Fr, `^field:te\.ID$`, `^param:`, `^field:req\.ClientToken$`, `framework\.\(\*FieldData\)\.Get`)
				}
			}
		}
	}
	// the thirdParty flag those two functions branch on means what its name says
	for _, fn := range []string{"vault.(*SystemBackend).handleWrappingUnwrap", "vault.(*SystemBackend).handleWrappingRewrap"} {
		if f := c.Fn(fn); f != nil {
			c18ThirdPartyFlag(c, f)
		}
	}
	if m, missing := c.P.StaticCallee("vault.(*SystemBackend).responseWrappingUnwrap"); len(missing) == 0 {
		c.Clause("R1", "C18.3")
		c.CallerTable("responseWrappingUnwrap (trusts its thirdParty argument)", c.P.FindCalls(m, nil),
			map[string]string{"vault.(*SystemBackend).handleWrappingUnwrap": "passes the flag decided with the choice of the token"}, 1)
	}
	// ---- C18.5 lookup reports the stored creation path
	if f := c.Fn("vault.(*SystemBackend).handleWrappingLookup"); f != nil {
		c.Clause("R5", "C18.5")
		found := false
		routes := c18Plain(c18Calls(f, `routing\.\(\*Router\)\.Route$`))
		for _, b := range f.Blocks {
			for _, in := range b.Instrs {
				mu, ok := in.(*ssa.MapUpdate)
				if !ok || eng.Expr(mu.Key) != `"creation_path"` {
					continue
				}
				found = true
				s := eng.ExprDeep(mu.Value)
				// the value is <response of a cubbyhole read>.Data["creation_path"]: the map read is
				// identified structurally, the response by the resolved Route site it is result 0 of
				src, keyed := c18MapRead(mu.Value, `"creation_path"`)
				fromRoute := false
				if keyed {
					if base, isData := c18FieldLoad(src, "Data"); isData {
						fromRoute = c18ResultOfSites(base, routes, 0)
					}
				}
				switch {
				case fromRoute, strings.Contains(s, `Route(`) && strings.Contains(s, `"creation_path"`):
					c.OK(f, "creation_path reported", in.Pos(), "read from the cubbyhole wrap info: "+s)
				case keyed:
					c.Undecided(f, "creation_path reported", in.Pos(), "creation_path is read out of a map that could not be traced to the response of a cubbyhole read ("+s+"): the rule cannot be evaluated")
				default:
					c.Violation(f, "creation_path reported", in.Pos(), "creation_path in the lookup response does not come from the stored wrap info: "+s, nil)
				}
			}
		}
		if !found {
			c.Violation(f, "creation_path reported", f.Pos(), "lookup no longer reports creation_path", nil)
		}
	}
	runC18Gaps2(c)
}

// c18NestedLit: the places the fields of the nested struct literal
// base.<name> = T{...} are stored through (a temporary literal copied in
// whole, or the field addressed in place).
func c18NestedLit(base ssa.Value, name string) []ssa.Value {
	var out []ssa.Value
	for _, v := range eng.StructLitField(base, name) {
		if ld, ok := v.(*ssa.UnOp); ok && ld.Op == token.MUL {
			if a, ok := ld.X.(*ssa.Alloc); ok {
				out = append(out, a)
			}
		}
	}
	if refs := base.Referrers(); refs != nil && len(out) == 0 {
		for _, r := range *refs {
			if fa, ok := r.(*ssa.FieldAddr); ok && eng.FieldVar(fa) != nil && eng.FieldVar(fa).Name() == name {
				out = append(out, fa)
			}
		}
	}
	return out
}

// c18FieldLoad: v reads field <name> through a pointer; returns the pointer.
func c18FieldLoad(v ssa.Value, name string) (ssa.Value, bool) {
	ld, ok := v.(*ssa.UnOp)
	if !ok || ld.Op != token.MUL {
		return nil, false
	}
	fa, ok := ld.X.(*ssa.FieldAddr)
	if !ok || eng.FieldVar(fa) == nil || eng.FieldVar(fa).Name() != name {
		return nil, false
	}
	return fa.X, true
}

// c18ThirdPartyFlag (R5, C18.3): handleRequest has only counted a use of the
// caller's own token. When the wrapping token is instead named in the request
// body nobody has consumed its single use yet, so the handler itself must
// (UseTokenByID + revokeOrphan, both behind the thirdParty flag). The flag must
// therefore be true on every edge on which the token acted on comes from the
// body, whatever else is true of the caller.
func c18ThirdPartyFlag(c *eng.Ctx, f *ssa.Function) {
	c.Clause("R5", "C18.3")
	site := "thirdParty = (wrapping token named in the request body)"
	lt := c18Calls(f, `vault\.\(\*TokenStore\)\.lookupTainted$`)
	if !c.Floor(f, "lookupTainted of the wrapping token", len(lt), 1) {
		return
	}
	looked, _ := c18Val(lt[0].Effs[0].Call.Args[2], lt[0].Effs[0].Fr)
	tok, ok := looked.(*ssa.Phi)
	if !ok || tok.Parent() != f {
		c.Undecided(f, site, lt[0].At.Pos(), "the token looked up is "+eng.ExprDeep(looked)+", not a merge of the body token and the caller's token")
		return
	}
	// the flag is decided where the token is chosen: the boolean merged at the same point
	var flags []*ssa.Phi
	for _, in := range tok.Block().Instrs {
		if p, ok := in.(*ssa.Phi); ok && p != tok {
			if b, ok := p.Type().Underlying().(*types.Basic); ok && b.Kind() == types.Bool {
				flags = append(flags, p)
			}
		}
	}
	if len(flags) != 1 {
		c.Undecided(f, site, tok.Pos(), "no single boolean is decided together with the choice of the token (anchor moved?)")
		return
	}
	flag := flags[0]
	// ... and it is the flag that is acted on
	used := 0
	for _, cl := range c18Calls(f, `vault\.\(\*SystemBackend\)\.responseWrappingUnwrap$`) {
		for _, e := range cl.Effs {
			a := e.Call.Args
			told, _ := c18Val(a[len(a)-1], e.Fr)
			if told == ssa.Value(flag) {
				used++
			} else {
				c.Violation(f, site, cl.At.Pos(), "responseWrappingUnwrap is told thirdParty = "+eng.ExprDeep(told)+", not the flag decided with the choice of the token", nil)
				return
			}
		}
	}
	for _, b := range f.Blocks {
		if ifi := eng.IfOf(b); ifi != nil && eng.Normalize(ifi.Cond).Val == ssa.Value(flag) {
			used++
		}
	}
	if used == 0 {
		c.Undecided(f, site, flag.Pos(), "the flag decided with the choice of the token is neither tested nor handed to responseWrappingUnwrap")
		return
	}
	n := 0
	for i, e := range tok.Edges {
		fromBody := false
		for _, o := range eng.Origins(e) {
			if o.Kind == "call" && strings.Contains(c18Unbound(o.Desc), "framework.(*FieldData).Get") {
				fromBody = true
			}
		}
		if !fromBody {
			continue
		}
		n++
		if k, ok := flag.Edges[i].(*ssa.Const); ok && eng.Expr(k) == "true" {
			c.OK(f, site, flag.Pos(), "where the token is "+eng.Expr(e)+" the flag is the constant true")
		} else {
			c.Violation(f, site, flag.Pos(), "where the token comes from the request body the flag is "+eng.ExprDeep(flag.Edges[i])+" instead of true: for those callers the wrapping token is read without consuming its use or revoking it", nil)
		}
	}
	c.Floor(f, "edges on which the token comes from the request body", n, 1)
}

func isAllocOf(v ssa.Value, typ string) bool {
	a, ok := v.(*ssa.Alloc)
	return ok && structTypeName(a.Type()) == typ
}

// sliceLitElems renders the constant elements stored into a slice literal.
func sliceLitElems(v ssa.Value) []string {
	sl, ok := v.(*ssa.Slice)
	if !ok {
		return nil
	}
	a, ok := sl.X.(*ssa.Alloc)
	if !ok || a.Referrers() == nil {
		return nil
	}
	var out []string
	for _, r := range *a.Referrers() {
		ia, ok := r.(*ssa.IndexAddr)
		if !ok || ia.Referrers() == nil {
			continue
		}
		for _, rr := range *ia.Referrers() {
			if st, ok := rr.(*ssa.Store); ok && st.Addr == ia {
				out = append(out, eng.Expr(st.Val))
			}
		}
	}
	return out
}

// c18Namespace (C18.3): consuming the use count, reading the payload and
// revoking the wrapping token all happen in the WRAPPING TOKEN's namespace.
// UseTokenByID finds the namespace from the id, but revokeOrphan salts the id
// with the context's namespace: run in the caller's namespace it silently does
// nothing and the token and its payload survive the unwrap (seed C18-b).
func c18Namespace(c *eng.Ctx) {
	if f := c.Fn("vault.(*SystemBackend).handleWrappingUnwrap"); f != nil {
		c.Clause("R5", "C18.3")
		calls := c18Calls(f, `^vault\.\(\*SystemBackend\)\.responseWrappingUnwrap$`)
		if c.Floor(f, "responseWrappingUnwrap call", len(calls), 1) {
			for _, cl := range calls {
				for _, e := range cl.Effs {
					c18SwitchedCtx(c, f, "unwrap runs in the wrapping token's namespace", "namespace the unwrap context is switched to", cl.At, e.Call.Args[1], e.Fr, nil)
				}
			}
			c18NamespaceLookedUp(c, f)
		}
	}
	if f := c.Fn("vault.(*SystemBackend).responseWrappingUnwrap"); f != nil {
		c.Clause("R5", "C18.3")
		n := 0
		for _, pat := range []string{`^vault\.\(\*TokenStore\)\.UseTokenByID$`, `^vault\.\(\*TokenStore\)\.revokeOrphan$`, `^routing\.\(\*Router\)\.Route$`} {
			for _, cl := range c18Calls(f, pat) {
				n++
				for _, e := range cl.Effs {
					c18Prov(c, f, "context of "+e.Call.Name+" = the unwrap context", cl.At, e.Call.Args[1], e.Fr, `^param:ctx$`)
				}
			}
		}
		c.Floor(f, "namespace-sensitive steps of the unwrap", n, 3)
	}
}
