package props

import (
	"strings"

	"golang.org/x/tools/go/ssa"

	"obsa/eng"
)

func init() {
	register(&Prop{
		ID: "C18",
		Explanation: "Structural necessary conditions of 'a response-wrapping token reveals its payload exactly once': " +
			"(1) the wrapping token built by Core.wrapInCubbyhole is single-use (NumUses: 1), carries only the response-wrapping policy, and has TTL = ExplicitMaxTTL = the wrap TTL; the payload and the wrap info are stored under that token's own cubbyhole (request ClientToken = the new token's ID, constant cubbyhole paths); " +
			"(2) once wrapInCubbyhole ran, Core.handleCancelableRequest returns only wrapInCubbyhole's own (error) response or a fresh response whose only populated fields are WrapInfo and Warnings — never the original response; " +
			"(3) the three sys/wrapping/{lookup,rewrap,unwrap} paths reach the request handlers only across validateWrappingToken == true, which is returned only for a looked-up token that IsWrappingToken accepts; third-party unwrap/rewrap consume the use count (UseTokenByID success) before reading the cubbyhole and revoke the token afterwards (deferred revokeOrphan); " +
			"(4) the decrement is the locked read-modify-write of C19; (5) lookup reports creation_path from the stored wrap info.",
		NotDecided: "'exactly one of k concurrent unwraps succeeds' (schedules); TTL expiry behaviour; that the cubbyhole backend isolates tokens (C12.4).",
		Run:        runC18,
	})
}

func runC18(c *eng.Ctx, thorough bool) {
	// ---- C18.4 the single use is consumed by the locked read-modify-write of C19.1
	useTokenAtomic(c, "C18.4")
	// ---- C18.1 the wrapping token literal
	if f := c.Fn("vault.(*Core).wrapInCubbyhole"); f != nil {
		c.Clause("R12", "C18.1")
		ct := eng.Calls(f, `vault\.\(\*Core\)\.CreateToken$`)
		if c.Floor(f, "CreateToken call", len(ct), 1) {
			te := ct[0].Common().Args[2]
			want := map[string]string{"NumUses": `^const:1$`, "TTL": `^field:resp\.WrapInfo\.TTL$`, "ExplicitMaxTTL": `^field:resp\.WrapInfo\.TTL$`}
			for fld, pat := range want {
				vals := eng.StructLitField(te, fld)
				if len(vals) == 0 {
					c.Violation(f, "wrapping token "+fld, ct[0].Pos(), "the wrapping token literal does not set "+fld, nil)
				}
				for _, v := range vals {
					c.Prov(f, "wrapping token "+fld, ct[0], v, pat)
				}
			}
			// policies: a one-element slice literal holding the response-wrapping policy
			pols := eng.StructLitField(te, "Policies")
			if len(pols) == 0 {
				c.Violation(f, "wrapping token Policies", ct[0].Pos(), "the wrapping token literal does not set Policies", nil)
			}
			for _, pv := range pols {
				s := eng.ExprDeep(pv)
				elems := sliceLitElems(pv)
				if len(elems) == 1 && elems[0] == `"response-wrapping"` {
					c.OK(f, "wrapping token Policies", ct[0].Pos(), `Policies = ["response-wrapping"]`)
				} else {
					c.Violation(f, "wrapping token Policies", ct[0].Pos(), "the wrapping token's policies are not exactly [\"response-wrapping\"]: "+s+" "+strings.Join(elems, ","), nil)
				}
			}
			// no later store widens the token before creation
			for _, st := range eng.Stores(f, `^&te\.(NumUses|Policies|TTL|ExplicitMaxTTL|Period|Parent)$`) {
				if fa, ok := st.Addr.(*ssa.FieldAddr); ok {
					// literal initialisation stores are the ones found by StructLitField; anything else is an extra write
					init := false
					for _, v := range eng.StructLitField(te, eng.FieldVar(fa).Name()) {
						if v == st.Val {
							init = true
						}
					}
					if !init {
						c.Violation(f, "wrapping token field rewritten", st.Pos(), "wrapping token field modified after the literal: "+eng.InstrStr(st), nil)
					}
				}
			}
		}
		// the cubbyhole requests are issued as the new token
		c.Clause("R5", "C18.1")
		n := 0
		for _, r := range eng.Calls(f, `routing\.\(\*Router\)\.Route$`) {
			req := r.Common().Args[2]
			for _, v := range eng.StructLitField(req, "ClientToken") {
				n++
				c.Prov(f, "cubbyhole request ClientToken", r, v, `^field:&te\.ID$`)
			}
		}
		c.Floor(f, "cubbyhole requests carrying the wrapping token", n, 1)
		// the wrap info handed back names the new token
		for _, st := range eng.Stores(f, `^resp\.WrapInfo\.Token$`) {
			c.Prov(f, "resp.WrapInfo.Token", st, st.Val, `^field:&te\.ExternalID$`, `Serialize#0$`)
		}
		for _, st := range eng.Stores(f, `^resp\.WrapInfo\.CreationPath$`) {
			c.Prov(f, "resp.WrapInfo.CreationPath", st, st.Val, `^field:req\.Path$`)
		}
		// the lease of the wrapping token is not renewable and bounded by its TTL
		for _, ra := range eng.Calls(f, `vault\.\(\*ExpirationManager\)\.RegisterAuth$`) {
			auth := ra.Common().Args[3]
			for _, v := range eng.StructLitField(auth, "ClientToken") {
				c.Prov(f, "lease registered for the wrapping token", ra, v, `^field:&te\.ID$`)
			}
		}
	}

	// ---- C18.2 the requester only gets the wrap info
	if f := c.Fn("vault.(*Core).handleCancelableRequest"); f != nil {
		c.Clause("R5", "C18.2")
		wc := eng.Calls(f, `vault\.\(\*Core\)\.wrapInCubbyhole$`)
		if c.Floor(f, "wrapInCubbyhole call", len(wc), 1) {
			fe := eng.FeasibleAfter(wc[0])
			nRet := 0
			for _, r := range eng.ReturnsFrom(f, nil, wc[0], nil) {
				vals, _, _ := eng.ReturnVals(r, 0)
				for _, v := range vals {
					if eng.AllNilThroughPhi(v) {
						continue
					}
					nRet++
					bad := ""
					var rs []string
					for _, root := range eng.Roots(v, fe) {
						s := eng.Expr(root)
						rs = append(rs, s)
						switch {
						case eng.IsNilConst(root):
						case s == "vault.(*Core).wrapInCubbyhole()#0":
						case isAllocOf(root, "logical.Response"):
						default:
							bad = s
						}
					}
					if bad != "" {
						c.Violation(f, "response returned after wrapping", r.Pos(), "after wrapInCubbyhole ran, the returned response may be read out of "+bad+" (roots: "+strings.Join(rs, ", ")+"): the wrapped payload could reach the original requester", nil)
					} else {
						c.OK(f, "response returned after wrapping", r.Pos(), "returned response ∈ {wrapInCubbyhole's response, fresh logical.Response}: "+strings.Join(rs, ", "))
					}
				}
			}
			c.Floor(f, "response-carrying returns after wrapping", nRet, 1)
			// the fresh response has only WrapInfo and Warnings
			for _, b := range f.Blocks {
				for _, in := range b.Instrs {
					a, ok := in.(*ssa.Alloc)
					if !ok || !isAllocOf(a, "logical.Response") || !fe.Reach[b] {
						continue
					}
					if refs := a.Referrers(); refs != nil {
						for _, r := range *refs {
							if fa, ok := r.(*ssa.FieldAddr); ok {
								nm := eng.FieldVar(fa).Name()
								if nm == "WrapInfo" || nm == "Warnings" {
									c.OK(f, "fresh wrap response field "+nm, fa.Pos(), "populated field of the response handed to the requester")
									if nm == "WrapInfo" {
										for _, v := range eng.StructLitField(a, nm) {
											c.Prov(f, "wrap response WrapInfo", in, v, `\.WrapInfo$`)
										}
									}
								} else {
									c.Violation(f, "fresh wrap response field "+nm, fa.Pos(), "the response returned to the requester after wrapping also carries "+nm, nil)
								}
							}
						}
					}
				}
			}
		}
		// ---- C18.3 validation before the handlers on the three wrapping paths
		c.Clause("R2", "C18.3")
		handlers := instrsOf(eng.Calls(f, `vault\.\(\*Core\)\.(handleRequest|handleLoginRequest)$`))
		for _, p := range []string{"sys/wrapping/lookup", "sys/wrapping/rewrap", "sys/wrapping/unwrap"} {
			asm := map[string]bool{`^req\.Path == "` + p + `"$`: true, `^strings\.HasPrefix\(\)$`: true}
			for _, q := range []string{"sys/wrapping/lookup", "sys/wrapping/rewrap", "sys/wrapping/unwrap"} {
				if q != p {
					asm[`^req\.Path == "`+q+`"$`] = false
				}
			}
			c.Cut(f, "request handlers (path "+p+")", handlers, eng.G(f, `^vault\.\(\*Core\)\.validateWrappingToken\(\)#0$`, true), asm)
			c.Cut(f, "request handlers (path "+p+")", handlers, eng.G(f, `^vault\.\(\*Core\)\.validateWrappingToken\(\)#1 == nil$`, true), asm)
		}
	}
	if f := c.Fn("vault.(*Core).validateWrappingToken"); f != nil {
		c.Clause("R2", "C18.3")
		var trueRets []ssa.Instruction
		for _, r := range eng.Returns(f) {
			if r.Block().Comment == "recover" {
				continue
			}
			vals, _, _ := eng.ReturnVals(r, 0)
			for _, v := range vals {
				if v == nil {
					continue
				}
				if s := eng.Expr(v); s != "false" {
					trueRets = append(trueRets, r)
					break
				}
			}
		}
		if c.Floor(f, "returns that may report valid", len(trueRets), 1) {
			c.Cut(f, "valid = true", trueRets, eng.GCallOK(f, `vault\.\(\*TokenStore\)\.Lookup$`), nil)
			c.Cut(f, "valid = true", trueRets, eng.G(f, `^vault\.\(\*TokenStore\)\.Lookup\(\)#0 == nil$`, false), nil)
			c.Cut(f, "valid = true", trueRets, eng.G(f, `^vault\.IsWrappingToken\(\)$`, true), nil)
			c.Cut(f, "valid = true", trueRets, eng.G(f, `^vault\.\(\*Core\)\.Sealed\(\)$`, false), nil)
		}
		c.Clause("R5", "C18.3")
		for _, w := range eng.Calls(f, `^vault\.IsWrappingToken$`) {
			c.Prov(f, "token checked by IsWrappingToken", w, w.Common().Args[0], `^call:vault\.\(\*TokenStore\)\.Lookup#0$`)
		}
	}
	if f := c.Fn("vault.IsWrappingToken"); f != nil {
		c.Clause("R2", "C18.3")
		var trueRets []ssa.Instruction
		for _, r := range eng.Returns(f) {
			if eng.Expr(r.Results[0]) != "false" {
				trueRets = append(trueRets, r)
			}
		}
		c.Cut(f, "IsWrappingToken = true", trueRets, eng.G(f, `^len\(te\.Policies\) == 1$`, true), nil)
		c.Cut(f, "IsWrappingToken = true", trueRets, eng.G(f, `^te\.Policies\[0\] == "response-wrapping"$`, true), nil)
	}
	// third-party unwrap / rewrap
	for _, fn := range []string{"vault.(*SystemBackend).responseWrappingUnwrap", "vault.(*SystemBackend).handleWrappingRewrap"} {
		f := c.Fn(fn)
		if f == nil {
			continue
		}
		c.Clause("R2", "C18.3")
		route := instrsOf(eng.Calls(f, `routing\.\(\*Router\)\.Route$`))
		if !c.Floor(f, "cubbyhole read", len(route), 1) {
			continue
		}
		use := eng.GCallOK(f, `vault\.\(\*TokenStore\)\.UseTokenByID$`)
		c.Cut(f, "cubbyhole read", route, eng.Or(eng.Guard{Desc: use.Desc, Edges: use.Edges}, eng.G(f, `^φ?thirdParty(\{.*\})?$`, false)), nil)
		// the revocation is armed for a third-party call
		var defers []ssa.Instruction
		for _, d := range eng.Calls(f, `vault\.\(\*TokenStore\)\.revokeOrphan$`) {
			if _, ok := d.(*ssa.Defer); ok {
				defers = append(defers, d)
			}
		}
		if len(defers) == 0 {
			c.Violation(f, "deferred revocation of the wrapping token", f.Pos(), "third-party unwrap/rewrap no longer defers revokeOrphan of the wrapping token", nil)
		} else {
			tp := eng.CondEdges(f, `^φ?thirdParty(\{.*\})?$`, true)
			if h := eng.Reach(eng.Query{Fn: f, StartEdges: tp, Barriers: defers, Target: eng.IsTarget(route)}); h != nil {
				c.Violation(f, "on{third party} defer revokeOrphan before the cubbyhole read", h.Instr.Pos(), "the cubbyhole can be read for a third-party caller without arming the token's revocation", h.Witness)
			} else {
				c.OK(f, "on{third party} defer revokeOrphan before the cubbyhole read", defers[0].Pos(), "revocation armed before any cubbyhole read")
			}
		}
		c.Clause("R5", "C18.3")
		for _, r := range route {
			req := r.(ssa.CallInstruction).Common().Args[2]
			for _, v := range eng.StructLitField(req, "ClientToken") {
				c.Prov(f, "cubbyhole read as the wrapping token", r, v, `^field:te\.ID$`, `^param:`, `^field:req\.ClientToken$`, `framework\.\(\*FieldData\)\.Get`)
			}
		}
	}
	// ---- C18.5 lookup reports the stored creation path
	if f := c.Fn("vault.(*SystemBackend).handleWrappingLookup"); f != nil {
		c.Clause("R5", "C18.5")
		found := false
		for _, b := range f.Blocks {
			for _, in := range b.Instrs {
				mu, ok := in.(*ssa.MapUpdate)
				if !ok || eng.Expr(mu.Key) != `"creation_path"` {
					continue
				}
				found = true
				s := eng.ExprDeep(mu.Value)
				if strings.Contains(s, `Route(`) && strings.Contains(s, `"creation_path"`) {
					c.OK(f, "creation_path reported", in.Pos(), "read from the cubbyhole wrap info: "+s)
				} else {
					c.Violation(f, "creation_path reported", in.Pos(), "creation_path in the lookup response does not come from the stored wrap info: "+s, nil)
				}
			}
		}
		if !found {
			c.Violation(f, "creation_path reported", f.Pos(), "lookup no longer reports creation_path", nil)
		}
	}
}

func isAllocOf(v ssa.Value, typ string) bool {
	a, ok := v.(*ssa.Alloc)
	return ok && structTypeName(a.Type()) == typ
}

// sliceLitElems renders the constant elements stored into a slice literal.
func sliceLitElems(v ssa.Value) []string {
	sl, ok := v.(*ssa.Slice)
	if !ok {
		return nil
	}
	a, ok := sl.X.(*ssa.Alloc)
	if !ok || a.Referrers() == nil {
		return nil
	}
	var out []string
	for _, r := range *a.Referrers() {
		ia, ok := r.(*ssa.IndexAddr)
		if !ok || ia.Referrers() == nil {
			continue
		}
		for _, rr := range *ia.Referrers() {
			if st, ok := rr.(*ssa.Store); ok && st.Addr == ia {
				out = append(out, eng.Expr(st.Val))
			}
		}
	}
	return out
}
