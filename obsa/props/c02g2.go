package props

import (
	"fmt"
	"go/token"
	"go/types"
	"reflect"
	"regexp"
	"sort"
	"strings"

	"golang.org/x/tools/go/ssa"

	"obsa/eng"
)

// runC02Gaps2: second-tier mechanisms of C02 — the helpers and sibling paths
// the request checks silently rely on.
func runC02Gaps2(c *eng.Ctx) {
	c02gSSCTokenSignature(c)
	c02gNamespaceGates(c)
	c02gPolicyNamespace(c)
	c02gPolicyExpiry(c)
	c02gGroupPolicyHierarchy(c)
	c02gPathTableVerdicts(c)
	c02gHandAuthenticatedEndpoints(c)
	c02gCacheKeyInjective(c)
	c02gStanzaWriterReader(c)
}

func c02gOriginKinds(v ssa.Value) []string {
	var out []string
	for _, o := range eng.Origins(v) {
		out = append(out, o.Kind+":"+o.Desc)
	}
	return out
}

// C02.2b: a server-side-consistent token is accepted only with a verified
// signature: the decoded inner token leaves checkSSCTokenInternal only across
// hmac.Equal == true; CheckSSCToken skips that check only for unauthenticated
// (login-path) requests, told so by Router.LoginPath; a failed check refuses the
// request before the token is looked up.
func c02gSSCTokenSignature(c *eng.Ctx) {
	if f := c.Fn("vault.(*Core).checkSSCTokenInternal"); f != nil {
		c.Clause("R2", "C02.2")
		var decoded []ssa.Instruction
		for _, r := range eng.SuccessReturns(f, 1) {
			ret := r.(*ssa.Return)
			vals, _, _ := eng.ReturnVals(ret, 0)
			for _, v := range vals {
				if ok, _, _ := eng.OriginsMatch(v, `^param:token$`, `^const:`); !ok {
					decoded = append(decoded, r)
					break
				}
			}
		}
		if c.Floor(f, "returns of the decoded inner token", len(decoded), 1) {
			c.Cut(f, "return of the decoded inner token", decoded, eng.G(f, `^crypto/hmac\.Equal\(\)$`, true), nil)
			c.Cut(f, "return of the decoded inner token", decoded, eng.G(f, `^google\.golang\.org/protobuf/proto\.Unmarshal\(\) == nil$`, true), nil)
		}
		c.Clause("R5", "C02.2")
		eqs := eng.Calls(f, `^crypto/hmac\.Equal$`)
		for _, e := range eqs {
			a := e.Common().Args
			var sides []string
			for _, x := range a {
				sides = append(sides, strings.Join(c02gOriginKinds(x), ","))
			}
			j := strings.Join(sides, " | ")
			if strings.Contains(j, "CalculateSignedTokenHMAC#0") && regexp.MustCompile(`\.Hmac\b`).MatchString(j) {
				c.OK(f, "signature compared", e.Pos(), j)
			} else {
				c.Violation(f, "signature compared", e.Pos(), "hmac.Equal does not compare the recomputed HMAC with the token's own signature: "+j, nil)
			}
		}
	}
	if f := c.Fn("vault.(*Core).CheckSSCToken"); f != nil {
		c.Clause("R2", "C02.2")
		var unchecked []ssa.Instruction
		for _, r := range eng.SuccessReturns(f, 1) {
			ret := r.(*ssa.Return)
			vals, _, _ := eng.ReturnVals(ret, 0)
			for _, v := range vals {
				if ok, _, _ := eng.OriginsMatch(v, `^call:vault\.\(\*Core\)\.checkSSCTokenInternal#0$`); !ok {
					unchecked = append(unchecked, r)
					break
				}
			}
		}
		unchecked = append(unchecked, c02MaySinks(f, `vault\.\(\*Core\)\.DecodeSSCToken(Internal)?$`)...)
		if len(unchecked) == 0 {
			c.OK(f, "unverified decode", f.Pos(), "CheckSSCToken always verifies")
		} else {
			c.Cut(f, "token returned / decoded without signature check", unchecked, eng.G(f, `^unauth$`, true), nil)
		}
		c.Floor(f, "checkSSCTokenInternal call", len(eng.Calls(f, `vault\.\(\*Core\)\.checkSSCTokenInternal$`)), 1)
	}
	// who may ask for the unverified variant
	c.Clause("R12", "C02.2")
	if m, miss := c.P.StaticCallee("vault.(*Core).CheckSSCToken"); len(miss) == 0 {
		n := 0
		for _, s := range c.P.FindCalls(m, nil) {
			n++
			arg := s.Call.Common().Args[3]
			if eng.Expr(arg) == "false" {
				c.OK(eng.TopFunc(s.Fn), "caller{CheckSSCToken}", s.Call.Pos(), "unauth=false")
				continue
			}
			c.Prov(s.Fn, "unauth argument of CheckSSCToken", s.Call, arg, `^call:vault\.\(\*Core\)\.isLoginRequest$`)
		}
		c.Floor(nil, "CheckSSCToken callers", n, 2)
	} else {
		c.Unresolved("vault.(*Core).CheckSSCToken")
	}
	if f := c.Fn("vault.(*Core).PopulateTokenEntry"); f != nil {
		c.Clause("R2", "C02.2")
		lk := c02MaySinks(f, `vault\.\(\*Core\)\.LookupToken$`)
		chk := nfGCallOK(f, `vault\.\(\*Core\)\.CheckSSCToken$`)
		if c.Floor(f, "LookupToken call", len(lk), 1) && c.Floor(f, "CheckSSCToken call", len(chk.Pass), 1) {
			g := eng.Or(eng.Guard{Desc: chk.Desc, Edges: chk.Edges}, eng.G(f, `^vault\.IsSSCToken\(\)$`, false))
			c.Cut(f, "token lookup", lk, g, nil)
			succ := eng.SuccessReturns(f, 0)
			var after []ssa.Instruction
			for _, ck := range chk.Pass {
				for _, r := range eng.ReturnsFrom(f, nil, ck, nil) {
					for _, s := range succ {
						if s == ssa.Instruction(r) {
							after = append(after, r)
						}
					}
				}
			}
			if c.Floor(f, "nil-error returns after the SSC check", len(after), 1) {
				c.Cut(f, "request populated (nil error)", after, g, nil)
			}
		}
	}
}

// C02.6b: inside a child namespace the root-only sys APIs and an API-locked
// namespace (its own lock or an inherited one) are refused before any request
// handling.
func c02gNamespaceGates(c *eng.Ctx) {
	f := c.Fn("vault.(*Core).switchedLockHandleRequest")
	if f == nil {
		return
	}
	c.Clause("R2", "C02.6")
	h := c02MaySinks(f, `vault\.\(\*Core\)\.handleCancelableRequest$`)
	h = append(h, c02MaySinks(f, `vault\.\(\*Core\)\.handleInlineAuth$`)...)
	if !c.Floor(f, "handleCancelableRequest/handleInlineAuth calls (namespace gates)", len(h), 2) {
		return
	}
	rootNS := eng.G(f, `ResolveNamespaceFromRequest\(\)#0\.ID == "root"$`, true)
	c.Cut(f, "request handling (restricted sys API)", h, eng.Or(eng.G(f, `HasPathSegments\(\)`, false), rootNS), nil)
	c.Cut(f, "request handling (namespace API lock)", h, eng.Or(
		eng.G(f, `^vault\.\(\*NamespaceStore\)\.GetLockingNamespace\(\) == nil$`, true),
		eng.G(f, `^req\.Operation == "revoke"$`, true),
		eng.G(f, `^req\.Operation == "rollback"$`, true),
		eng.G(f, `^req\.Path == "sys/namespaces/api-lock/unlock"$`, true),
		rootNS), nil)
	c.Clause("R5", "C02.6")
	for _, gl := range eng.Calls(f, `vault\.\(\*NamespaceStore\)\.GetLockingNamespace$`) {
		c.Prov(f, "namespace whose lock is consulted", gl, gl.Common().Args[1], `^call:vault\.\(\*NamespaceStore\)\.ResolveNamespaceFromRequest#0$`)
	}
	for _, hp := range eng.Calls(f, `pathmanager\.PathManager\)\.HasPathSegments$`) {
		c.Prov(f, "table of root-only sys APIs", hp, hp.Common().Args[0], `^global:vault\.restrictedSysAPIs$`)
	}
}

// C02.7b: a named policy is fetched in the namespace it is named for: Store.ACL
// resolves the map key to a namespace and hands GetPolicy that namespace's
// context together with a name of that key's list.
func c02gPolicyNamespace(c *eng.Ctx) {
	f := c.Fn("policy.(*Store).ACL")
	if f == nil {
		return
	}
	c.Clause("R5", "C02.7")
	gps := eng.Calls(f, `policy\.\(\*Store\)\.GetPolicy$`)
	if !c.Floor(f, "GetPolicy call", len(gps), 1) {
		return
	}
	for _, gp := range gps {
		a := gp.Common().Args
		if !c.Prov(f, "context of the policy fetch", gp, a[1], `^call:namespace\.ContextWithNamespace$`) {
			continue
		}
		for _, o := range eng.Origins(a[1]) {
			cw, ok := o.Val.(*ssa.Call)
			if !ok {
				continue
			}
			ns := cw.Call.Args[1]
			if !c.Prov(f, "namespace of the policy fetch", gp, ns, `^call:<policy\.core>\.NamespaceByID#0$`) {
				continue
			}
			for _, o2 := range eng.Origins(ns) {
				ex, ok := o2.Val.(*ssa.Extract)
				if !ok {
					continue
				}
				nb, ok := ex.Tuple.(*ssa.Call)
				if !ok {
					continue
				}
				id := nb.Call.Args[len(nb.Call.Args)-1]
				key, name := eng.ExprDeep(id), eng.ExprDeep(a[2])
				site := "policy name and namespace id come from the same map entry"
				switch {
				case !strings.HasPrefix(key, "next(range(") || !strings.HasSuffix(key, "#1"):
					c.Undecided(f, site, gp.Pos(), "the namespace id "+key+" is not the key of a range over the policy-name map (loop restructured? relate name and namespace by hand)")
				case strings.Contains(name, strings.TrimSuffix(key, "#1")+"#2"):
					c.OK(f, site, gp.Pos(), key+" / "+name)
				default:
					c.Violation(f, site, gp.Pos(), "GetPolicy is given name "+name+" in the namespace resolved from "+key, nil)
				}
			}
		}
	}
}

// C02.7c: an expired policy is never handed out: every return of a cached or
// stored policy object from switchedGetPolicy crosses "no expiration set" or
// "now is not after the expiration" of that object.
func c02gPolicyExpiry(c *eng.Ctx) {
	f := c.Fn("policy.(*Store).switchedGetPolicy")
	if f == nil {
		return
	}
	c.Clause("R2", "C02.7")
	var sinks []ssa.Instruction
	for _, r := range eng.SuccessReturns(f, 1) {
		ret := r.(*ssa.Return)
		vals, _, _ := eng.ReturnVals(ret, 0)
		for _, v := range vals {
			if v == nil || eng.IsNilConst(v) {
				continue
			}
			// the synthetic root policy literal never expires
			if lit := eng.StructLitField(v, "Name"); len(lit) == 1 && eng.Expr(lit[0]) == `"root"` {
				continue
			}
			sinks = append(sinks, r)
			break
		}
	}
	if !c.Floor(f, "returns of a policy object", len(sinks), 3) {
		return
	}
	for _, s := range sinks {
		c.Cut(f, "policy object returned", []ssa.Instruction{s}, eng.Or(eng.G(f, `^time\.\(Time\)\.IsZero\(\)$`, true), eng.G(f, `^time\.\(Time\)\.After\(\)$`, false)), nil)
	}
	c.Clause("R5", "C02.7")
	afters := eng.Calls(f, `^time\.\(Time\)\.After$`)
	c.Floor(f, "expiration comparisons", len(afters), 3)
	for _, a := range afters {
		c.Prov(f, "expiry compared with now", a, a.Common().Args[0], `^call:time\.Now$`)
		c.Prov(f, "policy expiry compared", a, a.Common().Args[1], `\.Expiration$`)
	}
}

// C02.1g: in within-namespace-hierarchy mode a group policy applies only when
// the policy's namespace lies inside the token's namespace (receiver = policy
// namespace, argument = token namespace).
func c02gGroupPolicyHierarchy(c *eng.Ctx) {
	f := c.Fn("vault.(*Core).getApplicableGroupPolicies")
	if f == nil {
		return
	}
	c.Clause("R5", "C02.1")
	hps := eng.Calls(f, `^namespace\.\(\*Namespace\)\.HasParent$`)
	if !c.Floor(f, "HasParent test", len(hps), 1) {
		return
	}
	for _, hp := range hps {
		a := hp.Common().Args
		c.Prov(f, "namespace tested for lying inside the token's namespace", hp, a[0], `^call:vault\.\(\*Core\)\.NamespaceByID#0$`)
		c.Prov(f, "ancestor in the hierarchy test", hp, a[1], `^param:tokenNS$`)
	}
	c.Clause("R2", "C02.1")
	// a policy of another namespace is appended only across the hierarchy test or in the non-hierarchy mode
	var apps []ssa.Instruction
	for _, ap := range eng.Calls(f, `^append$`) {
		if ok, _, _ := eng.OriginsMatch(ap.Common().Args[1], `^param:nsPolicies$`); ok {
			continue // same-namespace shortcut (guarded by the path equality, below)
		}
		apps = append(apps, ap)
	}
	if c.Floor(f, "appends of a foreign-namespace policy", len(apps), 2) {
		c.Cut(f, "foreign-namespace group policy applied", apps, eng.Or(
			eng.G(f, `^namespace\.\(\*Namespace\)\.HasParent\(\)$`, true),
			eng.G(f, `^policyApplicationMode == "within_namespace_hierarchy"$`, false)), nil)
	}
}

// C02.3b/C02.1h: the verdict of LoginPath / RootPath is "true" only on the
// exact-match, prefix-entry or wildcard arm of the mount's path table.
func c02gPathTableVerdicts(c *eng.Ctx) {
	for _, fn := range []string{"routing.(*Router).LoginPath", "routing.(*Router).RootPath"} {
		f := c.Fn(fn)
		if f == nil {
			continue
		}
		c.Clause("R2", "C02.3")
		exact := eng.G(f, `LongestPrefix\(\)#0 == strings\.TrimPrefix\(\)$`, true)
		prefix := eng.G(f, `LongestPrefix\(\)#1\.\(bool\)$`, true)
		wild := eng.G(f, `^routing\.pathMatchesWildcardPath\(\)$`, true)
		n := 0
		for _, r := range eng.Returns(f) {
			if r.Block().Comment == "recover" {
				continue
			}
			vals, _, _ := eng.ReturnVals(r, 0)
			for _, v := range vals {
				if v == nil {
					continue
				}
				s := eng.Expr(v)
				switch {
				case s == "false":
				case s == "true":
					n++
					c.Cut(f, "verdict true", []ssa.Instruction{r}, eng.Or(exact, wild), nil)
				case s == "strings.HasPrefix()":
					n++
					c.Cut(f, "verdict HasPrefix(remain, entry)", []ssa.Instruction{r}, prefix, nil)
					if cl, ok := v.(*ssa.Call); ok {
						c.Clause("R5", "C02.3")
						c.Prov(f, "path tested against the prefix entry", r, cl.Call.Args[0], `^call:strings\.TrimPrefix$`)
						c.Prov(f, "prefix entry", r, cl.Call.Args[1], `LongestPrefix#0$`)
						c.Clause("R2", "C02.3")
					}
				case regexp.MustCompile(`LongestPrefix\(\)#0 == strings\.TrimPrefix\(\)$|strings\.TrimPrefix\(\) == .*LongestPrefix\(\)#0$`).MatchString(s):
					n++
					c.OK(f, "verdict is the exact-match comparison", r.Pos(), s)
				default:
					c.Violation(f, "verdict of the path table", r.Pos(), "unreviewed verdict expression "+s, nil)
				}
			}
		}
		c.Floor(f, "non-false verdicts", n, 2)
	}
}

// C02.9: sys/seal and sys/step-down authenticate by hand (outside
// handleRequest): the action needs a fetched token/ACL, a live entity, a
// successful request audit and an allowing policy check that demands sudo.
func c02gHandAuthenticatedEndpoints(c *eng.Ctx) {
	for _, h := range []struct {
		fn, what string
		action   func(f *ssa.Function) []ssa.Instruction
	}{
		{"vault.(*Core).sealInitCommon", "seal", func(f *ssa.Function) []ssa.Instruction {
			return c02MaySinks(f, `vault\.\(\*Core\)\.sealInternal$`)
		}},
		{"vault.(*Core).StepDown", "step-down", func(f *ssa.Function) []ssa.Instruction {
			return eng.Instrs(f, func(in ssa.Instruction) bool { _, ok := in.(*ssa.Select); return ok })
		}},
	} {
		f := c.Fn(h.fn)
		if f == nil {
			continue
		}
		c.Clause("R2", "C02.9")
		action := h.action(f)
		if !c.Floor(f, h.what+" action", len(action), 1) {
			continue
		}
		c.Cut(f, h.what, action, nfGCallOK(f, `vault\.\(\*Core\)\.PopulateTokenEntry$`), nil)
		c.Cut(f, h.what, action, nfGCallOK(f, `vault\.\(\*Core\)\.fetchACLTokenEntryAndEntity$`), nil)
		c.Cut(f, h.what, action, nfGCallOK(f, `vault\.\(\*AuditBroker\)\.LogRequest$`), nil)
		c.Cut(f, h.what, action, eng.G(f, `^vault\.\(\*Core\)\.performPolicyChecks\(\)\.Allowed$`, true), nil)
		c.Cut(f, h.what, action, eng.Or(
			eng.G(f, `fetchACLTokenEntryAndEntity\(\)#2 == nil$`, true),
			eng.G(f, `fetchACLTokenEntryAndEntity\(\)#2\.Disabled$`, false)), nil)
		c.Cut(f, h.what, action, eng.Or(
			eng.G(f, `fetchACLTokenEntryAndEntity\(\)#1 == nil$`, true),
			eng.G(f, `fetchACLTokenEntryAndEntity\(\)#1\.EntityID == ""$`, true),
			eng.G(f, `fetchACLTokenEntryAndEntity\(\)#2 == nil$`, false)), nil)
		c.Clause("R5", "C02.9")
		pcs := eng.Calls(f, `vault\.\(\*Core\)\.performPolicyChecks$`)
		c.Floor(f, "performPolicyChecks call", len(pcs), 1)
		for _, pc := range pcs {
			a := pc.Common().Args
			rp := eng.StructLitField(a[6], "RootPrivsRequired")
			if len(rp) == 0 {
				c.Violation(f, "CheckOpts.RootPrivsRequired", pc.Pos(), "the policy check of "+h.what+" no longer sets RootPrivsRequired: sudo is not required", nil)
			}
			for _, v := range rp {
				if eng.Expr(v) == "true" {
					c.OK(f, "CheckOpts.RootPrivsRequired", pc.Pos(), "constant true")
				} else {
					c.Violation(f, "CheckOpts.RootPrivsRequired", pc.Pos(), "RootPrivsRequired = "+eng.Expr(v)+": sudo is not (always) required for "+h.what, nil)
				}
			}
			for _, v := range eng.StructLitField(a[6], "Unauth") {
				if eng.Expr(v) != "false" {
					c.Violation(f, "CheckOpts.Unauth", pc.Pos(), "the hand-authenticated endpoint asks for an unauthenticated policy check", nil)
				}
			}
			c.Prov(f, "acl passed to performPolicyChecks", pc, a[2], `^call:vault\.\(\*Core\)\.fetchACLTokenEntryAndEntity#0$`)
			c.Prov(f, "request checked", pc, a[4], `^param:req$`)
		}
	}
}

// C02.7d: the policy cache key separates namespace and name injectively: the
// caller-supplied name is appended verbatim and never normalised together with
// the namespace component. A cleaning join (path.Join / path.Clean) resolves
// ".." elements of the NAME against the namespace UUID, so a policy named
// "../<other-uuid>/<policy>" addresses another namespace's cache entry and that
// namespace's policy judges the token.
func c02gCacheKeyInjective(c *eng.Ctx) {
	f := c.Fn("policy.(*Store).cacheKey")
	if f == nil {
		return
	}
	c.Clause("R5", "C02.7")
	cleaning := regexp.MustCompile(`^call:(path|path/filepath)\.(Join|Clean)$`)
	verbatim := regexp.MustCompile(`^(field:ns\.UUID|param:name|const:.*|call:fmt\.Sprintf)$`)
	n := 0
	for _, r := range eng.Returns(f) {
		if r.Block().Comment == "recover" || len(r.Results) == 0 {
			continue
		}
		vals, _, _ := eng.ReturnVals(r, 0)
		for _, v := range vals {
			if v == nil {
				continue
			}
			n++
			site := "cache key keeps namespace and name apart"
			kinds := c02gOriginKinds(v)
			bad, unknown := "", ""
			hasNS, hasName := false, false
			for _, k := range kinds {
				switch {
				case cleaning.MatchString(k):
					bad = k
				case !verbatim.MatchString(k):
					unknown = k
				}
				hasNS = hasNS || k == "field:ns.UUID"
				hasName = hasName || k == "param:name"
			}
			if sp, ok := v.(*ssa.Call); ok && strings.HasSuffix(eng.CalleeName(&sp.Call), "fmt.Sprintf") {
				hasNS, hasName = true, true // operands are boxed into the variadic slice; not followed here
			}
			switch {
			case bad != "":
				c.Violation(f, site, r.Pos(), "the key is built with "+strings.TrimPrefix(bad, "call:")+", which cleans \"..\" elements of the policy name against the namespace UUID: a name \"../<uuid>/<policy>\" yields another namespace's key", nil)
			case unknown != "":
				c.Undecided(f, site, r.Pos(), "unreviewed key construction: "+unknown)
			case !hasNS || !hasName:
				c.Violation(f, site, r.Pos(), "the key does not contain both the namespace UUID and the policy name: "+strings.Join(kinds, ", "), nil)
			default:
				c.OK(f, site, r.Pos(), strings.Join(kinds, " + "))
			}
		}
	}
	c.Floor(f, "returns of cacheKey", n, 1)
}

// c02MaySinks: "calls of T in f" as SINKS (may-semantics): every instruction of
// f through which a call whose resolved target matches pat may be reached — the
// direct call, the call through a bound method value, and a call of a closure
// of the same top-level function (forwarding closure, immediately invoked
// closure, function variable) whose body, transitively, contains such a call.
// When f holds none of those, the calls of functions of the same package that
// contain such a call directly are taken instead (the sink moved into a helper).
// (Guards use the must-semantics of nfSites / nfGCallOK instead.)
func c02MaySinks(f *ssa.Function, pat string) []ssa.Instruction {
	re := regexp.MustCompile(pat)
	memo := map[*ssa.Function]bool{}
	var contains func(g *ssa.Function, depth int) bool
	contains = func(g *ssa.Function, depth int) bool {
		if v, ok := memo[g]; ok {
			return v
		}
		memo[g] = false
		for _, ci := range nfAllCalls(g) {
			if re.MatchString(nfCallOf(ci).Name) {
				memo[g] = true
				return true
			}
			if depth > 0 {
				if b := nfBody(ci, g); b != nil && b.Parent() != nil && contains(b, depth-1) {
					memo[g] = true
					return true
				}
			}
		}
		return false
	}
	var out []ssa.Instruction
	for _, ci := range nfAllCalls(f) {
		if re.MatchString(nfCallOf(ci).Name) {
			out = append(out, ci)
			continue
		}
		if b := nfBody(ci, f); b != nil && b.Parent() != nil && contains(b, 2) {
			out = append(out, ci)
		}
	}
	if len(out) > 0 {
		return out
	}
	for _, ci := range nfAllCalls(f) {
		if b := nfBody(ci, f); b != nil && b.Parent() == nil && b != f && contains(b, 0) {
			out = append(out, ci)
		}
	}
	return out
}

// C02.11: writer/reader agreement on a policy stanza. Every field of
// policy.PathRules that NewACL READS to decide whether and how a stanza applies
// (the table is derived from the reads) is written by the parser (parsePaths and
// its closures), or is an explicitly tagged HCL field filled by the decode of the
// stanza: a field that is read but never written is always zero — for Expiration
// "never expires", so an expired stanza keeps granting while its policy sits in
// the cache (seed C02-g). A field F that is parsed from a raw attribute FRaw
// (Expiration / ExpirationRaw) is stored from a parse of that attribute, and once
// the attribute is present the stanza is appended to the policy only after that
// store. On the reader side the merge of a stanza into the ACL lies behind "no
// expiration OR not yet expired", tested on the stanza's Expiration.
func c02gStanzaWriterReader(c *eng.Ctx) {
	reader := c.Fn("policy.NewACL")
	writer := c.Fn("policy.parsePaths")
	if reader == nil || writer == nil {
		return
	}
	named := c.P.NamedType("policy.PathRules")
	if named == nil {
		c.Unresolved("policy.PathRules")
		return
	}
	st, ok := named.Underlying().(*types.Struct)
	if !ok {
		c.Unresolved("policy.PathRules (struct)")
		return
	}
	fieldIdx := map[*types.Var]int{}
	byName := map[string]*types.Var{}
	for i := 0; i < st.NumFields(); i++ {
		fieldIdx[st.Field(i)] = i
		byName[st.Field(i).Name()] = st.Field(i)
	}
	inTop := func(top *ssa.Function) []*ssa.Function {
		var out []*ssa.Function
		for _, fn := range c.P.Funcs {
			if eng.TopFunc(fn) == top && len(fn.Blocks) > 0 {
				out = append(out, fn)
			}
		}
		return out
	}
	// ---- reads of the reader (a FieldAddr that is only stored through is a write)
	read := map[*types.Var]token.Pos{}
	for _, fn := range inTop(reader) {
		for _, in := range eng.Instrs(fn, func(ssa.Instruction) bool { return true }) {
			var fv *types.Var
			isRead := false
			switch x := in.(type) {
			case *ssa.FieldAddr:
				fv = eng.FieldVar(x)
				if refs := x.Referrers(); refs != nil {
					for _, r := range *refs {
						if s, isStore := r.(*ssa.Store); isStore && s.Addr == ssa.Value(x) {
							continue
						}
						if _, dbg := r.(*ssa.DebugRef); dbg {
							continue
						}
						isRead = true
					}
				}
			case *ssa.Field:
				fv, isRead = eng.FieldVar(x), true
			}
			if fv == nil || !isRead {
				continue
			}
			if fv.Origin() != nil {
				fv = fv.Origin()
			}
			if _, mine := fieldIdx[fv]; mine {
				if _, seen := read[fv]; !seen {
					read[fv] = in.Pos()
				}
			}
		}
	}
	c.Clause("R6", "C02.11")
	if !c.Floor(reader, "PathRules fields read by NewACL", len(read), 4) {
		return
	}
	// ---- writers in the parser
	stores := map[*types.Var][]*ssa.Store{}
	for _, fn := range inTop(writer) {
		for _, s := range eng.Stores(fn, `.`) {
			if fa, ok := s.Addr.(*ssa.FieldAddr); ok {
				fv := eng.FieldVar(fa)
				if fv != nil && fv.Origin() != nil {
					fv = fv.Origin()
				}
				if _, mine := fieldIdx[fv]; mine {
					stores[fv] = append(stores[fv], s)
				}
			}
		}
	}
	decodes := false
	for _, fn := range inTop(writer) {
		for _, d := range eng.Calls(fn, `hashicorp/hcl\.DecodeObject$`) {
			if a := d.Common().Args; len(a) > 0 {
				if ok, _, _ := eng.OriginsMatch(a[0], `^alloc:`, `^freevar:`); ok || strings.Contains(a[0].Type().String(), "PathRules") {
					decodes = true
				}
			}
		}
	}
	var names []string
	for fv := range read {
		names = append(names, fv.Name())
	}
	sort.Strings(names)
	nStored := 0
	for _, n := range names {
		fv := byName[n]
		site := "stanza field " + n + " read by NewACL is written by the parser"
		tag := reflect.StructTag(st.Tag(fieldIdx[fv])).Get("hcl")
		switch {
		case len(stores[fv]) > 0:
			nStored++
			c.OK(writer, site, stores[fv][0].Pos(), fmt.Sprintf("%d store(s) in parsePaths", len(stores[fv])))
		case decodes && tag != "" && tag != "-":
			c.OK(writer, site, writer.Pos(), "filled by the HCL decode of the stanza (hcl:\""+tag+"\")")
		default:
			c.Violation(writer, site, read[fv], "NewACL reads PathRules."+n+" but parsePaths never stores it (and the HCL decode does not fill it): it is always the zero value, so the decision that depends on it ("+map[bool]string{true: "the stanza never expires", false: "see the read"}[n == "Expiration"]+") is taken on a constant", nil)
		}
	}
	c.Floor(writer, "read stanza fields stored by parsePaths", nStored, 4)

	// ---- a field parsed from its raw attribute: value provenance and order before the stanza is appended
	var appends []ssa.Instruction
	for _, s := range eng.Stores(writer, `.`) {
		if a, ok := s.Val.(*ssa.Alloc); ok {
			if pt, ok := a.Type().Underlying().(*types.Pointer); ok && types.Identical(pt.Elem(), named) {
				appends = append(appends, s)
			}
		}
	}
	for _, n := range names {
		raw := byName[n+"Raw"]
		fv := byName[n]
		if raw == nil || len(stores[fv]) == 0 {
			continue
		}
		c.Clause("R5", "C02.11")
		for _, s := range stores[fv] {
			okProv := false
			var from []string
			for _, o := range eng.Origins(s.Val) {
				from = append(from, o.Kind+":"+o.Desc)
				var call *ssa.Call
				switch v := o.Val.(type) {
				case *ssa.Extract:
					call, _ = v.Tuple.(*ssa.Call)
				case *ssa.Call:
					call = v
				}
				if call == nil {
					okProv = false
					break
				}
				okProv = false
				for _, a := range call.Call.Args {
					for {
						if mi, ok := a.(*ssa.MakeInterface); ok {
							a = mi.X
							continue
						}
						if ct, ok := a.(*ssa.ChangeType); ok {
							a = ct.X
							continue
						}
						break
					}
					if ld, isLoad := a.(*ssa.UnOp); isLoad && ld.Op == token.MUL {
						if rf := eng.FieldVar(ld.X); rf != nil && (rf == raw || rf.Origin() == raw) {
							okProv = true
						}
					}
				}
				if !okProv {
					break
				}
			}
			site := "stanza field " + n + " is parsed from the stanza's " + raw.Name()
			if okProv {
				c.OK(eng.TopFunc(s.Parent()), site, s.Pos(), strings.Join(from, ", "))
			} else {
				c.Violation(eng.TopFunc(s.Parent()), site, s.Pos(), "PathRules."+n+" is stored from "+strings.Join(from, ", ")+", not from a parse of the stanza's "+raw.Name(), nil)
			}
		}
		c.Clause("R4", "C02.11")
		present := eng.CondEdges(writer, `^0 < len\(.*\.`+regexp.QuoteMeta(raw.Name())+`\)$`, true)
		site := "on{" + raw.Name() + " present} " + n + " stored before the stanza is appended"
		var ins []ssa.Instruction
		for _, s := range stores[fv] {
			if s.Parent() == writer {
				ins = append(ins, s)
			}
		}
		switch {
		case len(present) == 0 || len(appends) == 0:
			c.Undecided(writer, site, writer.Pos(), "the test for a present "+raw.Name()+" or the append of the stanza to the policy was not found (moved? the rule cannot be evaluated)")
		default:
			if h := eng.Reach(eng.Query{Fn: writer, StartEdges: present, Barriers: ins, Target: eng.IsTarget(appends)}); h != nil {
				c.Violation(writer, site, h.Instr.Pos(), "a stanza with an "+raw.Name()+" attribute can be appended to the policy without "+n+" having been stored", h.Witness)
			} else {
				c.OK(writer, site, appends[0].Pos(), "every path from the attribute-present edge to the append passes the store")
			}
		}
	}

	// ---- reader side: a stanza is merged into the ACL only while it has not expired
	if exp := byName["Expiration"]; exp != nil {
		c.Clause("R2", "C02.11")
		var sinks []ssa.Instruction
		sinks = append(sinks, c02MaySinks(reader, `go-radix\.Tree\)\.Insert$`)...)
		for _, in := range eng.Instrs(reader, func(in ssa.Instruction) bool { _, ok := in.(*ssa.MapUpdate); return ok }) {
			sinks = append(sinks, in)
		}
		isExp := func(v ssa.Value) bool {
			_, ok := nfFieldRead(v, exp)
			return ok
		}
		g := eng.Guard{Desc: "stanza Expiration is zero OR now is not after it"}
		nz, na := 0, 0
		for _, cl := range eng.Calls(reader, `^time\.\(Time\)\.IsZero$`) {
			if v, ok := cl.(ssa.Value); ok && isExp(cl.Common().Args[0]) {
				nz++
				g.Edges = append(g.Edges, eng.BoolEdges(v, true)...)
			}
		}
		for _, cl := range eng.Calls(reader, `^time\.\(Time\)\.After$`) {
			a := cl.Common().Args
			if v, ok := cl.(ssa.Value); ok && len(a) == 2 && isExp(a[1]) {
				if okNow, _, _ := eng.OriginsMatch(a[0], `^call:time\.Now$`); okNow {
					na++
					g.Edges = append(g.Edges, eng.BoolEdges(v, false)...)
				}
			}
		}
		if c.Floor(reader, "insertions into the ACL", len(sinks), 4) && c.Floor(reader, "tests of the stanza's Expiration (IsZero, now.After)", min(nz, na), 1) {
			c.Cut(reader, "stanza merged into the ACL", sinks, g, nil)
		}
	}
}
