package props

import (
	"fmt"
	"strings"

	"golang.org/x/tools/go/ssa"

	"obsa/eng"
)

func init() {
	register(&Prop{
		ID: "C01",
		Explanation: "Structural necessary conditions of 'stored data is confidential, authenticated and bound to its key', for every call site / path: " +
			"(1) every physical.Entry the barrier package hands to the physical backend carries a Value that originates only from (*AESGCMBarrier).encrypt/encryptTracked, whose output originates only from cipher.AEAD.Seal; " +
			"(2) key binding: the storage key of such an entry is the same expression as the path given to encrypt; in the current record format the AEAD associated data of Seal and Open derive from the whole `path` parameter (nil only when path is empty) and are the bare byte conversion of that parameter — no slicing, indexing, concatenation or call between the parameter and the AEAD operand; reads decrypt under the key they were fetched with; writer and reader use the same header layout (term in [0:4], version at [4], ciphertext from [5]); " +
			"(3) short or unknown-version records are refused before they are sliced: every [:4] slice of a fetched record is cut by a len>=4 guard, decrypt by len>5, and the version switch's default arm returns an error; " +
			"(4) the logical.Storage methods of the barrier and of its transaction reach the backend only through putInternal/lockSwitchedGet/deleteWithBackend/listPageWithBackend; " +
			"(5) who-may-call: every invoke of physical.Backend.Put/Delete outside the physical layers and the barrier package is in a frozen table whose rows pin the storage key to a reviewed constant; constructors of directStorageAccess are tabled; a sys/raw handler uses the accessor storageByPath returned on the very key value it classified; writers through the StorageAccess indirection (the unencrypted accessor for root seals) are tabled and the seals' keys pinned to the two seal-config constants; " +
			"(6) what the bootstrap writers store: the stored-keys and recovery-key records carry proto.Marshal of the seal's Encrypt result on every path and are written behind Encrypt's success edge; the raw rekey backups are written behind EncryptShares' success and every share hex-encoded into them is read out of results.SecretShares as overwritten by EncryptShares' result (no later overwrite); " +
			"(2b) every writer of the format byte stores AESGCMVersion2 (the key-bound format); (3b) the len>=4 cut holds for every [:4] term slice of the barrier package, including the in-memory Decrypt; (3c) a barrier reader returns (no entry, no error) only across the backend-entry == nil edge — no test of the stored value's length or content leads to a not-found answer; " +
			"(7) no key material reaches the store through a wiped root key: Keyring.SetRootKey gives its result a freshly allocated copy of the root key (Clone/AddKey share it by reference), and every Keyring.Zeroize site outside Seal lies in a function in which every keyring made live comes out of SetRootKey (directly or via updateRootKeyCommon) — a superseded keyring is zeroised only if it shares no root-key bytes with the live one.",
		NotDecided: "that AES-GCM authenticates (Go crypto/cipher is trusted); the plaintext-canary scan of a live store; enumeration of tampered records; legacy-format (version 1) relocation, which the statement itself excludes.",
		Run:        runC01,
	})
}

func runC01(c *eng.Ctx, thorough bool) {
	putM, ok := c.P.IfaceCallee("physical.Backend", "Put")
	if !ok {
		c.Unresolved("physical.Backend")
		return
	}
	wrM, _ := c.P.IfaceCallee("physical.Backend", "Put", "Delete")

	// ---------- C01.1 / C01.2 barrier puts carry AEAD output bound to the same key
	c.Clause("R5", "C01.1")
	inBarrier := func(fn *ssa.Function) bool { return eng.InPkg(fn, "barrier") }
	sites := append(c.P.FindCalls(putM, inBarrier), kBoundIfaceCalls(c, inBarrier, `^<physical\.\w+>\.Put$`)...)
	nPut := 0
	for _, s := range sites {
		if kMethod(s.Call) == "" {
			continue
		}
		nPut++
		args := kArgs(s.Call)
		// the write may sit in a forwarding closure / unexported helper whose parameter is the entry: follow it to the argument passed
		sFn, ent, decided := kLiteralOf(c, s.Fn, args[len(args)-1])
		if !decided {
			c.Undecided(s.Fn, "barrier put entry", s.Call.Pos(), "the entry handed to the physical backend is a parameter whose call sites cannot all be resolved (moved? the rule cannot be evaluated)")
			continue
		}
		vals := eng.StructLitField(ent, "Value")
		keys := eng.StructLitField(ent, "Key")
		if len(vals) == 0 || len(keys) == 0 {
			c.Violation(sFn, "barrier put entry", s.Call.Pos(), "the entry handed to the physical backend is not a local literal with Key and Value: cannot establish that the value is ciphertext", nil)
			continue
		}
		for _, v := range vals {
			c.Prov(sFn, "physical.Entry.Value written by the barrier", s.Call, v, `^call:barrier\.\(\*AESGCMBarrier\)\.(encrypt|encryptTracked)#0$`)
			// key binding: the key of the entry equals the path argument of that encrypt call
			c.Clause("R5", "C01.2")
			for _, o := range eng.Origins(v) {
				ex, ok := o.Val.(*ssa.Extract)
				if !ok {
					continue
				}
				call, ok := ex.Tuple.(*ssa.Call)
				if !ok {
					continue
				}
				pathArg := call.Call.Args[1]
				for _, k := range keys {
					if k == pathArg || eng.ExprDeep(k) == eng.ExprDeep(pathArg) {
						c.OK(sFn, "entry key == encrypt path", s.Call.Pos(), "Key "+eng.ExprDeep(k)+" is the path the value was encrypted under")
					} else {
						c.Violation(sFn, "entry key == encrypt path", s.Call.Pos(), fmt.Sprintf("entry is stored under key %s but was encrypted (authenticated) under path %s", eng.ExprDeep(k), eng.ExprDeep(pathArg)), nil)
					}
				}
			}
			c.Clause("R5", "C01.1")
		}
	}
	c.Floor(nil, "barrier puts to the physical backend", nPut, 4)

	if f := c.Fn("barrier.(*AESGCMBarrier).encryptTracked"); f != nil {
		c.Clause("R5", "C01.1")
		for _, r := range eng.SuccessReturns(f, 1) {
			ret := r.(*ssa.Return)
			if !eng.IsNilConst(ret.Results[0]) {
				c.Prov(f, "encryptTracked result", ret, ret.Results[0], `^call:barrier\.\(\*AESGCMBarrier\)\.encrypt#0$`)
			}
		}
		for _, e := range kCalls(f, `barrier\.\(\*AESGCMBarrier\)\.encrypt$`) {
			a := kArgs(e)
			c.Prov(f, "path forwarded to encrypt", e, a[1], `^param:path$`)
			c.Prov(f, "plaintext forwarded to encrypt", e, a[4], `^param:`)
		}
	}
	if f := c.Fn("barrier.(*AESGCMBarrier).encrypt"); f != nil {
		c.Clause("R5", "C01.1")
		n := 0
		for _, r := range eng.SuccessReturns(f, 1) {
			ret := r.(*ssa.Return)
			if eng.IsNilConst(ret.Results[0]) {
				continue
			}
			n++
			c.Prov(f, "encrypt output", ret, ret.Results[0], `^call:`+c01AEAD("Seal")+`$`)
		}
		c.Floor(f, "success returns", n, 1)
		c.Clause("R5", "C01.2")
		seals := kCalls(f, c01AEAD("Seal")+`$`)
		c.Floor(f, "Seal calls", len(seals), 1)
		bound := 0
		for _, s := range seals {
			a := kArgs(s)
			c.Prov(f, "plaintext sealed", s, a[2], `^param:plain$`)
			aad := a[3]
			if eng.IsNilConst(aad) {
				continue // legacy format arm: no key binding, as the statement says
			}
			bound++
			c.Prov(f, "associated data of Seal (current format)", s, aad, `^param:path$`, `^const:nil$`)
			has := false
			for _, o := range eng.Origins(aad) {
				if o.Kind == "param" && o.Desc == "path" {
					has = true
				}
			}
			if !has {
				c.Violation(f, "associated data of Seal (current format)", s.Pos(), "the associated data no longer derives from the storage path: records are not bound to their key", nil)
			}
			wholePathAAD(c, f, "Seal", s, aad)
		}
		if bound == 0 {
			c.Violation(f, "key-bound Seal", f.Pos(), "no Seal call with path-derived associated data exists: the current record format is not key-bound", nil)
		}
		nilAAD := eng.PhiEdges(f, "aad", eng.IsNilConst)
		if len(nilAAD) > 0 {
			c.Clause("R2", "C01.2")
			c.CutEdges(f, "aad = nil (current format)", nilAAD, eng.Or(eng.G(f, `^path == ""$`, true), eng.G(f, `^b\.currentAESGCMVersionByte == `+c01V1(c)+`$`, true)))
		}
		// the version written is the version whose arm runs
		c.Clause("R7", "C01.2")
		hdr := eng.Stores(f, `^makeslice\[4\]$`)
		if len(hdr) == 0 {
			c.Violation(f, "version byte at offset 4", f.Pos(), "encrypt no longer writes the format version at offset 4 of the record", nil)
		}
		for _, st := range hdr {
			c.Prov(f, "version byte at offset 4", st, st.Val, `^field:b\.currentAESGCMVersionByte$`)
		}
		if len(kCalls(f, `PutUint32$`)) == 0 {
			c.Violation(f, "term at offset 0", f.Pos(), "encrypt no longer writes the key term at the head of the record", nil)
		}
		for _, pu := range kCalls(f, `PutUint32$`) {
			a := kArgs(pu)
			if eng.Expr(a[len(a)-2]) == "makeslice[:4]" {
				c.OK(f, "term at offset 0", pu.Pos(), "term written to out[:4]")
			} else {
				c.Violation(f, "term at offset 0", pu.Pos(), "term written to "+eng.Expr(a[len(a)-2])+", reader expects [:4]", nil)
			}
			c.Prov(f, "term written", pu, a[len(a)-1], `^param:term$`)
		}
	}
	if f := c.Fn("barrier.(*AESGCMBarrier).decrypt"); f != nil {
		c.Clause("R5", "C01.2")
		opens := kCalls(f, c01AEAD("Open")+`$`)
		c.Floor(f, "Open calls", len(opens), 1)
		bound := 0
		for _, o := range opens {
			a := kArgs(o)
			if s := eng.Expr(a[2]); s != "cipher[5:]" {
				c.Violation(f, "ciphertext offset", o.Pos(), "Open is given "+s+", writer puts the ciphertext at [5:]", nil)
			} else {
				c.OK(f, "ciphertext offset", o.Pos(), "Open reads cipher[5:], matching the writer's 4-byte term + 1-byte version header")
			}
			aad := a[3]
			if eng.IsNilConst(aad) {
				continue
			}
			bound++
			c.Prov(f, "associated data of Open (current format)", o, aad, `^param:path$`, `^const:nil$`)
			has := false
			for _, og := range eng.Origins(aad) {
				if og.Kind == "param" && og.Desc == "path" {
					has = true
				}
			}
			if !has {
				c.Violation(f, "associated data of Open (current format)", o.Pos(), "the associated data no longer derives from the storage path", nil)
			}
			wholePathAAD(c, f, "Open", o, aad)
		}
		if bound == 0 {
			c.Violation(f, "key-bound Open", f.Pos(), "no Open call with path-derived associated data exists", nil)
		}
		c.Clause("R2", "C01.3")
		c.Cut(f, "AEAD Open", instrsOf(opens), eng.G(f, `^5 < len\(cipher\)$`, true), nil)
		succ := eng.SuccessReturns(f, 1)
		c.Cut(f, "return without error", succ, eng.Or(eng.G(f, `^cipher\[4\] == 1$`, true), eng.G(f, `^cipher\[4\] == 2$`, true)), nil)
		// each success return is the result of Open itself
		c.Clause("R5", "C01.3")
		for _, r := range succ {
			ret := r.(*ssa.Return)
			c.Prov(f, "decrypt result", ret, ret.Results[0], `^call:`+c01AEAD("Open")+`#0$`)
			c.Prov(f, "decrypt error", ret, ret.Results[1], `^call:`+c01AEAD("Open")+`#1$`)
		}
		nilAAD := eng.PhiEdges(f, "aad", eng.IsNilConst)
		if len(nilAAD) > 0 {
			c.Clause("R2", "C01.2")
			c.CutEdges(f, "aad = nil (current format)", nilAAD, eng.Or(eng.G(f, `^path == ""$`, true), eng.G(f, `^cipher\[4\] == `+c01V1(c)+`$`, true)))
		}
	}

	// ---------- readers: key fetched == key authenticated; length guards
	for _, fn := range []string{"barrier.(*AESGCMBarrier).lockSwitchedGet", "barrier.(*AESGCMBarrier).Unseal", "barrier.(*AESGCMBarrier).ReloadKeyring", "barrier.(*AESGCMBarrier).ReloadRootKey", "barrier.(*AESGCMBarrier).CheckUpgrade", "barrier.(*AESGCMBarrier).VerifyRoot"} {
		f := c.Fn(fn)
		if f == nil {
			continue
		}
		decs := kCalls(f, `barrier\.\(\*AESGCMBarrier\)\.decrypt$`)
		gets := kCalls(f, `<physical\.Backend>\.Get$`)
		if len(decs) == 0 && len(gets) == 0 {
			continue
		}
		c.Clause("R5", "C01.2")
		for _, d := range decs {
			a := kArgs(d)
			// the ciphertext comes from a Get in this function, and that Get's key == decrypt's path
			matched := false
			for _, g := range gets {
				ga := kArgs(g)
				if eng.ExprDeep(ga[len(ga)-1]) == eng.ExprDeep(a[1]) {
					matched = true
				}
			}
			if matched {
				c.OK(f, "decrypt path == fetched key", d.Pos(), "record decrypted under the key it was fetched with: "+eng.ExprDeep(a[1]))
			} else {
				c.Violation(f, "decrypt path == fetched key", d.Pos(), "decrypt is given path "+eng.ExprDeep(a[1])+" which is not the key of any backend Get in this function", nil)
			}
			c.Prov(f, "ciphertext given to decrypt", d, a[3], `^field:<physical\.Backend>\.Get\(\)#0\.Value$`)
		}
		// [:4] slices of fetched values are guarded
		c.Clause("R2", "C01.3")
		for _, u := range kCalls(f, `\.Uint32$`) {
			a := kArgs(u)
			buf := eng.Expr(a[len(a)-1])
			if !strings.HasSuffix(buf, ".Value[:4]") {
				continue
			}
			base := strings.TrimSuffix(buf, "[:4]")
			g := eng.G(f, `^len\(`+reQuote(base)+`\) < 4$`, false)
			c.Cut(f, "slice "+buf, []ssa.Instruction{u}, g, nil)
		}
	}
	if f := c.Fn("barrier.(*AESGCMBarrier).lockSwitchedGet"); f != nil {
		c.Clause("R5", "C01.2")
		for _, g := range kCalls(f, `<physical\.Backend>\.Get$`) {
			a := kArgs(g)
			c.Prov(f, "key fetched", g, a[len(a)-1], `^param:key$`)
			c.Prov(f, "backend used", g, kRecv(g), `^param:backend$`)
		}
		// the AEAD is selected by the record's own term
		for _, at := range kCalls(f, `aeadForTerm$`) {
			c.Prov(f, "term used to select the key", at, kArgs(at)[1], `^call:\(encoding/binary\.bigEndian\)\.Uint32$`)
		}
		// success with a value only after decrypt succeeded
		c.Clause("R2", "C01.3")
		var valRets []ssa.Instruction
		for _, r := range eng.NonNilResultReturns(f, 0) {
			valRets = append(valRets, r)
		}
		c.Floor(f, "value-returning exits", len(valRets), 1)
		c.Cut(f, "return of a decrypted entry", valRets, nfGCallOK(f, `barrier\.\(\*AESGCMBarrier\)\.decrypt$`), nil)
		c.Clause("R5", "C01.3")
		for _, r := range valRets {
			vals, _, _ := eng.ReturnVals(r.(*ssa.Return), 0)
			for _, v := range vals {
				if eng.IsNilConst(v) {
					continue
				}
				for _, pv := range eng.StructLitField(v, "Value") {
					c.Prov(f, "value returned to the caller", r, pv, `^call:barrier\.\(\*AESGCMBarrier\)\.decrypt#0$`)
				}
			}
		}
	}

	// ---------- C01.4 logical.Storage methods funnel
	c.Clause("R8", "C01.4")
	funnel := map[string]string{
		"barrier.(*AESGCMBarrier).Put":                 `barrier\.\(\*AESGCMBarrier\)\.putWithBackend$`,
		"barrier.(*AESGCMBarrier).Get":                 `barrier\.\(\*AESGCMBarrier\)\.lockSwitchedGet$`,
		"barrier.(*AESGCMBarrier).Delete":              `barrier\.\(\*AESGCMBarrier\)\.deleteWithBackend$`,
		"barrier.(*AESGCMBarrier).ListPage":            `barrier\.\(\*AESGCMBarrier\)\.listPageWithBackend$`,
		"barrier.(*AESGCMBarrierTransaction).Put":      `barrier\.\(\*AESGCMBarrier\)\.putWithBackend$`,
		"barrier.(*AESGCMBarrierTransaction).Get":      `barrier\.\(\*AESGCMBarrier\)\.lockSwitchedGet$`,
		"barrier.(*AESGCMBarrierTransaction).Delete":   `barrier\.\(\*AESGCMBarrier\)\.deleteWithBackend$`,
		"barrier.(*AESGCMBarrierTransaction).ListPage": `barrier\.\(\*AESGCMBarrier\)\.listPageWithBackend$`,
		"barrier.(*AESGCMBarrier).putWithBackend":      `barrier\.\(\*AESGCMBarrier\)\.putInternal$`,
	}
	for fn, via := range funnel {
		f := c.Fn(fn)
		if f == nil {
			continue
		}
		direct := 0
		for _, h := range append([]*ssa.Function{f}, eng.Closures(f)...) {
			for _, ci := range nfAllCalls(h) {
				if strings.HasPrefix(kName(ci), "<physical.") {
					direct++
					c.Violation(f, "funnel{"+via+"}", ci.Pos(), "storage method touches the physical backend directly ("+kName(ci)+") instead of going through the single encrypt/decrypt helper", nil)
				}
			}
		}
		// the delegation: the helper called directly, through a bound method value, or inside a
		// forwarding closure / same-package helper that calls it on every path
		sites := nfPlain(nfSites(f, via))
		if len(sites) == 0 {
			if len(kMaySites(f, via, 2)) > 0 {
				c.Undecided(f, "funnel{"+via+"}", f.Pos(), "the storage method reaches "+via+" only on some paths of a closure or helper (moved? the rule cannot be evaluated)")
			} else {
				c.Violation(f, "funnel{"+via+"}", f.Pos(), "storage method no longer delegates to "+via, nil)
			}
		} else if direct == 0 {
			c.OK(f, "funnel{"+via+"}", sites[0].At.Pos(), "reaches the backend only through the helper")
		}
		if strings.Contains(fn, "Transaction") {
			for _, e := range nfEffs(sites) {
				// the backend argument is the transaction (read through whatever alias / closure parameter)
				found := false
				for _, a := range e.Call.Args {
					if ok, _ := nfAll(a, e.Fr, func(o eng.Origin) bool { return o.Kind == "field" && o.Desc == "t.txn" }); ok {
						found = true
					}
				}
				if found {
					c.OK(f, "transactional sibling uses t.txn", e.Call.In.Pos(), "helper called with the wrapped transaction as backend")
				} else {
					c.Violation(f, "transactional sibling uses t.txn", e.Call.In.Pos(), "the transaction's storage method does not pass its own transaction to the helper: writes would bypass the transaction", nil)
				}
			}
		}
	}
	if f := c.Fn("barrier.(*AESGCMBarrier).putWithBackend"); f != nil {
		c.Clause("R5", "C01.2")
		for _, pi := range kCalls(f, `putInternal$`) {
			a := kArgs(pi)
			c.Prov(f, "term used for new writes", pi, a[3], `ActiveTerm`, `\.Term$`, `^call:barrier\.\(\*Keyring\)\.ActiveTerm$`)
		}
	}

	// ---------- C01.5 raw writers of the physical backend
	c.Clause("R1", "C01.5")
	rawKeep := func(fn *ssa.Function) bool {
		p := eng.PkgPathOf(fn)
		if strings.HasPrefix(p, eng.ModSDK+"/physical") || strings.HasPrefix(p, eng.ModMain+"/internal/physical") || p == eng.Alias["barrier"] {
			return false
		}
		if strings.Contains(p, "/testhelpers") || strings.HasSuffix(p, "/helper/testhelpers/teststorage") {
			return false
		}
		return true
	}
	raw := c.P.FindCalls(wrM, rawKeep)
	// only invokes on the physical interfaces (not concrete-type methods that happen to implement it, e.g. views)
	var rawSites []eng.CallSite
	for _, s := range raw {
		if s.Call.Common().IsInvoke() && strings.HasPrefix(kName(s.Call), "<physical.") {
			rawSites = append(rawSites, s)
		}
	}
	// ... and the same methods called through a bound method value (w := c.physical.Put; w(ctx, e))
	rawSites = append(rawSites, kBoundIfaceCalls(c, rawKeep, `^<physical\.\w+>\.(Put|Delete)$`)...)
	table := map[string]string{
		"vault.(*directStorageAccess).Put":                      "the sanctioned raw accessor for seal configuration (constructors tabled below)",
		"vault.(*directStorageAccess).Delete":                   "the sanctioned raw accessor for seal configuration",
		"vault.writeStoredKeys":                                 "seal-wrapped stored barrier keys (StoredBarrierKeysPath)",
		"vault.(*autoSeal).SetRecoveryKey":                      "seal-wrapped recovery key (recoveryKeyPath)",
		"vault.(*Core).BarrierRekeyUpdate":                      "PGP-encrypted unseal key backup (coreBarrierUnsealKeysBackupPath)",
		"vault.(*Core).RecoveryRekeyUpdate":                     "PGP-encrypted recovery key backup (coreRecoveryUnsealKeysBackupPath)",
		"vault.(*Core).RekeyDeleteBackup":                       "deletes the two key backups",
		"vault.(*Core).migrateSealConfig":                       "deletes the recovery seal configuration during seal migration",
		"vault.(*SystemBackend).handleStorageRaftSnapshotWrite": "raft bootstrap data: leader lock after snapshot restore (CoreLockPath)",
		"vault.(*UIConfig).save":                                "FINDING: plaintext copy of the UI header configuration",
		"command.SetStorageMigration":                           "storage migration marker written by the CLI before the server starts (storageMigrationLock)",
		"command.(*OperatorMigrateCommand).migrateAll":          "offline `operator migrate`: copies already-encrypted records verbatim between backends",
		"vault/diagnose.EndToEndLatencyCheckWrite":              "offline `operator diagnose`: latency probe record",
		"vault/diagnose.EndToEndLatencyCheckDelete":             "offline `operator diagnose`: latency probe record",
		"logical.(*LogicalStorage).Put":                         "sdk adaptor physical->logical (constructor callers tabled below)",
		"logical.(*LogicalStorage).Delete":                      "sdk adaptor physical->logical",
		"logical.(*InmemStorage).Put":                           "sdk in-memory test storage",
		"logical.(*InmemStorage).Delete":                        "sdk in-memory test storage",
	}
	keyConst := map[string][]string{
		"vault.writeStoredKeys":                                 {`^const:"core/hsm/barrier-unseal-keys"$`, `^param:metaPrefix$`},
		"vault.(*autoSeal).SetRecoveryKey":                      {`^const:"core/recovery-key"$`, `^field:d\.metaPrefix$`},
		"vault.(*Core).BarrierRekeyUpdate":                      {`^const:"core/unseal-keys-backup"$`},
		"vault.(*Core).RecoveryRekeyUpdate":                     {`^const:"core/recovery-keys-backup"$`},
		"vault.(*SystemBackend).handleStorageRaftSnapshotWrite": {`^const:"core/lock"$`},
		"command.SetStorageMigration":                           {`^const:"core/migration"$`},
	}
	delConst := map[string][]string{
		"vault.(*Core).RekeyDeleteBackup": {`^const:"core/(unseal|recovery)-keys-backup"$`},
		"vault.(*Core).migrateSealConfig": {`^const:"core/recovery-config"$`},
		"command.SetStorageMigration":     {`^const:"core/migration"$`},
	}
	// a raw write in an unexported helper that serves exactly one tabled, key-pinned writer (an
	// extracted block) belongs to that writer: it is held to the writer's pinned keys below
	servedBy := map[ssa.Instruction]string{}
	var tableSites []eng.CallSite
	for _, s := range rawSites {
		top := eng.TopFunc(s.Fn)
		name := eng.FuncName(top)
		owner := ""
		if _, tabled := table[name]; !tabled && top.Object() != nil && !top.Object().Exported() && top.Synthetic == "" && len(c.P.FuncValueUses(name)) == 0 {
			if m, miss := c.P.StaticCallee(name); len(miss) == 0 {
				for _, cs := range c.P.FindCalls(m, nil) {
					cn := eng.FuncName(eng.TopFunc(cs.Fn))
					_, pinnedPut := keyConst[cn]
					_, pinnedDel := delConst[cn]
					if _, tabled := table[cn]; !tabled || !(pinnedPut || pinnedDel) || (owner != "" && owner != cn) {
						owner = ""
						break
					}
					owner = cn
				}
			}
		}
		if owner == "" {
			tableSites = append(tableSites, s)
			continue
		}
		servedBy[s.Call] = owner
		c.OK(top, "callers{physical.Backend.Put/Delete outside the storage layers} [helper of "+owner+"]", s.Call.Pos(), "unexported helper called only by the tabled writer "+owner+"; held to that writer's pinned keys")
	}
	c.CallerTable("physical.Backend.Put/Delete outside the storage layers", tableSites, table, 14-len(servedBy))
	// key provenance per row
	c.Clause("R5", "C01.5")
	for _, s := range rawSites {
		top := eng.FuncName(eng.TopFunc(s.Fn))
		if o := servedBy[s.Call]; o != "" {
			top = o
		}
		args := kArgs(s.Call)
		switch kMethod(s.Call) {
		case "Put":
			allowed, ok := keyConst[top]
			if !ok {
				if servedBy[s.Call] != "" {
					c.Violation(s.Fn, "raw writer key", s.Call.Pos(), "helper of "+top+" writes raw although "+top+" has no pinned write key", nil)
				}
				continue
			}
			eFn, ent, decided := kLiteralOf(c, s.Fn, args[len(args)-1])
			if !decided {
				c.Undecided(s.Fn, "raw writer key", s.Call.Pos(), "the entry written raw is a parameter whose call sites cannot all be resolved (moved? the rule cannot be evaluated)")
				continue
			}
			keys := eng.StructLitField(ent, "Key")
			if len(keys) == 0 {
				c.Violation(s.Fn, "raw writer key", s.Call.Pos(), "raw physical write whose entry is not a local literal: key cannot be pinned", nil)
			}
			for _, k := range keys {
				c.Prov(eFn, "raw writer key ("+top+")", s.Call, k, allowed...)
			}
		case "Delete":
			allowed, ok := delConst[top]
			if !ok {
				if servedBy[s.Call] != "" {
					c.Violation(s.Fn, "raw delete key", s.Call.Pos(), "helper of "+top+" deletes raw although "+top+" has no pinned delete key", nil)
				}
				continue
			}
			nfProv(c, s.Fn, "raw delete key ("+top+")", s.Call, args[len(args)-1], nil, allowed...)
		}
	}
	// UI config: plaintext copy of a value that is also written through the barrier
	if f := c.Fn("vault.(*UIConfig).save"); f != nil {
		c.Clause("R5", "C01.5")
		for _, s := range rawSites {
			if eng.TopFunc(s.Fn) != f || kMethod(s.Call) != "Put" {
				continue
			}
			args := kArgs(s.Call)
			for _, v := range eng.StructLitField(args[len(args)-1], "Value") {
				// the same value is stored through the barrier in this function
				same := false
				for _, bp := range kCalls(f, `<logical\.Storage>\.Put$`) {
					ba := kArgs(bp)
					for _, bv := range eng.StructLitField(ba[len(ba)-1], "Value") {
						if bv == v {
							same = true
						}
					}
				}
				if same {
					c.Violation(f, "plaintext-copy", s.Call.Pos(), "the value persisted through the barrier (sys/config/ui headers) is also written verbatim to the physical backend under "+eng.ExprDeep(eng.StructLitField(args[len(args)-1], "Key")[0])+": a plaintext fragment of barrier data appears in the physical store", nil)
				} else {
					c.OK(f, "plaintext-copy", s.Call.Pos(), "raw value is not the value stored through the barrier")
				}
			}
		}
	}

	// constructors of the raw accessor
	c.Clause("R6", "C01.5")
	if fv := c.P.Field("vault.directStorageAccess.physical"); fv != nil {
		ws := c.P.FieldWriters(fv)
		allowed := map[string]string{
			"vault.NewDefaultSeal":              "Shamir seal: barrier/recovery seal configuration",
			"vault.NewAutoSeal":                 "auto seal: barrier/recovery seal configuration",
			"vault.(*defaultSeal).SetCore":      "Shamir seal: seal configuration accessor",
			"vault.(*autoSeal).SetCore":         "auto seal: seal configuration accessor",
			"vault.(*RawBackend).storageByPath": "sys/raw on the two seal-configuration paths only (guarded below)",
		}
		for _, w := range ws {
			n := eng.FuncName(eng.TopFunc(w.Fn))
			if r, ok := allowed[n]; ok {
				c.OK(eng.TopFunc(w.Fn), "constructor{directStorageAccess}", w.Store.Pos(), r)
			} else {
				c.Violation(eng.TopFunc(w.Fn), "constructor{directStorageAccess}", w.Store.Pos(), "new constructor of the raw (unencrypted) storage accessor outside the reviewed table", nil)
			}
		}
		c.Floor(nil, "directStorageAccess constructors", len(ws), 3)
	} else {
		c.Unresolved("vault.directStorageAccess.physical")
	}
	if f := c.Fn("vault.(*RawBackend).storageByPath"); f != nil {
		c.Clause("R2", "C01.5")
		var rets []ssa.Instruction
		for _, r := range eng.Returns(f) {
			if strings.Contains(eng.ExprDeep(r.Results[0]), "complit") || true {
				for _, o := range eng.Origins(r.Results[0]) {
					if a, ok := o.Val.(*ssa.Alloc); ok && structTypeName(a.Type()) == "vault.directStorageAccess" {
						rets = append(rets, r)
					}
				}
			}
		}
		if c.Floor(f, "returns of a raw accessor", len(rets), 1) {
			c.Cut(f, "return &directStorageAccess{}", rets, eng.G(f, `== "core/recovery-config"\}$`, true), nil)
		}
	}
	// adaptor constructors must not be used by the server
	c.Clause("R1", "C01.5")
	if m, miss := c.P.StaticCallee("logical.NewLogicalStorage"); len(miss) == 0 {
		sites := c.P.FindCalls(m, func(fn *ssa.Function) bool { return strings.HasPrefix(eng.PkgPathOf(fn), eng.ModMain+"/internal/") })
		c.CallerTable("logical.NewLogicalStorage (raw physical->logical adaptor) in the server", sites, map[string]string{
			"vault.(*Core).raftBootstrapStorage": "n/a",
		}, 0)
		if len(sites) == 0 {
			c.OK(nil, "callers{logical.NewLogicalStorage}", 0, "no server package wraps a physical backend as unencrypted logical.Storage")
		}
	}
	runC01Gaps2(c)
}

// c01AEAD: callee pattern of a cipher.AEAD method, selected by the resolved
// callee: the interface invoke or a call through the bound method value
// (`open := gcm.Open; open(...)`), which takes the same arguments.
func c01AEAD(method string) string {
	return `(<crypto/cipher\.AEAD>\.` + method + `|closure:\(crypto/cipher\.AEAD\)\.` + method + `\$bound)`
}

// c01V1: the legacy (unbound) record version, resolved from its constant.
func c01V1(c *eng.Ctx) string {
	v, ok := c.P.ConstValue("barrier.AESGCMVersion1")
	if !ok {
		c.Unresolved("barrier.AESGCMVersion1")
		return "1"
	}
	return v
}

func reQuote(s string) string {
	r := strings.NewReplacer(`\`, `\\`, `.`, `\.`, `(`, `\(`, `)`, `\)`, `[`, `\[`, `]`, `\]`, `*`, `\*`, `+`, `\+`, `?`, `\?`, `{`, `\{`, `}`, `\}`, `|`, `\|`, `^`, `\^`, `$`, `\$`)
	return r.Replace(s)
}

// wholePathAAD (C01.2): the associated data handed to Seal/Open is, on every
// incoming phi edge, either nil or the direct []byte conversion of the whole
// `path` parameter. Provenance alone (param:path among the origins) also
// accepts a part of the path (path[i:], a hash, a joined string); a record
// authenticated under a part of its key can be relocated between keys that
// share that part.
func wholePathAAD(c *eng.Ctx, f *ssa.Function, op string, at ssa.CallInstruction, aad ssa.Value) {
	site := "associated data of " + op + " is the whole path"
	seen := map[ssa.Value]bool{}
	bad := ""
	whole := 0
	var walk func(v ssa.Value)
	walk = func(v ssa.Value) {
		if v == nil || seen[v] {
			return
		}
		seen[v] = true
		switch x := v.(type) {
		case *ssa.Phi:
			for _, e := range x.Edges {
				walk(e)
			}
		case *ssa.Const:
			if x.Value != nil {
				bad = "the constant " + eng.Expr(x)
			}
		case *ssa.Convert:
			if p, ok := x.X.(*ssa.Parameter); ok && eng.VarName(p) == "path" {
				whole++
			} else {
				bad = "a conversion of " + eng.ExprDeep(x.X)
			}
		case *ssa.ChangeType:
			walk(x.X)
		case *ssa.Slice:
			if x.Low == nil && x.High == nil && x.Max == nil {
				walk(x.X)
			} else {
				bad = "a sub-slice " + eng.ExprDeep(x)
			}
		default:
			bad = eng.ExprDeep(v)
		}
	}
	walk(aad)
	switch {
	case bad != "":
		c.Violation(f, site, at.Pos(), "the associated data may be "+bad+", not the byte conversion of the whole path parameter: the record is bound to only a part (or a function) of its key", nil)
	case whole == 0:
		c.Violation(f, site, at.Pos(), "no incoming value of the associated data is the byte conversion of the path parameter", nil)
	default:
		c.OK(f, site, at.Pos(), fmt.Sprintf("every non-nil incoming value (%d) is []byte(path) of the parameter itself", whole))
	}
}
