package props

import (
	"encoding/json"
	"sort"
)

// Manifest renders /verif/MANIFEST.json from the registry so that the claimed
// set and the implemented set cannot drift apart.
func Manifest(notApplicable map[string]string) []byte {
	var ids []string
	for id := range Registry {
		ids = append(ids, id)
	}
	sort.Strings(ids)
	var checks []map[string]any
	for _, id := range ids {
		p := Registry[id]
		checks = append(checks, map[string]any{
			"property_id":         id,
			"quick_cmd":           "./run.sh check " + id + " quick",
			"thorough_cmd":        "./run.sh check " + id + " thorough",
			"evidence_file":       "/verif/evidence/" + id + ".json",
			"replay_cmd_template": "./run.sh explain {path}",
			"engine":              "obsa",
			"technique":           "static analysis: repository-specific SSA/CFG rules (cut-set reachability, error-path, provenance, who-may-call, field-writer, table-agreement, lock-span) over the type-checked program",
			"level_claimed": map[string]any{
				"category":   "other",
				"text":       "Structural necessary conditions of the property, decided for every CFG path / call site / implementation in the current source (not a sample); not the behavioural property as a whole. " + p.Explanation,
				"design_ref": "DESIGN.md §3 " + id,
			},
			"level_note": "Decides the named structural clauses only. NOT decided: " + p.NotDecided + " Trusted base: go/types + go/ssa (x/tools v0.50.0), Go 1.27 stdlib and third-party library semantics, linux/amd64 non-test build; reflection/unsafe/cgo/out-of-process plugins outside the model.",
		})
	}
	var na []map[string]string
	var naIDs []string
	for id := range notApplicable {
		if Registry[id] == nil {
			naIDs = append(naIDs, id)
		}
	}
	sort.Strings(naIDs)
	for _, id := range naIDs {
		na = append(na, map[string]string{"property_id": id, "reason": notApplicable[id]})
	}
	m := map[string]any{
		"version":   1,
		"setup_cmd": "./run.sh setup",
		"hooks": map[string]any{
			"guard":            "verif",
			"enable":           "none needed: the checker type-checks /repo as it is (go/packages, no build tag); no instrumentation exists",
			"baseline_off_cmd": "for m in $(cat /w/out/gomods.txt); do MF=$(cd /repo/$m && . /w/out/goenv.sh && gomodflag); (cd /repo/$m && go test $MF -json -vet=off -count=1 -timeout 25m ./...); done",
			"source_commits":   []string{},
			"add_only":         true,
		},
		"engines": []map[string]any{{
			"name": "obsa", "path": "/verif/obsa", "serves_properties": ids,
			"kind_free_text": "custom Go static analyser over go/packages + go/ssa; never executes repository code",
		}},
		"checks": checks,
		"notes":  "All checks are static analysis of /repo's current working tree (loaded on every run). Known genuine defects are listed in /verif/known_findings.json. See DESIGN.md.",
	}
	if len(na) > 0 {
		m["not_applicable"] = na
	}
	b, _ := json.MarshalIndent(m, "", " ")
	return append(b, '\n')
}
