package props

import (
	"go/constant"
	"go/token"
	"go/types"
	"math"
	"regexp"
	"strings"

	"golang.org/x/tools/go/ssa"

	"obsa/eng"
)

// Helpers of the C04 / C06 tables that select sites by what they are instead of
// how they are written (ROBUST.md): a call is the same call when it goes
// through a bound method value or through a closure / an unexported helper that
// performs it on every path; a value is the same value when it is read through
// a local alias, a captured variable or a parameter of such a helper. All of
// them resolve SSA identities (callee, field, variable cell, constant), none
// looks at names or text. What cannot be resolved stays unresolved: the rule
// that asked then finds no site and reports through its floor.

// nfFrame is a call chain: the call instruction through which the function a
// value lives in was entered (nil: unknown / the anchored function itself).
type nfFrame struct {
	call ssa.CallInstruction
	up   *nfFrame
}

// nfCall is a call with its target resolved: for a call through a bound method
// value (rv := x.M; rv(a)) Name is the method and Args starts with the bound
// receiver, exactly as for the direct call x.M(a).
type nfCall struct {
	In   ssa.CallInstruction
	Name string
	Args []ssa.Value
	Recv ssa.Value // the interface value of an invoke (x.M(a) on an interface x); nil otherwise
}

// nfCellOf resolves the address of a variable (its Alloc, or the FreeVar a
// closure sees it through) to the Alloc.
func nfCellOf(addr ssa.Value) *ssa.Alloc {
	for depth := 0; depth < 6; depth++ {
		switch x := addr.(type) {
		case *ssa.Alloc:
			return x
		case *ssa.FreeVar:
			fn := x.Parent()
			if fn == nil || fn.Parent() == nil {
				return nil
			}
			idx := -1
			for i, fv := range fn.FreeVars {
				if fv == x {
					idx = i
				}
			}
			var bound ssa.Value
			for _, b := range fn.Parent().Blocks {
				for _, in := range b.Instrs {
					if mc, ok := in.(*ssa.MakeClosure); ok && mc.Fn == ssa.Value(fn) && idx >= 0 && idx < len(mc.Bindings) {
						if bound != nil && bound != mc.Bindings[idx] {
							return nil
						}
						bound = mc.Bindings[idx]
					}
				}
			}
			if bound == nil {
				return nil
			}
			addr = bound
		default:
			return nil
		}
	}
	return nil
}

// nfStoresTo: every value stored into the variable, in the function that
// declares it and in the closures that capture it.
func nfStoresTo(a *ssa.Alloc) []ssa.Value {
	var vals []ssa.Value
	seen := map[ssa.Value]bool{}
	var visit func(addr ssa.Value)
	visit = func(addr ssa.Value) {
		if seen[addr] {
			return
		}
		seen[addr] = true
		refs := addr.Referrers()
		if refs == nil {
			return
		}
		for _, r := range *refs {
			switch x := r.(type) {
			case *ssa.Store:
				if x.Addr == addr {
					vals = append(vals, x.Val)
				}
			case *ssa.MakeClosure:
				fn, _ := x.Fn.(*ssa.Function)
				if fn == nil {
					continue
				}
				for i, b := range x.Bindings {
					if b == addr && i < len(fn.FreeVars) {
						visit(fn.FreeVars[i])
					}
				}
			}
		}
	}
	visit(a)
	return vals
}

// nfFuncValue: the function a function-typed value certainly denotes — a
// function, a closure, or the only value ever assigned to the local variable
// (possibly captured) it is read from.
func nfFuncValue(v ssa.Value) (*ssa.Function, *ssa.MakeClosure) {
	seen := map[ssa.Value]bool{}
	for depth := 0; depth < 6 && v != nil && !seen[v]; depth++ {
		seen[v] = true
		switch x := v.(type) {
		case *ssa.Function:
			return x, nil
		case *ssa.MakeClosure:
			fn, _ := x.Fn.(*ssa.Function)
			return fn, x
		case *ssa.ChangeType:
			v = x.X
		case *ssa.UnOp:
			if x.Op != token.MUL {
				return nil, nil
			}
			cell := nfCellOf(x.X)
			if cell == nil {
				return nil, nil
			}
			vals := nfStoresTo(cell)
			if len(vals) != 1 {
				return nil, nil
			}
			v = vals[0]
		default:
			return nil, nil
		}
	}
	return nil, nil
}

func nfIsBoundWrapper(fn *ssa.Function) bool {
	return fn != nil && fn.Synthetic != "" && strings.HasSuffix(fn.Name(), "$bound")
}

func nfCallOf(in ssa.CallInstruction) nfCall {
	cc := in.Common()
	nc := nfCall{In: in, Name: eng.CalleeName(cc), Args: cc.Args}
	if cc.IsInvoke() {
		nc.Recv = cc.Value
		return nc
	}
	if _, direct := cc.Value.(*ssa.Function); direct {
		return nc
	}
	if _, bi := cc.Value.(*ssa.Builtin); bi {
		return nc
	}
	fn, mc := nfFuncValue(cc.Value)
	if fn == nil {
		return nc
	}
	if mc != nil && nfIsBoundWrapper(fn) && len(mc.Bindings) == 1 {
		nc.Name = strings.TrimSuffix(eng.FuncName(fn), "$bound")
		nc.Args = append([]ssa.Value{mc.Bindings[0]}, cc.Args...)
	}
	return nc
}

func nfAllCalls(f *ssa.Function) []ssa.CallInstruction {
	var out []ssa.CallInstruction
	for _, b := range f.Blocks {
		for _, in := range b.Instrs {
			if ci, ok := in.(ssa.CallInstruction); ok {
				out = append(out, ci)
			}
		}
	}
	return out
}

// nfCalls: the calls in f whose resolved target matches pat (eng.Calls plus
// calls through bound method values).
func nfCalls(f *ssa.Function, pat string) []nfCall {
	re := regexp.MustCompile(pat)
	var out []nfCall
	for _, ci := range nfAllCalls(f) {
		if nc := nfCallOf(ci); re.MatchString(nc.Name) {
			out = append(out, nc)
		}
	}
	return out
}

func nfIns(cs []nfCall) []ssa.Instruction {
	var out []ssa.Instruction
	for _, c := range cs {
		out = append(out, c.In)
	}
	return out
}

func nfValueFn(v ssa.Value) *ssa.Function {
	switch x := v.(type) {
	case *ssa.Parameter:
		return x.Parent()
	case *ssa.FreeVar:
		return x.Parent()
	case ssa.Instruction:
		return x.Parent()
	}
	return nil
}

// nfArgFor: the argument the call passes for parameter p of the function it enters.
func nfArgFor(call ssa.CallInstruction, p *ssa.Parameter) ssa.Value {
	fn := p.Parent()
	if fn == nil || call == nil {
		return nil
	}
	target, _ := nfFuncValue(call.Common().Value)
	if target != fn {
		return nil
	}
	for i, q := range fn.Params {
		if q == p && i < len(call.Common().Args) {
			return call.Common().Args[i]
		}
	}
	return nil
}

// nfOriginF is an origin together with the call chain of the function it lives in.
type nfOriginF struct {
	eng.Origin
	Fr *nfFrame
}

// nfOrigins is eng.Origins continued across the boundaries the refactorings of
// ROBUST.md introduce: a captured variable is followed to the values stored
// into it, a parameter (when the call chain is known) to the argument passed.
func nfOrigins(v ssa.Value, fr *nfFrame) []eng.Origin {
	var out []eng.Origin
	for _, o := range nfOriginsF(v, fr) {
		out = append(out, o.Origin)
	}
	return out
}

func nfOriginsF(v ssa.Value, fr *nfFrame) []nfOriginF {
	var out []nfOriginF
	type key struct {
		v  ssa.Value
		fr *nfFrame
	}
	seen := map[key]bool{}
	var walk func(v ssa.Value, fr *nfFrame, depth int)
	walk = func(v ssa.Value, fr *nfFrame, depth int) {
		if v == nil || seen[key{v, fr}] {
			return
		}
		seen[key{v, fr}] = true
		for _, o := range eng.Origins(v) {
			if depth < 5 {
				switch o.Kind {
				case "param":
					if p, ok := o.Val.(*ssa.Parameter); ok && fr != nil {
						if arg := nfArgFor(fr.call, p); arg != nil {
							walk(arg, fr.up, depth+1)
							continue
						}
					}
				case "freevar":
					if ld, ok := o.Val.(*ssa.UnOp); ok {
						if cell := nfCellOf(ld.X); cell != nil {
							if vals := nfStoresTo(cell); len(vals) > 0 {
								for _, sv := range vals {
									var up *nfFrame
									if fr != nil && fr.call != nil && nfValueFn(sv) == fr.call.Parent() {
										up = fr.up
									}
									walk(sv, up, depth+1)
								}
								continue
							}
						}
					}
				}
			}
			out = append(out, nfOriginF{o, fr})
		}
	}
	walk(v, fr, 0)
	return out
}

// nfAll: v has at least one origin and every origin satisfies ok.
func nfAll(v ssa.Value, fr *nfFrame, ok func(o eng.Origin) bool) (bool, string) {
	os := nfOrigins(v, fr)
	if len(os) == 0 {
		return false, "no origin"
	}
	for _, o := range os {
		if !ok(o) {
			return false, o.Kind + ":" + o.Desc
		}
	}
	return true, ""
}

// nfFieldOf: o is a read of field fv; the address (or value) of the struct it is read from.
func nfFieldOf(o eng.Origin, fv *types.Var) (ssa.Value, bool) {
	if o.Kind != "field" || fv == nil {
		return nil, false
	}
	same := func(g *types.Var) bool { return g != nil && (g == fv || g.Origin() == fv) }
	switch x := o.Val.(type) {
	case *ssa.UnOp:
		if fa, ok := x.X.(*ssa.FieldAddr); ok && same(eng.FieldVar(fa)) {
			return fa.X, true
		}
	case *ssa.Field:
		if same(eng.FieldVar(x)) {
			return x.X, true
		}
	}
	return nil, false
}

// nfIsField: v is, on every path, a read of field fv (through whatever alias).
func nfIsField(v ssa.Value, fr *nfFrame, fv *types.Var) bool {
	ok, _ := nfAll(v, fr, func(o eng.Origin) bool { _, is := nfFieldOf(o, fv); return is })
	return ok
}

// nfIsParamOf: every origin of v is parameter number idx of function f.
func nfIsParamOf(v ssa.Value, fr *nfFrame, f *ssa.Function, idx int) (bool, string) {
	return nfAll(v, fr, func(o eng.Origin) bool {
		p, ok := o.Val.(*ssa.Parameter)
		return ok && p.Parent() == f && idx < len(f.Params) && f.Params[idx] == p
	})
}

func nfParamIndex(f *ssa.Function, frozenName string) int {
	for i, p := range f.Params {
		if eng.VarName(p) == frozenName {
			return i
		}
	}
	return -1
}

func nfIsConst(v ssa.Value, fr *nfFrame, want string) bool {
	ok, _ := nfAll(v, fr, func(o eng.Origin) bool { return o.Kind == "const" && o.Desc == want })
	return ok
}

// nfEff is one call that is the effect a rule looks for, with the function it
// stands in and the call chain that leads there from the anchored function.
type nfEff struct {
	Fn   *ssa.Function
	Call nfCall
	Fr   *nfFrame
}

// nfSite: an instruction of the anchored function after which the effect has
// certainly happened, with the effect calls behind it.
type nfSite struct {
	At   ssa.Instruction
	Effs []nfEff
	// Fwd: the error result of the call At is the verdict of the effect — At is
	// the effect itself, or a closure / helper that returns nil only across the
	// success of the effect (or returns the effect's own error).
	Fwd bool
}

func nfIsNormalReturn(in ssa.Instruction) bool {
	r, ok := in.(*ssa.Return)
	return ok && r.Block().Comment != "recover"
}

// nfBody: the function a call enters when that is a closure of the same
// top-level function or a function of the same package (whose body is loaded).
func nfBody(in ssa.CallInstruction, f *ssa.Function) *ssa.Function {
	cc := in.Common()
	if cc.IsInvoke() {
		return nil
	}
	g, _ := nfFuncValue(cc.Value)
	if g == nil || len(g.Blocks) == 0 || g.Synthetic != "" {
		return nil
	}
	if g.Parent() != nil {
		if eng.TopFunc(g) == eng.TopFunc(f) {
			return g
		}
		return nil
	}
	if g.Pkg != nil && g.Pkg == eng.TopFunc(f).Pkg {
		return g
	}
	return nil
}

// nfMust: the sites of f at which the effect `is` has certainly happened: calls
// that are the effect, and calls of a closure of the enclosing function / of a
// function of the same package every successful return of which (every normal
// return, when it has no error result) lies behind such a site (followed
// `depth` levels). A deferred or spawned call has not happened
// when the instruction completes: only direct effects are listed for those.
func nfMust(f *ssa.Function, fr *nfFrame, is func(nc nfCall, fr *nfFrame) bool, depth int) []nfSite {
	return nfMustBusy(f, fr, is, depth, map[*ssa.Function]bool{}, false)
}

// nfMustLocal is nfMust following only closures of the enclosing function, not
// other functions of the package: for effects named so generically (a Put on
// some view) that an unrelated callee performing one must not count.
func nfMustLocal(f *ssa.Function, fr *nfFrame, is func(nc nfCall, fr *nfFrame) bool, depth int) []nfSite {
	return nfMustBusy(f, fr, is, depth, map[*ssa.Function]bool{}, true)
}

func nfMustBusy(f *ssa.Function, fr *nfFrame, is func(nc nfCall, fr *nfFrame) bool, depth int, busy map[*ssa.Function]bool, localOnly bool) []nfSite {
	var out []nfSite
	busy[f] = true
	defer delete(busy, f)
	for _, ci := range nfAllCalls(f) {
		nc := nfCallOf(ci)
		if is(nc, fr) {
			out = append(out, nfSite{At: ci, Effs: []nfEff{{Fn: f, Call: nc, Fr: fr}}, Fwd: true})
			continue
		}
		if _, plain := ci.(*ssa.Call); !plain || depth == 0 {
			continue
		}
		g := nfBody(ci, f)
		if g == nil || busy[g] || (localOnly && g.Parent() == nil) {
			continue
		}
		inner := nfMustBusy(g, &nfFrame{call: ci, up: fr}, is, depth-1, busy, localOnly)
		if len(inner) == 0 {
			continue
		}
		// g performs the effect whenever it reports success: every return that may carry a nil error
		// (every normal return when g has no error result) lies behind an inner site
		target := nfIsNormalReturn
		if idx := nfErrIdx(g); idx >= 0 {
			succ := eng.SuccessReturns(g, idx)
			if len(succ) == 0 {
				continue
			}
			target = eng.IsTarget(succ)
		}
		if eng.Reach(eng.Query{Fn: g, Barriers: nfAts(inner), Target: target}) != nil {
			continue
		}
		s := nfSite{At: ci, Fwd: nfForwards(g, inner)}
		for _, i := range inner {
			s.Effs = append(s.Effs, i.Effs...)
		}
		out = append(out, s)
	}
	return out
}

func nfAts(ss []nfSite) []ssa.Instruction {
	var out []ssa.Instruction
	for _, s := range ss {
		out = append(out, s.At)
	}
	return out
}

// nfEffs: the distinct effect calls behind the sites.
func nfEffs(ss []nfSite) []nfEff {
	var out []nfEff
	seen := map[ssa.Instruction]bool{}
	for _, s := range ss {
		for _, e := range s.Effs {
			if !seen[e.Call.In] {
				seen[e.Call.In] = true
				out = append(out, e)
			}
		}
	}
	return out
}

// nfNamed: effect predicate "the resolved callee matches pat".
func nfNamed(pat string) func(nfCall, *nfFrame) bool {
	re := regexp.MustCompile(pat)
	return func(nc nfCall, _ *nfFrame) bool { return re.MatchString(nc.Name) }
}

// ---------------------------------------------------------------------------
// integer comparisons against a constant, evaluated

// nfCmpConst: b compares `operand` with an integer constant; at(x) is the value
// of the comparison when the operand is x.
func nfCmpConst(b *ssa.BinOp, isOperand func(ssa.Value) bool) (at func(x int64) bool, k int64, ok bool) {
	var cst *ssa.Const
	left := false
	if c, isC := b.Y.(*ssa.Const); isC && isOperand(b.X) {
		cst, left = c, true
	} else if c, isC := b.X.(*ssa.Const); isC && isOperand(b.Y) {
		cst = c
	}
	if cst == nil || cst.Value == nil || cst.Value.Kind() != constant.Int {
		return nil, 0, false
	}
	kv, exact := constant.Int64Val(cst.Value)
	if !exact {
		return nil, 0, false
	}
	op := b.Op
	switch op {
	case token.LSS, token.LEQ, token.GTR, token.GEQ, token.EQL, token.NEQ:
	default:
		return nil, 0, false
	}
	return func(x int64) bool {
		l, r := x, kv
		if !left {
			l, r = kv, x
		}
		switch op {
		case token.LSS:
			return l < r
		case token.LEQ:
			return l <= r
		case token.GTR:
			return l > r
		case token.GEQ:
			return l >= r
		case token.EQL:
			return l == r
		}
		return l != r
	}, kv, true
}

// nfSeparates: the comparison has one value at x = special and the other value
// for every x >= 0 (a comparison with one constant changes value at most
// around that constant: the sample points decide it).
func nfSeparates(at func(int64) bool, k, special int64) bool {
	v := at(special)
	for _, x := range []int64{0, 1, k - 1, k, k + 1, math.MaxInt32, math.MaxInt64 - 1} {
		if x >= 0 && x != special && at(x) == v {
			return false
		}
	}
	return true
}

// c04MarkerExcluded: the edges on which a test of TokenEntry.NumUses against a
// constant has the value it cannot have for the pending-revocation marker and
// has for every valid use count (>= 0): `NumUses < 0`, `NumUses <= -1`,
// `NumUses == tokenRevocationPending`, ... in either operand order, negated or
// not, held in a local or tested in place.
func c04MarkerExcluded(c *eng.Ctx, f *ssa.Function) eng.Guard {
	g := c04MarkerEdges(c, f, false, nil)
	g.Desc = `[\.NumUses < 0$]=false`
	return g
}

// c04MarkerEdges: the edges on which such a test says that NumUses is the
// marker (isMarker) / is not the marker; baseOK restricts the entry tested.
func c04MarkerEdges(c *eng.Ctx, f *ssa.Function, isMarker bool, baseOK func(base ssa.Value) bool) eng.Guard {
	g := eng.Guard{Desc: "NumUses is / is not tokenRevocationPending"}
	fv := c.P.Field("logical.TokenEntry.NumUses")
	mk, ok := c.P.ConstValue("vault.tokenRevocationPending")
	if fv == nil || !ok {
		c.Unresolved("logical.TokenEntry.NumUses / vault.tokenRevocationPending")
		return g
	}
	var marker int64
	neg := strings.HasPrefix(mk, "-")
	for _, ch := range strings.TrimPrefix(mk, "-") {
		if ch < '0' || ch > '9' {
			c.Unresolved("vault.tokenRevocationPending (integer)")
			return g
		}
		marker = marker*10 + int64(ch-'0')
	}
	if neg {
		marker = -marker
	}
	isNumUses := func(v ssa.Value) bool {
		base, ok := nfFieldRead(v, fv)
		return ok && (baseOK == nil || baseOK(base))
	}
	for _, in := range eng.Instrs(f, func(in ssa.Instruction) bool { _, ok := in.(*ssa.BinOp); return ok }) {
		b := in.(*ssa.BinOp)
		at, k, ok := nfCmpConst(b, isNumUses)
		if !ok || !nfSeparates(at, k, marker) {
			continue
		}
		g.Edges = append(g.Edges, eng.BoolEdges(b, at(marker) == isMarker)...)
	}
	return g
}

// nfFieldRead: v is a read of field fv; the struct (address) it is read from.
func nfFieldRead(v ssa.Value, fv *types.Var) (ssa.Value, bool) {
	same := func(g *types.Var) bool { return g != nil && fv != nil && (g == fv || g.Origin() == fv) }
	switch x := v.(type) {
	case *ssa.UnOp:
		if x.Op == token.MUL {
			if fa, ok := x.X.(*ssa.FieldAddr); ok && same(eng.FieldVar(fa)) {
				return fa.X, true
			}
		}
	case *ssa.Field:
		if same(eng.FieldVar(x)) {
			return x.X, true
		}
	}
	return nil, false
}

// c04FieldCmpEdges: the edges on which `<base>.<fv> == <constant>` has the value
// val (the comparison written with == or !=, in either operand order).
func c04FieldCmpEdges(f *ssa.Function, fv *types.Var, baseOK func(base ssa.Value) bool, constant string, val bool) []eng.Edge {
	var out []eng.Edge
	if fv == nil {
		return nil
	}
	for _, in := range eng.Instrs(f, func(in ssa.Instruction) bool { _, ok := in.(*ssa.BinOp); return ok }) {
		b := in.(*ssa.BinOp)
		if b.Op != token.EQL && b.Op != token.NEQ {
			continue
		}
		for _, pair := range [][2]ssa.Value{{b.X, b.Y}, {b.Y, b.X}} {
			base, ok := nfFieldRead(pair[0], fv)
			cst, isC := pair[1].(*ssa.Const)
			if !ok || !isC || eng.Expr(cst) != constant || (baseOK != nil && !baseOK(base)) {
				continue
			}
			out = append(out, eng.BoolEdges(b, (b.Op == token.EQL) == val)...)
		}
	}
	return out
}

// nfErrIdx: the index of the trailing error result of fn, or -1.
func nfErrIdx(fn *ssa.Function) int {
	res := fn.Signature.Results()
	if res.Len() == 0 || res.At(res.Len()-1).Type().String() != "error" {
		return -1
	}
	return res.Len() - 1
}

// nfReturnsErrOf: the return hands on, as result errIdx, nothing but the error
// result of one of the calls: it reports success exactly when that call did.
func nfReturnsErrOf(in ssa.Instruction, errIdx int, calls []ssa.Instruction) bool {
	r, ok := in.(*ssa.Return)
	if !ok || errIdx < 0 || errIdx >= len(r.Results) {
		return false
	}
	evs := map[ssa.Value]bool{}
	for _, cl := range calls {
		if ci, ok := cl.(ssa.CallInstruction); ok {
			if ev := eng.ErrValue(ci); ev != nil {
				evs[ev] = true
			}
		}
	}
	vals, _, escaped := eng.ReturnVals(r, errIdx)
	if escaped || len(vals) == 0 {
		return false
	}
	for _, v := range vals {
		if !evs[v] {
			return false
		}
	}
	return true
}

// nfForwards: g returns a nil error only across the success of one of the
// inner sites (whose own error result is the verdict of the effect).
func nfForwards(g *ssa.Function, inner []nfSite) bool {
	idx := nfErrIdx(g)
	if idx < 0 {
		return false
	}
	var ok []eng.Edge
	var ats []ssa.Instruction
	for _, s := range inner {
		ci, isCall := s.At.(*ssa.Call)
		if !s.Fwd || !isCall {
			continue
		}
		ok = append(ok, eng.CallOKEdges(ci)...)
		ats = append(ats, ci)
	}
	if len(ats) == 0 {
		return false
	}
	var sinks []ssa.Instruction
	for _, r := range eng.SuccessReturns(g, idx) {
		if !nfReturnsErrOf(r, idx, ats) {
			sinks = append(sinks, r)
		}
	}
	if len(sinks) == 0 {
		return true
	}
	return eng.Reach(eng.Query{Fn: g, Blocked: ok, Target: eng.IsTarget(sinks)}) == nil
}

// nfSites: the sites of f at which a call whose resolved target matches pat has
// certainly happened (directly, through a bound method value, or inside a
// closure / helper of this package that performs it on every path).
func nfSites(f *ssa.Function, pat string) []nfSite { return nfMust(f, nil, nfNamed(pat), 2) }

// nfPlain drops deferred and spawned sites.
func nfPlain(ss []nfSite) []nfSite {
	var out []nfSite
	for _, s := range ss {
		if _, ok := s.At.(*ssa.Call); ok {
			out = append(out, s)
		}
	}
	return out
}

// nfOKOf: the guard "one of the sites happened and succeeded" (the counterpart
// of eng.GCallOK for resolved sites).
func nfOKOf(desc string, ss []nfSite) eng.Guard {
	g := eng.Guard{Desc: desc}
	for _, s := range nfPlain(ss) {
		if !s.Fwd {
			continue
		}
		g.Edges = append(g.Edges, eng.CallOKEdges(s.At.(ssa.CallInstruction))...)
		g.Pass = append(g.Pass, s.At)
	}
	return g
}

// nfGCallOK is eng.GCallOK over resolved sites (same description, same key).
func nfGCallOK(f *ssa.Function, pat string) eng.Guard {
	return nfOKOf("success edge of "+pat, nfSites(f, pat))
}

// nfFailEdgesOf / nfOKEdgesOf: the failure / success edges of a resolved site.
func nfFailEdgesOf(s nfSite) []eng.Edge {
	if ci, ok := s.At.(*ssa.Call); ok && s.Fwd {
		return eng.CallFailEdges(ci)
	}
	return nil
}

func nfOKEdgesOf(ss []nfSite) []eng.Edge {
	var out []eng.Edge
	for _, s := range nfPlain(ss) {
		if s.Fwd {
			out = append(out, eng.CallOKEdges(s.At.(ssa.CallInstruction))...)
		}
	}
	return out
}

// nfCutOK is c.Cut for a guard made of call successes (g.Pass lists the calls):
// a sink that returns, as its error result errIdx, the very error of such a call
// reports success exactly when the call succeeded and needs no test in between
// (`return callee(...)`). `alt` are alternative guards (joined with OR).
func nfCutOK(c *eng.Ctx, f *ssa.Function, sinkDesc string, sinks []ssa.Instruction, errIdx int, g eng.Guard, alt ...eng.Guard) bool {
	full := g
	if len(alt) > 0 {
		full = eng.Or(append([]eng.Guard{g}, alt...)...)
	}
	if len(sinks) == 0 {
		return c.Cut(f, sinkDesc, sinks, full, nil)
	}
	var rest []ssa.Instruction
	for _, s := range sinks {
		if !nfReturnsErrOf(s, errIdx, g.Pass) {
			rest = append(rest, s)
		}
	}
	if len(rest) == 0 {
		c.OK(f, "sink{"+sinkDesc+"} guard{"+full.Desc+"}", sinks[0].Pos(), "every sink returns the error result of the guarded call itself: it reports success exactly when the call succeeded")
		return true
	}
	return c.Cut(f, sinkDesc, rest, full, nil)
}

// nfAfterFailure: the first of the nil-capable returns `succ` (error result
// errIdx) that can be reached although the site failed, not crossing `blocked`.
// The failure is what the failure edges of the tests of its error say; an error
// that is never tested fails "silently" right after the call; a return that
// hands on the site's own error is not a success after a failure.
func nfAfterFailure(f *ssa.Function, s nfSite, succ []ssa.Instruction, errIdx int, blocked []eng.Edge) (hit *eng.Hit, tested bool) {
	var rest []ssa.Instruction
	for _, r := range succ {
		if !nfReturnsErrOf(r, errIdx, []ssa.Instruction{s.At}) {
			rest = append(rest, r)
		}
	}
	fe := nfFailEdgesOf(s)
	if len(fe) > 0 {
		return eng.Reach(eng.Query{Fn: f, StartEdges: fe, Blocked: blocked, Target: eng.IsTarget(rest)}), true
	}
	return eng.Reach(eng.Query{Fn: f, StartAfter: s.At, Blocked: blocked, Target: eng.IsTarget(rest)}), false
}

// nfProv is c.Prov with the origins continued through captured variables and
// the parameters of followed helpers (call chain fr).
func nfProv(c *eng.Ctx, fn *ssa.Function, site string, at ssa.Instruction, v ssa.Value, fr *nfFrame, allowed ...string) bool {
	if v == nil {
		return c.Prov(fn, site, at, v, allowed...)
	}
	if ok, _, _ := eng.OriginsMatch(v, allowed...); ok {
		return c.Prov(fn, site, at, v, allowed...)
	}
	var res []*regexp.Regexp
	for _, a := range allowed {
		res = append(res, regexp.MustCompile(a))
	}
	var all []string
	bad := ""
	for _, o := range nfOrigins(v, fr) {
		d := o.Kind + ":" + o.Desc
		all = append(all, d)
		m := false
		for _, re := range res {
			if re.MatchString(d) {
				m = true
			}
		}
		if !m && bad == "" {
			bad = d
		}
	}
	if bad != "" || len(all) == 0 {
		return c.Prov(fn, site, at, v, allowed...) // reports the violation in the usual words
	}
	c.OK(fn, "prov{"+site+"}", at.Pos(), "origins "+strings.Join(all, " ")+" ⊆ allowed "+strings.Join(allowed, " "))
	return true
}

// nfResolveParam follows a parameter of a followed helper / closure to the
// argument it was called with.
func nfResolveParam(v ssa.Value, fr *nfFrame) (ssa.Value, *nfFrame) {
	for depth := 0; depth < 5; depth++ {
		p, ok := v.(*ssa.Parameter)
		if !ok || fr == nil {
			return v, fr
		}
		arg := nfArgFor(fr.call, p)
		if arg == nil {
			return v, fr
		}
		v, fr = arg, fr.up
	}
	return v, fr
}

// nfChainInstr: the instruction of function k through which effect e happens
// (the effect call itself when it stands in k, else the call on its chain).
func nfChainInstr(e nfEff, k *ssa.Function) ssa.Instruction {
	if e.Fn == k {
		return e.Call.In
	}
	for fr := e.Fr; fr != nil; fr = fr.up {
		if fr.call != nil && fr.call.Parent() == k {
			return fr.call
		}
	}
	return nil
}

// nfFieldStores: the stores to field fv in f and in the closures / helpers of
// this package f calls (one level), with the function they stand in.
func nfFieldStores(f *ssa.Function, fv *types.Var) []nfStore {
	var out []nfStore
	scan := func(g *ssa.Function, fr *nfFrame) {
		for _, b := range g.Blocks {
			for _, in := range b.Instrs {
				st, ok := in.(*ssa.Store)
				if !ok {
					continue
				}
				if fa, ok := st.Addr.(*ssa.FieldAddr); ok {
					if gv := eng.FieldVar(fa); gv != nil && (gv == fv || gv.Origin() == fv) {
						out = append(out, nfStore{Fn: g, St: st, Fr: fr, Base: fa.X})
					}
				}
			}
		}
	}
	if fv == nil {
		return nil
	}
	scan(f, nil)
	seen := map[*ssa.Function]bool{f: true}
	for _, ci := range nfAllCalls(f) {
		if _, plain := ci.(*ssa.Call); !plain {
			continue
		}
		if g := nfBody(ci, f); g != nil && !seen[g] {
			seen[g] = true
			scan(g, &nfFrame{call: ci})
		}
	}
	return out
}

type nfStore struct {
	Fn   *ssa.Function
	St   *ssa.Store
	Fr   *nfFrame
	Base ssa.Value // address of the struct whose field is written
}

// nfViewOps: the sites of f at which storage operation `op` (Put / Delete /
// List / Get) on a view built by the constructor matching ctorPat has certainly
// happened; the view is followed through aliases, captured variables and the
// parameters of a closure / helper that performs the operation.
func nfViewOps(f *ssa.Function, fr *nfFrame, op, ctorPat string) []nfSite {
	name := regexp.MustCompile(`^<barrier\.View>\.(` + op + `)$`)
	ctor := regexp.MustCompile(ctorPat)
	return nfPlain(nfMust(f, fr, func(nc nfCall, fr *nfFrame) bool {
		if nc.Recv == nil || !name.MatchString(nc.Name) {
			return false
		}
		ok, _ := nfAll(nc.Recv, fr, func(o eng.Origin) bool { return o.Kind == "call" && ctor.MatchString(o.Desc) })
		return ok
	}, 2))
}

// nfViewArg: the namespace argument of the view constructor (matching ctorPat)
// the receiver of storage effect e was built by, with the call chain of the
// function that argument lives in; nil when the receiver is anything else.
func nfViewArg(e nfEff, ctorPat string) (ssa.Value, *nfFrame) {
	if e.Call.Recv == nil {
		return nil, nil
	}
	re := regexp.MustCompile(ctorPat)
	for _, o := range nfOriginsF(e.Call.Recv, e.Fr) {
		if o.Kind != "call" || !re.MatchString(o.Desc) {
			return nil, nil
		}
		if vc, ok := o.Val.(*ssa.Call); ok && len(vc.Call.Args) == 2 {
			return vc.Call.Args[1], o.Fr
		}
	}
	return nil, nil
}

// nfSitesLocal is nfSites following closures only (see nfMustLocal).
func nfSitesLocal(f *ssa.Function, pat string) []nfSite {
	return nfMustLocal(f, nil, nfNamed(pat), 2)
}
