package props

import (
	"go/constant"
	"go/token"
	"go/types"
	"math"
	"regexp"
	"strings"

	"golang.org/x/tools/go/ssa"

	"obsa/eng"
)

// Helpers of the C04 / C06 tables that select sites by what they are instead of
// how they are written (ROBUST.md): a call is the same call when it goes
// through a bound method value or through a closure / an unexported helper that
// performs it on every path; a value is the same value when it is read through
// a local alias, a captured variable or a parameter of such a helper. All of
// them resolve SSA identities (callee, field, variable cell, constant), none
// looks at names or text. What cannot be resolved stays unresolved: the rule
// that asked then finds no site and reports through its floor.

// nfFrame is a call chain: the call instruction through which the function a
// value lives in was entered (nil: unknown / the anchored function itself).
type nfFrame struct {
	call ssa.CallInstruction
	up   *nfFrame
}

// nfCall is a call with its target resolved: for a call through a bound method
// value (rv := x.M; rv(a)) Name is the method and Args starts with the bound
// receiver, exactly as for the direct call x.M(a).
type nfCall struct {
	In   ssa.CallInstruction
	Name string
	Args []ssa.Value
}

// nfCellOf resolves the address of a variable (its Alloc, or the FreeVar a
// closure sees it through) to the Alloc.
func nfCellOf(addr ssa.Value) *ssa.Alloc {
	for depth := 0; depth < 6; depth++ {
		switch x := addr.(type) {
		case *ssa.Alloc:
			return x
		case *ssa.FreeVar:
			fn := x.Parent()
			if fn == nil || fn.Parent() == nil {
				return nil
			}
			idx := -1
			for i, fv := range fn.FreeVars {
				if fv == x {
					idx = i
				}
			}
			var bound ssa.Value
			for _, b := range fn.Parent().Blocks {
				for _, in := range b.Instrs {
					if mc, ok := in.(*ssa.MakeClosure); ok && mc.Fn == ssa.Value(fn) && idx >= 0 && idx < len(mc.Bindings) {
						if bound != nil && bound != mc.Bindings[idx] {
							return nil
						}
						bound = mc.Bindings[idx]
					}
				}
			}
			if bound == nil {
				return nil
			}
			addr = bound
		default:
			return nil
		}
	}
	return nil
}

// nfStoresTo: every value stored into the variable, in the function that
// declares it and in the closures that capture it.
func nfStoresTo(a *ssa.Alloc) []ssa.Value {
	var vals []ssa.Value
	seen := map[ssa.Value]bool{}
	var visit func(addr ssa.Value)
	visit = func(addr ssa.Value) {
		if seen[addr] {
			return
		}
		seen[addr] = true
		refs := addr.Referrers()
		if refs == nil {
			return
		}
		for _, r := range *refs {
			switch x := r.(type) {
			case *ssa.Store:
				if x.Addr == addr {
					vals = append(vals, x.Val)
				}
			case *ssa.MakeClosure:
				fn, _ := x.Fn.(*ssa.Function)
				if fn == nil {
					continue
				}
				for i, b := range x.Bindings {
					if b == addr && i < len(fn.FreeVars) {
						visit(fn.FreeVars[i])
					}
				}
			}
		}
	}
	visit(a)
	return vals
}

// nfFuncValue: the function a function-typed value certainly denotes — a
// function, a closure, or the only value ever assigned to the local variable
// (possibly captured) it is read from.
func nfFuncValue(v ssa.Value) (*ssa.Function, *ssa.MakeClosure) {
	seen := map[ssa.Value]bool{}
	for depth := 0; depth < 6 && v != nil && !seen[v]; depth++ {
		seen[v] = true
		switch x := v.(type) {
		case *ssa.Function:
			return x, nil
		case *ssa.MakeClosure:
			fn, _ := x.Fn.(*ssa.Function)
			return fn, x
		case *ssa.ChangeType:
			v = x.X
		case *ssa.UnOp:
			if x.Op != token.MUL {
				return nil, nil
			}
			cell := nfCellOf(x.X)
			if cell == nil {
				return nil, nil
			}
			vals := nfStoresTo(cell)
			if len(vals) != 1 {
				return nil, nil
			}
			v = vals[0]
		default:
			return nil, nil
		}
	}
	return nil, nil
}

func nfIsBoundWrapper(fn *ssa.Function) bool {
	return fn != nil && fn.Synthetic != "" && strings.HasSuffix(fn.Name(), "$bound")
}

func nfCallOf(in ssa.CallInstruction) nfCall {
	cc := in.Common()
	nc := nfCall{In: in, Name: eng.CalleeName(cc), Args: cc.Args}
	if cc.IsInvoke() {
		return nc
	}
	if _, direct := cc.Value.(*ssa.Function); direct {
		return nc
	}
	if _, bi := cc.Value.(*ssa.Builtin); bi {
		return nc
	}
	fn, mc := nfFuncValue(cc.Value)
	if fn == nil {
		return nc
	}
	if mc != nil && nfIsBoundWrapper(fn) && len(mc.Bindings) == 1 {
		nc.Name = strings.TrimSuffix(eng.FuncName(fn), "$bound")
		nc.Args = append([]ssa.Value{mc.Bindings[0]}, cc.Args...)
	}
	return nc
}

func nfAllCalls(f *ssa.Function) []ssa.CallInstruction {
	var out []ssa.CallInstruction
	for _, b := range f.Blocks {
		for _, in := range b.Instrs {
			if ci, ok := in.(ssa.CallInstruction); ok {
				out = append(out, ci)
			}
		}
	}
	return out
}

// nfCalls: the calls in f whose resolved target matches pat (eng.Calls plus
// calls through bound method values).
func nfCalls(f *ssa.Function, pat string) []nfCall {
	re := regexp.MustCompile(pat)
	var out []nfCall
	for _, ci := range nfAllCalls(f) {
		if nc := nfCallOf(ci); re.MatchString(nc.Name) {
			out = append(out, nc)
		}
	}
	return out
}

func nfIns(cs []nfCall) []ssa.Instruction {
	var out []ssa.Instruction
	for _, c := range cs {
		out = append(out, c.In)
	}
	return out
}

func nfValueFn(v ssa.Value) *ssa.Function {
	switch x := v.(type) {
	case *ssa.Parameter:
		return x.Parent()
	case *ssa.FreeVar:
		return x.Parent()
	case ssa.Instruction:
		return x.Parent()
	}
	return nil
}

// nfArgFor: the argument the call passes for parameter p of the function it enters.
func nfArgFor(call ssa.CallInstruction, p *ssa.Parameter) ssa.Value {
	fn := p.Parent()
	if fn == nil || call == nil {
		return nil
	}
	target, _ := nfFuncValue(call.Common().Value)
	if target != fn {
		return nil
	}
	for i, q := range fn.Params {
		if q == p && i < len(call.Common().Args) {
			return call.Common().Args[i]
		}
	}
	return nil
}

// nfOrigins is eng.Origins continued across the boundaries the refactorings of
// ROBUST.md introduce: a captured variable is followed to the values stored
// into it, a parameter (when the call chain is known) to the argument passed.
func nfOrigins(v ssa.Value, fr *nfFrame) []eng.Origin {
	var out []eng.Origin
	type key struct {
		v  ssa.Value
		fr *nfFrame
	}
	seen := map[key]bool{}
	var walk func(v ssa.Value, fr *nfFrame, depth int)
	walk = func(v ssa.Value, fr *nfFrame, depth int) {
		if v == nil || seen[key{v, fr}] {
			return
		}
		seen[key{v, fr}] = true
		for _, o := range eng.Origins(v) {
			if depth < 5 {
				switch o.Kind {
				case "param":
					if p, ok := o.Val.(*ssa.Parameter); ok && fr != nil {
						if arg := nfArgFor(fr.call, p); arg != nil {
							walk(arg, fr.up, depth+1)
							continue
						}
					}
				case "freevar":
					if ld, ok := o.Val.(*ssa.UnOp); ok {
						if cell := nfCellOf(ld.X); cell != nil {
							if vals := nfStoresTo(cell); len(vals) > 0 {
								for _, sv := range vals {
									var up *nfFrame
									if fr != nil && fr.call != nil && nfValueFn(sv) == fr.call.Parent() {
										up = fr.up
									}
									walk(sv, up, depth+1)
								}
								continue
							}
						}
					}
				}
			}
			out = append(out, o)
		}
	}
	walk(v, fr, 0)
	return out
}

// nfAll: v has at least one origin and every origin satisfies ok.
func nfAll(v ssa.Value, fr *nfFrame, ok func(o eng.Origin) bool) (bool, string) {
	os := nfOrigins(v, fr)
	if len(os) == 0 {
		return false, "no origin"
	}
	for _, o := range os {
		if !ok(o) {
			return false, o.Kind + ":" + o.Desc
		}
	}
	return true, ""
}

// nfFieldOf: o is a read of field fv; the address (or value) of the struct it is read from.
func nfFieldOf(o eng.Origin, fv *types.Var) (ssa.Value, bool) {
	if o.Kind != "field" || fv == nil {
		return nil, false
	}
	same := func(g *types.Var) bool { return g != nil && (g == fv || g.Origin() == fv) }
	switch x := o.Val.(type) {
	case *ssa.UnOp:
		if fa, ok := x.X.(*ssa.FieldAddr); ok && same(eng.FieldVar(fa)) {
			return fa.X, true
		}
	case *ssa.Field:
		if same(eng.FieldVar(x)) {
			return x.X, true
		}
	}
	return nil, false
}

// nfIsField: v is, on every path, a read of field fv (through whatever alias).
func nfIsField(v ssa.Value, fr *nfFrame, fv *types.Var) bool {
	ok, _ := nfAll(v, fr, func(o eng.Origin) bool { _, is := nfFieldOf(o, fv); return is })
	return ok
}

// nfIsParamOf: every origin of v is parameter number idx of function f.
func nfIsParamOf(v ssa.Value, fr *nfFrame, f *ssa.Function, idx int) (bool, string) {
	return nfAll(v, fr, func(o eng.Origin) bool {
		p, ok := o.Val.(*ssa.Parameter)
		return ok && p.Parent() == f && idx < len(f.Params) && f.Params[idx] == p
	})
}

func nfParamIndex(f *ssa.Function, frozenName string) int {
	for i, p := range f.Params {
		if eng.VarName(p) == frozenName {
			return i
		}
	}
	return -1
}

func nfIsConst(v ssa.Value, fr *nfFrame, want string) bool {
	ok, _ := nfAll(v, fr, func(o eng.Origin) bool { return o.Kind == "const" && o.Desc == want })
	return ok
}

// nfEff is one call that is the effect a rule looks for, with the function it
// stands in and the call chain that leads there from the anchored function.
type nfEff struct {
	Fn   *ssa.Function
	Call nfCall
	Fr   *nfFrame
}

// nfSite: an instruction of the anchored function after which the effect has
// certainly happened, with the effect calls behind it.
type nfSite struct {
	At   ssa.Instruction
	Effs []nfEff
}

func nfIsNormalReturn(in ssa.Instruction) bool {
	r, ok := in.(*ssa.Return)
	return ok && r.Block().Comment != "recover"
}

// nfBody: the function a call enters when that is a closure of the same
// top-level function or a function of the same package (whose body is loaded).
func nfBody(in ssa.CallInstruction, f *ssa.Function) *ssa.Function {
	cc := in.Common()
	if cc.IsInvoke() {
		return nil
	}
	g, _ := nfFuncValue(cc.Value)
	if g == nil || len(g.Blocks) == 0 || g.Synthetic != "" {
		return nil
	}
	if g.Parent() != nil {
		if eng.TopFunc(g) == eng.TopFunc(f) {
			return g
		}
		return nil
	}
	if g.Pkg != nil && g.Pkg == eng.TopFunc(f).Pkg {
		return g
	}
	return nil
}

// nfMust: the sites of f at which the effect `is` has certainly happened: calls
// that are the effect, and calls of a closure of the enclosing function / of a
// function of the same package every normal return of which lies behind such a
// site (followed `depth` levels). A deferred or spawned call has not happened
// when the instruction completes: only direct effects are listed for those.
func nfMust(f *ssa.Function, fr *nfFrame, is func(nc nfCall, fr *nfFrame) bool, depth int) []nfSite {
	return nfMustBusy(f, fr, is, depth, map[*ssa.Function]bool{})
}

func nfMustBusy(f *ssa.Function, fr *nfFrame, is func(nc nfCall, fr *nfFrame) bool, depth int, busy map[*ssa.Function]bool) []nfSite {
	var out []nfSite
	busy[f] = true
	defer delete(busy, f)
	for _, ci := range nfAllCalls(f) {
		nc := nfCallOf(ci)
		if is(nc, fr) {
			out = append(out, nfSite{At: ci, Effs: []nfEff{{Fn: f, Call: nc, Fr: fr}}})
			continue
		}
		if _, plain := ci.(*ssa.Call); !plain || depth == 0 {
			continue
		}
		g := nfBody(ci, f)
		if g == nil || busy[g] {
			continue
		}
		inner := nfMustBusy(g, &nfFrame{call: ci, up: fr}, is, depth-1, busy)
		if len(inner) == 0 {
			continue
		}
		if eng.Reach(eng.Query{Fn: g, Barriers: nfAts(inner), Target: nfIsNormalReturn}) != nil {
			continue
		}
		s := nfSite{At: ci}
		for _, i := range inner {
			s.Effs = append(s.Effs, i.Effs...)
		}
		out = append(out, s)
	}
	return out
}

func nfAts(ss []nfSite) []ssa.Instruction {
	var out []ssa.Instruction
	for _, s := range ss {
		out = append(out, s.At)
	}
	return out
}

// nfEffs: the distinct effect calls behind the sites.
func nfEffs(ss []nfSite) []nfEff {
	var out []nfEff
	seen := map[ssa.Instruction]bool{}
	for _, s := range ss {
		for _, e := range s.Effs {
			if !seen[e.Call.In] {
				seen[e.Call.In] = true
				out = append(out, e)
			}
		}
	}
	return out
}

// nfNamed: effect predicate "the resolved callee matches pat".
func nfNamed(pat string) func(nfCall, *nfFrame) bool {
	re := regexp.MustCompile(pat)
	return func(nc nfCall, _ *nfFrame) bool { return re.MatchString(nc.Name) }
}

// ---------------------------------------------------------------------------
// integer comparisons against a constant, evaluated

// nfCmpConst: b compares `operand` with an integer constant; at(x) is the value
// of the comparison when the operand is x.
func nfCmpConst(b *ssa.BinOp, isOperand func(ssa.Value) bool) (at func(x int64) bool, k int64, ok bool) {
	var cst *ssa.Const
	left := false
	if c, isC := b.Y.(*ssa.Const); isC && isOperand(b.X) {
		cst, left = c, true
	} else if c, isC := b.X.(*ssa.Const); isC && isOperand(b.Y) {
		cst = c
	}
	if cst == nil || cst.Value == nil || cst.Value.Kind() != constant.Int {
		return nil, 0, false
	}
	kv, exact := constant.Int64Val(cst.Value)
	if !exact {
		return nil, 0, false
	}
	op := b.Op
	switch op {
	case token.LSS, token.LEQ, token.GTR, token.GEQ, token.EQL, token.NEQ:
	default:
		return nil, 0, false
	}
	return func(x int64) bool {
		l, r := x, kv
		if !left {
			l, r = kv, x
		}
		switch op {
		case token.LSS:
			return l < r
		case token.LEQ:
			return l <= r
		case token.GTR:
			return l > r
		case token.GEQ:
			return l >= r
		case token.EQL:
			return l == r
		}
		return l != r
	}, kv, true
}

// nfSeparates: the comparison has one value at x = special and the other value
// for every x >= 0 (a comparison with one constant changes value at most
// around that constant: the sample points decide it).
func nfSeparates(at func(int64) bool, k, special int64) bool {
	v := at(special)
	for _, x := range []int64{0, 1, k - 1, k, k + 1, math.MaxInt32, math.MaxInt64 - 1} {
		if x >= 0 && x != special && at(x) == v {
			return false
		}
	}
	return true
}

// c04MarkerExcluded: the edges on which a test of TokenEntry.NumUses against a
// constant has the value it cannot have for the pending-revocation marker and
// has for every valid use count (>= 0): `NumUses < 0`, `NumUses <= -1`,
// `NumUses == tokenRevocationPending`, ... in either operand order, negated or
// not, held in a local or tested in place.
func c04MarkerExcluded(c *eng.Ctx, f *ssa.Function) eng.Guard {
	g := eng.Guard{Desc: `[\.NumUses < 0$]=false`}
	fv := c.P.Field("logical.TokenEntry.NumUses")
	mk, ok := c.P.ConstValue("vault.tokenRevocationPending")
	if fv == nil || !ok {
		c.Unresolved("logical.TokenEntry.NumUses / vault.tokenRevocationPending")
		return g
	}
	var marker int64
	neg := strings.HasPrefix(mk, "-")
	for _, ch := range strings.TrimPrefix(mk, "-") {
		if ch < '0' || ch > '9' {
			c.Unresolved("vault.tokenRevocationPending (integer)")
			return g
		}
		marker = marker*10 + int64(ch-'0')
	}
	if neg {
		marker = -marker
	}
	isNumUses := func(v ssa.Value) bool {
		switch x := v.(type) {
		case *ssa.UnOp:
			if x.Op == token.MUL {
				if fa, ok := x.X.(*ssa.FieldAddr); ok {
					g := eng.FieldVar(fa)
					return g != nil && (g == fv || g.Origin() == fv)
				}
			}
		case *ssa.Field:
			g := eng.FieldVar(x)
			return g != nil && (g == fv || g.Origin() == fv)
		}
		return false
	}
	for _, in := range eng.Instrs(f, func(in ssa.Instruction) bool { _, ok := in.(*ssa.BinOp); return ok }) {
		b := in.(*ssa.BinOp)
		at, k, ok := nfCmpConst(b, isNumUses)
		if !ok || !nfSeparates(at, k, marker) {
			continue
		}
		g.Edges = append(g.Edges, eng.BoolEdges(b, !at(marker))...)
	}
	return g
}
