package props

import (
	"go/token"
	"go/types"
	"strconv"
	"strings"

	"golang.org/x/tools/go/ssa"

	"obsa/eng"
)

// runC12Gaps2: second-tier mechanisms of C12 (transaction views, ACL
// evaluation, policy parsing and caching, remount/unmount keys, barrier
// selection helper, sealed-namespace gate, cubbyhole identifiers).
func runC12Gaps2(c *eng.Ctx) {
	c12gViewBuilders(c)
	c12gACLRootAndPath(c)
	c12gPolicyPathsAnchored(c)
	c12gGroupPolicyHierarchy(c)
	c12gRouterTreeKeys(c)
	c12gWalkCallbackComparisons(c)
	c12gBarrierHelper(c)
	c12gSealedGate(c)
	c12gCubbyholeID(c)
	c12gCubbyholeSalt(c)
	c12gLeaseNamespace(c)
	c12gPolicyStoreNamespace(c)
}

// ---------- C12.2 every storageView that is built (NewStorageView, the transactions begun
// on a view) carries the prefix of the view it is built from
func c12gViewBuilders(c *eng.Ctx) {
	sf := c.P.Field("logical.storageView.storage")
	pf := c.P.Field("logical.storageView.prefix")
	if sf == nil || pf == nil {
		c.Clause("R5", "C12.2")
		c.Unresolved("logical.storageView.storage / prefix")
		return
	}
	c.Clause("R5", "C12.2")
	n := 0
	for _, w := range c.P.FieldWriters(sf) {
		if !eng.InPkg(w.Fn, "logical") {
			continue
		}
		fa, ok := w.Store.Addr.(*ssa.FieldAddr)
		if !ok {
			continue
		}
		base := fa.X
		n++
		var pst []*ssa.Store
		if refs := base.Referrers(); refs != nil {
			for _, r := range *refs {
				pa, ok := r.(*ssa.FieldAddr)
				if !ok || eng.FieldVar(pa) != pf || pa.Referrers() == nil {
					continue
				}
				for _, rr := range *pa.Referrers() {
					if st, ok := rr.(*ssa.Store); ok && st.Addr == ssa.Value(pa) {
						pst = append(pst, st)
					}
				}
			}
		}
		if len(pst) == 0 {
			c.Violation(w.Fn, "view built with the prefix of its parent", w.Store.Pos(), "a storageView is built around "+eng.Expr(w.Store.Val)+" without a prefix: keys given to it are used relative to the root of the underlying storage, outside the mount's view", nil)
			continue
		}
		for _, st := range pst {
			c.Prov(w.Fn, "prefix of a built storageView", st, st.Val, `^param:prefix$`, `^field:s\.storageView\.prefix$`, `^field:s\.prefix$`)
		}
	}
	c.Floor(nil, "functions/literals building a logical.storageView", n, 3)
}

// c12gLeading returns the leading operands of the string v: through phis,
// conversions, concatenation (left operand), re-slicing, suffix trimming and
// (flow-sensitively) loads of locals.
func c12gLeading(v ssa.Value) []ssa.Value {
	var out []ssa.Value
	seen := map[ssa.Value]bool{}
	var walk func(v ssa.Value)
	walk = func(v ssa.Value) {
		if v == nil || seen[v] {
			return
		}
		seen[v] = true
		switch x := v.(type) {
		case *ssa.Phi:
			for _, e := range x.Edges {
				walk(e)
			}
			return
		case *ssa.ChangeType:
			walk(x.X)
			return
		case *ssa.Slice:
			// s[i:]: what remains still ends with the operands after the leading one; the
			// slice is taken of the qualified string, so its leading operand is x.X's
			walk(x.X)
			return
		case *ssa.BinOp:
			if x.Op == token.ADD {
				walk(x.X)
				return
			}
		case *ssa.Call:
			if n := eng.CalleeName(&x.Call); n == "strings.TrimSuffix" && len(x.Call.Args) == 2 {
				walk(x.Call.Args[0])
				return
			}
		case *ssa.Extract:
			if cl, ok := x.Tuple.(*ssa.Call); ok && x.Index == 0 && eng.CalleeName(&cl.Call) == "strings.CutSuffix" && len(cl.Call.Args) == 2 {
				walk(cl.Call.Args[0])
				return
			}
		case *ssa.UnOp:
			if a, ok := x.X.(*ssa.Alloc); ok && x.Op == token.MUL {
				vals, _ := eng.ReachingStores(a, x)
				if len(vals) > 0 {
					for _, s := range vals {
						if s == nil {
							out = append(out, v)
						} else {
							walk(s)
						}
					}
					return
				}
			}
		}
		out = append(out, v)
	}
	walk(v)
	return out
}

func c12gCtxQualified(c *eng.Ctx, f *ssa.Function, site string, at ssa.Instruction, key ssa.Value, consequence string) {
	leaves := c12gLeading(key)
	var bad []string
	for _, l := range leaves {
		if !c12IsCtxNamespacePath(c, l) {
			bad = append(bad, eng.Expr(l))
		}
	}
	if len(bad) > 0 || len(leaves) == 0 {
		c.Violation(f, site, at.Pos(), "the key "+eng.ExprDeep(key)+" does not lead with the Path of the namespace taken from the context (leading operand(s): "+strings.Join(bad, ", ")+"): "+consequence, nil)
	} else {
		c.OK(f, site, at.Pos(), eng.ExprDeep(key))
	}
}

// ---------- C12.5 ACL evaluation: the root fast path is open only below the ACL's own
// namespace, and rules are looked up by the namespace-qualified request path
func c12gACLRootAndPath(c *eng.Ctx) {
	f := c.Fn("policy.(*ACL).AllowOperation")
	if f == nil {
		return
	}
	rootF := c.P.Field("policy.ACL.root")
	isRootF := c.P.Field("policy.ACLResults.IsRoot")
	if rootF == nil || isRootF == nil {
		c.Clause("R2", "C12.5")
		c.Unresolved("policy.ACL.root / policy.ACLResults.IsRoot")
		return
	}
	c.Clause("R2", "C12.5")
	var grants []ssa.Instruction
	for _, in := range eng.Instrs(f, func(in ssa.Instruction) bool {
		st, ok := in.(*ssa.Store)
		if !ok {
			return false
		}
		fa, ok := st.Addr.(*ssa.FieldAddr)
		return ok && eng.FieldVar(fa) == isRootF && eng.Expr(st.Val) == "true"
	}) {
		grants = append(grants, in)
	}
	if c.Floor(f, "root fast path (IsRoot = true)", len(grants), 1) {
		// HasParent(<context namespace>, a.root) == true
		var edges []eng.Edge
		for _, hp := range eng.Calls(f, `^namespace\.\(\*Namespace\)\.HasParent$`) {
			a := hp.Common().Args
			if len(a) != 2 || !c12gIsCtxNamespace(a[0]) {
				continue
			}
			ld, ok := a[1].(*ssa.UnOp)
			if !ok || ld.Op != token.MUL {
				continue
			}
			fa, ok := ld.X.(*ssa.FieldAddr)
			if !ok || eng.FieldVar(fa) != rootF {
				continue
			}
			if v := hp.Value(); v != nil {
				edges = append(edges, eng.BoolEdges(v, true)...)
			}
		}
		c.Cut(f, "root privileges from a root policy", grants, eng.Guard{Desc: "<context namespace>.HasParent(a.root) == true", Edges: edges}, nil)
	}
	// rule lookups
	c.Clause("R5", "C12.5")
	n := 0
	for _, cl := range eng.Calls(f, `go-radix\.Tree\)\.(Get|LongestPrefix|WalkPrefix|WalkPath)$|^policy\.\(\*ACL\)\.CheckAllowedFromNonExactPaths$`) {
		a := cl.Common().Args
		if len(a) < 2 {
			continue
		}
		n++
		c12gCtxQualified(c, f, "ACL rule lookup keyed by <context namespace>.Path + request path", cl, a[1], "policy rules (which are stored namespace-qualified) of another namespace would be matched against the bare path")
	}
	c.Floor(f, "ACL rule lookups", n, 3)
}

// c12gIsCtxNamespace: v is read out of namespace.FromContext's first result only.
func c12gIsCtxNamespace(v ssa.Value) bool {
	roots := eng.Roots(v, nil)
	if len(roots) == 0 {
		return false
	}
	for _, r := range roots {
		cl := c14ExtractOf(r, 0)
		if cl == nil || eng.CalleeName(&cl.Call) != "namespace.FromContext" {
			return false
		}
	}
	return true
}

// ---------- C12.5 parsed policy paths are anchored to the namespace the policy is parsed in
func c12gPolicyPathsAnchored(c *eng.Ctx) {
	f := c.Fn("policy.parsePaths")
	if f == nil {
		return
	}
	pathF := c.P.Field("policy.PathRules.Path")
	pathsF := c.P.Field("policy.Policy.Paths")
	nsF := c.P.Field("policy.Policy.Namespace")
	if pathF == nil || pathsF == nil || nsF == nil {
		c.Clause("R3", "C12.5")
		c.Unresolved("policy.PathRules.Path / policy.Policy.Paths / policy.Policy.Namespace")
		return
	}
	c.Clause("R3", "C12.5")
	var anchor, publish, accum []ssa.Instruction
	for _, b := range f.Blocks {
		for _, in := range b.Instrs {
			switch x := in.(type) {
			case *ssa.Store:
				fa, ok := x.Addr.(*ssa.FieldAddr)
				if !ok {
					continue
				}
				switch eng.FieldVar(fa) {
				case pathF:
					// pc.Path = <policy>.Namespace.Path + pc.Path
					bo, ok := x.Val.(*ssa.BinOp)
					if !ok || bo.Op != token.ADD {
						continue
					}
					ld, base := c14LoadOfField(bo.X, "Path")
					if ld == nil || structTypeName(base.Type()) != "namespace.Namespace" {
						continue
					}
					if nl, pb := c14LoadOfField(base, "Namespace"); nl != nil && structTypeName(pb.Type()) == "policy.Policy" {
						anchor = append(anchor, in)
					}
				case pathsF:
					publish = append(publish, in)
				}
			case *ssa.Call:
				// paths = append(paths, pc): a parsed rule joins the policy
				if bi, ok := x.Call.Value.(*ssa.Builtin); ok && bi.Name() == "append" && len(x.Call.Args) == 2 {
					if sl, ok := x.Call.Args[0].Type().Underlying().(*types.Slice); ok {
						if p, ok := sl.Elem().(*types.Pointer); ok && structTypeName(p) == "policy.PathRules" {
							accum = append(accum, in)
						}
					}
				}
			}
		}
	}
	c.Floor(f, "result.Paths published", len(publish), 1)
	if c.Floor(f, "parsed path rule appended to the policy's rules", len(accum), 1) {
		c.Before(f, "pc.Path = <policy>.Namespace.Path + pc.Path", anchor, "path rule appended to the policy's rules", accum)
	}
	// the anchored form is not overwritten by an un-anchored one afterwards (only suffix edits of itself)
	c.Clause("R5", "C12.5")
	for _, a := range anchor {
		for _, st := range eng.Stores(f, `^&pc\.Path$`) {
			if st == a {
				continue
			}
			after := eng.Reach(eng.Query{Fn: f, StartAfter: a, Barriers: accum, Target: func(in ssa.Instruction) bool { return in == ssa.Instruction(st) }}) != nil
			if !after {
				continue
			}
			lead := c12gLeading(st.Val)
			okAll := len(lead) > 0
			for _, l := range lead {
				ld, _ := c14LoadOfField(l, "Path")
				if ld == nil {
					okAll = false
				}
				if ld != nil {
					if fa, ok := ld.X.(*ssa.FieldAddr); !ok || eng.FieldVar(fa) != pathF {
						okAll = false
					}
				}
			}
			if okAll {
				c.OK(f, "rewrite of an anchored path keeps its leading part", st.Pos(), eng.ExprDeep(st.Val))
			} else {
				c.Violation(f, "rewrite of an anchored path keeps its leading part", st.Pos(), "after the namespace prefix was put in front, pc.Path is overwritten with "+eng.ExprDeep(st.Val)+", which does not lead with the anchored path", nil)
			}
		}
	}
	// the namespace the policy carries is the one it is parsed in
	for _, fn := range []string{"policy.ParseACLPolicyWithTemplating"} {
		pf := c.P.Func(fn)
		if pf == nil {
			c.Unresolved(fn)
			continue
		}
		n := 0
		for _, w := range c.P.FieldWriters(nsF) {
			if w.Fn != pf {
				continue
			}
			n++
			c.Prov(pf, "namespace a parsed policy carries", w.Store, w.Store.Val, `^param:ns$`)
		}
		c.Floor(pf, "Policy.Namespace set by the parser", n, 1)
	}
}

// ---------- C12.5 group policies of other namespaces apply only below the token's namespace
// (default application mode)
func c12gGroupPolicyHierarchy(c *eng.Ctx) {
	f := c.Fn("vault.(*Core).getApplicableGroupPolicies")
	if f == nil {
		return
	}
	c.Clause("R2", "C12.5")
	mode, ok := c.P.ConstValue("vault.groupPolicyApplicationModeWithinNamespaceHierarchy")
	if !ok {
		c.Unresolved("vault.groupPolicyApplicationModeWithinNamespaceHierarchy")
		return
	}
	// sinks: a single policy name is appended to the result (the loop accumulator)
	var sinks []ssa.Instruction
	for _, in := range eng.Instrs(f, func(in ssa.Instruction) bool {
		cl, ok := in.(*ssa.Call)
		if !ok {
			return false
		}
		bi, ok := cl.Call.Value.(*ssa.Builtin)
		if !ok || bi.Name() != "append" || len(cl.Call.Args) != 2 {
			return false
		}
		// append(filtered, name) — not append(filtered, nsPolicies...) of the same-namespace case
		_, isParam := cl.Call.Args[1].(*ssa.Parameter)
		return !isParam
	}) {
		sinks = append(sinks, in)
	}
	if !c.Floor(f, "policy name appended to the applicable set", len(sinks), 2) {
		return
	}
	var tokenNS *ssa.Parameter
	for _, p := range f.Params {
		if structTypeName(p.Type()) == "namespace.Namespace" {
			tokenNS = p
		}
	}
	var edges []eng.Edge
	for _, hp := range eng.Calls(f, `^namespace\.\(\*Namespace\)\.HasParent$`) {
		a := hp.Common().Args
		if len(a) != 2 || tokenNS == nil || a[1] != ssa.Value(tokenNS) {
			continue
		}
		if ok, _, _ := eng.OriginsMatch(a[0], `^call:vault\.\(\*Core\)\.NamespaceByID#0$`); !ok {
			continue
		}
		if v := hp.Value(); v != nil {
			edges = append(edges, eng.BoolEdges(v, true)...)
		}
	}
	g := eng.Or(eng.Guard{Desc: "<policy namespace>.HasParent(<token namespace>) == true", Edges: edges},
		eng.G(f, `^policyApplicationMode == `+reQuote(strconv.Quote(mode))+`$`, false))
	if len(edges) == 0 {
		c.Violation(f, "hierarchy test of the default group-policy mode", f.Pos(), "no test <namespace of the policy>.HasParent(<namespace of the token>) found: in within_namespace_hierarchy mode group policies must be applied only when defined in the token's namespace or below", nil)
		return
	}
	c.Cut(f, "group policy of another namespace applied", sinks, g, nil)
}

// ---------- C12.3 exact-key operations on the mount tree by context-taking Router methods
// (Unmount, Remount) use namespace-qualified keys
func c12gRouterTreeKeys(c *eng.Ctx) {
	root := c.P.Field("routing.Router.root")
	if root == nil {
		c.Clause("R5", "C12.3")
		c.Unresolved("routing.Router.root")
		return
	}
	c.Clause("R5", "C12.3")
	n := 0
	for _, f := range c.P.Funcs {
		if !eng.InPkg(f, "routing") || !strings.HasPrefix(eng.FuncName(eng.TopFunc(f)), "routing.(*Router).") {
			continue
		}
		hasCtx := false
		for _, p := range eng.TopFunc(f).Params {
			if types.TypeString(p.Type(), nil) == "context.Context" {
				hasCtx = true
			}
		}
		if !hasCtx {
			continue
		}
		for _, cl := range eng.Calls(f, `go-radix\.Tree\)\.(Get|Delete|Insert|DeletePrefix)$`) {
			a := cl.Common().Args
			if len(a) < 2 {
				continue
			}
			ld, ok := a[0].(*ssa.UnOp)
			if !ok || ld.Op != token.MUL {
				continue
			}
			fa, ok := ld.X.(*ssa.FieldAddr)
			if !ok || eng.FieldVar(fa) != root {
				continue
			}
			n++
			c12gCtxQualified(c, f, "mount-tree "+cl.Common().StaticCallee().Name()+" keyed by <context namespace>.Path + path", cl, a[1], "the route entry of a namespace's mount would be looked up / removed / re-inserted in the root namespace's path space")
		}
	}
	c.Floor(nil, "exact-key mount-tree operations by context-taking Router methods", n, 5)
}

// ---------- C12.6 the barrier-selection helper answers with the longest-prefix match
func c12gBarrierHelper(c *eng.Ctx) {
	tree := c.P.Field("vault.SealManager.barrierByNamespacePath")
	if tree == nil {
		c.Clause("R5", "C12.6")
		c.Unresolved("vault.SealManager.barrierByNamespacePath")
		return
	}
	if f := c.Fn("vault.(*SealManager).namespaceBarrierByLongestPrefix"); f != nil && len(f.Params) == 2 {
		c.Clause("R5", "C12.6")
		n := 0
		for _, r := range eng.Returns(f) {
			if eng.IsNilConst(r.Results[0]) {
				continue
			}
			n++
			ok := true
			why := ""
			for _, o := range eng.Origins(r.Results[0]) {
				ex, isEx := o.Val.(*ssa.Extract)
				var cl *ssa.Call
				if isEx {
					cl, _ = ex.Tuple.(*ssa.Call)
				}
				if cl == nil || !strings.HasSuffix(eng.CalleeName(&cl.Call), "go-radix.Tree).LongestPrefix") || ex.Index != 1 {
					ok, why = false, o.Kind+":"+o.Desc
					continue
				}
				a := cl.Call.Args
				ld, isLd := a[0].(*ssa.UnOp)
				var fa *ssa.FieldAddr
				if isLd {
					fa, _ = ld.X.(*ssa.FieldAddr)
				}
				if fa == nil || eng.FieldVar(fa) != tree {
					ok, why = false, "lookup in "+eng.Expr(a[0])
				}
				if !c12gOnlyValue(a[1], f.Params[1]) {
					ok, why = false, "lookup keyed by "+eng.ExprDeep(a[1])
				}
			}
			if ok {
				c.OK(f, "barrier returned = longest-prefix match for the namespace path", r.Pos(), eng.ExprDeep(r.Results[0]))
			} else {
				c.Violation(f, "barrier returned = longest-prefix match for the namespace path", r.Pos(), "the barrier handed out for a namespace path is not the LongestPrefix match of barrierByNamespacePath for that path ("+why+"): a namespace below a separately sealed one would be served by another (e.g. the root) barrier", nil)
			}
		}
		c.Floor(f, "returns of a barrier", n, 1)
	}
	if f := c.Fn("vault.(*SealManager).NamespaceBarrierByLongestPrefix"); f != nil && len(f.Params) == 2 {
		c.Clause("R5", "C12.6")
		hs := eng.Calls(f, `^vault\.\(\*SealManager\)\.namespaceBarrierByLongestPrefix$`)
		for _, h := range hs {
			if c12gOnlyValue(h.Common().Args[1], f.Params[1]) { // directly, or through the cell a deferred closure captures
				c.OK(f, "locked wrapper hands its path to the helper", h.Pos(), eng.VarName(f.Params[1]))
			} else {
				c.Violation(f, "locked wrapper hands its path to the helper", h.Pos(), "helper called with "+eng.ExprDeep(h.Common().Args[1]), nil)
			}
		}
		c.Floor(f, "helper call", len(hs), 1)
		for _, r := range eng.Returns(f) {
			if r.Block().Comment == "recover" {
				continue
			}
			vals, _, _ := eng.ReturnVals(r, 0)
			for _, v := range vals {
				c.Prov(f, "barrier returned by the locked wrapper", r, v, `^call:vault\.\(\*SealManager\)\.namespaceBarrierByLongestPrefix$`)
			}
		}
	}
}

// ---------- C12.6 a request is handed on only for the root namespace or a namespace whose
// barrier is unsealed
func c12gSealedGate(c *eng.Ctx) {
	f := c.Fn("vault.(*Core).switchedLockHandleRequest")
	if f == nil {
		return
	}
	c.Clause("R2", "C12.6")
	rootID, ok := c.P.ConstValue("namespace.RootNamespaceID")
	if !ok {
		c.Unresolved("namespace.RootNamespaceID")
		return
	}
	sinks := nfIns(nfCalls(f, `^vault\.\(\*Core\)\.(handleCancelableRequest|handleInlineAuth)$`))
	if !c.Floor(f, "request handed on (inline auth / handleCancelableRequest)", len(sinks), 2) {
		return
	}
	// the namespace tested is the one resolved for the request; the test stands here or in a
	// helper of this package that refuses (non-nil error) unless it came out false
	isResolved := func(o eng.Origin) bool {
		return o.Kind == "call" && o.Desc == "vault.(*NamespaceStore).ResolveNamespaceFromRequest#0"
	}
	sealedEdges := c12gGateEdges(f, nil, func(nc nfCall, fr *nfFrame) bool {
		if nc.Name != "vault.(*Core).NamespaceSealed" || len(nc.Args) != 2 {
			return false
		}
		ok, _ := nfAll(nc.Args[1], fr, isResolved)
		return ok
	}, false, 2)
	g := eng.Or(eng.Guard{Desc: "NamespaceSealed(<resolved namespace>) == false", Edges: sealedEdges},
		eng.G(f, `^vault\.\(\*NamespaceStore\)\.ResolveNamespaceFromRequest\(\)#0\.ID == `+reQuote(strconv.Quote(rootID))+`$`, true))
	if len(sealedEdges) == 0 {
		c.Violation(f, "sealed-namespace gate", f.Pos(), "no test of Core.NamespaceSealed on the namespace resolved for the request: requests to a sealed namespace would be handled", nil)
		return
	}
	c.Cut(f, "request handed on", sinks, g, nil)
	// and the context handed on carries that namespace
	c.Clause("R5", "C12.6")
	for _, cw := range eng.Calls(f, `^namespace\.ContextWithNamespace$`) {
		c.Prov(f, "namespace put into the request context", cw, cw.Common().Args[1], `^call:vault\.\(\*NamespaceStore\)\.ResolveNamespaceFromRequest#0$`)
	}
}

// ---------- C12.4 a token's cubbyhole identifier is a fresh random value
func c12gCubbyholeID(c *eng.Ctx) {
	fv := c.P.Field("logical.TokenEntry.CubbyholeID")
	if fv == nil {
		c.Clause("R6", "C12.4")
		c.Unresolved("logical.TokenEntry.CubbyholeID")
		return
	}
	c.Clause("R6", "C12.4")
	n := 0
	for _, w := range c.P.FieldWriters(fv) {
		p := eng.PkgPathOf(w.Fn)
		top := eng.FuncName(eng.TopFunc(w.Fn))
		if !strings.HasPrefix(p, eng.ModMain+"/internal/vault") {
			// wire/codec copies of the same field (plugin protobuf translation) and tests
			if ok, _, _ := eng.OriginsMatch(w.Store.Val, `\.CubbyholeID$`); ok {
				continue
			}
			if strings.Contains(top, "esting") {
				continue
			}
		}
		n++
		if top != "vault.(*TokenStore).create" {
			c.Violation(w.Fn, "writer{TokenEntry.CubbyholeID}", w.Store.Pos(), "a token's cubbyhole identifier is assigned outside TokenStore.create: "+eng.InstrStr(w.Store), nil)
			continue
		}
		c.OK(w.Fn, "writer{TokenEntry.CubbyholeID}", w.Store.Pos(), "TokenStore.create")
		c.Clause("R5", "C12.4")
		c.Prov(w.Fn, "cubbyhole identifier", w.Store, w.Store.Val, `^call:github\.com/hashicorp/go-secure-stdlib/base62\.Random#0$`)
		c.Clause("R6", "C12.4")
	}
	c.Floor(nil, "writers of TokenEntry.CubbyholeID in the server", n, 1)
}

// ---------- C12.5 the policy store resolves and caches policies per namespace
func c12gPolicyStoreNamespace(c *eng.Ctx) {
	// cache key contains the namespace's UUID
	if f := c.Fn("policy.(*Store).cacheKey"); f != nil {
		c.Clause("R5", "C12.5")
		var nsParam *ssa.Parameter
		for _, p := range f.Params {
			if structTypeName(p.Type()) == "namespace.Namespace" {
				nsParam = p
			}
		}
		for _, r := range eng.Returns(f) {
			var ing []ssa.Value
			c12Ingredients(r.Results[0], &ing, map[ssa.Value]bool{})
			has := false
			for _, v := range ing {
				if ld, base := c14LoadOfField(v, "UUID"); ld != nil && nsParam != nil && base == ssa.Value(nsParam) {
					has = true
				}
			}
			if has {
				c.OK(f, "policy cache key contains the namespace UUID", r.Pos(), eng.ExprDeep(r.Results[0]))
			} else {
				c.Violation(f, "policy cache key contains the namespace UUID", r.Pos(), "the cache key "+eng.ExprDeep(r.Results[0])+" does not depend on the namespace: same-named policies of different namespaces share a cache slot", nil)
			}
		}
	}
	// every key a policy is stored under / served from in the LRU comes out of cacheKey (removals may
	// also walk the cache's own key list)
	c.Clause("R5", "C12.5")
	n := 0
	for _, f := range c.P.Funcs {
		if !eng.InPkg(f, "policy") {
			continue
		}
		for _, cl := range eng.Calls(f, `golang-lru/v2\.TwoQueueCache\[string, \*policy\.Policy\]\)\.(Get|Add|Contains|Peek)$`) {
			n++
			c.Prov(f, "policy cache key", cl, cl.Common().Args[1], `^call:policy\.\(\*Store\)\.cacheKey$`)
		}
	}
	c.Floor(nil, "keyed reads/insertions on the policy LRU", n, 4)
	// Store.ACL: named policies are fetched in the namespace they are listed under; templated
	// policies are re-parsed in the namespace they carry
	if f := c.Fn("policy.(*Store).ACL"); f != nil {
		c.Clause("R5", "C12.5")
		gp := eng.Calls(f, `^policy\.\(\*Store\)\.GetPolicy$`)
		for _, g := range gp {
			site := "namespace a listed policy is fetched in"
			okCtx := false
			why := eng.ExprDeep(g.Common().Args[1])
			if cw, ok := c11Strip(g.Common().Args[1]).(*ssa.Call); ok && eng.CalleeName(&cw.Call) == "namespace.ContextWithNamespace" {
				if ex, ok := cw.Call.Args[1].(*ssa.Extract); ok && ex.Index == 0 {
					if nb, ok := ex.Tuple.(*ssa.Call); ok && strings.HasSuffix(eng.CalleeName(&nb.Call), ".NamespaceByID") {
						// keyed by the range key of the policy-name map
						id := nb.Call.Args[len(nb.Call.Args)-1]
						if kx, ok := id.(*ssa.Extract); ok && kx.Index == 1 {
							if _, isNext := kx.Tuple.(*ssa.Next); isNext {
								okCtx = true
							}
						}
						why = "NamespaceByID(" + eng.ExprDeep(id) + ")"
					}
				}
			}
			if okCtx {
				c.OK(f, site, g.Pos(), "ContextWithNamespace(ctx, NamespaceByID(<namespace id the names are listed under>))")
			} else {
				c.Violation(f, site, g.Pos(), "GetPolicy is not called in the namespace the policy names are listed under but with "+why+": same-named policies of another namespace would be attached to the token", nil)
			}
		}
		c.Floor(f, "GetPolicy calls in Store.ACL", len(gp), 1)
		for _, pp := range eng.Calls(f, `^policy\.ParseACLPolicyWithTemplating$`) {
			a := pp.Common().Args
			ldN, baseN := c14LoadOfField(a[0], "Namespace")
			ldR, baseR := c14LoadOfField(a[1], "Raw")
			if ldN != nil && ldR != nil && eng.ExprDeep(baseN) == eng.ExprDeep(baseR) && structTypeName(baseN.Type()) == "policy.Policy" {
				c.OK(f, "templated policy re-parsed in its own namespace", pp.Pos(), "Namespace and Raw of the same policy")
			} else {
				c.Violation(f, "templated policy re-parsed in its own namespace", pp.Pos(), "ParseACLPolicyWithTemplating("+eng.ExprDeep(a[0])+", "+eng.ExprDeep(a[1])+"): the namespace is not the Namespace field of the policy whose Raw text is parsed", nil)
			}
		}
	}
}

// ---------- C12.4 writer/reader agreement on the legacy (double-salted) cubbyhole key: the
// router derives it with RouteEntry.SaltID = salt.SaltID(re.MountEntry.UUID, …), the token
// store's destroy / tidy paths recompute it with salt.SaltID(cubbyholeBackend.saltUUID, …):
// saltUUID is written only by Core.setCoreBackend and only with the UUID of the mount entry
// being installed
func c12gCubbyholeSalt(c *eng.Ctx) {
	sf := c.P.Field("vault.CubbyholeBackend.saltUUID")
	uf := c.P.Field("routing.MountEntry.UUID")
	mef := c.P.Field("routing.RouteEntry.MountEntry")
	if sf == nil || uf == nil || mef == nil {
		c.Clause("R6", "C12.4")
		c.Unresolved("vault.CubbyholeBackend.saltUUID / routing.MountEntry.UUID / routing.RouteEntry.MountEntry")
		return
	}
	uuidOf := func(v ssa.Value) ssa.Value { // v = X.UUID with X a *routing.MountEntry: returns X
		ld, ok := c11Strip(v).(*ssa.UnOp)
		if !ok || ld.Op != token.MUL {
			return nil
		}
		fa, ok := ld.X.(*ssa.FieldAddr)
		if !ok || eng.FieldVar(fa) != uf {
			return nil
		}
		return fa.X
	}
	c.Clause("R6", "C12.4")
	n := 0
	for _, w := range c.P.FieldWriters(sf) {
		top := eng.FuncName(eng.TopFunc(w.Fn))
		if strings.Contains(top, "esting") {
			continue
		}
		n++
		if top != "vault.(*Core).setCoreBackend" {
			c.Violation(w.Fn, "writer{CubbyholeBackend.saltUUID}", w.Store.Pos(), "the salt the token store uses to recompute a token's cubbyhole key is set outside Core.setCoreBackend ("+eng.InstrStr(w.Store)+"): the router derives the key from the mount entry's UUID, the two would disagree and revoking a token would not wipe its cubbyhole", nil)
			continue
		}
		c.OK(w.Fn, "writer{CubbyholeBackend.saltUUID}", w.Store.Pos(), "Core.setCoreBackend")
		c.Clause("R5", "C12.4")
		site := "cubbyhole salt = UUID of the mount entry being installed"
		base := uuidOf(w.Store.Val)
		if _, isParam := base.(*ssa.Parameter); base != nil && isParam {
			c.OK(w.Fn, site, w.Store.Pos(), eng.Expr(w.Store.Val))
		} else {
			c.Violation(w.Fn, site, w.Store.Pos(), "saltUUID is set from "+eng.ExprDeep(w.Store.Val)+", not from the UUID field of the mount entry handed to setCoreBackend (the field RouteEntry.SaltID uses)", nil)
		}
		// the backend whose salt is set is the one published as Core.cubbyholeBackend
		if fa, ok := w.Store.Addr.(*ssa.FieldAddr); ok {
			c.Prov(w.Fn, "backend whose salt is set", w.Store, fa.X, `^field:c\.cubbyholeBackend$`, `^param:backend$`)
		}
		c.Clause("R6", "C12.4")
	}
	c.Floor(nil, "writers of CubbyholeBackend.saltUUID", n, 1)
	// the router's side: RouteEntry.SaltID salts with re.MountEntry.UUID
	if f := c.Fn("routing.(*RouteEntry).SaltID"); f != nil {
		c.Clause("R5", "C12.4")
		cs := eng.Calls(f, `^salt\.SaltID$`)
		for _, s := range cs {
			base := uuidOf(s.Common().Args[0])
			okR := false
			if base != nil {
				if ld, ok := base.(*ssa.UnOp); ok && ld.Op == token.MUL {
					if fa, ok := ld.X.(*ssa.FieldAddr); ok && eng.FieldVar(fa) == mef {
						_, okR = fa.X.(*ssa.Parameter)
					}
				}
			}
			if okR {
				c.OK(f, "router salts cubbyhole ids with the route entry's MountEntry.UUID", s.Pos(), eng.ExprDeep(s.Common().Args[0]))
			} else {
				c.Violation(f, "router salts cubbyhole ids with the route entry's MountEntry.UUID", s.Pos(), "RouteEntry.SaltID salts with "+eng.ExprDeep(s.Common().Args[0])+": the token store recomputes cubbyhole keys from the mount entry's UUID (saltUUID)", nil)
			}
		}
		c.Floor(f, "salt.SaltID in RouteEntry.SaltID", len(cs), 1)
		for _, r := range eng.Returns(f) {
			c.Prov(f, "RouteEntry.SaltID result", r, r.Results[0], `^call:salt\.SaltID$`)
		}
	}
	// the token store's side: the recomputed keys are salted with cubbyholeBackend.saltUUID
	c.Clause("R5", "C12.4")
	nr := 0
	for _, f := range c.P.Funcs {
		if !eng.InPkg(f, "vault") {
			continue
		}
		for _, s := range eng.Calls(f, `^salt\.SaltID$`) {
			ld, ok := c11Strip(s.Common().Args[0]).(*ssa.UnOp)
			if !ok || ld.Op != token.MUL {
				continue
			}
			fa, ok := ld.X.(*ssa.FieldAddr)
			if !ok || structTypeName(fa.X.Type()) != "vault.CubbyholeBackend" {
				continue
			}
			nr++
			if eng.FieldVar(fa) == sf {
				c.OK(f, "token store recomputes the cubbyhole key with saltUUID", s.Pos(), eng.ExprDeep(s.Common().Args[0]))
			} else {
				c.Violation(f, "token store recomputes the cubbyhole key with saltUUID", s.Pos(), "salted with "+eng.ExprDeep(s.Common().Args[0]), nil)
			}
		}
	}
	c.Floor(nil, "cubbyhole keys recomputed by the token store (destroy, tidy)", nr, 2)
}

// ===================== shape-independent helpers (ROBUST.md) =====================

// c12gMCall is a call of a method from within fn: direct (recv is argument 0) or
// through a method value bound in fn (`chk := s.SanityCheck; chk(k)`).
type c12gMCall struct {
	call ssa.CallInstruction
	recv ssa.Value
	args []ssa.Value
}

func c12gMethodCalls(fn *ssa.Function, full string) []c12gMCall {
	var out []c12gMCall
	for _, b := range fn.Blocks {
		for _, in := range b.Instrs {
			ci, ok := in.(ssa.CallInstruction)
			if !ok {
				continue
			}
			cm := ci.Common()
			switch eng.CalleeName(cm) {
			case full:
				if len(cm.Args) > 0 {
					out = append(out, c12gMCall{ci, cm.Args[0], cm.Args[1:]})
				}
			case "closure:" + full + "$bound":
				if mc, ok := cm.Value.(*ssa.MakeClosure); ok && len(mc.Bindings) == 1 {
					out = append(out, c12gMCall{ci, mc.Bindings[0], cm.Args})
				}
			}
		}
	}
	return out
}

// c12gOnlyValue: every origin of v is the value p itself (a parameter read directly or
// through a local cell it was spilled to because a closure captures it).
func c12gOnlyValue(v ssa.Value, p ssa.Value) bool {
	os := eng.Origins(v)
	if len(os) == 0 {
		return false
	}
	for _, o := range os {
		if o.Val != p {
			return false
		}
	}
	return true
}

// c12gFieldOfParam: every origin of v is a load of p.<field>.
func c12gFieldOfParam(v ssa.Value, field string, p *ssa.Parameter) bool {
	os := eng.Origins(v)
	if len(os) == 0 {
		return false
	}
	for _, o := range os {
		ld, base := c14LoadOfField(o.Val, field)
		if ld == nil || base != ssa.Value(p) {
			return false
		}
	}
	return true
}

// c12gNamespaceOfView: pv is Core.NamespaceView(ns) / NamespaceScopedView(storage, ns), called
// directly or through a local closure that only forwards to one of them; returns the
// namespace argument(s) in terms of the enclosing function (a captured variable is
// replaced by the cell the closure was bound to) and the storage argument(s) of
// NamespaceScopedView. ok=false: pv is something the rule cannot follow.
func c12gNamespaceOfView(pv ssa.Value) (nss, storages []ssa.Value, ok bool) {
	cl, isCall := c11Strip(pv).(*ssa.Call)
	if !isCall {
		return nil, nil, false
	}
	direct := func(x *ssa.Call, bind func(ssa.Value) ssa.Value) bool {
		switch eng.CalleeName(&x.Call) {
		case "vault.(*Core).NamespaceView":
			nss = append(nss, bind(x.Call.Args[1]))
			return true
		case "vault.NamespaceScopedView":
			storages = append(storages, bind(x.Call.Args[0]))
			nss = append(nss, bind(x.Call.Args[1]))
			return true
		}
		return false
	}
	if direct(cl, func(v ssa.Value) ssa.Value { return v }) {
		return nss, storages, true
	}
	mc, isMC := cl.Call.Value.(*ssa.MakeClosure)
	if !isMC {
		return nil, nil, false
	}
	g, _ := mc.Fn.(*ssa.Function)
	if g == nil {
		return nil, nil, false
	}
	bind := func(v ssa.Value) ssa.Value {
		// *freevar (captured by reference) -> the bound cell; freevar -> the bound value; parameter -> the call's argument
		if ld, ok := v.(*ssa.UnOp); ok && ld.Op == token.MUL {
			if fv, ok := ld.X.(*ssa.FreeVar); ok {
				for k, x := range g.FreeVars {
					if x == fv && k < len(mc.Bindings) {
						return mc.Bindings[k]
					}
				}
			}
			if fa, ok := ld.X.(*ssa.FieldAddr); ok {
				// field of a captured struct pointer (c.barrier): keep as is, rendered against the closure
				_ = fa
			}
		}
		if fv, ok := v.(*ssa.FreeVar); ok {
			for k, x := range g.FreeVars {
				if x == fv && k < len(mc.Bindings) {
					return mc.Bindings[k]
				}
			}
		}
		if p, ok := v.(*ssa.Parameter); ok {
			for k, x := range g.Params {
				if x == p && k < len(cl.Call.Args) {
					return cl.Call.Args[k]
				}
			}
		}
		return v
	}
	rets := eng.Returns(g)
	if len(rets) == 0 {
		return nil, nil, false
	}
	for _, r := range rets {
		if len(r.Results) != 1 {
			return nil, nil, false
		}
		x, isC := c11Strip(r.Results[0]).(*ssa.Call)
		if !isC || !direct(x, bind) {
			return nil, nil, false
		}
	}
	return nss, storages, true
}

// ---------- C12.4 every storage key of the cubbyhole backend is <request>.ClientToken + "/" + …
// (the call direct, through a method value or inside a closure of the handler; the key built
// in place, hoisted into a local or handed to the closure as a parameter)
func c12gCubbyholeKeys(c *eng.Ctx) {
	c.Clause("R5", "C12.4")
	tokF := c.P.Field("logical.Request.ClientToken")
	if tokF == nil {
		c.Unresolved("logical.Request.ClientToken")
		return
	}
	// the argument(s) a closure's parameter stands for, in the enclosing function
	callerVals := func(v ssa.Value) ([]ssa.Value, bool) {
		p, ok := v.(*ssa.Parameter)
		if !ok || p.Parent() == nil || p.Parent().Parent() == nil {
			return []ssa.Value{v}, true
		}
		g := p.Parent()
		var out []ssa.Value
		for _, ci := range nfAllCalls(g.Parent()) {
			if arg := nfArgFor(ci, p); arg != nil {
				out = append(out, arg)
			}
		}
		return out, len(out) > 0
	}
	site := "cubbyhole storage key prefixed by the client token"
	nCub := 0
	for _, f := range c.P.Funcs {
		if !strings.HasPrefix(eng.FuncName(f), "vault.(*CubbyholeBackend).") {
			continue
		}
		for _, nc := range nfCalls(f, `logical\.\(?Storage\)?>?\.(Get|Put|Delete|List|ListPage)$`) {
			m := nc.Name[strings.LastIndex(nc.Name, ".")+1:]
			a := nc.Args
			k := len(a) - 1
			if m == "ListPage" {
				k = len(a) - 3
			}
			if k < 0 {
				continue
			}
			nCub++
			var keys []ssa.Value
			followed := true
			if m == "Put" {
				entries, ok := callerVals(a[k])
				followed = ok
				for _, e := range entries {
					ks := eng.StructLitField(e, "Key")
					if len(ks) == 0 {
						followed = false
					}
					keys = append(keys, ks...)
				}
			} else {
				keys, followed = callerVals(a[k])
			}
			if !followed || len(keys) == 0 {
				c.Undecided(f, site, nc.In.Pos(), "the key handed to the cubbyhole's storage ("+eng.ExprDeep(a[k])+") is not built where the rule can see it (moved?); the rule cannot be evaluated")
				continue
			}
			for _, key := range keys {
				var ing []ssa.Value
				c12Ingredients(key, &ing, map[ssa.Value]bool{})
				s := eng.ExprDeep(key)
				sep := false
				if len(ing) >= 2 {
					if kc, ok := ing[1].(*ssa.Const); ok && eng.Expr(kc) == `"/"` {
						sep = true
					}
				}
				switch {
				case len(ing) >= 2 && sep && nfIsField(ing[0], nil, tokF):
					c.OK(f, site, nc.In.Pos(), s)
				case len(ing) < 2:
					if _, isCall := key.(*ssa.Call); isCall {
						c.Undecided(f, site, nc.In.Pos(), "the key "+s+" is computed by a function the rule cannot follow; the rule cannot be evaluated")
					} else {
						c.Violation(f, site, nc.In.Pos(), "cubbyhole storage accessed under "+s+", not under req.ClientToken + \"/\": tokens could read each other's cubbyholes", nil)
					}
				default:
					c.Violation(f, site, nc.In.Pos(), "cubbyhole storage accessed under "+s+", not under req.ClientToken + \"/\": tokens could read each other's cubbyholes", nil)
				}
			}
		}
	}
	c.Floor(nil, "cubbyhole storage accesses", nCub, 4)
}

// c12gGateEdges: the edges of f on which a boolean test (a call satisfying isTest) is known to
// have returned `want` — the branch on the call itself, or the nil-error edge of a call of a
// closure / same-package helper whose every success return lies behind such an edge.
func c12gGateEdges(f *ssa.Function, fr *nfFrame, isTest func(nc nfCall, fr *nfFrame) bool, want bool, depth int) []eng.Edge {
	var out []eng.Edge
	for _, ci := range nfAllCalls(f) {
		nc := nfCallOf(ci)
		if isTest(nc, fr) {
			if v := ci.Value(); v != nil {
				out = append(out, eng.BoolEdges(v, want)...)
			}
			continue
		}
		cl, plain := ci.(*ssa.Call)
		if !plain || depth == 0 {
			continue
		}
		g := nfBody(ci, f)
		if g == nil || g == f {
			continue
		}
		idx := nfErrIdx(g)
		if idx < 0 {
			continue
		}
		inner := c12gGateEdges(g, &nfFrame{call: ci, up: fr}, isTest, want, depth-1)
		if len(inner) == 0 {
			continue
		}
		succ := eng.SuccessReturns(g, idx)
		if len(succ) == 0 || eng.Reach(eng.Query{Fn: g, Blocked: inner, Target: eng.IsTarget(succ)}) != nil {
			continue
		}
		out = append(out, eng.CallOKEdges(cl)...)
	}
	return out
}

// ---------- C12.3 inside the callbacks of walks over the mount tree, every comparison of a tree
// key (the callback's first parameter or a part cut from it — keys are namespace-qualified
// absolute paths) with a path is made with a namespace-qualified path: the other operand leads
// with <namespace of the context>.Path at the time the walk runs (a captured variable is read as
// of the walk call)
func c12gWalkCallbackComparisons(c *eng.Ctx) {
	root := c.P.Field("routing.Router.root")
	if root == nil {
		c.Clause("R5", "C12.3")
		c.Unresolved("routing.Router.root")
		return
	}
	c.Clause("R5", "C12.3")
	site := "tree key compared with a namespace-qualified path"
	n := 0
	for _, f := range c.P.Funcs {
		if !eng.InPkg(f, "routing") {
			continue
		}
		for _, wk := range eng.Calls(f, `go-radix\.Tree\)\.(WalkPrefix|WalkPath|Walk)$`) {
			a := wk.Common().Args
			ld, ok := a[0].(*ssa.UnOp)
			if !ok || ld.Op != token.MUL {
				continue
			}
			if fa, ok := ld.X.(*ssa.FieldAddr); !ok || eng.FieldVar(fa) != root {
				continue
			}
			g, _ := nfFuncValue(a[len(a)-1])
			if g == nil || len(g.Params) == 0 || len(g.Blocks) == 0 {
				continue
			}
			key := g.Params[0]
			// v is the tree key or a part cut from it
			var fromKey func(v ssa.Value, d int) bool
			fromKey = func(v ssa.Value, d int) bool {
				if d > 5 || v == nil {
					return false
				}
				switch x := v.(type) {
				case *ssa.Parameter:
					return x == key
				case *ssa.Slice:
					return fromKey(x.X, d+1)
				case *ssa.Extract:
					if cl, ok := x.Tuple.(*ssa.Call); ok && x.Index == 0 && strings.HasPrefix(eng.CalleeName(&cl.Call), "strings.Cut") {
						return fromKey(cl.Call.Args[0], d+1)
					}
				case *ssa.Call:
					if strings.HasPrefix(eng.CalleeName(&x.Call), "strings.Trim") && len(x.Call.Args) > 0 {
						return fromKey(x.Call.Args[0], d+1)
					}
				case *ssa.Phi:
					for _, e := range x.Edges {
						if !fromKey(e, d+1) {
							return false
						}
					}
					return len(x.Edges) > 0
				}
				return false
			}
			// the captured variable a *freevar load reads, as of the walk call
			cellVals := func(v ssa.Value) ([]ssa.Value, bool) {
				l, ok := v.(*ssa.UnOp)
				if !ok || l.Op != token.MUL {
					return nil, false
				}
				fv, ok := l.X.(*ssa.FreeVar)
				if !ok {
					return nil, false
				}
				cell := nfCellOf(fv)
				if cell == nil || cell.Parent() != f {
					return nil, false
				}
				vals, _ := eng.ReachingStores(cell, wk)
				var out []ssa.Value
				for _, x := range vals {
					if x == nil {
						return nil, false
					}
					out = append(out, x)
				}
				return out, len(out) > 0
			}
			var qualified func(v ssa.Value, d int) (bool, string)
			qualified = func(v ssa.Value, d int) (bool, string) {
				leaves := c12gLeading(v)
				if len(leaves) == 0 || d > 4 {
					return false, eng.Expr(v)
				}
				for _, l := range leaves {
					if c12IsCtxNamespacePath(c, l) {
						continue
					}
					if vals, ok := cellVals(l); ok {
						for _, x := range vals {
							if ok, why := qualified(x, d+1); !ok {
								return false, why
							}
						}
						continue
					}
					// <captured namespace>.Path
					if pl, base := c14LoadOfField(l, "Path"); pl != nil && structTypeName(base.Type()) == "namespace.Namespace" {
						if vals, ok := cellVals(base); ok {
							all := true
							for _, x := range vals {
								if !c12gIsCtxNamespace(x) {
									all = false
								}
							}
							if all {
								continue
							}
						}
					}
					return false, eng.Expr(l)
				}
				return true, ""
			}
			check := func(at ssa.Instruction, x, y ssa.Value) {
				var other ssa.Value
				switch {
				case fromKey(x, 0) && !fromKey(y, 0):
					other = y
				case fromKey(y, 0) && !fromKey(x, 0):
					other = x
				default:
					return
				}
				if _, isConst := other.(*ssa.Const); isConst {
					return // fixed suffix/sentinel tests of the key itself
				}
				n++
				if ok, why := qualified(other, 0); ok {
					c.OK(g, site, at.Pos(), eng.ExprDeep(other))
				} else {
					c.Violation(g, site, at.Pos(), "a key of the mount tree (namespace-qualified) is compared with "+eng.ExprDeep(other)+", which does not lead with the Path of the context's namespace (leading operand "+why+"): inside a namespace the comparison is made between an absolute and a relative path and never / wrongly matches", nil)
				}
			}
			for _, b := range g.Blocks {
				for _, in := range b.Instrs {
					switch x := in.(type) {
					case *ssa.Call:
						switch eng.CalleeName(&x.Call) {
						case "strings.HasPrefix", "strings.HasSuffix", "strings.CutPrefix", "strings.Contains", "strings.EqualFold":
							if len(x.Call.Args) == 2 {
								check(x, x.Call.Args[0], x.Call.Args[1])
							}
						}
					case *ssa.BinOp:
						if x.Op == token.EQL || x.Op == token.NEQ {
							if bt, ok := x.X.Type().Underlying().(*types.Basic); ok && bt.Info()&types.IsString != 0 {
								check(x, x.X, x.Y)
							}
						}
					}
				}
			}
		}
	}
	c.Floor(nil, "comparisons of mount-tree keys with paths inside walk callbacks", n, 3)
}

// ---------- C12.5/C12.1 leases are read and written in the namespace of the request: every
// ExpirationManager.leaseView(ns) in a function that takes a context uses the namespace of that
// context (namespace.FromContext) or the namespace recorded in the lease entry it persists /
// deletes; a namespace parsed out of the lease ID (client input of sys/leases/renew|revoke|…)
// is not a source. leaseEntry.namespace itself is written only by the tabled functions, and by
// loadEntryInternal only with the context's namespace
func c12gLeaseNamespace(c *eng.Ctx) {
	lv := mustStatic(c, "vault.(*ExpirationManager).leaseView")
	nsF := c.P.Field("vault.leaseEntry.namespace")
	if nsF == nil {
		c.Clause("R5", "C12.5")
		c.Unresolved("vault.leaseEntry.namespace")
		return
	}
	noCtx := map[string]string{
		"vault.(*ExpirationManager).collectNamespaceLeases": "restore: called per namespace of the namespace store's own listing, no request involved",
	}
	c.Clause("R5", "C12.5")
	n := 0
	for _, s := range c.P.FindCalls(lv, nil) {
		top := eng.TopFunc(s.Fn)
		if strings.Contains(eng.FuncName(top), "esting") {
			continue
		}
		n++
		arg := s.Call.Common().Args[1]
		site := "namespace a lease view is opened in"
		hasCtx := false
		for _, p := range top.Params {
			if types.TypeString(p.Type(), nil) == "context.Context" {
				hasCtx = true
			}
		}
		if !hasCtx {
			if why, ok := noCtx[eng.FuncName(top)]; ok {
				if _, isParam := arg.(*ssa.Parameter); isParam {
					c.OK(s.Fn, site, s.Call.Pos(), "tabled: "+why)
					continue
				}
			}
			c.Violation(s.Fn, site, s.Call.Pos(), "leaseView is opened by a function that has no request context and is not tabled: "+eng.ExprDeep(arg), nil)
			continue
		}
		fromEntry := false
		if ld, base := c14LoadOfField(arg, "namespace"); ld != nil {
			if fa, ok := ld.X.(*ssa.FieldAddr); ok && eng.FieldVar(fa) == nsF {
				_, fromEntry = base.(*ssa.Parameter) // the entry the function was asked to persist / delete
			}
		}
		switch {
		case c12gIsCtxNamespace(arg):
			c.OK(s.Fn, site, s.Call.Pos(), "namespace.FromContext of the function's context")
		case fromEntry:
			c.OK(s.Fn, site, s.Call.Pos(), "namespace recorded in the lease entry handed in")
		default:
			c.Violation(s.Fn, site, s.Call.Pos(), "the lease view is opened in "+eng.ExprDeep(arg)+", which is neither the namespace of the request context nor the one recorded in the entry being written: a lease ID naming another namespace would be read / revoked from inside this one", nil)
		}
	}
	c.Floor(nil, "ExpirationManager.leaseView calls", n, 6)
	// writers of leaseEntry.namespace
	c.Clause("R6", "C12.5")
	writers := map[string]string{
		"vault.(*ExpirationManager).loadEntryInternal":                   "ctx",
		"vault.(*ExpirationManager).Register":                            "",
		"vault.(*ExpirationManager).RegisterAuth":                        "",
		"vault.(*ExpirationManager).CreateOrFetchRevocationLeaseByToken": "",
		"vault.(*ExpirationManager).Renew":                               "",
		"vault.(*ExpirationManager).RenewToken":                          "",
		"vault.(*ExpirationManager).processRestore":                      "",
		"vault.(*ExpirationManager).Restore":                             "",
		"vault.(*ExpirationManager).inMemoryLeaseInfo":                   "",
		"vault.(*ExpirationManager).leaseInfoForExport":                  "", // copy of the entry's own namespace
		"vault.(*Core).AddIrrevocableLease":                              "", // test utility (expiration_testing_util_common.go)
	}
	nw := 0
	for _, w := range c.P.FieldWriters(nsF) {
		top := eng.FuncName(eng.TopFunc(w.Fn))
		if strings.Contains(top, "esting") {
			continue
		}
		nw++
		how, ok := writers[top]
		if !ok {
			c.Violation(w.Fn, "writer{leaseEntry.namespace}", w.Store.Pos(), "the namespace recorded in a lease entry is set outside the tabled functions: "+eng.InstrStr(w.Store), nil)
			continue
		}
		c.OK(w.Fn, "writer{leaseEntry.namespace}", w.Store.Pos(), "tabled writer")
		if how == "ctx" {
			c.Clause("R5", "C12.5")
			if c12gIsCtxNamespace(w.Store.Val) {
				c.OK(w.Fn, "loaded lease entry carries the request namespace", w.Store.Pos(), "namespace.FromContext of the loader's context")
			} else {
				c.Violation(w.Fn, "loaded lease entry carries the request namespace", w.Store.Pos(), "a lease entry loaded for a request is stamped with "+eng.ExprDeep(w.Store.Val)+" instead of the namespace of the request context: persist / delete / revoke of that entry would act in another namespace", nil)
			}
			c.Clause("R6", "C12.5")
		}
	}
	c.Floor(nil, "writers of leaseEntry.namespace", nw, 3)
}
