package props

import (
	"regexp"
	"strings"

	"golang.org/x/tools/go/ssa"

	"obsa/eng"
)

func init() {
	register(&Prop{
		ID: "C19",
		Explanation: "Structural necessary conditions of 'a use-limited token authorises at most n uses', decided on every CFG path of the anchored functions: " +
			"(1) TokenStore.UseToken takes the per-token lock keyed by the token ID before it re-reads the entry, decrements the re-read entry (not the caller's copy) and stores it while the lock is held; " +
			"(2) in Core.handleRequest the backend dispatch and every non-forwarding return after CheckToken are unreachable unless UseToken's success edge (or the no-token-entry edge) was crossed, i.e. the use is counted before the authorisation verdict is acted on, and a nil entry from UseToken leads to permission denied; " +
			"(3) the last use (NumUses == tokenRevocationPending) arms the deferred closure that lazily revokes the token's lease and replaces a leased response by an error; " +
			"(4) token creation is unreachable for a parent with NumUses > 0; (4b) the parent tested by that guard (and by storeCommon's parent check) is the live entry from the untainted Lookup — or the guard refuses on NumUses != 0 — and only tabled revocation/tidy/wrapping/display paths call the tainted lookups; " +
			"(2c) once the entry was fetched, every return of CheckToken(unauth=false) hands it back, so denied and failed requests are counted; (2d) after CheckToken, handleRequest returns before the use is counted only on the relative-path and forward-to-active refusals; " +
			"(7) sys/seal and sys/step-down count the use before the policy verdict and before acting, refuse a nil entry, test the last use on UseToken's result and revoke the token's lease before acting; " +
			"(1b) UseTokenByID returns nothing but UseToken's results with a nil-capable error; (1c) UseToken hands the caller's entry back undecremented only for NumUses == 0; (1d) the control-group authorisation rewrites a token entry only from a re-read made under the per-token lock keyed by that token; (1f) storeCommon salts entry.ID in a context switched to the namespace resolved from entry.NamespaceID and puts the entry into idView of that same namespace, and lookupInternal salts the id in the namespace whose id view it reads (writer and reader agree on the key); (1e) every token entry stored while a per-token lock is held (UseToken, control groups, orphaning of children, tidy) comes from a lookupInternal executed under that lock; " +
			"(8) a login token's entry carries auth.NumUses on every path to its creation, and the on-read upgrade clears a legacy entry's deprecated use limit only after copying it when the new field is unset or larger.",
		NotDecided: "the count bound under interleavings (needs the lock to be the only writer plus a schedule argument); that revocation of the lease actually completes.",
		Run:        runC19,
	})
}

func runC19(c *eng.Ctx, thorough bool) {
	// ---- C19.1 locked read-modify-write in UseToken (shared with C18.4)
	useTokenAtomic(c, "C19.1")

	// ---- C19.2 counted before the verdict is acted on
	if f := c.Fn("vault.(*Core).handleRequest"); f != nil {
		c.Clause("R2", "C19.2")
		dispatch := c02MaySinks(f, `vault\.\(\*Core\)\.doRoutingIfApproved$`)
		useSites := c19Sites(f, useTokenPat)
		use := c19OK(useTokenPat, useSites)
		noEntry := eng.G(f, `^te == nil$`, true)
		g := eng.Or(eng.Guard{Desc: use.Desc, Edges: use.Edges}, noEntry)
		c.Cut(f, "backend dispatch (doRoutingIfApproved)", dispatch, g, nil)
		// every return reachable after the ctErr test (i.e. acting on the verdict) is behind the use as well
		var verdictIfs []ssa.Instruction
		for _, e := range eng.CondEdges(f, `^vault\.\(\*Core\)\.CheckToken\(\)#4 == nil$`, true) {
			verdictIfs = append(verdictIfs, e.From.Instrs[len(e.From.Instrs)-1])
		}
		c.Cut(f, "branch on the CheckToken verdict (ctErr != nil)", verdictIfs, g, nil)
		// nil entry from UseToken => return without dispatch
		c.Clause("R4", "C19.2")
		for _, u := range c19Calls(useSites) {
			fail := eng.CallFailEdges(u)
			if h := eng.Reach(eng.Query{Fn: f, StartEdges: fail, Target: eng.IsTarget(dispatch)}); h != nil {
				c.Violation(f, "on{UseToken failure} no dispatch", h.Instr.Pos(), "dispatch reachable after UseToken failed", h.Witness)
			} else {
				c.OK(f, "on{UseToken failure} no dispatch", u.Pos(), "dispatch unreachable from UseToken's failure edge")
			}
		}
		// ---- C19.3 last use arms the deferred revocation
		c.Clause("R2", "C19.3")
		var defers []ssa.Instruction
		var clo *ssa.Function
		for _, d := range eng.DeferredClosures(f) {
			if len(eng.Calls(d, `vault\.\(\*ExpirationManager\)\.LazyRevoke$`)) > 0 {
				clo = d
			}
		}
		for _, in := range eng.Instrs(f, func(in ssa.Instruction) bool {
			d, ok := in.(*ssa.Defer)
			if !ok {
				return false
			}
			mc, ok := d.Call.Value.(*ssa.MakeClosure)
			return ok && mc.Fn == clo
		}) {
			defers = append(defers, in)
		}
		if clo == nil {
			c.Violation(f, "deferred last-use revocation", f.Pos(), "no deferred closure calling ExpirationManager.LazyRevoke exists in handleRequest: the last use of a use-limited token no longer revokes it", nil)
		} else {
			// On the path where te.NumUses == pending, dispatch is reachable only through the defer.
			pend := eng.CondEdges(f, `^te\.NumUses == -1$`, true)
			if len(pend) == 0 {
				c.Violation(f, "last-use test", f.Pos(), "no branch tests te.NumUses == tokenRevocationPending after UseToken", nil)
			} else if h := eng.Reach(eng.Query{Fn: f, StartEdges: pend, Barriers: defers, Target: eng.IsTarget(dispatch)}); h != nil {
				c.Violation(f, "on{last use} defer before dispatch", h.Instr.Pos(), "dispatch reachable on the last-use edge without arming the deferred revocation", h.Witness)
			} else {
				c.OK(f, "on{last use} defer before dispatch", defers[0].Pos(), "on the NumUses == tokenRevocationPending edge the deferred revocation closure is armed before any dispatch")
			}
			// the last-use test itself must be evaluated whenever UseToken succeeded with an entry
			var pendIf []ssa.Instruction
			for _, e := range pend {
				pendIf = append(pendIf, e.From.Instrs[len(e.From.Instrs)-1])
			}
			if h := eng.Reach(eng.Query{Fn: f, StartEdges: use.Edges, Barriers: pendIf, Blocked: eng.CondEdges(f, `^te == nil$`, true), Target: eng.IsTarget(dispatch)}); h != nil {
				c.Violation(f, "last-use test on every counted path", h.Instr.Pos(), "dispatch reachable after a successful UseToken without testing for the last use", h.Witness)
			} else {
				c.OK(f, "last-use test on every counted path", pendIf[0].Pos(), "every path from UseToken success with an entry to the dispatch evaluates te.NumUses == tokenRevocationPending")
			}
			// inside the closure
			c.Clause("R4", "C19.3")
			mk := eng.Calls(clo, `vault\.\(\*ExpirationManager\)\.CreateOrFetchRevocationLeaseByToken$`)
			lz := eng.Calls(clo, `vault\.\(\*ExpirationManager\)\.LazyRevoke$`)
			c.Before(clo, "CreateOrFetchRevocationLeaseByToken", eng.AsInstrs(mk), "LazyRevoke", eng.AsInstrs(lz))
			// the leased-response replacement: store to retResp of ErrorResponse guarded by LeaseID != ""
			repl := eng.Instrs(clo, func(in ssa.Instruction) bool {
				st, ok := in.(*ssa.Store)
				if !ok {
					return false
				}
				ok2, _, _ := eng.OriginsMatch(st.Val, `^call:logical\.ErrorResponse$`)
				return ok2 && eng.Expr(st.Addr) == "^retResp"
			})
			if len(repl) == 0 {
				c.Violation(clo, "leased response replaced", clo.Pos(), "the deferred closure no longer replaces a leased response by an error response", nil)
			} else {
				// every exit of the closure with retResp.Secret.LeaseID != "" passes the replacement:
				// returns reachable from the LeaseID != "" edge must pass repl
				e := eng.CondEdges(clo, `\.Secret\.LeaseID == ""$`, false)
				c.CleanupOnEdges(clo, "retResp.Secret.LeaseID != \"\"", e, "retResp = ErrorResponse(...)", repl)
			}
			// failure of the revocation nils the response
			for _, l := range lz {
				_ = l
			}
			errNil := eng.Instrs(clo, func(in ssa.Instruction) bool {
				st, ok := in.(*ssa.Store)
				return ok && eng.Expr(st.Addr) == "^retResp" && eng.IsNilConst(st.Val)
			})
			fe := eng.CondEdges(clo, `^φerr\{.*\} == nil$`, false)
			c.CleanupOnEdges(clo, "lease creation or LazyRevoke failed", fe, "retResp = nil", errNil)
		}
	}

	// ---- C19.5 the tombstone is honoured by readers: an exhausted token (NumUses < 0) is not looked up again
	tokenLiveness(c, "C19.5")

	// ---- C19.2b the verdict and the last-use test look at UseToken's result, not at the copy made before it
	if f := c.Fn("vault.(*Core).handleRequest"); f != nil {
		c.Clause("R5", "C19.2")
		uses := c19Calls(c19Sites(f, useTokenPat))
		isUse := map[ssa.Value]bool{}
		for _, u := range uses {
			if v, ok := u.(ssa.Value); ok {
				isUse[v] = true
			}
		}
		n := 0
		for _, pat := range []string{`^te == nil$`, `^te\.NumUses == -1$`} {
			for _, e := range append(eng.CondEdges(f, pat, true), eng.CondEdges(f, pat, false)...) {
				iff := eng.IfOf(e.From)
				if iff == nil {
					continue
				}
				// only tests after the UseToken call
				after := false
				for _, u := range uses {
					if eng.Reach(eng.Query{Fn: f, StartAfter: u, Target: func(in ssa.Instruction) bool { return in == ssa.Instruction(iff) }}) != nil {
						after = true
					}
				}
				if !after || e.Succ != 0 {
					continue
				}
				// the alloc of the captured variable te and what may have been stored into it at this point
				var te *ssa.Alloc
				var find func(v ssa.Value, d int)
				find = func(v ssa.Value, d int) {
					if v == nil || d > 6 || te != nil {
						return
					}
					switch x := v.(type) {
					case *ssa.Alloc:
						if eng.VarName(x) == "te" {
							te = x
						}
					case ssa.Instruction:
						for _, op := range x.Operands(nil) {
							if *op != nil {
								find(*op, d+1)
							}
						}
					}
				}
				find(iff.Cond, 0)
				site := "test [" + pat + "] reads UseToken's result"
				if te == nil {
					c.Undecided(f, site, iff.Cond.Pos(), "the token entry variable of the test was not found")
					continue
				}
				vals, escaped := eng.ReachingStores(te, iff)
				ok := len(vals) > 0
				var from []string
				for _, v := range vals {
					from = append(from, eng.Expr(v))
					ex, isEx := v.(*ssa.Extract)
					if !isEx || ex.Index != 0 {
						ok = false
						continue
					}
					cl, isCall := ex.Tuple.(*ssa.Call)
					if !isCall || !isUse[cl] {
						ok = false
					}
				}
				_ = escaped
				n++
				if ok {
					c.OK(f, site, iff.Cond.Pos(), "te = "+strings.Join(from, " | "))
				} else {
					c.Violation(f, site, iff.Cond.Pos(), "after UseToken the test still reads "+strings.Join(from, " | ")+": the entry copied before the decrement (the last use and a concurrent revocation go unnoticed)", nil)
				}
			}
		}
		c.Floor(f, "tests of the used token entry", n, 2)
	}

	// ---- C19.3b the revocation is issued whenever the lease could be created
	if clo := c.P.Func("vault.(*Core).handleRequest$1"); clo != nil {
		mk := eng.Calls(clo, `vault\.\(\*ExpirationManager\)\.CreateOrFetchRevocationLeaseByToken$`)
		lz := eng.Calls(clo, `vault\.\(\*ExpirationManager\)\.LazyRevoke$`)
		if len(mk) > 0 && len(lz) > 0 {
			c.Clause("R4", "C19.3")
			for _, m := range mk {
				c.CleanupOnEdges(clo, "revocation lease created", eng.CallOKEdgesDirect(m), "LazyRevoke", eng.AsInstrs(lz))
			}
			c.Clause("R5", "C19.3")
			for _, l := range lz {
				a := l.Common().Args
				c.Prov(clo, "lease revoked on the last use", l, a[len(a)-1], `^call:vault\.\(\*ExpirationManager\)\.CreateOrFetchRevocationLeaseByToken#0$`)
			}
		}
	}

	// ---- C19.6 a standby never serves a use-limited token locally (it cannot persist the decrement)
	if f := c.Fn("vault.(*Core).handleCancelableRequest"); f != nil {
		c.Clause("R2", "C19.6")
		var sinks []ssa.Instruction
		sinks = append(sinks, c02MaySinks(f, `vault\.\(\*Core\)\.(handleRequest|handleLoginRequest)$`)...)
		if c.Floor(f, "request handlers called", len(sinks), 2) {
			g := eng.Or(eng.G(f, `^0 < req\.ClientTokenRemainingUses$`, false), eng.GD(f, `^\(\*sync/atomic\.Bool\)\.Load\(c\.standby\)$`, false))
			c.Cut(f, "request handled locally", sinks, g, nil)
		}
		// what the test looks at is the token's use count
		c.Clause("R6", "C19.6")
		if fv := c.P.Field("logical.Request.ClientTokenRemainingUses"); fv == nil {
			c.Unresolved("logical.Request.ClientTokenRemainingUses")
		} else {
			nw := 0
			for _, w := range c.P.FieldWriters(fv) {
				if !eng.InPkg(w.Fn, "vault") {
					continue // the router zeroes and restores it around the backend call (C12/C11 do not depend on it)
				}
				nw++
				s := eng.Expr(w.Store.Val)
				if strings.HasSuffix(s, ".NumUses") {
					c.OK(w.Fn, "writer{Request.ClientTokenRemainingUses}", w.Store.Pos(), s)
				} else {
					c.Violation(w.Fn, "writer{Request.ClientTokenRemainingUses}", w.Store.Pos(), "ClientTokenRemainingUses is set to "+s+", not to the token entry's NumUses", nil)
				}
			}
			c.Floor(nil, "writers of ClientTokenRemainingUses in package vault", nw, 2)
		}
	}

	// ---- C19.4 no children for a use-limited parent
	if f := c.Fn("vault.(*TokenStore).handleCreateCommon"); f != nil {
		c.Clause("R2", "C19.4")
		create := c02MaySinks(f, `vault\.\(\*TokenStore\)\.create$`)
		c.Cut(f, "ts.create", create, eng.G(f, `^0 < .*\.NumUses$`, false), nil)
	}

	// ---- standby forwarding of limited-use tokens is decided in C02/C18 notes (not claimed here)

	// ---- R6: writers of TokenEntry.NumUses (listed for review; the lock is only meaningful if these are the writers)
	c.Clause("R6", "C19.1")
	if fv := c.P.Field("logical.TokenEntry.NumUses"); fv == nil {
		c.Unresolved("logical.TokenEntry.NumUses")
	} else {
		allowed := map[string]string{
			"vault.(*TokenStore).UseToken":           "locked decrement (C19.1)",
			"vault.(*TokenStore).revokeInternal":     "revocation marker, under the per-token lock",
			"vault.(*TokenStore).handleCreateCommon": "initial value from the request, before the entry is stored",
			"vault.(*Core).wrapInCubbyhole":          "literal NumUses: 1 of a fresh wrapping token",
			"vault.(*TokenStore).rootToken":          "fresh root token literal",
			"vault.(*Core).RegisterAuth":             "fresh login token literal, NumUses copied from the auth block before the entry is stored",
			"vault.(*TokenStore).lookupInternal":     "on-read migration of the deprecated num_uses field into the entry just decoded (local copy, before it is returned)",
		}
		if ut := c.P.Func("vault.(*TokenStore).UseToken"); ut != nil {
			if b := useTokenBody(c, ut); b != nil {
				if b != ut {
					allowed[eng.FuncName(b)] = "locked body of UseToken: only entered with a token lock held (C19.1)"
				}
				if len(c19Sites(b, tokenStorePat)) == 0 {
					if tl, _, _ := useTokenTail(c, b); tl != nil {
						allowed[eng.FuncName(tl)] = "decrement-and-store tail of UseToken: only entered with a token lock held, on the re-read entry (C19.1)"
					}
				}
			}
		}
		for _, w := range c.P.FieldWriters(fv) {
			if !eng.InPkg(w.Fn, "vault") && !eng.InPkg(w.Fn, "logical") {
				continue
			}
			n := eng.FuncName(eng.TopFunc(w.Fn))
			if r, ok := allowed[n]; ok {
				c.OK(eng.TopFunc(w.Fn), "writer{TokenEntry.NumUses}", w.Store.Pos(), "tabled writer: "+r)
			} else {
				c.Violation(eng.TopFunc(w.Fn), "writer{TokenEntry.NumUses}", w.Store.Pos(), "store to TokenEntry.NumUses outside the reviewed writer table: "+eng.InstrStr(w.Store), nil)
			}
		}
	}

	runC19Gaps2(c)
}

// ---------------------------------------------------------------------------
// helpers that select sites by what they are rather than how they are written

const useTokenPat = `vault\.\(\*TokenStore\)\.UseToken$`
const tokenStorePat = `vault\.\(\*TokenStore\)\.store$`
const tokenLookupPat = `vault\.\(\*TokenStore\)\.lookupInternal$`

// c19Site: a call of `target` located in f — the direct call, a call through a
// bound method value, or the call of a closure of the same top-level function
// (forwarding closure, immediately invoked closure, function variable) that
// performs the target call on every path and hands its verdict back. Built on
// the resolved sites of props/c04follow.go (nfMust); a same-package helper is
// NOT followed here (the rules that allow a helper say so: useTokenBody/-Tail).
type c19Site struct {
	At   ssa.CallInstruction
	site nfSite
}

// Arg: argument i of the target call behind the site, with the call chain
// needed to continue its provenance through closure parameters (nfOrigins).
func (s c19Site) Arg(i int) (ssa.Value, *nfFrame) {
	if len(s.site.Effs) != 1 || i >= len(s.site.Effs[0].Call.Args) {
		return nil, nil
	}
	return s.site.Effs[0].Call.Args[i], s.site.Effs[0].Fr
}

func c19Sites(f *ssa.Function, target string) []c19Site {
	var out []c19Site
	for _, st := range nfPlain(nfMust(f, nil, nfNamed(target), 2)) {
		ci := st.At.(ssa.CallInstruction)
		direct := len(st.Effs) == 1 && st.Effs[0].Call.In == ci
		if !direct {
			b := nfBody(ci, f)
			if b == nil || b.Parent() == nil || !st.Fwd {
				continue
			}
		}
		out = append(out, c19Site{ci, st})
	}
	return out
}

func c19Calls(ss []c19Site) []ssa.CallInstruction {
	var out []ssa.CallInstruction
	for _, s := range ss {
		out = append(out, s.At)
	}
	return out
}

// c19OK: the guard "one of the sites ran and succeeded" (eng.GCallOK over resolved sites, same key).
func c19OK(target string, ss []c19Site) eng.Guard {
	g := eng.Guard{Desc: "success edge of " + target}
	for _, s := range ss {
		g.Edges = append(g.Edges, eng.CallOKEdges(s.At)...)
		g.Pass = append(g.Pass, s.At)
	}
	return g
}

// tokenLockCall classifies Lock/Unlock/… calls on a lock that was obtained from
// locksutil.LockForKey(<…>.tokenLocks, key) — however the lock value is held
// (SSA value, or a local cell because a closure captures it).
func tokenLockCall(methods ...string) func(c ssa.CallInstruction) bool {
	ms := map[string]bool{}
	for _, m := range methods {
		ms[m] = true
	}
	return func(ci ssa.CallInstruction) bool {
		return tokenLockKey(ci, ms) != nil
	}
}

// tokenLockKey returns the key operand of the LockForKey call behind a token
// lock operation, nil if ci is not one.
func tokenLockKey(ci ssa.CallInstruction, ms map[string]bool) ssa.Value {
	cc := ci.Common()
	callee := cc.StaticCallee()
	if cc.IsInvoke() || callee == nil || callee.Signature.Recv() == nil || len(cc.Args) == 0 || !ms[callee.Name()] {
		return nil
	}
	recv := cc.Args[0]
	for {
		if fa, ok := recv.(*ssa.FieldAddr); ok {
			recv = fa.X
			continue
		}
		break
	}
	var key ssa.Value
	for _, o := range eng.Origins(recv) {
		lk, ok := o.Val.(*ssa.Call)
		if !ok || !strings.Contains(eng.CalleeName(&lk.Call), "locksutil.LockForKey") || len(lk.Call.Args) < 2 || !strings.HasSuffix(eng.Expr(lk.Call.Args[0]), ".tokenLocks") {
			return nil
		}
		key = lk.Call.Args[1]
	}
	return key
}

// heldByEveryCaller: fn takes no token lock itself and every static call of it
// in the program executes with a token lock held (a "…Locked" body helper).
func heldByEveryCaller(c *eng.Ctx, fn *ssa.Function) bool {
	if fn == nil || fn.Parent() != nil {
		return false
	}
	n := 0
	for _, caller := range c.P.Funcs {
		if caller.Pkg != fn.Pkg || len(caller.Blocks) == 0 {
			continue
		}
		var held eng.HeldFunc
		for _, b := range caller.Blocks {
			for _, in := range b.Instrs {
				ci, ok := in.(ssa.CallInstruction)
				if !ok || ci.Common().StaticCallee() != fn {
					continue
				}
				if held == nil {
					held = eng.MustHold(caller, tokenLockCall("Lock"), tokenLockCall("Unlock"))
				}
				n++
				if !held(ci) {
					return false
				}
			}
		}
	}
	return n > 0
}

// useTokenBody: the function that holds UseToken's locked read-modify-write:
// UseToken itself, or — when the locked statements were moved out — the one
// function of the package that UseToken calls with the lock held, that carries
// the re-read, and that only runs under a token lock.
func useTokenBody(c *eng.Ctx, f *ssa.Function) *ssa.Function {
	if len(eng.Calls(f, tokenLookupPat)) > 0 {
		return f
	}
	var cand []*ssa.Function
	seen := map[*ssa.Function]bool{}
	for _, cl := range eng.Calls(f, `.`) {
		h := cl.Common().StaticCallee()
		if h == nil || seen[h] || h.Pkg != f.Pkg || len(h.Blocks) == 0 || h.Parent() != nil {
			continue
		}
		seen[h] = true
		if len(eng.Calls(h, tokenLookupPat)) > 0 && heldByEveryCaller(c, h) {
			cand = append(cand, h)
		}
	}
	if len(cand) == 1 {
		return cand[0]
	}
	return nil
}

// useTokenAtomic: the use count is decremented by a locked read-modify-write.
// Evaluated for C19.1 and, because the single use of a wrapping token is the
// same counter, for C18.4.
func useTokenAtomic(c *eng.Ctx, clause string) {
	f := c.Fn("vault.(*TokenStore).UseToken")
	if f == nil {
		return
	}
	c.Clause("R9", clause)
	held := eng.MustHold(f, tokenLockCall("Lock"), tokenLockCall("Unlock"))
	body := useTokenBody(c, f)
	if body == nil {
		c.Undecided(f, "locked{re-read, decrement, store}", f.Pos(), "UseToken neither re-reads the entry itself nor calls exactly one function of its package that does and that only runs under a token lock (moved? the rule cannot be evaluated)")
		return
	}
	reread := eng.Calls(body, tokenLookupPat)
	c.Floor(body, "re-read (lookupInternal)", len(reread), 1)
	if body != f {
		// the body helper is entered with the lock held (heldByEveryCaller); UseToken's own call is one of those
		for _, cl := range eng.Calls(f, "^"+regexp.QuoteMeta(eng.FuncName(body))+"$") {
			if held(cl) {
				c.OK(f, "locked{"+eng.FuncName(body)+"}", cl.Pos(), "the locked body is called with the per-token lock held; all its callers hold a token lock")
			} else {
				c.Violation(f, "locked{"+eng.FuncName(body)+"}", cl.Pos(), "the locked body is reachable without holding the per-token lock", nil)
			}
		}
	}
	lockedSite := func(fn *ssa.Function, in ssa.CallInstruction) {
		name := eng.CalleeName(in.Common())
		if strings.HasPrefix(name, "closure:") {
			name = "vault.(*TokenStore).store"
		}
		site := "locked{" + name + "}"
		switch {
		case fn != f:
			c.OK(fn, site, in.Pos(), "executes in the locked body "+eng.FuncName(fn)+", which is only entered with a token lock held")
		case held(in):
			c.OK(f, site, in.Pos(), "executes with the per-token lock (LockForKey(ts.tokenLocks, te.ID)) held on every path")
		default:
			c.Violation(f, site, in.Pos(), "reachable without holding LockForKey(ts.tokenLocks, te.ID).Lock()", nil)
		}
	}
	for _, in := range reread {
		lockedSite(body, in)
	}
	// the lock is keyed by the id of the token that is used
	c.Clause("R5", clause)
	nk := 0
	for _, b := range f.Blocks {
		for _, in := range b.Instrs {
			ci, ok := in.(ssa.CallInstruction)
			if !ok {
				continue
			}
			if _, isDefer := in.(*ssa.Defer); isDefer {
				continue
			}
			if key := tokenLockKey(ci, map[string]bool{"Lock": true}); key != nil {
				nk++
				c.Prov(f, "key of the per-token lock", ci, key, `^field:te\.ID$`)
			}
		}
	}
	c.Floor(f, "per-token Lock()", nk, 1)

	// where the tail (decrement / marker, store) lives: in the body itself, or — when only the tail was
	// moved out — in the unique function of the package that the body calls under the lock with the
	// re-read entry and whose results it returns
	const reReadEntry = `^call:vault\.\(\*TokenStore\)\.lookupInternal#0$`
	tail, entryPat, onePat, entryIsParam := body, reReadEntry, `lookupInternal\(\)#0\.NumUses == 1$`, false
	if len(c19Sites(body, tokenStorePat)) == 0 {
		tl, call, idx := useTokenTail(c, body)
		if tl == nil {
			c.Clause("R9", clause)
			c.Undecided(body, "locked{decrement, store}", body.Pos(), "the body re-reads the entry but neither stores it nor hands it to exactly one function of its package that decrements and stores it and only runs under a token lock (moved? the rule cannot be evaluated)")
			return
		}
		c.Clause("R9", clause)
		if body != f || held(call) {
			c.OK(body, "locked{"+eng.FuncName(tl)+"}", call.Pos(), "the decrement-and-store tail is called with the per-token lock held; all its callers hold a token lock")
		} else {
			c.Violation(body, "locked{"+eng.FuncName(tl)+"}", call.Pos(), "the decrement-and-store tail is reachable without holding the per-token lock", nil)
		}
		c.Clause("R3", clause)
		c.Before(body, "re-read under lock", eng.AsInstrs(reread), "decrement-and-store tail", []ssa.Instruction{call})
		c.Clause("R5", clause)
		c.Prov(body, "entry handed to the decrement-and-store tail", call, call.Common().Args[idx], reReadEntry)
		// what the tail returns is what the body returns
		okRet := true
		nret := 0
		for _, r := range eng.ReturnsFrom(body, nil, call, nil) {
			if r.Block().Comment == "recover" {
				continue
			}
			nret++
			for i := range r.Results {
				vals, _, _ := eng.ReturnVals(r, i)
				for _, v := range vals {
					ex, isEx := v.(*ssa.Extract)
					if !isEx || ex.Tuple != ssa.Value(call.(*ssa.Call)) || ex.Index != i {
						okRet = false
					}
				}
			}
		}
		if okRet && nret > 0 {
			c.OK(body, "results of the tail returned unchanged", call.Pos(), eng.FuncName(tl))
		} else {
			c.Violation(body, "results of the tail returned unchanged", call.Pos(), "after the decrement-and-store tail ran the body returns something else than its results (a failed store could be reported as success)", nil)
		}
		p := tl.Params[idx]
		tail, entryIsParam = tl, true
		entryPat = `^param:` + regexp.QuoteMeta(eng.VarName(p)) + `$`
		onePat = `^` + regexp.QuoteMeta(eng.VarName(p)) + `\.NumUses == 1$`
	}
	storeSites := c19Sites(tail, tokenStorePat)
	stores := c19Calls(storeSites)
	c.Clause("R9", clause)
	c.Floor(tail, "ts.store", len(stores), 1)
	for _, in := range stores {
		lockedSite(tail, in)
	}
	// a deferred or explicit Unlock must not precede the store: release sites must come after store on all paths
	c.Clause("R3", clause)
	if tail == body {
		c.Before(body, "re-read under lock", eng.AsInstrs(reread), "ts.store", eng.AsInstrs(stores))
	}
	// the decrement's operand is the re-read entry
	c.Clause("R5", clause)
	numUses := c.P.Field("logical.TokenEntry.NumUses")
	type assign struct {
		at  ssa.Instruction // where the value is chosen: the store, or the end of the arm a phi input arrives from
		val ssa.Value
	}
	var assigns []assign
	for _, st := range eng.Stores(tail, `\.NumUses$`) {
		if numUses != nil && eng.FieldVar(st.Addr) != numUses {
			continue
		}
		fa := st.Addr.(*ssa.FieldAddr)
		c.Prov(tail, "base of NumUses store", st, fa.X, entryPat)
		if phi, ok := st.Val.(*ssa.Phi); ok {
			for i, e := range phi.Edges {
				pb := phi.Block().Preds[i]
				assigns = append(assigns, assign{pb.Instrs[len(pb.Instrs)-1], e})
			}
		} else {
			assigns = append(assigns, assign{st, st.Val})
		}
	}
	c.Floor(tail, "values assigned to NumUses (decrement and marker)", len(assigns), 2)
	for _, s := range storeSites {
		arg, fr := s.Arg(2)
		if arg == nil {
			c.Undecided(tail, "prov{entry passed to ts.store}", s.At.Pos(), "the entry operand of the store call behind this site could not be located")
			continue
		}
		nfProv(c, tail, "entry passed to ts.store", s.At, arg, fr, entryPat)
	}
	// last use stores the pending marker
	c.Clause("R2", clause)
	var marker []ssa.Instruction
	for _, a := range assigns {
		if cst, ok := a.val.(*ssa.Const); ok && cst.Value != nil && cst.Int64() == -1 {
			marker = append(marker, a.at)
		}
	}
	c.Cut(tail, "NumUses = tokenRevocationPending", marker, eng.G(tail, onePat, true), nil)
	// success return only with store success
	var okRets []ssa.Instruction
	for _, r := range eng.Returns(tail) {
		if r.Block().Comment == "recover" {
			continue
		}
		vals, _, _ := eng.ReturnVals(r, 1)
		allNil := true
		for _, v := range vals {
			if !eng.AllNilThroughPhi(v) {
				allNil = false
			}
		}
		ents, _, _ := eng.ReturnVals(r, 0)
		nonNilEntry := false
		for _, v := range ents {
			if !eng.IsNilConst(v) {
				// in an unsplit body a returned parameter is the unlocked fast path (own rule, C19.1c);
				// in a split-off tail the entry parameter IS the re-read entry
				if _, isParam := v.(*ssa.Parameter); !isParam || entryIsParam {
					nonNilEntry = true
				}
			}
		}
		if allNil && nonNilEntry {
			okRets = append(okRets, r)
		}
	}
	c.Cut(tail, "return (re-read entry, nil)", okRets, c19OK(tokenStorePat, storeSites), nil)
}

// useTokenTail: the unique function of body's package that body calls, that
// carries the NumUses stores and the ts.store call, that takes a token entry
// and that is only ever entered with a token lock held. Returns it with the
// call site in body and the index of the entry parameter/argument.
func useTokenTail(c *eng.Ctx, body *ssa.Function) (*ssa.Function, ssa.CallInstruction, int) {
	numUses := c.P.Field("logical.TokenEntry.NumUses")
	var tl *ssa.Function
	var site ssa.CallInstruction
	idx := -1
	n := 0
	for _, cl := range eng.Calls(body, `.`) {
		h := cl.Common().StaticCallee()
		if _, isCall := cl.(*ssa.Call); !isCall || h == nil || h.Pkg != body.Pkg || len(h.Blocks) == 0 || h.Parent() != nil || h == body {
			continue
		}
		if len(c19Sites(h, tokenStorePat)) == 0 {
			continue
		}
		writes := false
		for _, st := range eng.Stores(h, `\.NumUses$`) {
			if numUses == nil || eng.FieldVar(st.Addr) == numUses {
				writes = true
			}
		}
		if !writes || !heldByEveryCaller(c, h) {
			continue
		}
		k := -1
		for j, p := range h.Params {
			if strings.HasSuffix(p.Type().String(), "logical.TokenEntry") {
				if k >= 0 {
					k = -2
					break
				}
				k = j
			}
		}
		if k < 0 || k >= len(cl.Common().Args) {
			continue
		}
		n++
		tl, site, idx = h, cl, k
	}
	if n != 1 {
		return nil, nil, -1
	}
	return tl, site, idx
}
