package props

import (
	"go/token"
	"strings"

	"golang.org/x/tools/go/ssa"

	"obsa/eng"
)

// Second-tier mechanisms of C16 (see GAPS.md): the grouping of issuers into
// CRL sets, the revoked-issuer augmentation, the Last-Modified cache stamp and
// the CRL configuration endpoint.
func runC16Gaps2(c *eng.Ctx) {
	c16gIssuerSets(c)
	c16gRevokedIssuers(c)
	c16gLastModified(c)
	c16gConfigWrite(c)
	c16gIssuerRevokeOnce(c)
	c16gMemberEntriesPulled(c)
	c16gWorkFlags(c)
	c16gSkipOnlyRevokedIssuers(c)
}

// ---- C16.6: the two sources of CRL entries — revoked/ records (getLocalRevokedCertEntries) and
// revoked issuers (augmentWithRevokedIssuers) — together cover every serial that has a revoked/
// record. The collector may pass over a record as "one of the issuers' own certificates" only when
// the other source provably lists it, and that source lists an issuer only if issuerEntry.Revoked
// is set. So an issuer certificate becomes a skip candidate (or the skip is taken) only behind a
// true test of issuerEntry.Revoked. Otherwise a certificate revoked through /revoke and later
// imported as an issuer (Revoked never set by the import) is on no CRL while cert/<serial> and OCSP
// still call it revoked.
func c16gSkipOnlyRevokedIssuers(c *eng.Ctx) {
	f := c.Fn("pki.getLocalRevokedCertEntries")
	if f == nil {
		return
	}
	fv := c.P.Field("pki.issuerEntry.Revoked")
	if fv == nil {
		c.Unresolved("pki.issuerEntry.Revoked")
		return
	}
	c.Clause("R2", "C16.6")
	var revoked []eng.Edge
	for _, b := range f.Blocks {
		ifi := eng.IfOf(b)
		if ifi == nil {
			continue
		}
		if ld, ok := eng.Normalize(ifi.Cond).Val.(*ssa.UnOp); ok && ld.Op == token.MUL {
			if fa, ok := ld.X.(*ssa.FieldAddr); ok && eng.FieldVar(fa) == fv {
				revoked = append(revoked, eng.BoolEdges(ld, true)...)
			}
		}
	}
	g := eng.Guard{Desc: "issuerEntry.Revoked is true", Edges: revoked}
	skip, _ := c16IssuerSkip(f)
	if !c.Floor(f, "issuer-certificate skip edge", len(skip), 1) {
		return
	}
	// (ii) the skip itself is taken only for a revoked issuer
	if len(revoked) > 0 {
		var ifs []ssa.Instruction
		for _, e := range skip {
			ifs = append(ifs, e.From.Instrs[len(e.From.Instrs)-1])
		}
		if eng.Reach(eng.Query{Fn: f, Blocked: revoked, Target: eng.IsTarget(ifs)}) == nil {
			c.OK(f, "sink{issuer certificate admitted to the issuer-skip candidates} guard{issuerEntry.Revoked is true}", ifs[0].Pos(), "the issuer-certificate skip is decided only behind issuerEntry.Revoked == true")
			return
		}
	}
	// (i) the candidate set consulted by the skip holds revoked issuers only
	var ups []ssa.Instruction
	for _, mu := range c16gMapUpdates(f) {
		mk, ok := mu.Map.(*ssa.MakeMap)
		if ok && strings.HasSuffix(mk.Type().String(), "[]*crypto/x509.Certificate") {
			ups = append(ups, mu)
		}
	}
	if !c.Floor(f, "issuer certificates collected as skip candidates", len(ups), 1) {
		return
	}
	c.Cut(f, "issuer certificate admitted to the issuer-skip candidates", ups, g, nil)
}

// ---- C16.2: the "needs work" flags of the CRL builder. A flag that records pending work
// (dirty: the revocation configuration must be re-read; invalidate: the CRL modification time must
// be flushed; forceRebuild is handled in c16Rebuild) is cleared only across the success edge of that
// work, or, when it is cleared up front, set again on every failure edge of the work. Otherwise one
// transient storage error makes the builder keep its previous state for good (seed C16-f: a stale
// auto_rebuild=true after config/crl said false, so revocations never reach the served CRL).
func c16gWorkFlags(c *eng.Ctx) {
	inPki := func(fn *ssa.Function) bool { return eng.InPkg(fn, "pki") }
	for _, h := range []struct {
		field, fn, work string
		nWork           int
		why             string
	}{
		{"pki.crlBuilder.dirty", "pki.(*crlBuilder).reloadConfigIfRequired", `^pki\.\(\*storageContext\)\.getRevocationConfig$`, 1,
			"the builder keeps the previous CRL configuration (e.g. auto_rebuild still on) although config/crl changed"},
		{"pki.crlBuilder.invalidate", "pki.(*crlBuilder).flushCRLBuildTimeInvalidation", `^pki\.\(\*storageContext\)\.(getLocalCRLConfig|setLocalCRLConfig)$`, 2,
			"the CRL modification time is never bumped and If-Modified-Since clients keep the stale CRL"},
	} {
		fv := c.P.Field(h.field)
		if fv == nil {
			c.Unresolved(h.field)
			continue
		}
		short := h.field[strings.LastIndex(h.field, ".")+1:]
		onFlag := func(cl ssa.CallInstruction) bool {
			a := cl.Common().Args
			if len(a) == 0 {
				return false
			}
			ld, ok := a[0].(*ssa.UnOp)
			if !ok {
				return false
			}
			fa, ok := ld.X.(*ssa.FieldAddr)
			return ok && eng.FieldVar(fa) == fv
		}
		clearsIn := func(fn *ssa.Function) (clears, sets []ssa.Instruction) {
			for _, cl := range eng.Calls(fn, `^\(\*sync/atomic\.Bool\)\.(Store|CompareAndSwap|Swap)$`) {
				if !onFlag(cl) {
					continue
				}
				a := cl.Common().Args
				if eng.Expr(a[len(a)-1]) == "true" {
					sets = append(sets, cl)
				} else {
					clears = append(clears, cl)
				}
			}
			return
		}
		// who may clear it
		c.Clause("R1", "C16.2")
		var sites []eng.CallSite
		for _, fn := range c.P.Funcs {
			if !inPki(fn) {
				continue
			}
			cl, _ := clearsIn(fn)
			for _, x := range cl {
				sites = append(sites, eng.CallSite{Fn: fn, Call: x.(ssa.CallInstruction)})
			}
		}
		c.CallerTable("clearing crlBuilder."+short, sites, map[string]string{h.fn: "cleared by the function that performs the pending work"}, 1)
		f := c.Fn(h.fn)
		if f == nil {
			continue
		}
		clears, sets := clearsIn(f)
		works := eng.Calls(f, h.work)
		if !c.Floor(f, "clears of "+short, len(clears), 1) || !c.Floor(f, "fallible work guarded by "+short, len(works), h.nWork) {
			continue
		}
		for _, w := range works {
			wn := eng.CalleeName(w.Common())
			ok := eng.CallOKEdges(w)
			// is every clear behind the success edge of this work?
			after := len(ok) > 0 && eng.Reach(eng.Query{Fn: f, Blocked: ok, Target: eng.IsTarget(clears)}) == nil
			if after {
				c.Clause("R3", "C16.2")
				c.Cut(f, short+" cleared", clears, eng.Guard{Desc: "success edge of " + wn, Edges: ok, Pass: []ssa.Instruction{w}}, nil)
				continue
			}
			c.Clause("R4", "C16.2")
			fe := eng.CallFailEdges(w)
			site := "on{" + wn + " failed} cleanup{" + short + ".Store(true)}"
			switch {
			case len(fe) == 0:
				c.Violation(f, site, w.Pos(), "the flag "+short+" is cleared before "+wn+" whose error is not tested: when it fails the pending work is forgotten and "+h.why, nil)
			case len(sets) == 0:
				c.Violation(f, site, w.Pos(), "the flag "+short+" is cleared before "+wn+" succeeded and never set again in "+h.fn+": after one failed attempt the pending work is forgotten and "+h.why, nil)
			default:
				c.CleanupOnEdges(f, wn+" failed", fe, short+".Store(true)", sets)
			}
		}
	}
}

// ---- C16.6: every member of an issuer set contributes the revocations recorded
// against it to the set's CRL, whatever its own usages: within the member loop
// of buildAnyCRLsWithCerts the next member (or the end of the loop) is reached
// only through the read of revokedCertsMap[member]. All members share one CRL;
// skipping a member that lacks crl-signing usage before its entries were pulled
// in drops those revocations from the CRL served for the whole set.
func c16gMemberEntriesPulled(c *eng.Ctx) {
	f := c.Fn("pki.buildAnyCRLsWithCerts")
	if f == nil {
		return
	}
	var lists ssa.Value
	for _, p := range f.Params {
		if eng.VarName(p) == "revokedCertsMap" {
			lists = p
		}
	}
	if lists == nil {
		c.Undecided(f, "per-issuer revoked lists", token.NoPos, "parameter revokedCertsMap not found (re-read)")
		return
	}
	c.Clause("R8", "C16.6")
	var pulls []ssa.Instruction
	for _, in := range eng.Instrs(f, func(in ssa.Instruction) bool { lk, ok := in.(*ssa.Lookup); return ok && lk.X == lists }) {
		pulls = append(pulls, in)
	}
	if !c.Floor(f, "read of revokedCertsMap[member]", len(pulls), 1) {
		return
	}
	reaches := func(from, to *ssa.BasicBlock) bool {
		seen := map[*ssa.BasicBlock]bool{}
		work := append([]*ssa.BasicBlock{}, from.Succs...)
		for len(work) > 0 {
			b := work[len(work)-1]
			work = work[:len(work)-1]
			if seen[b] {
				continue
			}
			seen[b] = true
			if b == to {
				return true
			}
			work = append(work, b.Succs...)
		}
		return false
	}
	// the innermost range loop around the read: the member loop
	var head *ssa.BasicBlock
	pb := pulls[0].Block()
	for _, b := range f.Blocks {
		if eng.IfOf(b) == nil || b.Comment != "rangeindex.loop" || !b.Dominates(pb) || !reaches(pb, b) {
			continue
		}
		if head == nil || head.Dominates(b) {
			head = b
		}
	}
	site := "each member of an issuer set contributes its recorded revocations"
	if head == nil {
		c.Undecided(f, site, pulls[0].Pos(), "the read of revokedCertsMap[member] is not inside a range loop over the set (re-read)")
		return
	}
	hd := []ssa.Instruction{eng.IfOf(head)}
	c16Unreach(c, f, site, eng.Query{Fn: f, StartEdges: []eng.Edge{{From: head, Succ: 0}}, Barriers: pulls, Target: eng.IsTarget(hd)}, pulls[0].Pos(),
		"the loop over the members of an issuer set can move on to the next member without reading revokedCertsMap[member] (a member lacking crl-signing usage is skipped first): the revocations recorded against that member disappear from the CRL shared by the whole set",
		"from the head of the member loop the next member is reached only through the read of revokedCertsMap[member]")
}

// ---- C16.4: revoking an issuer again does not rewrite its revocation (time, record)
func c16gIssuerRevokeOnce(c *eng.Ctx) {
	f := c.Fn("pki.(*backend).pathRevokeIssuer")
	if f == nil {
		return
	}
	c.Clause("R2", "C16.4")
	var writes []ssa.Instruction
	for _, st := range eng.Stores(f, `fetchIssuerById\(\)#0\.(Revoked|RevocationTime|RevocationTimeUTC)$`) {
		writes = append(writes, st)
	}
	nSt := len(writes)
	writes = append(writes, instrsOf(eng.Calls(f, `^pki\.\(\*storageContext\)\.writeIssuer$`))...)
	writes = append(writes, instrsOf(eng.Calls(f, c16Put))...)
	if c.Floor(f, "stores of the issuer's revocation state", nSt, 3) && c.Floor(f, "persisting writes", len(writes)-nSt, 2) {
		c.Cut(f, "issuer revocation state / record written", writes, eng.G(f, `fetchIssuerById\(\)#0\.Revoked$`, false), nil)
	}
}

func c16gMapUpdates(f *ssa.Function) []*ssa.MapUpdate {
	var out []*ssa.MapUpdate
	for _, in := range eng.Instrs(f, func(in ssa.Instruction) bool { _, ok := in.(*ssa.MapUpdate); return ok }) {
		out = append(out, in.(*ssa.MapUpdate))
	}
	return out
}

// c16gLookup: v is m[k] (plain or comma-ok form); returns the lookup.
func c16gLookup(v ssa.Value) *ssa.Lookup {
	switch x := v.(type) {
	case *ssa.Lookup:
		return x
	case *ssa.Extract:
		if lk, ok := x.Tuple.(*ssa.Lookup); ok && x.Index == 0 {
			return lk
		}
	}
	return nil
}

// c16gSamePath: the same value, or two reads of the same access path (go/ssa
// does not share repeated field loads).
func c16gSamePath(a, b ssa.Value) bool {
	return a == b || (a != nil && b != nil && eng.ExprDeep(a) == eng.ExprDeep(b))
}

func c16gIsAppend(v ssa.Value) *ssa.Call {
	cl, ok := v.(*ssa.Call)
	if !ok {
		return nil
	}
	if b, ok := cl.Call.Value.(*ssa.Builtin); ok && b.Name() == "append" && len(cl.Call.Args) >= 1 {
		return cl
	}
	return nil
}

// ---- C16.6: buildAnyCRLs groups the issuers into (key, subject) sets by appending only;
// an issuer is left out of the sets only when it has no key; an unforced build still builds
func c16gIssuerSets(c *eng.Ctx) {
	f := c.Fn("pki.buildAnyCRLs")
	if f == nil {
		return
	}
	bl := c16One(c, f, "buildAnyLocalCRLs", `^pki\.buildAnyLocalCRLs$`)
	if bl == nil || len(bl.Common().Args) < 7 {
		return
	}
	sets, ok := bl.Common().Args[6].(*ssa.MakeMap)
	if !ok {
		c.Undecided(f, "issuer sets handed to the builder", bl.Pos(), "keySubjectIssuersMap is not a map made in buildAnyCRLs: "+eng.ExprDeep(bl.Common().Args[6]))
		return
	}
	c.Clause("R5", "C16.6")
	var inner []ssa.Instruction
	nOuter := 0
	for _, mu := range c16gMapUpdates(f) {
		switch {
		case mu.Map == ssa.Value(sets):
			nOuter++
			site := "per-key map of issuer sets created once"
			if _, isMake := mu.Value.(*ssa.MakeMap); !isMake {
				c.Violation(f, site, mu.Pos(), "the per-key entry of the issuer sets is overwritten with "+eng.ExprDeep(mu.Value), nil)
				continue
			}
			var miss []eng.Edge
			for _, in := range eng.Instrs(f, func(in ssa.Instruction) bool {
				lk, ok := in.(*ssa.Lookup)
				return ok && lk.CommaOk && lk.X == ssa.Value(sets)
			}) {
				lk := in.(*ssa.Lookup)
				if !c16gSamePath(lk.Index, mu.Key) || lk.Referrers() == nil {
					continue
				}
				for _, r := range *lk.Referrers() {
					if ex, ok := r.(*ssa.Extract); ok && ex.Index == 1 {
						miss = append(miss, eng.BoolEdges(ex, false)...)
					}
				}
			}
			if len(miss) == 0 {
				c.Violation(f, site, mu.Pos(), "a fresh map is stored for the issuer's key without testing that the key has none yet: issuers sharing a key evict each other's sets and the evicted sets get no CRL", nil)
				continue
			}
			c.Clause("R2", "C16.6")
			c.Cut(f, "fresh per-key map of issuer sets", []ssa.Instruction{mu}, eng.Guard{Desc: "the key has no map yet", Edges: miss}, nil)
			c.Clause("R5", "C16.6")
		default:
			base := c16gLookup(mu.Map)
			if base == nil || base.X != ssa.Value(sets) {
				continue
			}
			inner = append(inner, mu)
			site := "issuer set extended by append"
			ap := c16gIsAppend(mu.Value)
			var from *ssa.Lookup
			if ap != nil {
				from = c16gLookup(ap.Call.Args[0])
			}
			var fromBase *ssa.Lookup
			if from != nil {
				fromBase = c16gLookup(from.X)
			}
			if ap != nil && from != nil && c16gSamePath(from.Index, mu.Key) && fromBase != nil && fromBase.X == ssa.Value(sets) && c16gSamePath(fromBase.Index, base.Index) {
				c.OK(f, site, mu.Pos(), "sets[key][subject] = append(sets[key][subject], issuer)")
			} else {
				c.Violation(f, site, mu.Pos(), "the set of equivalent issuers is assigned "+eng.ExprDeep(mu.Value)+" instead of append(<the same set>, issuer): members collected before are dropped and their revocations reach no CRL", nil)
			}
		}
	}
	c.Floor(f, "creation of a per-key map of issuer sets", nOuter, 1)
	if !c.Floor(f, "extension of an issuer set", len(inner), 1) {
		return
	}
	// every issuer with a key joins a set
	c.Clause("R8", "C16.6")
	var body, noKey []eng.Edge
	var header []ssa.Instruction
	for _, b := range f.Blocks {
		ifi := eng.IfOf(b)
		if ifi == nil || b.Comment != "rangeindex.loop" {
			continue
		}
		if strings.Contains(eng.Normalize(ifi.Cond).Base, "listIssuers()#0") {
			body = append(body, eng.Edge{From: b, Succ: 0})
			header = append(header, ifi)
		}
	}
	noKey = eng.CondEdges(f, `^len\(.*\.KeyID\) == 0$`, true)
	if c.Floor(f, "loop over the issuers", len(body), 1) && c.Floor(f, "test for an issuer without key", len(noKey), 1) {
		c16Unreach(c, f, "each issuer with a key joins an issuer set (or the build fails)",
			eng.Query{Fn: f, StartEdges: body, Blocked: noKey, Barriers: inner, Target: eng.IsTarget(append(append([]ssa.Instruction{}, header...), bl))}, bl.Pos(),
			"the loop over the issuers can move on without adding the issuer to a set although it has a key: the issuer gets no CRL and the revocations recorded for it are served nowhere",
			"only an issuer without key is left out of the sets")
	}
	// success without building only for a disabled CRL / the legacy delta refusal
	c.Clause("R2", "C16.2")
	succ := eng.SuccessReturns(f, 1)
	if c.Floor(f, "nil-error returns", len(succ), 2) {
		built := eng.GCallOK(f, `^pki\.buildAnyLocalCRLs$`)
		c.Cut(f, "nil-error return of buildAnyCRLs", succ, eng.Or(eng.Guard{Desc: built.Desc, Edges: built.Edges}, eng.G(f, `getConfigWithUpdate\(\)#0\.Disable$`, true), eng.G(f, `^isDelta$`, true)), nil)
	}
}

// ---- C16.6: a revoked issuer is added to the lists of the issuers that signed it, onto what they hold
func c16gRevokedIssuers(c *eng.Ctx) {
	f := c.Fn("pki.augmentWithRevokedIssuers")
	if f == nil || len(f.Params) != 3 {
		return
	}
	lists := f.Params[2]
	sig := eng.Calls(f, `x509\.Certificate\)\.CheckSignatureFrom$`)
	var ups []*ssa.MapUpdate
	for _, mu := range c16gMapUpdates(f) {
		if mu.Map == ssa.Value(lists) {
			ups = append(ups, mu)
		}
	}
	if !c.Floor(f, "CheckSignatureFrom", len(sig), 1) || !c.Floor(f, "update of the per-issuer revoked lists", len(ups), 1) {
		return
	}
	var signer ssa.Value // key of the candidate parent
	if lk := c16gLookup(sig[0].Common().Args[1]); lk != nil {
		signer = lk.Index
	}
	var subject ssa.Value // key of the revoked issuer
	if lk := c16gLookup(sig[0].Common().Args[0]); lk != nil {
		subject = lk.Index
	}
	for _, mu := range ups {
		c.Clause("R5", "C16.6")
		site := "revoked issuer appended to the signer's own list"
		ap := c16gIsAppend(mu.Value)
		var from *ssa.Lookup
		if ap != nil {
			from = c16gLookup(ap.Call.Args[0])
		}
		switch {
		case ap == nil || from == nil || from.X != ssa.Value(lists):
			c.Violation(f, site, mu.Pos(), "the signer's list is assigned "+eng.ExprDeep(mu.Value)+": the revocations collected for that issuer are replaced", nil)
		case from.Index != mu.Key:
			c.Violation(f, site, mu.Pos(), "the list stored for one issuer is built from the list of another (append base and destination use different keys): the destination's revoked entries drop off its CRL", nil)
		case signer == nil || mu.Key != signer || subject == nil || subject == signer:
			c.Violation(f, site, mu.Pos(), "the entry is not stored under the issuer whose certificate verified the revoked issuer's signature", nil)
		default:
			c.OK(f, site, mu.Pos(), "lists[signer] = append(lists[signer], revoked issuer)")
		}
		c.Clause("R2", "C16.6")
		c.Cut(f, "revoked issuer added to a list", []ssa.Instruction{mu}, eng.GCallOK(f, `x509\.Certificate\)\.CheckSignatureFrom$`), nil)
		c.Cut(f, "revoked issuer added to a list", []ssa.Instruction{mu}, eng.G(f, `\.Revoked$`, true), nil)
	}
	// the entry names the revoked issuer's own serial
	c.Clause("R5", "C16.6")
	n := 0
	for _, st := range eng.Stores(f, `\.SerialNumber$`) {
		n++
		site := "CRL entry of a revoked issuer carries its own serial"
		var idx ssa.Value
		if ld, ok := st.Val.(*ssa.UnOp); ok {
			if fa, ok := ld.X.(*ssa.FieldAddr); ok {
				if lk := c16gLookup(fa.X); lk != nil && lk.X == ssa.Value(f.Params[1]) {
					idx = lk.Index
				}
			}
		}
		if idx != nil && idx == subject {
			c.OK(f, site, st.Pos(), "serial of the certificate whose signature is checked against the other issuers")
		} else {
			c.Violation(f, site, st.Pos(), "the entry's serial is "+eng.ExprDeep(st.Val)+", not the serial of the revoked issuer's certificate", nil)
		}
	}
	c.Floor(f, "serial of the revoked issuer's CRL entry", n, 1)
}

// ---- C16.3: every complete build stamps LastModified (the If-Modified-Since cache key) before the CRL is written
func c16gLastModified(c *eng.Ctx) {
	f := c.Fn("pki.buildAnyCRLsWithCerts")
	if f == nil {
		return
	}
	bc := eng.Calls(f, `^pki\.buildCRL$`)
	stamps := instrsOf(eng.Stores(f, `\.LastModified$`))
	if !c.Floor(f, "buildCRL call", len(bc), 1) || !c.Floor(f, "store of LastModified", len(stamps), 1) {
		return
	}
	c.Clause("R3", "C16.3")
	site := "on{complete build} LastModified stamped before the CRL is written"
	if h := eng.Reach(eng.Query{Fn: f, Barriers: stamps, Assume: map[string]bool{`^isDelta$`: false}, Target: eng.IsTarget(instrsOf(bc))}); h != nil {
		c.Violation(f, site, h.Instr.Pos(), "a complete CRL can be built and written without bumping internalCRLConfig.LastModified: clients revalidating with If-Modified-Since are answered 304 and keep a CRL that lacks the new revocation", h.Witness)
	} else {
		c.OK(f, site, bc[0].Pos(), "with isDelta=false every path to buildCRL passes the store of LastModified")
	}
	c.Clause("R5", "C16.3")
	for _, st := range stamps {
		c.Prov(f, "LastModified stamp", st, st.(*ssa.Store).Val, `^call:time\.\(Time\)\.UTC$`)
	}
}

// ---- C16.2: config/crl rebuilds the CRLs when auto-rebuild is switched off or the CRL is re-enabled
func c16gConfigWrite(c *eng.Ctx) {
	f := c.Fn("pki.(*backend).pathCRLWrite")
	if f == nil {
		return
	}
	rb := instrsOf(eng.Calls(f, `^pki\.\(\*crlBuilder\)\.rebuild$`))
	var plain []ssa.Instruction
	for _, r := range eng.SuccessReturns(f, 1) {
		if ok, _, _ := eng.OriginsMatch(r.(*ssa.Return).Results[0], `^call:pki\.genResponseFromCrlConfig$`); ok {
			plain = append(plain, r)
		}
	}
	if !c.Floor(f, "crlBuilder.rebuild", len(rb), 1) || !c.Floor(f, "plain success responses", len(plain), 1) {
		return
	}
	c.Clause("R2", "C16.2")
	for _, h := range []struct {
		field    string
		old, new bool
		desc     string
	}{
		{"AutoRebuild", true, false, "auto_rebuild switched off"},
		{"Disable", true, false, "CRL re-enabled"},
	} {
		site := "on{" + h.desc + "} success needs crlBuilder.rebuild"
		blocked, nOld, nNew := c16gToggleBlocked(f, h.field, h.old, h.new)
		if nOld == 0 || nNew == 0 {
			c.Violation(f, site, f.Pos(), "pathCRLWrite does not compare the previous and the new value of config."+h.field+" (old tests: "+itoaC16(nOld)+", new tests: "+itoaC16(nNew)+"): the transition cannot trigger the rebuild", nil)
			continue
		}
		if hit := eng.Reach(eng.Query{Fn: f, Blocked: blocked, Barriers: rb, Target: eng.IsTarget(plain)}); hit != nil {
			c.Violation(f, site, hit.Instr.Pos(), "with "+h.desc+" the configuration write can answer success without rebuilding the CRLs: the served CRL keeps missing the revocations recorded meanwhile", hit.Witness)
		} else {
			c.OK(f, site, rb[0].Pos(), "with the previous "+h.field+"="+boolStr(h.old)+" and the new "+h.field+"="+boolStr(h.new)+" every path to the success response passes crlBuilder.rebuild")
		}
	}
	c.Clause("R12", "C16.2")
	for _, r := range rb {
		if a := r.(ssa.CallInstruction).Common().Args; len(a) == 3 && eng.Expr(a[2]) == "true" {
			c.OK(f, "const{rebuild(sc, forceNew=true) after a config change}", r.Pos(), "forced: also writes the CRL of a freshly disabled/enabled configuration")
		} else {
			c.Violation(f, "const{rebuild(sc, forceNew=true) after a config change}", r.Pos(), "the rebuild after a config change is not forced", nil)
		}
	}
}

func boolStr(b bool) string {
	if b {
		return "true"
	}
	return "false"
}

func itoaC16(n int) string {
	const d = "0123456789"
	if n < 10 {
		return d[n : n+1]
	}
	return itoaC16(n/10) + d[n%10:n%10+1]
}

// c16gToggleBlocked specialises f to "field `field` of the configuration held
// oldV before the request's value was stored into it and holds newV
// afterwards": it returns the branch edges inconsistent with that. A load of
// the field is "old" when a store into the field is still reachable from it.
func c16gToggleBlocked(f *ssa.Function, field string, oldV, newV bool) (blocked []eng.Edge, nOld, nNew int) {
	isField := func(addr ssa.Value) bool {
		fa, ok := addr.(*ssa.FieldAddr)
		if !ok {
			return false
		}
		fv := eng.FieldVar(fa)
		return fv != nil && fv.Name() == field
	}
	var stores []*ssa.Store
	for _, b := range f.Blocks {
		for _, in := range b.Instrs {
			if st, ok := in.(*ssa.Store); ok && isField(st.Addr) {
				stores = append(stores, st)
			}
		}
	}
	if len(stores) == 0 {
		return nil, 0, 0
	}
	reaches := func(from ssa.Instruction) bool {
		fb := from.Block()
		after := false
		for _, in := range fb.Instrs {
			if in == from {
				after = true
				continue
			}
			if st, ok := in.(*ssa.Store); ok && after && isField(st.Addr) {
				return true
			}
		}
		seen := map[*ssa.BasicBlock]bool{}
		work := append([]*ssa.BasicBlock{}, fb.Succs...)
		for len(work) > 0 {
			b := work[len(work)-1]
			work = work[:len(work)-1]
			if seen[b] {
				continue
			}
			seen[b] = true
			for _, st := range stores {
				if st.Block() == b {
					return true
				}
			}
			work = append(work, b.Succs...)
		}
		return false
	}
	isOld := map[ssa.Value]bool{}
	isNew := map[ssa.Value]bool{}
	for _, b := range f.Blocks {
		for _, in := range b.Instrs {
			ld, ok := in.(*ssa.UnOp)
			if !ok || ld.Op != token.MUL || !isField(ld.X) {
				continue
			}
			if reaches(ld) {
				isOld[ld] = true
			} else {
				isNew[ld] = true
			}
		}
	}
	for v := range isOld {
		if e := eng.BoolEdges(v, !oldV); len(e) > 0 {
			nOld++
			blocked = append(blocked, e...)
		}
	}
	for v := range isNew {
		if e := eng.BoolEdges(v, !newV); len(e) > 0 {
			nNew++
			blocked = append(blocked, e...)
		}
	}
	// old == new / old != new
	for _, b := range f.Blocks {
		ifi := eng.IfOf(b)
		if ifi == nil {
			continue
		}
		bo, ok := eng.Normalize(ifi.Cond).Val.(*ssa.BinOp)
		if !ok || (bo.Op != token.EQL && bo.Op != token.NEQ) {
			continue
		}
		if !(isOld[bo.X] && isNew[bo.Y]) && !(isOld[bo.Y] && isNew[bo.X]) {
			continue
		}
		nOld++
		nNew++
		// the edge on which the two are equal contradicts oldV != newV (and vice versa)
		blocked = append(blocked, eng.BoolEdges(bo, (bo.Op == token.EQL) == (oldV != newV))...)
	}
	return blocked, nOld, nNew
}
