package props

import (
	"fmt"
	"go/token"
	"os"
	"regexp"
	"strings"

	"golang.org/x/tools/go/ssa"

	"obsa/eng"
)

func init() {
	register(&Prop{
		ID: "C20",
		Explanation: "Structural necessary conditions of 'Shamir shares reconstruct at threshold and reconstruction is only attempted at threshold', on every CFG path / call site: " +
			"(1) randomness hygiene in sdk/helper/shamir: the package imports no math/rand and its only randomness callees are crypto/rand.Read / crypto/rand.Int(crypto/rand.Reader, ..) with checked errors; makePolynomial stores the intercept in coefficient 0 and fills coefficients[1:] (all of them) from crypto/rand; shuffledXCoordinates enumerates 1..255 (never 0, no uint8 wrap) and permutes by swaps (which permutation is drawn is not a clause: x-coordinates are public share tags, only their being distinct and non-zero matters to the property); Split draws a fresh polynomial inside the per-byte loop, of degree threshold-1, evaluates it at the share's own x and writes that same x as the share tag; " +
			"(2) input validation: Split reaches its randomness and its success return only across its five refusals; Combine reaches interpolation only across len(parts)>=2, len(parts[0])>=2, a loop that length-checks every part and a loop that refuses a repeated x (map lookup, then map update with the same key) and interpolates exactly the checked x values at 0; evaluate and div panic on a zero argument/divisor before any arithmetic; " +
			"(3) threshold accounting at every caller of shamir.Combine in internal/vault: the call (and the threshold-1 shortcut that reads P[0]) is behind len(P) >= T.SecretThreshold for the same slice P it passes, the shortcut additionally behind T.SecretThreshold == 1, T comes from the stored seal configuration (or is the configuration under verification) and, where both the recovery and the barrier configuration are candidates, is the recovery configuration exactly on the RecoveryKeySupported() arm (resolved path-sensitively), the error is checked and a failure returns no key; every write of a progress slice is nil or append(P, share) and every append is behind a loop over the same P that compares every recorded share with the new one and refuses a match, and every such comparison reads the elements of the very slice field the share is appended to; the accounting runs under the owning lock; callers of Combine/Split are a frozen set; " +
			"(4) Split callers pass (cfg.SecretShares, cfg.SecretThreshold) of one configuration, behind SecretShares != 1, on a freshly generated key, with checked errors; SealConfig.Validate/baseValidate refuse threshold<1, shares<1, >255, threshold>shares and threshold<2 with several shares, and stored configurations are validated before they are cached; " +
			"(5) shape of the GF(2^8) code: add is XOR of its operands; mult has no calls, no memory indexing and no operand-dependent branch (a fixed 8-round loop) and reduces by the low byte of an irreducible degree-8 polynomial; inverse is a straight-line chain of mult calls whose exponent is 254 mod 255; div multiplies the dividend by the inverse of the guarded divisor; evaluate is Horner's rule from the top coefficient down to coefficient 0; interpolatePolynomial forms, for every pair i != j of sample indices, (x+x_j)/(x_i+x_j), accumulates the product from 1 and the sum of y_i*basis from 0; " +
			"(6, gaps) the key rebuilt from the supplied shares is authenticated before anything acts on it: UpdateRotation reaches updateRecoveryRotation/updateRootRotation only across a successful VerifyRecoveryKey whenever recovery keys are involved and updateRootRotation / BarrierRekeyUpdate / RecoveryRekeyUpdate generate or install keys only across VerifyRecoveryKey, or for a Shamir barrier SetAesGcmKeyBytes + GetStoredKeys + VerifyRoot, of that key; lockedGenerateRootUpdate calls strategy.generate only across a successful strategy.authenticate of the rebuilt key, whose implementations, AuthenticateRootKey and unsealKeyToRootKey report success / return a key only across their verification calls on the key they were given; getUnsealKey returns a recovery key only across VerifyRecoveryKey; VerifyRotation / RekeyVerify install the rebuilt key only across ConstantTimeCompare(rebuilt key, VerificationKey) == 1; UnsealNamespace and Core.unsealFragment reach the root-key lookup and the barrier only with the non-nil key unsealFragment returned; once len(Parts) >= threshold getUnsealKey discards the recorded shares on every exit.",
		NotDecided: "correctness of the GF(2^8) arithmetic as algebra (field laws, that mult really is multiplication modulo the reduction polynomial, that a^254 is the inverse), exact reconstruction at threshold, perfect secrecy below it, uniformity of the shuffle, quality of crypto/rand, constant-time behaviour of the compiled code, and behaviour under concurrent schedules beyond 'a lock is held'. Those are value-level/algebraic facts (a proof or an exhaustive evaluation), not shapes of the code.",
		Run:        runC20,
	})
}

func runC20(c *eng.Ctx, thorough bool) {
	c20Randomness(c)
	c20Validation(c)
	c20FieldShape(c)
	c20Threshold(c)
	c20SplitCallers(c)
	c20Config(c)
	runC20Gaps2(c)
	if os.Getenv("OBSA_SHOW") != "" { // author's aid: list every obligation
		for _, o := range c.Obls {
			fmt.Printf("%-10s %-4s %-7s %s [%s] %s\n    %s\n", o.Status, o.Rule, o.Clause, o.Func, o.Site, o.Pos, o.Fact)
		}
	}
}

const (
	c20Read = "crypto/rand.Read"
	c20Int  = "crypto/rand.Int"
)

// ---------------------------------------------------------------------------
// C20.1 randomness hygiene

func c20Randomness(c *eng.Ctx) {
	// (a) imports and randomness callees of the package
	c.Clause("R1", "C20.1a")
	pk := c.P.Pkg("shamir")
	if pk == nil {
		c.Unresolved("package shamir")
		return
	}
	bad := ""
	hasCrypto := false
	for path := range pk.Imports {
		if path == "math/rand" || path == "math/rand/v2" || strings.HasSuffix(path, "/fastrand") {
			bad = path
		}
		if path == "crypto/rand" {
			hasCrypto = true
		}
	}
	switch {
	case bad != "":
		c.Violation(nil, "imports{shamir}", token.NoPos, "package shamir imports "+bad+": share coefficients or x-coordinates could come from a non-cryptographic generator", nil)
	case !hasCrypto:
		c.Violation(nil, "imports{shamir}", token.NoPos, "package shamir no longer imports crypto/rand", nil)
	default:
		c.OK(nil, "imports{shamir}", token.NoPos, "imports crypto/rand and neither math/rand nor math/rand/v2")
	}
	randRe := regexp.MustCompile(`(^|/)rand(/v2)?\.`)
	allowed := map[string]string{
		"shamir.makePolynomial|" + c20Read:      "coefficients 1..degree",
		"shamir.shuffledXCoordinates|" + c20Int: "Fisher-Yates index",
	}
	n := 0
	for _, fn := range c.P.Funcs {
		if !eng.InPkg(fn, "shamir") {
			continue
		}
		for _, call := range eng.Calls(fn, `.`) {
			name := eng.CalleeName(call.Common())
			if !randRe.MatchString(name) || strings.HasSuffix(name, ".init") {
				continue
			}
			n++
			key := eng.FuncName(eng.TopFunc(fn)) + "|" + name
			if why, ok := allowed[key]; ok {
				c.OK(fn, "randomness callee{"+name+"}", call.Pos(), "tabled: "+why)
			} else {
				c.Violation(fn, "randomness callee{"+name+"}", call.Pos(), "randomness source outside the table {makePolynomial→crypto/rand.Read, shuffledXCoordinates→crypto/rand.Int}", nil)
			}
		}
	}
	c.Floor(nil, "randomness call sites in package shamir", n, 2)

	// (b) makePolynomial
	if f := c.Fn("shamir.makePolynomial"); f != nil && len(f.Params) == 2 {
		intercept, degree := f.Params[0], f.Params[1]
		// the coefficient buffer: a read of a `coefficients` field, or the fresh slice that is
		// stored into one (a local alias of the polynomial's buffer)
		isCoeff := func(v ssa.Value) bool {
			if fa, ok := c20FieldLoad(v); ok && eng.FieldVar(fa).Name() == "coefficients" {
				return true
			}
			mk, ok := c20Strip(v).(*ssa.MakeSlice)
			if !ok || mk.Referrers() == nil {
				return false
			}
			for _, r := range *mk.Referrers() {
				if st, ok := r.(*ssa.Store); ok && st.Val == ssa.Value(mk) {
					if fa, ok := st.Addr.(*ssa.FieldAddr); ok && eng.FieldVar(fa).Name() == "coefficients" {
						return true
					}
				}
			}
			return false
		}
		reads := eng.Calls(f, `^crypto/rand\.Read$`)
		if c.Floor(f, "crypto/rand.Read", len(reads), 1) {
			rd := reads[0]
			c.Clause("R11", "C20.1b")
			c.ErrChecked(f, rd)
			c.Clause("R2", "C20.1b")
			c.Cut(f, "nil-error return", eng.SuccessReturns(f, 1), eng.GCallOK(f, `^crypto/rand\.Read$`), nil)
			// the buffer filled is coefficients[1:] of the polynomial that is returned, allocated with degree+1 entries
			c.Clause("R5", "C20.1b")
			site := "random fill covers coefficients[1:]"
			sl, _ := rd.Common().Args[0].(*ssa.Slice)
			switch {
			case sl == nil || !isCoeff(sl.X):
				c.Violation(f, site, rd.Pos(), "crypto/rand.Read does not fill a slice of the polynomial's coefficients: "+eng.ExprDeep(rd.Common().Args[0]), nil)
			case !c20ConstInt(sl.Low, 1) || sl.High != nil:
				c.Violation(f, site, rd.Pos(), "crypto/rand.Read fills "+eng.ExprDeep(sl)+", not coefficients[1:]: some non-constant coefficient is not random (or the intercept is overwritten)", nil)
			default:
				c.OK(f, site, rd.Pos(), "crypto/rand.Read(p.coefficients[1:])")
			}
			// drawn once, unconditionally: a second or conditional draw (rejection sampling on the
			// coefficient values, e.g. "redraw the leading coefficient until it is non-zero") makes
			// the coefficients non-uniform, and t-1 shares then exclude candidate secrets
			site = "coefficients drawn exactly once"
			if len(reads) != 1 {
				c.Violation(f, site, reads[1].Pos(), fmt.Sprintf("%d crypto/rand.Read calls in makePolynomial: coefficients are (re)drawn more than once", len(reads)), nil)
			} else if h := eng.Reach(eng.Query{Fn: f, StartAfter: rd, Target: func(in ssa.Instruction) bool { return in == ssa.Instruction(rd) }}); h != nil {
				c.Violation(f, site, rd.Pos(), "the random fill can execute again after it executed (it lies on a cycle): conditional redraws bias the coefficients", h.Witness)
			} else {
				c.OK(f, site, rd.Pos(), "one crypto/rand.Read, not on a cycle")
			}
			site = "no branch on the random coefficients"
			var condOnCoeff ssa.Instruction
			for _, b := range f.Blocks {
				iff := eng.IfOf(b)
				if iff == nil {
					continue
				}
				seen := map[ssa.Value]bool{}
				var reads func(v ssa.Value, d int) bool
				reads = func(v ssa.Value, d int) bool {
					if v == nil || seen[v] || d > 10 {
						return false
					}
					seen[v] = true
					if ia, ok := v.(*ssa.IndexAddr); ok && isCoeff(ia.X) {
						return true
					}
					if _, ok := v.(*ssa.Call); ok {
						return false
					}
					if in, ok := v.(ssa.Instruction); ok {
						for _, op := range in.Operands(nil) {
							if *op != nil && reads(*op, d+1) {
								return true
							}
						}
					}
					return false
				}
				if reads(iff.Cond, 0) {
					condOnCoeff = iff
				}
			}
			if condOnCoeff != nil {
				c.Violation(f, site, condOnCoeff.(*ssa.If).Cond.Pos(), "makePolynomial branches on the value of a coefficient ("+eng.ExprDeep(condOnCoeff.(*ssa.If).Cond)+"): anything done under that condition conditions the coefficients' distribution", nil)
			} else {
				c.OK(f, site, rd.Pos(), "no condition in makePolynomial reads the coefficients")
			}
			// allocation length degree+1
			site = "coefficients allocated with degree+1 entries"
			var mk *ssa.MakeSlice
			for _, in := range eng.Instrs(f, func(in ssa.Instruction) bool { _, ok := in.(*ssa.MakeSlice); return ok }) {
				mk = in.(*ssa.MakeSlice)
			}
			if mk == nil {
				c.Violation(f, site, f.Pos(), "no coefficient allocation found", nil)
			} else if bo, ok := c20Strip(mk.Len).(*ssa.BinOp); ok && bo.Op == token.ADD && c20Strip(bo.X) == ssa.Value(degree) && c20ConstInt(bo.Y, 1) {
				c.OK(f, site, mk.Pos(), "make([]byte, degree+1)")
			} else {
				c.Violation(f, site, mk.Pos(), "coefficient slice length is "+eng.ExprDeep(mk.Len)+", not degree+1: the polynomial does not have `threshold` coefficients", nil)
			}
			// intercept store
			c.Clause("R3", "C20.1b")
			var ist []ssa.Instruction
			for _, st := range eng.Instrs(f, func(in ssa.Instruction) bool { _, ok := in.(*ssa.Store); return ok }) {
				s := st.(*ssa.Store)
				ia, ok := s.Addr.(*ssa.IndexAddr)
				if !ok || !c20ConstInt(ia.Index, 0) {
					continue
				}
				if isCoeff(ia.X) && c20Strip(s.Val) == ssa.Value(intercept) {
					ist = append(ist, st)
				}
			}
			if len(ist) == 0 {
				c.Violation(f, "coefficients[0] = intercept", f.Pos(), "no store of the intercept parameter into coefficient 0: the secret byte is not the polynomial's value at 0", nil)
			} else {
				c.Before(f, "coefficients[0] = intercept", ist, "nil-error return", eng.SuccessReturns(f, 1))
			}
			// no other store into the coefficients after the random fill
			var later []ssa.Instruction
			for _, st := range eng.Instrs(f, func(in ssa.Instruction) bool { _, ok := in.(*ssa.Store); return ok }) {
				if ia, ok := st.(*ssa.Store).Addr.(*ssa.IndexAddr); ok {
					if isCoeff(ia.X) && !c20ConstInt(ia.Index, 0) {
						later = append(later, st)
					}
				}
			}
			if len(later) > 0 {
				c.Violation(f, "only coefficient 0 is assigned", later[0].Pos(), "a coefficient other than the intercept is assigned explicitly: "+eng.InstrStr(later[0]), nil)
			} else {
				c.OK(f, "only coefficient 0 is assigned", f.Pos(), "every other coefficient is written by crypto/rand.Read only")
			}
		}
	}

	// (c) shuffledXCoordinates
	if f := c.Fn("shamir.shuffledXCoordinates"); f != nil {
		ints := eng.Calls(f, `^crypto/rand\.Int$`)
		if c.Floor(f, "crypto/rand.Int", len(ints), 1) {
			c.Clause("R11", "C20.1c")
			c.Clause("R5", "C20.1c")
			for _, ic := range ints {
				c.Prov(f, "reader passed to crypto/rand.Int", ic, ic.Common().Args[0], `^global:crypto/rand\.Reader$`)
			}
			c.Clause("R11", "C20.1c")
			for _, ic := range ints {
				c.ErrChecked(f, ic)
			}
			// after the draw, a coordinate list is only returned across the draw's nil-error edge
			c.Clause("R4", "C20.1c")
			for _, ic := range ints {
				c.NilResultOnEdges(f, "crypto/rand.Int failed", eng.CallFailEdges(ic), 0, "coordinate list")
			}
		}
		// enumeration 1..255
		c.Clause("R12", "C20.1c")
		site := "x-coordinates enumerate 1..255"
		var apps []*ssa.Call
		for _, ac := range eng.Calls(f, `^append$`) {
			if cv, ok := ac.(*ssa.Call); ok {
				apps = append(apps, cv)
			}
		}
		if len(apps) != 1 {
			c.Violation(f, site, f.Pos(), "expected exactly one append building the coordinate list", nil)
		} else {
			vals := c20Appended(apps[0])
			okEnum := len(vals) == 1
			why := ""
			if okEnum {
				phi, isPhi := c20Strip(vals[0]).(*ssa.Phi)
				if !isPhi || len(phi.Edges) != 2 {
					okEnum, why = false, "the appended value is not a loop counter: "+eng.ExprDeep(vals[0])
				} else {
					start, step := false, false
					for _, e := range phi.Edges {
						if c20ConstInt(e, 1) {
							start = true
						}
						if bo, ok := e.(*ssa.BinOp); ok && bo.Op == token.ADD && bo.X == ssa.Value(phi) && c20ConstInt(bo.Y, 1) {
							step = true
						}
					}
					if !start || !step {
						okEnum, why = false, "the counter does not start at 1 and step by 1: "+eng.ExprDeep(phi)+" (x = 0 would hand out the secret byte itself)"
					} else {
						// the bound
						found := false
						for _, l := range c20Loops(f) {
							if !l.set[apps[0].Block()] {
								continue
							}
							lo, hi, ok := c20Less(l.ifi)
							if ok && lo == ssa.Value(phi) && l.bodyOn {
								found = true
								if !c20ConstInt(hi, 256) {
									okEnum, why = false, "loop bound is "+eng.ExprDeep(hi)+", not 256: with a larger bound uint8(i) wraps to 0 / repeats, with a smaller one fewer than 255 shares exist"
								}
							}
						}
						if !found {
							okEnum, why = false, "no loop `counter < 256` encloses the append"
						}
					}
				}
			} else {
				why = "append does not add exactly one value"
			}
			if okEnum {
				c.OK(f, site, apps[0].Pos(), "list = [uint8(i) for i = 1; i < 256; i++]: distinct, non-zero, no wrap")
			} else {
				c.Violation(f, site, apps[0].Pos(), why, nil)
			}
		}
		// permutation by swaps: every element store writes an element of the same list, in crossing pairs
		site = "shuffle permutes by swaps"
		type el struct{ base, idx ssa.Value }
		var dst, src []el
		bad := ""
		for _, in := range eng.Instrs(f, func(in ssa.Instruction) bool { _, ok := in.(*ssa.Store); return ok }) {
			st := in.(*ssa.Store)
			ia, ok := st.Addr.(*ssa.IndexAddr)
			if !ok {
				continue
			}
			if _, isAlloc := ia.X.(*ssa.Alloc); isAlloc {
				continue // the variadic temporary of append
			}
			sx, si, ok := c20ElemLoad(st.Val)
			if !ok {
				bad = eng.InstrStr(st)
				continue
			}
			dst = append(dst, el{ia.X, ia.Index})
			src = append(src, el{sx, si})
		}
		swap := len(dst) == 2 && bad == "" &&
			dst[0].base == dst[1].base && src[0].base == dst[0].base && src[1].base == dst[0].base &&
			dst[0].idx == src[1].idx && dst[1].idx == src[0].idx && dst[0].idx != dst[1].idx
		if swap {
			// both element loads precede both element stores (a swap, not two copies)
			pos := func(x ssa.Instruction) int {
				for i, in := range x.Block().Instrs {
					if in == x {
						return i
					}
				}
				return -1
			}
			firstStore, lastLoad := 1<<30, -1
			var blk *ssa.BasicBlock
			for _, in := range eng.Instrs(f, func(in ssa.Instruction) bool { _, ok := in.(*ssa.Store); return ok }) {
				st := in.(*ssa.Store)
				ia, ok := st.Addr.(*ssa.IndexAddr)
				if !ok {
					continue
				}
				if _, isAlloc := ia.X.(*ssa.Alloc); isAlloc {
					continue
				}
				ld := c20Strip(st.Val).(*ssa.UnOp)
				if blk == nil {
					blk = st.Block()
				}
				if st.Block() != blk || ld.Block() != blk {
					swap = false
				}
				if p := pos(st); p < firstStore {
					firstStore = p
				}
				if p := pos(ld); p > lastLoad {
					lastLoad = p
				}
			}
			if lastLoad > firstStore {
				swap = false
			}
		}
		if swap {
			c.OK(f, site, f.Pos(), "the only element writes are result[i], result[j] = result[j], result[i]: the list stays a permutation of 1..255")
		} else {
			c.Violation(f, site, f.Pos(), "element writes of the coordinate list are not a single swap of two of its own elements ("+bad+"): coordinates could repeat", nil)
		}
	}

	// (d) Split: fresh polynomial per byte, own x per share
	if f := c.Fn("shamir.Split"); f != nil && len(f.Params) == 3 {
		secret, parts, threshold := f.Params[0], f.Params[1], f.Params[2]
		_ = parts
		mk := eng.Calls(f, `^shamir\.makePolynomial$`)
		ev := eng.Calls(f, `^shamir\.\(\*polynomial\)\.evaluate$`)
		sh := eng.Calls(f, `^shamir\.shuffledXCoordinates$`)
		if !c.Floor(f, "makePolynomial call", len(mk), 1) || !c.Floor(f, "evaluate call", len(ev), 1) || !c.Floor(f, "shuffledXCoordinates call", len(sh), 1) {
			return
		}
		c.Clause("R11", "C20.1d")
		c.ErrChecked(f, mk[0])
		c.ErrChecked(f, sh[0])
		c.Clause("R4", "C20.1d")
		c.NilResultOnEdges(f, "makePolynomial failed", eng.CallFailEdges(mk[0]), 0, "share list")
		c.NilResultOnEdges(f, "shuffledXCoordinates failed", eng.CallFailEdges(sh[0]), 0, "share list")
		c.Clause("R5", "C20.1d")
		// intercept = secret[idx], idx a loop counter over the secret; degree = threshold-1
		site := "makePolynomial(secret[idx], threshold-1)"
		sx, idx, okI := c20ElemLoad(mk[0].Common().Args[0])
		deg, _ := c20Strip(mk[0].Common().Args[1]).(*ssa.BinOp)
		switch {
		case !okI || sx != ssa.Value(secret):
			c.Violation(f, site, mk[0].Pos(), "the intercept is "+eng.ExprDeep(mk[0].Common().Args[0])+", not a byte of the secret", nil)
		case deg == nil || deg.Op != token.SUB || c20Strip(deg.X) != ssa.Value(threshold) || !c20ConstInt(deg.Y, 1):
			c.Violation(f, site, mk[0].Pos(), "the degree is "+eng.ExprDeep(mk[0].Common().Args[1])+", not threshold-1: fewer (or more) than `threshold` shares determine the polynomial", nil)
		default:
			c.OK(f, site, mk[0].Pos(), "intercept = secret[idx], degree = threshold-1")
		}
		// per-byte freshness: from the header of the loop over the secret, evaluate is not reachable without makePolynomial
		c.Clause("R3", "C20.1d")
		site = "fresh polynomial for every secret byte"
		ls := c20LoopsOver(f, eng.VarName(secret), false)
		var byteLoop *c20Loop
		for i := range ls {
			if ls[i].set[mk[0].Block()] {
				byteLoop = &ls[i]
			}
		}
		if byteLoop == nil {
			c.Violation(f, site, mk[0].Pos(), "makePolynomial is not called inside a loop over every byte of the secret", nil)
		} else {
			if h := eng.Reach(eng.Query{Fn: f, StartEdges: []eng.Edge{byteLoop.body}, Barriers: instrsOf(mk), Target: eng.IsTarget(instrsOf(ev))}); h != nil {
				c.Violation(f, site, h.Instr.Pos(), "a share byte can be evaluated in an iteration of the byte loop without drawing a new polynomial: two secret bytes would share coefficients", h.Witness)
			} else {
				c.OK(f, site, mk[0].Pos(), "every iteration of the loop over the secret calls makePolynomial before any evaluate")
			}
			c.Cut(f, "nil-error return", eng.SuccessReturns(f, 1), eng.Guard{Desc: "exit of the loop over the secret", Edges: []eng.Edge{byteLoop.exit}}, nil)
		}
		// evaluate(&p, xs[i]) with p = makePolynomial result; y stored at out[i][idx]; tag out[k][len(secret)] = xs[k]
		c.Clause("R5", "C20.1d")
		xs := eng.ResultValue(sh[0], 0)
		site = "share i is evaluated at its own x and stored in its own row"
		evc, _ := ev[0].(*ssa.Call)
		ex, ei, okE := c20ElemLoad(ev[0].Common().Args[1])
		var yst *ssa.Store
		if evc != nil && evc.Referrers() != nil {
			for _, r := range *evc.Referrers() {
				if st, ok := r.(*ssa.Store); ok && st.Val == ssa.Value(evc) {
					yst = st
				}
			}
		}
		switch {
		case !okE || ex != xs:
			c.Violation(f, site, ev[0].Pos(), "evaluate's x is "+eng.ExprDeep(ev[0].Common().Args[1])+", not an element of the shuffled coordinate list", nil)
		case yst == nil:
			c.Violation(f, site, ev[0].Pos(), "the evaluated byte is not stored into a share", nil)
		default:
			ia, _ := yst.Addr.(*ssa.IndexAddr)
			var row, ri ssa.Value
			okRow := false
			if ia != nil {
				row, ri, okRow = c20ElemLoad(ia.X)
			}
			_ = row
			if ia == nil || !okRow || ri != ei {
				c.Violation(f, site, yst.Pos(), "y = p(xs[i]) is stored at "+eng.ExprDeep(yst.Addr)+": the row index differs from the index of the x it was evaluated at", nil)
			} else if okI && ia.Index != idx {
				c.Violation(f, site, yst.Pos(), "y for secret byte idx is stored at column "+eng.ExprDeep(ia.Index)+", not idx", nil)
			} else {
				c.OK(f, site, yst.Pos(), "out[i][idx] = p.evaluate(xs[i])")
			}
		}
		c.Prov(f, "polynomial evaluated", ev[0], ev[0].Common().Args[0], `^call:shamir\.makePolynomial#0$`)
		// tag
		site = "share tag is the share's own x, in the last byte"
		okTag := false
		why := "no store of a coordinate into a share's last byte found"
		for _, in := range eng.Instrs(f, func(in ssa.Instruction) bool { _, ok := in.(*ssa.Store); return ok }) {
			st := in.(*ssa.Store)
			vx, vi, ok := c20ElemLoad(st.Val)
			if !ok || vx != xs {
				continue
			}
			ia, _ := st.Addr.(*ssa.IndexAddr)
			if ia == nil {
				continue
			}
			_, ri, okRow := c20ElemLoad(ia.X)
			ln := c20StaticCall(ia.Index, "len")
			switch {
			case !okRow || ri != vi:
				why = "the tag of share k is xs[" + eng.ExprDeep(vi) + "] but is written to row " + eng.ExprDeep(ia.X)
			case ln == nil || ln.Call.Args[0] != ssa.Value(secret):
				why = "the tag is written at index " + eng.ExprDeep(ia.Index) + ", not len(secret)"
			default:
				okTag = true
			}
		}
		if okTag {
			c.OK(f, site, f.Pos(), "out[k][len(secret)] = xs[k]")
		} else {
			c.Violation(f, site, f.Pos(), why, nil)
		}
	}
}
