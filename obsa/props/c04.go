package props

import (
	"fmt"
	"go/token"
	"regexp"
	"strings"

	"golang.org/x/tools/go/ssa"

	"obsa/eng"
)

func init() {
	register(&Prop{
		ID: "C04",
		Explanation: "Structural necessary conditions of 'revocation is final and cascades', on every CFG path of the token store's revocation code: " +
			"(1) TokenStore.revokeInternal persists the revocation marker (NumUses = tokenRevocationPending, store succeeded, or the entry already carries it) before any teardown step, and deletes the primary entry last, in the deferred closure, only when no step failed; " +
			"(2) a nil return after the entry was found crosses the success edges of cubbyhole destruction, lease revocation (RevokeByToken), parent-index and accessor-index deletion (when present) and — unless called from the tree walk — orphans every child; RevokeByToken revokes every lease found and the token's own lease, tests the error of every lease revocation and reaches no nil-capable return from its failure edge; " +
			"(3) the pending-deletion map is keyed by the salted ID at every operation and every failing exit resets it so that a retry is not short-circuited; " +
			"(4) storeCommon writes the parent index before the child entry and only after the parent was found; " +
			"(6) API revocations go through the token's lease (revokeCommon / revoke-accessor / lease expiry → revokeTree), and only tabled functions call revokeInternal/revokeTreeInternal; " +
			"(7) the tree walk lists a node's children before revoking it and revokes leaves only; " +
			"(8) child creation vs. tree revocation must be made atomic by a common lock, a transaction or a re-validation (today none: known finding F3); " +
			"(9) the cubbyhole destroyer clears the key the router stores under (double-salted key only for root-namespace non-service tokens, CubbyholeID otherwise), reports no silent success, CubbyholeBackend.revoke returns a failed ClearView, and the router (routeCommon) and IsServiceToken discriminate on the same namespace test and the same two service-token prefixes; " +
			"(10) storeCommon writes the parent index into the parent's namespace view under the parent id salted in the parent's namespace; " +
			"(11) token creation always passes writeSecondary=true and only create/store reach storeCommon; " +
			"(12) the token->lease index is written and read through tokenIndexView of the token's namespace, keyed by salted ids, valued with the lease id, and a failed index read aborts lookupLeasesByToken; " +
			"(13) expiration.revokeCommon reports success after a failed revokeEntry only under force, and Revoke neither forces nor skips the token; " +
			"(14) revokeTree/revokeOrphan succeed only through the walk/revokeInternal on the salted id of the lease's/caller's token; " +
			"(15) sys/leases/revoke answers without error only across a successful Revoke/LazyRevoke; " +
			"(16) RevokeByToken expires each lease in the namespace resolved from that lease's id; " +
			"(17) token tidy deletes a parent-index entry only across successful lookups of the parent and of the child, the child being looked up by the id part of the key in the namespace the key's suffix names; " +
			"(18) writers of the parent-index key (storeCommon, revokeInternal) append the namespace suffix exactly when the token's own namespace is not the root namespace, and the readers that split the key (tree walk, orphaning loop) look the id part up in the namespace the suffix names, falling back only to their tabled own context; " +
			"(19) the namespace a token-addressed request (auth/token/lookup|renew|revoke|revoke-orphan) is switched into is split off the SSC-decoded token whenever the body token is an SSC token, never off the raw body string; " +
			"(20) storeCommon — which writes the revocation marker — salts entry.ID in the namespace resolved from entry.NamespaceID and writes into that namespace's id view, the key and view lookupInternal reads (shared with C19.1).",
		NotDecided: "restart after a prefix of a revocation's writes (crash points); that ClearView removes every cubbyhole key; interleavings other than the declared create-vs-revoke conflict pair; behaviour of the expiration manager's retry queue.",
		Run:        runC04,
	})
}

func runC04(c *eng.Ctx, thorough bool) {
	// ---- C04.5 a revoked/expired token never comes back from lookup (the C02.2 reader-side checks)
	tokenLiveness(c, "C04.5")
	if f := c.Fn("vault.(*TokenStore).revokeInternal"); f != nil {
		// Sites are located by what they are (props/c04follow.go): a call is found directly, through a
		// bound method value, or inside a closure / helper of this package that performs it on every
		// path; values are followed through local aliases, captured variables and helper parameters.
		saltedIdx := nfParamIndex(f, "saltedID")
		// the looked-up entry of the token being revoked: result 0 of lookupInternal(saltedID)
		var entryLk []nfCall
		for _, l := range nfCalls(f, `vault\.\(\*TokenStore\)\.lookupInternal$`) {
			if ok, _ := nfIsParamOf(l.Args[2], nil, f, saltedIdx); ok {
				entryLk = append(entryLk, l)
			}
		}
		isEntry := func(v ssa.Value, fr *nfFrame) bool {
			ok, _ := nfAll(v, fr, func(o eng.Origin) bool {
				ex, isEx := o.Val.(*ssa.Extract)
				if !isEx || ex.Index != 0 {
					return false
				}
				for _, l := range entryLk {
					if ex.Tuple == l.In.Value() {
						return true
					}
				}
				return false
			})
			return ok
		}
		// the deferred closure that deletes the primary entry
		// storage operations are told by the view they go to: the token store's own views
		tsViews := `vault\.\(\*TokenStore\)\.(idView|parentView|accessorView)$`
		var clo *ssa.Function
		var deferIn []ssa.Instruction
		for _, in := range eng.Instrs(f, func(in ssa.Instruction) bool { _, ok := in.(*ssa.Defer); return ok }) {
			if fn, _ := nfFuncValue(in.(*ssa.Defer).Call.Value); fn != nil && fn.Parent() == f {
				if len(nfViewOps(fn, &nfFrame{call: in.(ssa.CallInstruction)}, "Delete", tsViews)) > 0 {
					clo = fn
					deferIn = append(deferIn, in)
				}
			}
		}
		cubbyF := c.P.Field("vault.TokenStore.cubbyholeDestroyer")
		if cubbyF == nil {
			c.Unresolved("vault.TokenStore.cubbyholeDestroyer")
		}
		cubbyS := nfPlain(nfMust(f, nil, func(nc nfCall, fr *nfFrame) bool {
			cc := nc.In.Common()
			return !cc.IsInvoke() && cc.StaticCallee() == nil && nfIsField(cc.Value, fr, cubbyF)
		}, 2))
		cubby := nfAts(cubbyS)
		rbtS := nfPlain(nfSites(f, `vault\.\(\*ExpirationManager\)\.RevokeByToken$`))
		rbt := nfAts(rbtS)
		idxDelS := nfViewOps(f, nil, "Delete", tsViews)
		idxDel := nfAts(idxDelS)
		c.Floor(f, "cubbyholeDestroyer call", len(cubby), 1)
		c.Floor(f, "RevokeByToken call", len(rbt), 1)
		c.Floor(f, "index deletes", len(idxDel), 2)
		teardown := append(append(append([]ssa.Instruction{}, cubby...), rbt...), idxDel...)
		teardown = append(teardown, deferIn...)

		// ---- C04.1 marker before teardown
		c.Clause("R2", "C04.1")
		// the store of the revoked entry itself (argument is the looked-up entry of saltedID)
		var entryStoreS []nfSite
		for _, st := range nfPlain(nfSites(f, `vault\.\(\*TokenStore\)\.store$`)) {
			all := len(st.Effs) > 0
			for _, e := range st.Effs {
				if len(e.Call.Args) < 3 || !isEntry(e.Call.Args[2], e.Fr) {
					all = false
				}
			}
			if all {
				entryStoreS = append(entryStoreS, st)
			}
		}
		entryStore := nfAts(entryStoreS)
		carries := c04MarkerEdges(c, f, true, func(base ssa.Value) bool { return isEntry(base, nil) })
		carries.Desc = `[^vault\.\(\*TokenStore\)\.lookupInternal\(\)#0\.NumUses == -1$]=true`
		marked := eng.Or(eng.Guard{Desc: "success edge of ts.store(entry) with the marker set", Edges: nfOKEdgesOf(entryStoreS)}, carries)
		c.Cut(f, "teardown (cubbyhole, leases, index deletes, arming of the primary delete)", teardown, marked, nil)
		// the value stored before ts.store is the marker
		c.Clause("R3", "C04.1")
		marker, _ := c.P.ConstValue("vault.tokenRevocationPending")
		var markSt []ssa.Instruction
		for _, st := range nfFieldStores(f, c.P.Field("logical.TokenEntry.NumUses")) {
			if st.Fn == f && isEntry(st.Base, st.Fr) && nfIsConst(st.St.Val, st.Fr, marker) {
				markSt = append(markSt, st.St)
			}
		}
		c.Before(f, "entry.NumUses = tokenRevocationPending", markSt, "ts.store(entry)", entryStore)
		// primary delete only in the deferred closure, under ret == nil
		c.Clause("R2", "C04.1")
		if clo == nil {
			c.Violation(f, "deferred primary delete", f.Pos(), "no deferred closure deleting the primary token entry exists", nil)
		} else {
			cloFr := &nfFrame{call: deferIn[0].(ssa.CallInstruction)}
			delS := nfViewOps(clo, cloFr, "Delete", tsViews)
			del := nfAts(delS)
			c.Cut(clo, "idView.Delete(saltedID)", del, eng.G(clo, `^\^ret == nil$`, true), nil)
			c.Clause("R5", "C04.1")
			for _, e := range nfEffs(delS) {
				a := e.Call.Args
				site := "prov{key of the primary delete}"
				if ok, bad := nfIsParamOf(a[len(a)-1], e.Fr, f, saltedIdx); ok {
					c.OK(e.Fn, site, e.Call.In.Pos(), "the key is revokeInternal's saltedID parameter")
				} else {
					c.Violation(e.Fn, site, e.Call.In.Pos(), "the primary entry is deleted under "+eng.Expr(a[len(a)-1])+" ("+bad+"), not under the salted id revokeInternal was called with", nil)
				}
				nfProv(c, e.Fn, "view of the primary delete", e.Call.In, e.Call.Recv, e.Fr, `^call:vault\.\(\*TokenStore\)\.idView$`)
			}
			// in the main body no Delete goes to the id view
			for _, e := range nfEffs(idxDelS) {
				if ok, _ := nfAll(e.Call.Recv, e.Fr, func(o eng.Origin) bool {
					return o.Kind == "call" && regexp.MustCompile(`vault\.\(\*TokenStore\)\.(parentView|accessorView)$`).MatchString(o.Desc)
				}); ok {
					c.OK(e.Fn, "index delete targets an index view", e.Call.In.Pos(), eng.Expr(e.Call.Recv))
				} else {
					c.Violation(e.Fn, "index delete targets an index view", e.Call.In.Pos(), "a Delete in the body of revokeInternal targets "+eng.Expr(e.Call.Recv)+": the primary entry must only be removed by the deferred closure after every other step succeeded", nil)
				}
			}
			// defer armed before the first teardown step
			c.Clause("R3", "C04.1")
			c.Before(f, "defer primary delete", deferIn, "cubbyhole destruction / lease revocation / index deletes", append(append(append([]ssa.Instruction{}, cubby...), rbt...), idxDel...))
		}

		// ---- C04.2 cascade complete on success
		c.Clause("R2", "C04.2")
		succ := eng.SuccessReturns(f, 0)
		var found []eng.Edge
		for _, l := range entryLk {
			found = append(found, eng.ValueNilEdges(eng.ResultValue(l.In, 0), false)...)
		}
		var succAfter []ssa.Instruction
		for _, r := range eng.ReturnsFrom(f, found, nil, nil) {
			for _, s := range succ {
				if s == ssa.Instruction(r) {
					succAfter = append(succAfter, r)
				}
			}
		}
		if c.Floor(f, "nil returns after the entry was found", len(succAfter), 1) {
			check := func(desc string, g eng.Guard, calls []ssa.Instruction) {
				site := "after{entry found} success needs " + desc
				var rest []ssa.Instruction
				for _, r := range succAfter {
					if !nfReturnsErrOf(r, 0, calls) {
						rest = append(rest, r)
					}
				}
				if h := eng.Reach(eng.Query{Fn: f, StartEdges: found, Blocked: g.Edges, Target: eng.IsTarget(rest)}); h != nil {
					c.Violation(f, site, h.Instr.Pos(), "revokeInternal can return nil for an existing token without "+desc, h.Witness)
				} else {
					c.OK(f, site, succAfter[0].Pos(), "every nil return reachable from the entry-found edge crosses: "+g.Desc)
				}
			}
			check("destroying the cubbyhole", eng.Guard{Desc: "success edge of cubbyholeDestroyer", Edges: nfOKEdgesOf(cubbyS)}, cubby)
			check("revoking the token's leases", eng.Guard{Desc: "success edge of RevokeByToken", Edges: nfOKEdgesOf(rbtS)}, rbt)
			// parent index / accessor index / dangling child entries, told apart by the view and the key
			var pDel, aDel []nfSite
			for _, d := range idxDelS {
				isA, isP := len(d.Effs) > 0, len(d.Effs) > 0
				for _, e := range d.Effs {
					a := e.Call.Args
					fromView := func(pat string) bool {
						ok, _ := nfAll(e.Call.Recv, e.Fr, func(o eng.Origin) bool { return o.Kind == "call" && regexp.MustCompile(pat).MatchString(o.Desc) })
						return ok
					}
					if !fromView(`vault\.\(\*TokenStore\)\.accessorView$`) {
						isA = false
					}
					// the token's own parent-index entry: the key ends in the revoked token's salted id
					ownKey := false
					for _, o := range nfOrigins(a[len(a)-1], e.Fr) {
						if p, ok := o.Val.(*ssa.Parameter); ok && p.Parent() == f && saltedIdx >= 0 && f.Params[saltedIdx] == p {
							ownKey = true
						}
					}
					if !fromView(`vault\.\(\*TokenStore\)\.parentView$`) || !ownKey {
						isP = false
					}
				}
				if isA {
					aDel = append(aDel, d)
				} else if isP {
					pDel = append(pDel, d)
				}
			}
			entryField := func(name string, want string) eng.Guard {
				g := eng.Guard{Desc: "[^vault\\.\\(\\*TokenStore\\)\\.lookupInternal\\(\\)#0\\." + name + ` == ""$]=true`}
				g.Edges = c04FieldCmpEdges(f, c.P.Field("logical.TokenEntry."+name), func(base ssa.Value) bool { return isEntry(base, nil) }, want, true)
				return g
			}
			check("deleting its parent-index entry", eng.Or(eng.Guard{Desc: "success edge of parentView.Delete(parent/salted)", Edges: nfOKEdgesOf(pDel)}, entryField("Parent", `""`)), nfAts(pDel))
			check("deleting its accessor-index entry", eng.Or(eng.Guard{Desc: "success edge of accessorView.Delete", Edges: nfOKEdgesOf(aDel)}, entryField("Accessor", `""`)), nfAts(aDel))
			listS := nfViewOps(f, nil, "List", `vault\.\(\*TokenStore\)\.parentView$`)
			check("listing its children (unless called from the tree walk)", eng.Or(eng.Guard{Desc: "success edge of parentView.List(saltedID/)", Edges: nfOKEdgesOf(listS)}, eng.G(f, `^skipOrphan$`, true)), nfAts(listS))
			// every child is orphaned or its dangling index removed: the loop body's failing steps return errors
			c.Clause("R4", "C04.2")
			for _, cs := range nfPlain(nfSites(f, `vault\.\(\*TokenStore\)\.store$`)) {
				isOwn := false
				for _, own := range entryStoreS {
					if own.At == cs.At {
						isOwn = true
					}
				}
				if isOwn {
					continue
				}
				// child store
				if h, _ := nfAfterFailure(f, cs, succAfter, 0, nil); h != nil {
					c.Violation(f, "on{child orphaning failed} no success", h.Instr.Pos(), "revokeInternal can still return nil after failing to orphan a child", h.Witness)
				} else {
					c.OK(f, "on{child orphaning failed} no success", cs.At.Pos(), "a failed child update never leads to a nil return")
				}
			}
		}
		// the token whose leases are revoked / cubbyhole destroyed is the looked-up entry
		c.Clause("R5", "C04.2")
		for _, e := range nfEffs(rbtS) {
			nfProv(c, e.Fn, "entry given to RevokeByToken", e.Call.In, e.Call.Args[2], e.Fr, `^call:vault\.\(\*TokenStore\)\.lookupInternal#0$`)
		}
		for _, e := range nfEffs(cubbyS) {
			nfProv(c, e.Fn, "entry given to cubbyholeDestroyer", e.Call.In, e.Call.Args[2], e.Fr, `^call:vault\.\(\*TokenStore\)\.lookupInternal#0$`)
		}
		for _, l := range entryLk {
			a := l.Args
			if nfIsConst(a[3], nil, "true") && nfIsConst(a[4], nil, "true") {
				c.OK(f, "lookup of the revoked token is salted+tainted", l.In.Pos(), "lookupInternal(saltedID, salted=true, tainted=true): a half-revoked token is found again by a retry")
			} else {
				c.Violation(f, "lookup of the revoked token is salted+tainted", l.In.Pos(), "the revoked token must be looked up with tainted=true, otherwise a token already carrying the marker is not found and a retry reports success without finishing", nil)
			}
		}

		// ---- C04.3 pending-deletion bookkeeping
		// The operations are selected by what they are: sync.Map methods on the value of the field
		// TokenStore.tokensPendingDeletion — read in place, through a local alias or a captured variable —
		// performed directly or by a closure / helper that performs them on every path (props/c04follow.go).
		pendF := c.P.Field("vault.TokenStore.tokensPendingDeletion")
		if pendF == nil {
			c.Unresolved("vault.TokenStore.tokensPendingDeletion")
		}
		pendingOp := func(ops string) func(nfCall, *nfFrame) bool {
			re := regexp.MustCompile(`^sync\.\(\*Map\)\.(` + ops + `)$`)
			return func(nc nfCall, fr *nfFrame) bool {
				return re.MatchString(nc.Name) && len(nc.Args) >= 2 && nfIsField(nc.Args[0], fr, pendF)
			}
		}
		isReset := func(nc nfCall, fr *nfFrame) bool {
			return pendingOp("Store")(nc, fr) && len(nc.Args) >= 3 && nfIsConst(nc.Args[2], fr, "false")
		}
		var cloFr *nfFrame
		if len(deferIn) > 0 {
			cloFr = &nfFrame{call: deferIn[0].(ssa.CallInstruction)}
		}
		c.Clause("R5", "C04.3")
		anyOp := pendingOp("LoadOrStore|Store|Delete|Load")
		opSites := nfMust(f, nil, anyOp, 2)
		if clo != nil {
			opSites = append(opSites, nfMust(clo, cloFr, anyOp, 2)...)
		}
		for _, e := range nfEffs(opSites) {
			site := "prov{key of tokensPendingDeletion." + strings.TrimPrefix(e.Call.Name, "sync.(*Map).") + "}"
			if ok, bad := nfIsParamOf(e.Call.Args[1], e.Fr, f, saltedIdx); ok {
				c.OK(e.Fn, site, e.Call.In.Pos(), "the key is revokeInternal's saltedID parameter")
			} else {
				c.Violation(e.Fn, site, e.Call.In.Pos(), "the pending-deletion state is keyed by "+eng.Expr(e.Call.Args[1])+" ("+bad+"), not by the salted id revokeInternal was called with: the short-circuit and the resets no longer meet on one key", nil)
			}
		}
		c.Floor(f, "tokensPendingDeletion operations", len(opSites), 4)
		c.Clause("R4", "C04.3")
		los := nfAts(nfMust(f, nil, pendingOp("LoadOrStore"), 0))
		if c.Floor(f, "LoadOrStore", len(los), 1) {
			// error returns after LoadOrStore must pass a reset: Store(saltedID,false) in the body, or the arming of the deferred closure that resets
			resets := nfAts(nfMust(f, nil, isReset, 2))
			cloResets := false
			var dl []ssa.Instruction
			if clo != nil {
				st := nfAts(nfMust(clo, cloFr, isReset, 2))
				dl = nfAts(nfMust(clo, cloFr, pendingOp("Delete"), 2))
				isRet := func(in ssa.Instruction) bool { _, ok := in.(*ssa.Return); return ok }
				// every exit of the closure updates the state, and the "clear" side is only taken when ret == nil
				allUpdate := len(st) > 0 && eng.Reach(eng.Query{Fn: clo, Barriers: append(append([]ssa.Instruction{}, st...), dl...), Target: isRet}) == nil
				clearOnlyOnSuccess := true
				if len(dl) > 0 {
					clearOnlyOnSuccess = eng.Reach(eng.Query{Fn: clo, Blocked: eng.CondEdges(clo, `^\^ret == nil$`, true), Target: eng.IsTarget(dl)}) == nil
				}
				cloResets = allUpdate && clearOnlyOnSuccess
				if !cloResets {
					c.Violation(clo, "deferred closure leaves the pending-deletion state consistent", clo.Pos(), "the deferred closure does not store false on every failing exit (or clears the state without ret == nil)", nil)
				} else {
					c.OK(clo, "deferred closure leaves the pending-deletion state consistent", clo.Pos(), "every exit stores false or deletes the state; the delete lies behind ret == nil")
				}
			}
			if cloResets {
				resets = append(resets, deferIn...)
			}
			var errRets []ssa.Instruction
			okSet := map[ssa.Instruction]bool{}
			for _, r := range eng.SuccessReturns(f, 0) {
				okSet[r] = true
			}
			for _, r := range eng.Returns(f) {
				if r.Block().Comment != "recover" && !okSet[r] {
					errRets = append(errRets, r)
				}
			}
			c.Floor(f, "error returns", len(errRets), 6)
			if h := eng.Reach(eng.Query{Fn: f, StartAfter: los[0], Barriers: resets, Target: eng.IsTarget(errRets)}); h != nil {
				c.Violation(f, "after{LoadOrStore(saltedID,true)} every failing exit resets the state", h.Instr.Pos(), "an error return is reachable with tokensPendingDeletion[saltedID] still true: the next attempt short-circuits at 'loaded && state == true' and reports success without revoking", h.Witness)
			} else {
				c.OK(f, "after{LoadOrStore(saltedID,true)} every failing exit resets the state", los[0].Pos(), "every error return is preceded by Store(saltedID,false) or by arming the deferred closure that stores false when ret != nil")
			}
			// success in the closure deletes the state
			if clo != nil {
				if len(dl) == 0 {
					c.Violation(clo, "success clears the state", clo.Pos(), "the deferred closure no longer deletes the pending-deletion state on success", nil)
				} else {
					c.OK(clo, "success clears the state", dl[0].Pos(), "tokensPendingDeletion.Delete(saltedID) present on the success side")
				}
			}
		}
	}

	// ---- C04.2 RevokeByToken
	if f := c.Fn("vault.(*ExpirationManager).RevokeByToken"); f != nil {
		c.Clause("R2", "C04.2")
		succ := eng.SuccessReturns(f, 0)
		c.Floor(f, "nil-capable returns", len(succ), 1)
		nfCutOK(c, f, "nil return", succ, 0, nfGCallOK(f, `vault\.\(\*ExpirationManager\)\.lookupLeasesByToken$`))
		// the loop over the leases: leaving it needs the loop-done edge; a failing lazyRevokeInternal returns its error
		lzS := nfPlain(nfSites(f, `vault\.\(\*ExpirationManager\)\.lazyRevokeInternal$`))
		for _, lz := range lzS {
			c.Clause("R4", "C04.2")
			// RevokeByToken defers, so its results are spilled to a local: the
			// nil-capable returns are those of SuccessReturns (which resolves
			// the spill through the reaching stores), not the returns whose
			// operand is the literal nil.
			site := "on{lazyRevokeInternal failed} no nil return"
			if len(succ) == 0 {
				c.Undecided(f, site, lz.At.Pos(), "no nil-capable return found: the rule cannot be evaluated")
			} else if h, tested := nfAfterFailure(f, lz, succ, 0, nil); h != nil {
				if tested {
					c.Violation(f, site, h.Instr.Pos(), "a nil-capable return is reachable from the failure edge of lazyRevokeInternal: a failed lease revocation can be swallowed", h.Witness)
				} else {
					c.Violation(f, site, lz.At.Pos(), "the error of lazyRevokeInternal is never tested: a failed lease revocation cannot stop RevokeByToken from reporting success", h.Witness)
				}
			} else {
				c.OK(f, site, lz.At.Pos(), fmt.Sprintf("none of the %d nil-capable return(s) is reachable once lazyRevokeInternal failed: failure of a lease revocation is returned", len(succ)))
			}
		}
		c.Clause("R5", "C04.2")
		for _, e := range nfEffs(lzS) {
			nfProv(c, e.Fn, "lease revoked", e.Call.In, e.Call.Args[2], e.Fr, `lookupLeasesByToken`)
		}
		c.Floor(f, "lazyRevokeInternal call", len(lzS), 1)
		c.Clause("R2", "C04.2")
		loopDone := eng.CondEdges(f, `rangeindex.*len\(vault\.\(\*ExpirationManager\)\.lookupLeasesByToken\(\)#0\)$`, false)
		c.Cut(f, "nil return", succ, eng.Guard{Desc: "exit edge of the loop over the token's leases", Edges: loopDone}, nil)
		// the token's own lease is cleaned up without calling back into the token store
		c.Clause("R12", "C04.2")
		for _, rc := range nfCalls(f, `vault\.\(\*ExpirationManager\)\.revokeCommon$`) {
			a := rc.Args
			if nfIsConst(a[3], nil, "false") && nfIsConst(a[4], nil, "true") {
				c.OK(f, "const{revokeCommon(tokenLease, force=false, skipToken=true)}", rc.In.Pos(), "own lease removed without re-entering token revocation")
			} else {
				c.Violation(f, "const{revokeCommon(tokenLease, force=false, skipToken=true)}", rc.In.Pos(), "unexpected flags force="+eng.Expr(a[3])+" skipToken="+eng.Expr(a[4]), nil)
			}
		}
	}
	if f := c.Fn("vault.(*ExpirationManager).lazyRevokeInternal"); f != nil {
		c.Clause("R3", "C04.2")
		pe := nfAts(nfPlain(nfSites(f, `vault\.\(\*ExpirationManager\)\.persistEntry$`)))
		up := nfAts(nfPlain(nfSites(f, `vault\.\(\*ExpirationManager\)\.updatePending$`)))
		if c.Floor(f, "persistEntry", len(pe), 1) && c.Floor(f, "updatePending", len(up), 1) {
			c.Cut(f, "updatePending (queue for immediate revocation)", up, nfGCallOK(f, `vault\.\(\*ExpirationManager\)\.persistEntry$`), nil)
			succ := eng.SuccessReturns(f, 0)
			// success with an existing lease passes updatePending
			leFound := eng.CondEdges(f, `loadEntry.*#0 == nil$`, false)
			if len(leFound) > 0 {
				if h := eng.Reach(eng.Query{Fn: f, StartEdges: leFound, Barriers: up, Target: eng.IsTarget(succ)}); h != nil {
					c.Violation(f, "after{lease found} success needs updatePending", h.Instr.Pos(), "lazy revocation can report success for an existing lease without queueing it", h.Witness)
				} else {
					c.OK(f, "after{lease found} success needs updatePending", up[0].Pos(), "every nil return for an existing lease passes updatePending")
				}
			}
		}
		c.Clause("R5", "C04.2")
		for _, st := range nfFieldStores(f, c.P.Field("vault.leaseEntry.ExpireTime")) {
			if st.Fn == f || st.Fn.Parent() != nil {
				nfProv(c, st.Fn, "expiry set by lazy revocation", st.St, st.St.Val, st.Fr, `^call:time\.Now$`)
			}
		}
	}

	// ---- C04.4 storeCommon
	if f := c.Fn("vault.(*TokenStore).storeCommon"); f != nil {
		c.Clause("R3", "C04.4")
		// the two writes, told apart by the constructor of the view they go to (followed through view
		// aliases and through a closure / helper that performs the Put)
		pPutS := nfViewOps(f, nil, "Put", `vault\.\(\*TokenStore\)\.parentView$`)
		idPutS := nfViewOps(f, nil, "Put", `vault\.\(\*TokenStore\)\.idView$`)
		pPut, idPut := nfAts(pPutS), nfAts(idPutS)
		if c.Floor(f, "parentView.Put", len(pPut), 1) && c.Floor(f, "idView.Put", len(idPut), 1) {
			c.Clause("R2", "C04.4")
			pOK := eng.Guard{Desc: "success edge of parentView.Put", Edges: nfOKEdgesOf(pPutS)}
			entryIdx := nfParamIndex(f, "entry")
			noParent := eng.Guard{Desc: `[^entry\.Parent == ""$]=true`, Edges: c04FieldCmpEdges(f, c.P.Field("logical.TokenEntry.Parent"), func(base ssa.Value) bool {
				ok, _ := nfIsParamOf(base, nil, f, entryIdx)
				return ok
			}, `""`, true)}
			c.Cut(f, "idView.Put (primary entry)", idPut, eng.Or(pOK, eng.G(f, `^writeSecondary$`, false), noParent), nil)
			lkS := nfPlain(nfSites(f, `vault\.\(\*TokenStore\)\.Lookup$`))
			found := eng.Guard{Desc: `[^vault\.\(\*TokenStore\)\.Lookup\(\)#0 == nil$]=false`}
			for _, l := range lkS {
				if l.Fwd {
					found.Edges = append(found.Edges, eng.ValueNilEdges(eng.ResultValue(l.At.(ssa.CallInstruction), 0), false)...)
				}
			}
			c.Cut(f, "parentView.Put (parent index)", pPut, found, nil)
			c.Cut(f, "parentView.Put (parent index)", pPut, nfOKOf(`success edge of vault\.\(\*TokenStore\)\.Lookup$`, lkS), nil)
			c.Clause("R5", "C04.4")
			for _, e := range nfEffs(lkS) {
				nfProv(c, e.Fn, "parent looked up", e.Call.In, e.Call.Args[2], e.Fr, `^field:entry\.Parent$`)
			}
		}
		// ---- C04.8 check-then-act atomicity (R14)
		c.Clause("R14", "C04.8")
		mech := ""
		for _, lk := range nfCalls(f, `locksutil\.LockForKey`) {
			for _, o := range nfOrigins(lk.Args[1], nil) {
				if _, is := nfFieldOf(o, c.P.Field("logical.TokenEntry.Parent")); is {
					mech = "lock keyed by the parent"
				}
			}
		}
		if len(nfCalls(f, `BeginTx$`)) > 0 {
			mech = "storage transaction"
		}
		// re-validation: a parent lookup after the primary put
		for _, ip := range idPut {
			if h := eng.Reach(eng.Query{Fn: f, StartAfter: ip, Target: eng.IsTarget(nfIns(nfCalls(f, `vault\.\(\*TokenStore\)\.(Lookup|lookupInternal)$`)))}); h != nil {
				mech = "re-validation of the parent after the child's writes"
			}
		}
		if g := c.Fn("vault.(*TokenStore).revokeTreeInternal"); g != nil && mech == "" {
			// the revoker side: does it take a parent-keyed lock or re-list after the marker?
			if len(nfCalls(g, `locksutil\.LockForKey`)) > 0 {
				mech = "lock in the tree walk"
			}
		}
		if mech == "" {
			c.Violation(f, "check-then-act{child create vs tree revoke}", f.Pos(), "storeCommon checks the parent (ts.Lookup(entry.Parent)) and then writes the parent index and the child entry, while revokeTreeInternal lists the parent's children and then revokes it; no common lock keyed by the parent, no storage transaction and no re-validation makes the two sequences atomic: a child created in between survives a tree revocation that reports success", nil)
		} else {
			c.OK(f, "check-then-act{child create vs tree revoke}", f.Pos(), "atomicity mechanism present: "+mech)
		}
	}

	// ---- C04.7b the walk acts on each node in that node's own namespace: the context handed to
	// revokeInternal (and to the parent-index list/delete) is the one adjusted to the namespace encoded
	// in the node's id; with the tree's context a descendant in another namespace is looked up in the
	// wrong namespace, "not found", unlinked and left usable (seed C04-b)
	if f := c.Fn("vault.(*TokenStore).revokeTreeInternal"); f != nil {
		c.Clause("R5", "C04.7")
		type nsSite struct {
			fn *ssa.Function
			cl nfCall
			fr *nfFrame
		}
		var sites []nsSite
		nsOps := func(g *ssa.Function, fr *nfFrame) {
			for _, cl := range nfCalls(g, `vault\.\(\*TokenStore\)\.revokeInternal$|^<barrier\.View>\.(List|Delete)$`) {
				sites = append(sites, nsSite{g, cl, fr})
			}
		}
		nsOps(f, nil)
		// a part of the walk moved into a helper of this package that is handed the node's context:
		// its operations are operations of the walk, its context parameter is the argument passed
		for _, ci := range nfAllCalls(f) {
			g := nfBody(ci, f)
			if _, plain := ci.(*ssa.Call); !plain || g == nil || g == f || g == c.P.Func("vault.(*TokenStore).revokeInternal") {
				continue // revokeInternal is a site of the walk itself
			}
			handed := false
			for _, a := range ci.Common().Args {
				for _, o := range eng.Origins(a) {
					if o.Kind == "call" && strings.HasSuffix(o.Desc, "namespace.ContextWithNamespace") {
						handed = true
					}
				}
			}
			if handed {
				nsOps(g, &nfFrame{call: ci})
			}
		}
		n := 0
		for _, s := range sites {
			cl := s.cl.In
			cc := cl.Common()
			ctxArg := s.cl.Args[0]
			if s.cl.Recv == nil {
				ctxArg = s.cl.Args[1]
			}
			n++
			adjusted, other := false, ""
			for _, o := range nfOrigins(ctxArg, s.fr) {
				switch {
				case o.Kind == "call" && strings.HasSuffix(o.Desc, "namespace.ContextWithNamespace"):
					adjusted = true
					// the namespace it is adjusted to is the one named by the node's id
					if call, ok := o.Val.(*ssa.Call); ok {
						if ok2, bad, _ := eng.OriginsMatch(call.Call.Args[1], `^call:vault\.\(\*Core\)\.NamespaceByID#0$`); !ok2 {
							other = "ContextWithNamespace(" + bad + ")"
						}
					}
				case o.Kind == "param":
				default:
					other = o.Kind + ":" + o.Desc
				}
			}
			site := "context of " + eng.CalleeName(cc) + " = the node's own namespace"
			if adjusted && other == "" {
				c.OK(s.fn, site, cl.Pos(), eng.Expr(ctxArg))
			} else {
				c.Violation(s.fn, site, cl.Pos(), "the tree walk hands "+eng.Expr(ctxArg)+" to "+eng.CalleeName(cc)+" ("+other+"): a descendant that lives in another namespace is looked up in the wrong one", nil)
			}
		}
		c.Floor(f, "namespace-sensitive operations of the tree walk", n, 3)
		nsIDF := c.P.Field("logical.TokenEntry.NamespaceID")
		for _, nb := range nfCalls(f, `vault\.\(\*Core\)\.NamespaceByID$`) {
			a := nb.Args
			s := eng.Expr(a[len(a)-1])
			ok, _ := nfAll(a[len(a)-1], nil, func(o eng.Origin) bool {
				if _, is := nfFieldOf(o, nsIDF); is {
					return true
				}
				return o.Kind == "call" && strings.HasSuffix(o.Desc, "namespace.SplitIDFromString#1")
			})
			if ok {
				c.OK(f, "namespace looked up for a node", nb.In.Pos(), s)
			} else {
				c.Violation(f, "namespace looked up for a node", nb.In.Pos(), "NamespaceByID("+s+") is not the namespace part of the node id", nil)
			}
		}
	}

	// ---- C04.7 tree walk
	if f := c.Fn("vault.(*TokenStore).revokeTreeInternal"); f != nil {
		c.Clause("R3", "C04.7")
		listS := nfViewOps(f, nil, "List", `vault\.\(\*TokenStore\)\.parentView$`)
		list := nfAts(listS)
		revC := nfCalls(f, `vault\.\(\*TokenStore\)\.revokeInternal$`)
		rev := nfIns(revC)
		if c.Floor(f, "parentView.List", len(list), 1) && c.Floor(f, "revokeInternal", len(rev), 1) {
			c.Cut(f, "revokeInternal(node)", rev, nfOKOf(`success edge of <barrier\.View>\.List$`, listS), nil)
			// leaves only: the emptiness test is selected by what it tests — the slice that is pushed
			// onto the stack the node was read from — not by the name or shape of that slice
			if lg, why := c04LeafGuard(f, rev); why != "" {
				c.Undecided(f, "sink{revokeInternal(node)} guard{"+lg.Desc+"}", rev[0].Pos(), why+" (moved? the rule cannot be evaluated)")
			} else {
				c.Cut(f, "revokeInternal(node)", rev, lg, nil)
			}
			c.Clause("R12", "C04.7")
			for _, r := range revC {
				a := r.Args
				if nfIsConst(a[3], nil, "true") {
					c.OK(f, "const{revokeInternal(..., skipOrphan=true)}", r.In.Pos(), "leaf revocation inside the tree walk skips orphaning")
				} else {
					c.Violation(f, "const{revokeInternal(..., skipOrphan=true)}", r.In.Pos(), "skipOrphan="+eng.Expr(a[3]), nil)
				}
			}
			// failure of a leaf revocation aborts the walk with an error
			c.Clause("R4", "C04.7")
			for _, r := range revC {
				if _, plain := r.In.(*ssa.Call); !plain {
					continue
				}
				if h, _ := nfAfterFailure(f, nfSite{At: r.In, Fwd: true}, eng.SuccessReturns(f, 0), 0, nil); h != nil {
					c.Violation(f, "on{leaf revocation failed} no success", h.Instr.Pos(), "the tree walk can report success after a leaf revocation failed", h.Witness)
				} else {
					c.OK(f, "on{leaf revocation failed} no success", r.In.Pos(), "a failed leaf revocation never leads to a nil return")
				}
			}
		}
	}

	// ---- C04.6 who may call the revocation primitives; API paths go through the lease
	c.Clause("R1", "C04.6")
	sites := c.P.FindCalls(mustStatic(c, "vault.(*TokenStore).revokeInternal"), nil)
	c.CallerTable("TokenStore.revokeInternal", sites, map[string]string{
		"vault.(*TokenStore).revokeOrphan":       "revoke-orphan and internal cleanup of fresh tokens",
		"vault.(*TokenStore).revokeTreeInternal": "leaf step of the tree walk",
	}, 2)
	sites = c.P.FindCalls(mustStatic(c, "vault.(*TokenStore).revokeTreeInternal"), nil)
	c.CallerTable("TokenStore.revokeTreeInternal", sites, map[string]string{
		"vault.(*TokenStore).revokeTree": "lease expiry / revocation of an auth lease (expiration.revokeEntry)",
	}, 1)
	sites = c.P.FindCalls(mustStatic(c, "vault.(*TokenStore).revokeTree"), nil)
	c.CallerTable("TokenStore.revokeTree", sites, map[string]string{
		"vault.(*ExpirationManager).revokeEntry": "revocation of an auth lease",
	}, 1)
	if f := c.Fn("vault.(*ExpirationManager).revokeEntry"); f != nil {
		c.Clause("R2", "C04.6")
		succ := eng.SuccessReturns(f, 0)
		leIdx := nfParamIndex(f, "le")
		authArm := c04FieldCmpEdges(f, c.P.Field("vault.leaseEntry.Auth"), func(base ssa.Value) bool {
			ok, _ := nfIsParamOf(base, nil, f, leIdx)
			return ok
		}, "nil", false)
		if len(authArm) == 0 {
			c.Violation(f, "auth lease arm", f.Pos(), "revokeEntry no longer distinguishes auth leases", nil)
		} else {
			rtS := nfPlain(nfSites(f, `vault\.\(\*TokenStore\)\.revokeTree$`))
			rt := eng.Guard{Desc: "success edge of tokenStore.revokeTree", Edges: nfOKEdgesOf(rtS)}
			var rest []ssa.Instruction
			for _, r := range succ {
				if !nfReturnsErrOf(r, 0, nfAts(rtS)) {
					rest = append(rest, r)
				}
			}
			if h := eng.Reach(eng.Query{Fn: f, StartEdges: authArm, Blocked: rt.Edges, Target: eng.IsTarget(rest)}); h != nil {
				c.Violation(f, "on{auth lease} success needs revokeTree", h.Instr.Pos(), "revocation of a token's lease can succeed without revoking the token tree", h.Witness)
			} else {
				c.OK(f, "on{auth lease} success needs revokeTree", authArm[0].From.Instrs[len(authArm[0].From.Instrs)-1].Pos(), "an auth lease is revoked only through tokenStore.revokeTree")
			}
		}
	}
	for _, h := range []struct{ fn, what string }{
		{"vault.(*TokenStore).revokeCommon", "auth/token/revoke(-self)"},
		{"vault.(*TokenStore).handleUpdateRevokeAccessor", "auth/token/revoke-accessor"},
	} {
		f := c.P.Func(h.fn)
		if f == nil {
			c.Unresolved(h.fn)
			continue
		}
		c.Clause("R2", "C04.6")
		var succ []ssa.Instruction
		idx := f.Signature.Results().Len() - 1
		for _, r := range eng.SuccessReturns(f, idx) {
			ret := r.(*ssa.Return)
			// a "success" here is a nil error with no error response
			if idx > 0 {
				if ok, _, _ := eng.OriginsMatch(ret.Results[0], `^call:logical\.ErrorResponse$`); ok {
					continue
				}
			}
			succ = append(succ, r)
		}
		var tokFound []eng.Edge
		for _, l := range nfPlain(nfSites(f, `vault\.\(\*TokenStore\)\.Lookup$`)) {
			if l.Fwd {
				tokFound = append(tokFound, eng.ValueNilEdges(eng.ResultValue(l.At.(ssa.CallInstruction), 0), false)...)
			}
		}
		var after []ssa.Instruction
		for _, r := range eng.ReturnsFrom(f, tokFound, nil, nil) {
			for _, s2 := range succ {
				if s2 == ssa.Instruction(r) {
					after = append(after, r)
				}
			}
		}
		succ = after
		if !c.Floor(f, "success returns after the token was found", len(succ), 1) {
			continue
		}
		nfCutOK(c, f, h.what+" success", succ, idx, nfGCallOK(f, `vault\.\(\*ExpirationManager\)\.CreateOrFetchRevocationLeaseByToken$`))
		nfCutOK(c, f, h.what+" success", succ, idx, nfGCallOK(f, `vault\.\(\*ExpirationManager\)\.Revoke$`))
	}
	if f := c.Fn("vault.(*TokenStore).handleRevokeOrphan"); f != nil {
		c.Clause("R2", "C04.6")
		ro := nfAts(nfSites(f, `vault\.\(\*TokenStore\)\.revokeOrphan$`))
		if c.Floor(f, "revokeOrphan call", len(ro), 1) {
			c.Cut(f, "revokeOrphan (children keep living)", ro, eng.G(f, `SudoPrivilege\(\)$`, true), nil)
		}
	}
	runC04Gaps2(c)
	// ---- C04.20 the revocation marker (ts.store) is written under the key lookup reads (shared with C19.1, props/c19g2.go)
	tokenEntryKeyAgreement(c, "C04.20")
}

// okEdgesOf: success edges of all calls in f matching pat.
func okEdgesOf(f *ssa.Function, pat string) []eng.Edge {
	var out []eng.Edge
	for _, nc := range nfCalls(f, pat) {
		if _, isDefer := nc.In.(*ssa.Defer); isDefer {
			continue
		}
		out = append(out, eng.CallOKEdges(nc.In)...)
	}
	return out
}

// c04LeafGuard: the edges on which the tree walk knows that the node has no
// (unvisited) child. The walk reads the node off a stack (a slice indexed for
// the id handed to revokeInternal) and pushes the node's children onto it
// (append(stack, children...)); a leaf is a node for which nothing is pushed:
// the guard is a comparison of len(children) with a constant that holds for 0
// and for no larger length, children being the very value that is pushed.
func c04LeafGuard(f *ssa.Function, rev []ssa.Instruction) (eng.Guard, string) {
	g := eng.Guard{Desc: "len(children pushed onto the walk's stack) == 0"}
	// the stack: what the node id is indexed out of
	var stacks []ssa.Value
	for _, r := range rev {
		a := nfCallOf(r.(ssa.CallInstruction)).Args
		if len(a) < 3 {
			continue
		}
		var fromIdx func(v ssa.Value, depth int)
		fromIdx = func(v ssa.Value, depth int) {
			if depth > 4 {
				return
			}
			for _, o := range eng.Origins(v) {
				switch x := o.Val.(type) {
				case *ssa.Extract:
					if call, ok := x.Tuple.(*ssa.Call); ok && x.Index == 0 && strings.HasSuffix(o.Desc, "namespace.SplitIDFromString#0") && len(call.Call.Args) == 1 {
						fromIdx(call.Call.Args[0], depth+1)
					}
				case *ssa.UnOp:
					if ia, ok := x.X.(*ssa.IndexAddr); ok && x.Op == token.MUL {
						stacks = append(stacks, ia.X)
					}
				}
			}
		}
		fromIdx(a[2], 0)
	}
	if len(stacks) == 0 {
		return g, "the node handed to revokeInternal is not read off a stack slice"
	}
	// what is pushed: the spread operand of the appends that flow into the stack
	pushed := map[ssa.Value]bool{}
	seen := map[ssa.Value]bool{}
	var flow func(v ssa.Value)
	flow = func(v ssa.Value) {
		if v == nil || seen[v] {
			return
		}
		seen[v] = true
		switch x := v.(type) {
		case *ssa.Phi:
			for _, e := range x.Edges {
				flow(e)
			}
		case *ssa.Slice:
			flow(x.X)
		case *ssa.Call:
			if b, ok := x.Call.Value.(*ssa.Builtin); ok && b.Name() == "append" && len(x.Call.Args) == 2 {
				pushed[x.Call.Args[1]] = true
				flow(x.Call.Args[0])
			}
		}
	}
	for _, s := range stacks {
		flow(s)
	}
	if len(pushed) == 0 {
		return g, "nothing is appended to the stack the node is read from"
	}
	isLenPushed := func(v ssa.Value) bool {
		call, ok := v.(*ssa.Call)
		if !ok {
			return false
		}
		b, ok := call.Call.Value.(*ssa.Builtin)
		return ok && b.Name() == "len" && len(call.Call.Args) == 1 && pushed[call.Call.Args[0]]
	}
	for _, in := range eng.Instrs(f, func(in ssa.Instruction) bool { _, ok := in.(*ssa.BinOp); return ok }) {
		b := in.(*ssa.BinOp)
		at, k, ok := nfCmpConst(b, isLenPushed)
		if !ok || !nfSeparates(at, k, 0) {
			continue
		}
		g.Edges = append(g.Edges, eng.BoolEdges(b, at(0))...)
	}
	return g, ""
}
