package props

import (
	"fmt"
	"go/token"
	"regexp"
	"strings"

	"golang.org/x/tools/go/ssa"

	"obsa/eng"
)

func init() {
	register(&Prop{
		ID: "C04",
		Explanation: "Structural necessary conditions of 'revocation is final and cascades', on every CFG path of the token store's revocation code: " +
			"(1) TokenStore.revokeInternal persists the revocation marker (NumUses = tokenRevocationPending, store succeeded, or the entry already carries it) before any teardown step, and deletes the primary entry last, in the deferred closure, only when no step failed; " +
			"(2) a nil return after the entry was found crosses the success edges of cubbyhole destruction, lease revocation (RevokeByToken), parent-index and accessor-index deletion (when present) and — unless called from the tree walk — orphans every child; RevokeByToken revokes every lease found and the token's own lease, tests the error of every lease revocation and reaches no nil-capable return from its failure edge; " +
			"(3) the pending-deletion map is keyed by the salted ID at every operation and every failing exit resets it so that a retry is not short-circuited; " +
			"(4) storeCommon writes the parent index before the child entry and only after the parent was found; " +
			"(6) API revocations go through the token's lease (revokeCommon / revoke-accessor / lease expiry → revokeTree), and only tabled functions call revokeInternal/revokeTreeInternal; " +
			"(7) the tree walk lists a node's children before revoking it and revokes leaves only; " +
			"(8) child creation vs. tree revocation must be made atomic by a common lock, a transaction or a re-validation (today none: known finding F3); " +
			"(9) the cubbyhole destroyer clears the key the router stores under (double-salted key only for root-namespace non-service tokens, CubbyholeID otherwise), reports no silent success, CubbyholeBackend.revoke returns a failed ClearView, and the router (routeCommon) and IsServiceToken discriminate on the same namespace test and the same two service-token prefixes; " +
			"(10) storeCommon writes the parent index into the parent's namespace view under the parent id salted in the parent's namespace; " +
			"(11) token creation always passes writeSecondary=true and only create/store reach storeCommon; " +
			"(12) the token->lease index is written and read through tokenIndexView of the token's namespace, keyed by salted ids, valued with the lease id, and a failed index read aborts lookupLeasesByToken; " +
			"(13) expiration.revokeCommon reports success after a failed revokeEntry only under force, and Revoke neither forces nor skips the token; " +
			"(14) revokeTree/revokeOrphan succeed only through the walk/revokeInternal on the salted id of the lease's/caller's token; " +
			"(15) sys/leases/revoke answers without error only across a successful Revoke/LazyRevoke; " +
			"(16) RevokeByToken expires each lease in the namespace resolved from that lease's id; " +
			"(17) token tidy deletes a parent-index entry only across successful lookups of the parent and of the child, the child being looked up by the id part of the key in the namespace the key's suffix names; " +
			"(18) writers of the parent-index key (storeCommon, revokeInternal) append the namespace suffix exactly when the token's own namespace is not the root namespace, and the readers that split the key (tree walk, orphaning loop) look the id part up in the namespace the suffix names, falling back only to their tabled own context; " +
			"(19) the namespace a token-addressed request (auth/token/lookup|renew|revoke|revoke-orphan) is switched into is split off the SSC-decoded token whenever the body token is an SSC token, never off the raw body string; " +
			"(20) storeCommon — which writes the revocation marker — salts entry.ID in the namespace resolved from entry.NamespaceID and writes into that namespace's id view, the key and view lookupInternal reads (shared with C19.1).",
		NotDecided: "restart after a prefix of a revocation's writes (crash points); that ClearView removes every cubbyhole key; interleavings other than the declared create-vs-revoke conflict pair; behaviour of the expiration manager's retry queue.",
		Run:        runC04,
	})
}

func runC04(c *eng.Ctx, thorough bool) {
	// ---- C04.5 a revoked/expired token never comes back from lookup (the C02.2 reader-side checks)
	tokenLiveness(c, "C04.5")
	if f := c.Fn("vault.(*TokenStore).revokeInternal"); f != nil {
		entry := `vault\.\(\*TokenStore\)\.lookupInternal\(\)#0`
		// the deferred closure that deletes the primary entry
		var clo *ssa.Function
		var deferIn []ssa.Instruction
		for _, in := range eng.Instrs(f, func(in ssa.Instruction) bool { _, ok := in.(*ssa.Defer); return ok }) {
			if mc, ok := in.(*ssa.Defer).Call.Value.(*ssa.MakeClosure); ok {
				fn := mc.Fn.(*ssa.Function)
				if len(eng.Calls(fn, `<barrier\.View>\.Delete$`)) > 0 {
					clo = fn
					deferIn = append(deferIn, in)
				}
			}
		}
		cubby := instrsOf(eng.Calls(f, `^dyn:ts\.cubbyholeDestroyer$`))
		// direct, or through a bound method value (props/c04follow.go)
		rbtCalls := nfCalls(f, `vault\.\(\*ExpirationManager\)\.RevokeByToken$`)
		rbt := nfIns(rbtCalls)
		var idxDel []ssa.Instruction
		for _, d := range eng.Calls(f, `<barrier\.View>\.Delete$`) {
			idxDel = append(idxDel, d)
		}
		c.Floor(f, "cubbyholeDestroyer call", len(cubby), 1)
		c.Floor(f, "RevokeByToken call", len(rbt), 1)
		c.Floor(f, "index deletes", len(idxDel), 2)
		teardown := append(append(append([]ssa.Instruction{}, cubby...), rbt...), idxDel...)
		teardown = append(teardown, deferIn...)

		// ---- C04.1 marker before teardown
		c.Clause("R2", "C04.1")
		marked := eng.Or(
			eng.GCallOK(f, `vault\.\(\*TokenStore\)\.store$`),
			eng.G(f, `^`+entry+`\.NumUses == -1$`, true))
		// GCallOK inside Or loses the must-pass part; state it separately through the edges only
		st := eng.GCallOK(f, `vault\.\(\*TokenStore\)\.store$`)
		var stEdges []eng.Edge
		for _, call := range eng.Calls(f, `vault\.\(\*TokenStore\)\.store$`) {
			// only the store of the revoked entry itself (argument is the looked-up entry of saltedID)
			if ok, _, _ := eng.OriginsMatch(call.Common().Args[2], `^call:vault\.\(\*TokenStore\)\.lookupInternal#0$`); ok {
				if lk, isCall := call.Common().Args[2].(*ssa.Extract); isCall {
					if lc, ok := lk.Tuple.(*ssa.Call); ok && eng.Expr(lc.Call.Args[2]) == "saltedID" {
						stEdges = append(stEdges, eng.CallOKEdges(call)...)
					}
				}
			}
		}
		_ = st
		marked = eng.Or(eng.Guard{Desc: "success edge of ts.store(entry) with the marker set", Edges: stEdges}, eng.G(f, `^`+entry+`\.NumUses == -1$`, true))
		c.Cut(f, "teardown (cubbyhole, leases, index deletes, arming of the primary delete)", teardown, marked, nil)
		// the value stored before ts.store is the marker
		c.Clause("R3", "C04.1")
		var markSt []ssa.Instruction
		for _, s := range eng.Stores(f, `^`+entry+`\.NumUses$`) {
			if eng.Expr(s.Val) == "-1" {
				markSt = append(markSt, s)
			}
		}
		var entryStore []ssa.Instruction
		for _, call := range eng.Calls(f, `vault\.\(\*TokenStore\)\.store$`) {
			if lk, ok := call.Common().Args[2].(*ssa.Extract); ok {
				if lc, ok := lk.Tuple.(*ssa.Call); ok && eng.Expr(lc.Call.Args[2]) == "saltedID" {
					entryStore = append(entryStore, call)
				}
			}
		}
		c.Before(f, "entry.NumUses = tokenRevocationPending", markSt, "ts.store(entry)", entryStore)
		// primary delete only in the deferred closure, under ret == nil
		c.Clause("R2", "C04.1")
		if clo == nil {
			c.Violation(f, "deferred primary delete", f.Pos(), "no deferred closure deleting the primary token entry exists", nil)
		} else {
			del := instrsOf(eng.Calls(clo, `<barrier\.View>\.Delete$`))
			c.Cut(clo, "idView.Delete(saltedID)", del, eng.G(clo, `^\^ret == nil$`, true), nil)
			c.Clause("R5", "C04.1")
			for _, d := range del {
				a := d.(ssa.CallInstruction).Common().Args
				c.Prov(clo, "key of the primary delete", d, a[len(a)-1], `^freevar:saltedID$`)
				c.Prov(clo, "view of the primary delete", d, d.(ssa.CallInstruction).Common().Value, `^call:vault\.\(\*TokenStore\)\.idView$`)
			}
			// in the main body no Delete goes to the id view
			for _, d := range idxDel {
				recv := d.(ssa.CallInstruction).Common().Value
				if ok, _, _ := eng.OriginsMatch(recv, `^call:vault\.\(\*TokenStore\)\.(parentView|accessorView)$`); ok {
					c.OK(f, "index delete targets an index view", d.Pos(), eng.Expr(recv))
				} else {
					c.Violation(f, "index delete targets an index view", d.Pos(), "a Delete in the body of revokeInternal targets "+eng.Expr(recv)+": the primary entry must only be removed by the deferred closure after every other step succeeded", nil)
				}
			}
			// defer armed before the first teardown step
			c.Clause("R3", "C04.1")
			c.Before(f, "defer primary delete", deferIn, "cubbyhole destruction / lease revocation / index deletes", append(append(append([]ssa.Instruction{}, cubby...), rbt...), idxDel...))
		}

		// ---- C04.2 cascade complete on success
		c.Clause("R2", "C04.2")
		var succ []ssa.Instruction
		for _, r := range eng.SuccessReturns(f, 0) {
			// only successes after the entry was found: reachable from the entry != nil edge
			succ = append(succ, r)
		}
		var found []eng.Edge
		for _, l := range eng.Calls(f, `vault\.\(\*TokenStore\)\.lookupInternal$`) {
			if eng.Expr(l.Common().Args[2]) == "saltedID" {
				found = append(found, eng.ValueNilEdges(eng.ResultValue(l, 0), false)...)
			}
		}
		var succAfter []ssa.Instruction
		for _, r := range eng.ReturnsFrom(f, found, nil, nil) {
			for _, s := range succ {
				if s == ssa.Instruction(r) {
					succAfter = append(succAfter, r)
				}
			}
		}
		if c.Floor(f, "nil returns after the entry was found", len(succAfter), 1) {
			isAfter := eng.IsTarget(succAfter)
			check := func(desc string, g eng.Guard) {
				site := "after{entry found} success needs " + desc
				if h := eng.Reach(eng.Query{Fn: f, StartEdges: found, Blocked: g.Edges, Target: isAfter}); h != nil {
					c.Violation(f, site, h.Instr.Pos(), "revokeInternal can return nil for an existing token without "+desc, h.Witness)
				} else {
					c.OK(f, site, succAfter[0].Pos(), "every nil return reachable from the entry-found edge crosses: "+g.Desc)
				}
			}
			check("destroying the cubbyhole", eng.Guard{Desc: "success edge of cubbyholeDestroyer", Edges: okEdgesOf(f, `^dyn:ts\.cubbyholeDestroyer$`)})
			check("revoking the token's leases", eng.Guard{Desc: "success edge of RevokeByToken", Edges: okEdgesOf(f, `vault\.\(\*ExpirationManager\)\.RevokeByToken$`)})
			// parent index
			var pDel, aDel, cDel []eng.Edge
			for _, d := range eng.Calls(f, `<barrier\.View>\.Delete$`) {
				recv := eng.Expr(d.Common().Value)
				a := d.Common().Args
				key := eng.ExprDeep(a[len(a)-1])
				switch {
				case strings.Contains(recv, "accessorView"):
					aDel = append(aDel, eng.CallOKEdges(d)...)
				case strings.Contains(recv, "parentView") && strings.Contains(key, "saltedID") && !strings.Contains(key, "SplitIDFromString"):
					pDel = append(pDel, eng.CallOKEdges(d)...)
				default:
					cDel = append(cDel, eng.CallOKEdges(d)...)
				}
			}
			check("deleting its parent-index entry", eng.Or(eng.Guard{Desc: "success edge of parentView.Delete(parent/salted)", Edges: pDel}, eng.G(f, `^`+entry+`\.Parent == ""$`, true)))
			check("deleting its accessor-index entry", eng.Or(eng.Guard{Desc: "success edge of accessorView.Delete", Edges: aDel}, eng.G(f, `^`+entry+`\.Accessor == ""$`, true)))
			check("listing its children (unless called from the tree walk)", eng.Or(eng.Guard{Desc: "success edge of parentView.List(saltedID/)", Edges: okEdgesOf(f, `<barrier\.View>\.List$`)}, eng.G(f, `^skipOrphan$`, true)))
			// every child is orphaned or its dangling index removed: the loop body's failing steps return errors
			c.Clause("R4", "C04.2")
			for _, cs := range eng.Calls(f, `vault\.\(\*TokenStore\)\.store$`) {
				if lk, ok := cs.Common().Args[2].(*ssa.Extract); ok {
					if lc, ok := lk.Tuple.(*ssa.Call); ok && eng.Expr(lc.Call.Args[2]) != "saltedID" {
						// child store
						fe := eng.CallFailEdges(cs)
						if h := eng.Reach(eng.Query{Fn: f, StartEdges: fe, Target: eng.IsTarget(succAfter)}); h != nil {
							c.Violation(f, "on{child orphaning failed} no success", h.Instr.Pos(), "revokeInternal can still return nil after failing to orphan a child", h.Witness)
						} else {
							c.OK(f, "on{child orphaning failed} no success", cs.Pos(), "a failed child update never leads to a nil return")
						}
					}
				}
			}
		}
		// the token whose leases are revoked / cubbyhole destroyed is the looked-up entry
		c.Clause("R5", "C04.2")
		for _, r := range rbtCalls {
			c.Prov(f, "entry given to RevokeByToken", r.In, r.Args[2], `^call:vault\.\(\*TokenStore\)\.lookupInternal#0$`)
		}
		for _, r := range cubby {
			c.Prov(f, "entry given to cubbyholeDestroyer", r, r.(ssa.CallInstruction).Common().Args[2], `^call:vault\.\(\*TokenStore\)\.lookupInternal#0$`)
		}
		for _, l := range eng.Calls(f, `vault\.\(\*TokenStore\)\.lookupInternal$`) {
			a := l.Common().Args
			if eng.Expr(a[2]) == "saltedID" {
				if eng.Expr(a[3]) == "true" && eng.Expr(a[4]) == "true" {
					c.OK(f, "lookup of the revoked token is salted+tainted", l.Pos(), "lookupInternal(saltedID, salted=true, tainted=true): a half-revoked token is found again by a retry")
				} else {
					c.Violation(f, "lookup of the revoked token is salted+tainted", l.Pos(), "the revoked token must be looked up with tainted=true, otherwise a token already carrying the marker is not found and a retry reports success without finishing", nil)
				}
			}
		}

		// ---- C04.3 pending-deletion bookkeeping
		// The operations are selected by what they are: sync.Map methods on the value of the field
		// TokenStore.tokensPendingDeletion — read in place, through a local alias or a captured variable —
		// performed directly or by a closure / helper that performs them on every path (props/c04follow.go).
		pendF := c.P.Field("vault.TokenStore.tokensPendingDeletion")
		if pendF == nil {
			c.Unresolved("vault.TokenStore.tokensPendingDeletion")
		}
		saltedIdx := nfParamIndex(f, "saltedID")
		pendingOp := func(ops string) func(nfCall, *nfFrame) bool {
			re := regexp.MustCompile(`^sync\.\(\*Map\)\.(` + ops + `)$`)
			return func(nc nfCall, fr *nfFrame) bool {
				return re.MatchString(nc.Name) && len(nc.Args) >= 2 && nfIsField(nc.Args[0], fr, pendF)
			}
		}
		isReset := func(nc nfCall, fr *nfFrame) bool {
			return pendingOp("Store")(nc, fr) && len(nc.Args) >= 3 && nfIsConst(nc.Args[2], fr, "false")
		}
		var cloFr *nfFrame
		if len(deferIn) > 0 {
			cloFr = &nfFrame{call: deferIn[0].(ssa.CallInstruction)}
		}
		c.Clause("R5", "C04.3")
		anyOp := pendingOp("LoadOrStore|Store|Delete|Load")
		opSites := nfMust(f, nil, anyOp, 2)
		if clo != nil {
			opSites = append(opSites, nfMust(clo, cloFr, anyOp, 2)...)
		}
		for _, e := range nfEffs(opSites) {
			site := "prov{key of tokensPendingDeletion." + strings.TrimPrefix(e.Call.Name, "sync.(*Map).") + "}"
			if ok, bad := nfIsParamOf(e.Call.Args[1], e.Fr, f, saltedIdx); ok {
				c.OK(e.Fn, site, e.Call.In.Pos(), "the key is revokeInternal's saltedID parameter")
			} else {
				c.Violation(e.Fn, site, e.Call.In.Pos(), "the pending-deletion state is keyed by "+eng.Expr(e.Call.Args[1])+" ("+bad+"), not by the salted id revokeInternal was called with: the short-circuit and the resets no longer meet on one key", nil)
			}
		}
		c.Floor(f, "tokensPendingDeletion operations", len(opSites), 4)
		c.Clause("R4", "C04.3")
		los := nfAts(nfMust(f, nil, pendingOp("LoadOrStore"), 0))
		if c.Floor(f, "LoadOrStore", len(los), 1) {
			// error returns after LoadOrStore must pass a reset: Store(saltedID,false) in the body, or the arming of the deferred closure that resets
			resets := nfAts(nfMust(f, nil, isReset, 2))
			cloResets := false
			var dl []ssa.Instruction
			if clo != nil {
				st := nfAts(nfMust(clo, cloFr, isReset, 2))
				dl = nfAts(nfMust(clo, cloFr, pendingOp("Delete"), 2))
				isRet := func(in ssa.Instruction) bool { _, ok := in.(*ssa.Return); return ok }
				// every exit of the closure updates the state, and the "clear" side is only taken when ret == nil
				allUpdate := len(st) > 0 && eng.Reach(eng.Query{Fn: clo, Barriers: append(append([]ssa.Instruction{}, st...), dl...), Target: isRet}) == nil
				clearOnlyOnSuccess := true
				if len(dl) > 0 {
					clearOnlyOnSuccess = eng.Reach(eng.Query{Fn: clo, Blocked: eng.CondEdges(clo, `^\^ret == nil$`, true), Target: eng.IsTarget(dl)}) == nil
				}
				cloResets = allUpdate && clearOnlyOnSuccess
				if !cloResets {
					c.Violation(clo, "deferred closure leaves the pending-deletion state consistent", clo.Pos(), "the deferred closure does not store false on every failing exit (or clears the state without ret == nil)", nil)
				} else {
					c.OK(clo, "deferred closure leaves the pending-deletion state consistent", clo.Pos(), "every exit stores false or deletes the state; the delete lies behind ret == nil")
				}
			}
			if cloResets {
				resets = append(resets, deferIn...)
			}
			var errRets []ssa.Instruction
			okSet := map[ssa.Instruction]bool{}
			for _, r := range eng.SuccessReturns(f, 0) {
				okSet[r] = true
			}
			for _, r := range eng.Returns(f) {
				if r.Block().Comment != "recover" && !okSet[r] {
					errRets = append(errRets, r)
				}
			}
			c.Floor(f, "error returns", len(errRets), 6)
			if h := eng.Reach(eng.Query{Fn: f, StartAfter: los[0], Barriers: resets, Target: eng.IsTarget(errRets)}); h != nil {
				c.Violation(f, "after{LoadOrStore(saltedID,true)} every failing exit resets the state", h.Instr.Pos(), "an error return is reachable with tokensPendingDeletion[saltedID] still true: the next attempt short-circuits at 'loaded && state == true' and reports success without revoking", h.Witness)
			} else {
				c.OK(f, "after{LoadOrStore(saltedID,true)} every failing exit resets the state", los[0].Pos(), "every error return is preceded by Store(saltedID,false) or by arming the deferred closure that stores false when ret != nil")
			}
			// success in the closure deletes the state
			if clo != nil {
				if len(dl) == 0 {
					c.Violation(clo, "success clears the state", clo.Pos(), "the deferred closure no longer deletes the pending-deletion state on success", nil)
				} else {
					c.OK(clo, "success clears the state", dl[0].Pos(), "tokensPendingDeletion.Delete(saltedID) present on the success side")
				}
			}
		}
	}

	// ---- C04.2 RevokeByToken
	if f := c.Fn("vault.(*ExpirationManager).RevokeByToken"); f != nil {
		c.Clause("R2", "C04.2")
		succ := eng.SuccessReturns(f, 0)
		c.Floor(f, "nil-capable returns", len(succ), 1)
		c.Cut(f, "nil return", succ, eng.GCallOK(f, `vault\.\(\*ExpirationManager\)\.lookupLeasesByToken$`), nil)
		// the loop over the leases: leaving it needs the loop-done edge; a failing lazyRevokeInternal returns its error
		for _, lz := range eng.Calls(f, `vault\.\(\*ExpirationManager\)\.lazyRevokeInternal$`) {
			c.Clause("R4", "C04.2")
			// RevokeByToken defers, so its results are spilled to a local: the
			// nil-capable returns are those of SuccessReturns (which resolves
			// the spill through the reaching stores), not the returns whose
			// operand is the literal nil.
			fe := eng.CallFailEdges(lz)
			site := "on{lazyRevokeInternal failed} no nil return"
			switch {
			case len(fe) == 0:
				c.Violation(f, site, lz.Pos(), "the error of lazyRevokeInternal is never tested: a failed lease revocation cannot stop RevokeByToken from reporting success", nil)
			case len(succ) == 0:
				c.Undecided(f, site, lz.Pos(), "no nil-capable return found: the rule cannot be evaluated")
			default:
				if h := eng.Reach(eng.Query{Fn: f, StartEdges: fe, Target: eng.IsTarget(succ)}); h != nil {
					c.Violation(f, site, h.Instr.Pos(), "a nil-capable return is reachable from the failure edge of lazyRevokeInternal: a failed lease revocation can be swallowed", h.Witness)
				} else {
					c.OK(f, site, lz.Pos(), fmt.Sprintf("none of the %d nil-capable return(s) is reachable from the %d failure edge(s): failure of a lease revocation is returned", len(succ), len(fe)))
				}
			}
			c.Clause("R5", "C04.2")
			c.Prov(f, "lease revoked", lz, lz.Common().Args[2], `lookupLeasesByToken`)
		}
		c.Floor(f, "lazyRevokeInternal call", len(eng.Calls(f, `vault\.\(\*ExpirationManager\)\.lazyRevokeInternal$`)), 1)
		c.Clause("R2", "C04.2")
		loopDone := eng.CondEdges(f, `rangeindex.*len\(vault\.\(\*ExpirationManager\)\.lookupLeasesByToken\(\)#0\)$`, false)
		c.Cut(f, "nil return", succ, eng.Guard{Desc: "exit edge of the loop over the token's leases", Edges: loopDone}, nil)
		// the token's own lease is cleaned up without calling back into the token store
		c.Clause("R12", "C04.2")
		for _, rc := range eng.Calls(f, `vault\.\(\*ExpirationManager\)\.revokeCommon$`) {
			a := rc.Common().Args
			if eng.Expr(a[3]) == "false" && eng.Expr(a[4]) == "true" {
				c.OK(f, "const{revokeCommon(tokenLease, force=false, skipToken=true)}", rc.Pos(), "own lease removed without re-entering token revocation")
			} else {
				c.Violation(f, "const{revokeCommon(tokenLease, force=false, skipToken=true)}", rc.Pos(), "unexpected flags force="+eng.Expr(a[3])+" skipToken="+eng.Expr(a[4]), nil)
			}
		}
	}
	if f := c.Fn("vault.(*ExpirationManager).lazyRevokeInternal"); f != nil {
		c.Clause("R3", "C04.2")
		pe := instrsOf(eng.Calls(f, `vault\.\(\*ExpirationManager\)\.persistEntry$`))
		up := instrsOf(eng.Calls(f, `vault\.\(\*ExpirationManager\)\.updatePending$`))
		if c.Floor(f, "persistEntry", len(pe), 1) && c.Floor(f, "updatePending", len(up), 1) {
			c.Cut(f, "updatePending (queue for immediate revocation)", up, eng.GCallOK(f, `vault\.\(\*ExpirationManager\)\.persistEntry$`), nil)
			succ := eng.SuccessReturns(f, 0)
			// success with an existing lease passes updatePending
			leFound := eng.CondEdges(f, `loadEntry.*#0 == nil$`, false)
			if len(leFound) > 0 {
				if h := eng.Reach(eng.Query{Fn: f, StartEdges: leFound, Barriers: up, Target: eng.IsTarget(succ)}); h != nil {
					c.Violation(f, "after{lease found} success needs updatePending", h.Instr.Pos(), "lazy revocation can report success for an existing lease without queueing it", h.Witness)
				} else {
					c.OK(f, "after{lease found} success needs updatePending", up[0].Pos(), "every nil return for an existing lease passes updatePending")
				}
			}
		}
		c.Clause("R5", "C04.2")
		for _, st := range eng.Stores(f, `\.ExpireTime$`) {
			c.Prov(f, "expiry set by lazy revocation", st, st.Val, `^call:time\.Now$`)
		}
	}

	// ---- C04.4 storeCommon
	if f := c.Fn("vault.(*TokenStore).storeCommon"); f != nil {
		c.Clause("R3", "C04.4")
		var pPut, idPut []ssa.Instruction
		for _, p := range eng.Calls(f, `<barrier\.View>\.Put$`) {
			recv := eng.Expr(p.Common().Value)
			if strings.Contains(recv, "parentView") {
				pPut = append(pPut, p)
			} else if strings.Contains(recv, "idView") {
				idPut = append(idPut, p)
			}
		}
		if c.Floor(f, "parentView.Put", len(pPut), 1) && c.Floor(f, "idView.Put", len(idPut), 1) {
			c.Clause("R2", "C04.4")
			pOK := eng.Guard{Desc: "success edge of parentView.Put"}
			for _, p := range pPut {
				pOK.Edges = append(pOK.Edges, eng.CallOKEdges(p.(ssa.CallInstruction))...)
			}
			c.Cut(f, "idView.Put (primary entry)", idPut, eng.Or(pOK, eng.G(f, `^writeSecondary$`, false), eng.G(f, `^entry\.Parent == ""$`, true)), nil)
			c.Cut(f, "parentView.Put (parent index)", pPut, eng.G(f, `^vault\.\(\*TokenStore\)\.Lookup\(\)#0 == nil$`, false), nil)
			c.Cut(f, "parentView.Put (parent index)", pPut, eng.GCallOK(f, `vault\.\(\*TokenStore\)\.Lookup$`), nil)
			c.Clause("R5", "C04.4")
			for _, l := range eng.Calls(f, `vault\.\(\*TokenStore\)\.Lookup$`) {
				c.Prov(f, "parent looked up", l, l.Common().Args[2], `^field:entry\.Parent$`)
			}
		}
		// ---- C04.8 check-then-act atomicity (R14)
		c.Clause("R14", "C04.8")
		mech := ""
		for _, lk := range eng.Calls(f, `locksutil\.LockForKey`) {
			if strings.Contains(eng.ExprDeep(lk.Common().Args[1]), "entry.Parent") {
				mech = "lock keyed by the parent"
			}
		}
		if len(eng.Calls(f, `BeginTx$`)) > 0 {
			mech = "storage transaction"
		}
		// re-validation: a parent lookup after the primary put
		for _, ip := range idPut {
			if h := eng.Reach(eng.Query{Fn: f, StartAfter: ip, Target: eng.IsTarget(instrsOf(eng.Calls(f, `vault\.\(\*TokenStore\)\.(Lookup|lookupInternal)$`)))}); h != nil {
				mech = "re-validation of the parent after the child's writes"
			}
		}
		if g := c.Fn("vault.(*TokenStore).revokeTreeInternal"); g != nil && mech == "" {
			// the revoker side: does it take a parent-keyed lock or re-list after the marker?
			for _, lk := range eng.Calls(g, `locksutil\.LockForKey`) {
				_ = lk
				mech = "lock in the tree walk"
			}
		}
		if mech == "" {
			c.Violation(f, "check-then-act{child create vs tree revoke}", f.Pos(), "storeCommon checks the parent (ts.Lookup(entry.Parent)) and then writes the parent index and the child entry, while revokeTreeInternal lists the parent's children and then revokes it; no common lock keyed by the parent, no storage transaction and no re-validation makes the two sequences atomic: a child created in between survives a tree revocation that reports success", nil)
		} else {
			c.OK(f, "check-then-act{child create vs tree revoke}", f.Pos(), "atomicity mechanism present: "+mech)
		}
	}

	// ---- C04.7b the walk acts on each node in that node's own namespace: the context handed to
	// revokeInternal (and to the parent-index list/delete) is the one adjusted to the namespace encoded
	// in the node's id; with the tree's context a descendant in another namespace is looked up in the
	// wrong namespace, "not found", unlinked and left usable (seed C04-b)
	if f := c.Fn("vault.(*TokenStore).revokeTreeInternal"); f != nil {
		c.Clause("R5", "C04.7")
		type nsSite struct {
			fn *ssa.Function
			cl ssa.CallInstruction
			fr *nfFrame
		}
		var sites []nsSite
		nsOps := func(g *ssa.Function, fr *nfFrame) {
			for _, cl := range eng.Calls(g, `vault\.\(\*TokenStore\)\.revokeInternal$`) {
				sites = append(sites, nsSite{g, cl, fr})
			}
			for _, cl := range eng.Calls(g, `^<barrier\.View>\.(List|Delete)$`) {
				sites = append(sites, nsSite{g, cl, fr})
			}
		}
		nsOps(f, nil)
		// a part of the walk moved into a helper of this package that is handed the node's context:
		// its operations are operations of the walk, its context parameter is the argument passed
		for _, ci := range nfAllCalls(f) {
			g := nfBody(ci, f)
			if _, plain := ci.(*ssa.Call); !plain || g == nil || g == f || g == c.P.Func("vault.(*TokenStore).revokeInternal") {
				continue // revokeInternal is a site of the walk itself
			}
			handed := false
			for _, a := range ci.Common().Args {
				for _, o := range eng.Origins(a) {
					if o.Kind == "call" && strings.HasSuffix(o.Desc, "namespace.ContextWithNamespace") {
						handed = true
					}
				}
			}
			if handed {
				nsOps(g, &nfFrame{call: ci})
			}
		}
		n := 0
		for _, s := range sites {
			cl := s.cl
			cc := cl.Common()
			ctxArg := cc.Args[0]
			if !cc.IsInvoke() {
				ctxArg = cc.Args[1]
			}
			n++
			adjusted, other := false, ""
			for _, o := range nfOrigins(ctxArg, s.fr) {
				switch {
				case o.Kind == "call" && strings.HasSuffix(o.Desc, "namespace.ContextWithNamespace"):
					adjusted = true
					// the namespace it is adjusted to is the one named by the node's id
					if call, ok := o.Val.(*ssa.Call); ok {
						if ok2, bad, _ := eng.OriginsMatch(call.Call.Args[1], `^call:vault\.\(\*Core\)\.NamespaceByID#0$`); !ok2 {
							other = "ContextWithNamespace(" + bad + ")"
						}
					}
				case o.Kind == "param":
				default:
					other = o.Kind + ":" + o.Desc
				}
			}
			site := "context of " + eng.CalleeName(cc) + " = the node's own namespace"
			if adjusted && other == "" {
				c.OK(s.fn, site, cl.Pos(), eng.Expr(ctxArg))
			} else {
				c.Violation(s.fn, site, cl.Pos(), "the tree walk hands "+eng.Expr(ctxArg)+" to "+eng.CalleeName(cc)+" ("+other+"): a descendant that lives in another namespace is looked up in the wrong one", nil)
			}
		}
		c.Floor(f, "namespace-sensitive operations of the tree walk", n, 3)
		for _, nb := range eng.Calls(f, `vault\.\(\*Core\)\.NamespaceByID$`) {
			a := nb.Common().Args
			s := eng.Expr(a[len(a)-1])
			if strings.HasSuffix(s, "SplitIDFromString()#1") || strings.HasSuffix(s, ".NamespaceID") {
				c.OK(f, "namespace looked up for a node", nb.Pos(), s)
			} else {
				c.Violation(f, "namespace looked up for a node", nb.Pos(), "NamespaceByID("+s+") is not the namespace part of the node id", nil)
			}
		}
	}

	// ---- C04.7 tree walk
	if f := c.Fn("vault.(*TokenStore).revokeTreeInternal"); f != nil {
		c.Clause("R3", "C04.7")
		list := instrsOf(eng.Calls(f, `<barrier\.View>\.List$`))
		rev := instrsOf(eng.Calls(f, `vault\.\(\*TokenStore\)\.revokeInternal$`))
		if c.Floor(f, "parentView.List", len(list), 1) && c.Floor(f, "revokeInternal", len(rev), 1) {
			c.Cut(f, "revokeInternal(node)", rev, eng.GCallOK(f, `<barrier\.View>\.List$`), nil)
			// leaves only: the emptiness test is selected by what it tests — the slice that is pushed
			// onto the stack the node was read from — not by the name or shape of that slice
			if lg, why := c04LeafGuard(f, rev); why != "" {
				c.Undecided(f, "sink{revokeInternal(node)} guard{"+lg.Desc+"}", rev[0].Pos(), why+" (moved? the rule cannot be evaluated)")
			} else {
				c.Cut(f, "revokeInternal(node)", rev, lg, nil)
			}
			c.Clause("R12", "C04.7")
			for _, r := range rev {
				a := r.(ssa.CallInstruction).Common().Args
				if eng.Expr(a[3]) == "true" {
					c.OK(f, "const{revokeInternal(..., skipOrphan=true)}", r.Pos(), "leaf revocation inside the tree walk skips orphaning")
				} else {
					c.Violation(f, "const{revokeInternal(..., skipOrphan=true)}", r.Pos(), "skipOrphan="+eng.Expr(a[3]), nil)
				}
			}
			// failure of a leaf revocation aborts the walk with an error
			c.Clause("R4", "C04.7")
			for _, r := range rev {
				fe := eng.CallFailEdges(r.(ssa.CallInstruction))
				var nilRets []ssa.Instruction
				for _, s := range eng.SuccessReturns(f, 0) {
					nilRets = append(nilRets, s)
				}
				if h := eng.Reach(eng.Query{Fn: f, StartEdges: fe, Target: eng.IsTarget(nilRets)}); h != nil {
					c.Violation(f, "on{leaf revocation failed} no success", h.Instr.Pos(), "the tree walk can report success after a leaf revocation failed", h.Witness)
				} else {
					c.OK(f, "on{leaf revocation failed} no success", r.Pos(), "a failed leaf revocation never leads to a nil return")
				}
			}
		}
	}

	// ---- C04.6 who may call the revocation primitives; API paths go through the lease
	c.Clause("R1", "C04.6")
	sites := c.P.FindCalls(mustStatic(c, "vault.(*TokenStore).revokeInternal"), nil)
	c.CallerTable("TokenStore.revokeInternal", sites, map[string]string{
		"vault.(*TokenStore).revokeOrphan":       "revoke-orphan and internal cleanup of fresh tokens",
		"vault.(*TokenStore).revokeTreeInternal": "leaf step of the tree walk",
	}, 2)
	sites = c.P.FindCalls(mustStatic(c, "vault.(*TokenStore).revokeTreeInternal"), nil)
	c.CallerTable("TokenStore.revokeTreeInternal", sites, map[string]string{
		"vault.(*TokenStore).revokeTree": "lease expiry / revocation of an auth lease (expiration.revokeEntry)",
	}, 1)
	sites = c.P.FindCalls(mustStatic(c, "vault.(*TokenStore).revokeTree"), nil)
	c.CallerTable("TokenStore.revokeTree", sites, map[string]string{
		"vault.(*ExpirationManager).revokeEntry": "revocation of an auth lease",
	}, 1)
	if f := c.Fn("vault.(*ExpirationManager).revokeEntry"); f != nil {
		c.Clause("R2", "C04.6")
		succ := eng.SuccessReturns(f, 0)
		authArm := eng.CondEdges(f, `^le\.Auth == nil$`, false)
		if len(authArm) == 0 {
			c.Violation(f, "auth lease arm", f.Pos(), "revokeEntry no longer distinguishes auth leases", nil)
		} else {
			rt := eng.Guard{Desc: "success edge of tokenStore.revokeTree", Edges: okEdgesOf(f, `vault\.\(\*TokenStore\)\.revokeTree$`)}
			if h := eng.Reach(eng.Query{Fn: f, StartEdges: authArm, Blocked: rt.Edges, Target: eng.IsTarget(succ)}); h != nil {
				c.Violation(f, "on{auth lease} success needs revokeTree", h.Instr.Pos(), "revocation of a token's lease can succeed without revoking the token tree", h.Witness)
			} else {
				c.OK(f, "on{auth lease} success needs revokeTree", authArm[0].From.Instrs[len(authArm[0].From.Instrs)-1].Pos(), "an auth lease is revoked only through tokenStore.revokeTree")
			}
		}
	}
	for _, h := range []struct{ fn, what string }{
		{"vault.(*TokenStore).revokeCommon", "auth/token/revoke(-self)"},
		{"vault.(*TokenStore).handleUpdateRevokeAccessor", "auth/token/revoke-accessor"},
	} {
		f := c.P.Func(h.fn)
		if f == nil {
			c.Unresolved(h.fn)
			continue
		}
		c.Clause("R2", "C04.6")
		var succ []ssa.Instruction
		idx := f.Signature.Results().Len() - 1
		for _, r := range eng.SuccessReturns(f, idx) {
			ret := r.(*ssa.Return)
			// a "success" here is a nil error with no error response
			if idx > 0 {
				if ok, _, _ := eng.OriginsMatch(ret.Results[0], `^call:logical\.ErrorResponse$`); ok {
					continue
				}
			}
			succ = append(succ, r)
		}
		tokFound := eng.CondEdges(f, `^vault\.\(\*TokenStore\)\.Lookup\(\)#0 == nil$`, false)
		var after []ssa.Instruction
		for _, r := range eng.ReturnsFrom(f, tokFound, nil, nil) {
			for _, s2 := range succ {
				if s2 == ssa.Instruction(r) {
					after = append(after, r)
				}
			}
		}
		succ = after
		if !c.Floor(f, "success returns after the token was found", len(succ), 1) {
			continue
		}
		c.Cut(f, h.what+" success", succ, eng.GCallOK(f, `vault\.\(\*ExpirationManager\)\.CreateOrFetchRevocationLeaseByToken$`), nil)
		c.Cut(f, h.what+" success", succ, eng.GCallOK(f, `vault\.\(\*ExpirationManager\)\.Revoke$`), nil)
	}
	if f := c.Fn("vault.(*TokenStore).handleRevokeOrphan"); f != nil {
		c.Clause("R2", "C04.6")
		ro := instrsOf(eng.Calls(f, `vault\.\(\*TokenStore\)\.revokeOrphan$`))
		if c.Floor(f, "revokeOrphan call", len(ro), 1) {
			c.Cut(f, "revokeOrphan (children keep living)", ro, eng.G(f, `SudoPrivilege\(\)$`, true), nil)
		}
	}
	runC04Gaps2(c)
	// ---- C04.20 the revocation marker (ts.store) is written under the key lookup reads (shared with C19.1, props/c19g2.go)
	tokenEntryKeyAgreement(c, "C04.20")
}

// okEdgesOf: success edges of all calls in f matching pat.
func okEdgesOf(f *ssa.Function, pat string) []eng.Edge {
	var out []eng.Edge
	for _, nc := range nfCalls(f, pat) {
		if _, isDefer := nc.In.(*ssa.Defer); isDefer {
			continue
		}
		out = append(out, eng.CallOKEdges(nc.In)...)
	}
	return out
}

// c04LeafGuard: the edges on which the tree walk knows that the node has no
// (unvisited) child. The walk reads the node off a stack (a slice indexed for
// the id handed to revokeInternal) and pushes the node's children onto it
// (append(stack, children...)); a leaf is a node for which nothing is pushed:
// the guard is a comparison of len(children) with a constant that holds for 0
// and for no larger length, children being the very value that is pushed.
func c04LeafGuard(f *ssa.Function, rev []ssa.Instruction) (eng.Guard, string) {
	g := eng.Guard{Desc: "len(children pushed onto the walk's stack) == 0"}
	// the stack: what the node id is indexed out of
	var stacks []ssa.Value
	for _, r := range rev {
		a := r.(ssa.CallInstruction).Common().Args
		if len(a) < 3 {
			continue
		}
		var fromIdx func(v ssa.Value, depth int)
		fromIdx = func(v ssa.Value, depth int) {
			if depth > 4 {
				return
			}
			for _, o := range eng.Origins(v) {
				switch x := o.Val.(type) {
				case *ssa.Extract:
					if call, ok := x.Tuple.(*ssa.Call); ok && x.Index == 0 && strings.HasSuffix(o.Desc, "namespace.SplitIDFromString#0") && len(call.Call.Args) == 1 {
						fromIdx(call.Call.Args[0], depth+1)
					}
				case *ssa.UnOp:
					if ia, ok := x.X.(*ssa.IndexAddr); ok && x.Op == token.MUL {
						stacks = append(stacks, ia.X)
					}
				}
			}
		}
		fromIdx(a[2], 0)
	}
	if len(stacks) == 0 {
		return g, "the node handed to revokeInternal is not read off a stack slice"
	}
	// what is pushed: the spread operand of the appends that flow into the stack
	pushed := map[ssa.Value]bool{}
	seen := map[ssa.Value]bool{}
	var flow func(v ssa.Value)
	flow = func(v ssa.Value) {
		if v == nil || seen[v] {
			return
		}
		seen[v] = true
		switch x := v.(type) {
		case *ssa.Phi:
			for _, e := range x.Edges {
				flow(e)
			}
		case *ssa.Slice:
			flow(x.X)
		case *ssa.Call:
			if b, ok := x.Call.Value.(*ssa.Builtin); ok && b.Name() == "append" && len(x.Call.Args) == 2 {
				pushed[x.Call.Args[1]] = true
				flow(x.Call.Args[0])
			}
		}
	}
	for _, s := range stacks {
		flow(s)
	}
	if len(pushed) == 0 {
		return g, "nothing is appended to the stack the node is read from"
	}
	isLenPushed := func(v ssa.Value) bool {
		call, ok := v.(*ssa.Call)
		if !ok {
			return false
		}
		b, ok := call.Call.Value.(*ssa.Builtin)
		return ok && b.Name() == "len" && len(call.Call.Args) == 1 && pushed[call.Call.Args[0]]
	}
	for _, in := range eng.Instrs(f, func(in ssa.Instruction) bool { _, ok := in.(*ssa.BinOp); return ok }) {
		b := in.(*ssa.BinOp)
		at, k, ok := nfCmpConst(b, isLenPushed)
		if !ok || !nfSeparates(at, k, 0) {
			continue
		}
		g.Edges = append(g.Edges, eng.BoolEdges(b, at(0))...)
	}
	return g, ""
}
