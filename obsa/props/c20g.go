package props

import (
	"fmt"
	"go/token"
	"regexp"

	"golang.org/x/tools/go/ssa"

	"obsa/eng"
)

// ---------------------------------------------------------------------------
// C20.5 the shape of the GF(2^8) code (necessary conditions only; the algebra is not decided)

func c20FieldShape(c *eng.Ctx) {
	isTableAccess := func(in ssa.Instruction) bool {
		switch x := in.(type) {
		case *ssa.Index, *ssa.IndexAddr, *ssa.Lookup:
			return true
		case *ssa.UnOp:
			if x.Op == token.MUL {
				_, g := x.X.(*ssa.Global)
				return g
			}
		}
		return false
	}

	// ---- add
	if f := c.Fn("shamir.add"); f != nil && len(f.Params) == 2 {
		c.Clause("R12", "C20.5a")
		rets := eng.Returns(f)
		ok := len(f.Blocks) == 1 && len(rets) == 1
		if ok {
			bo, isB := c20Strip(rets[0].Results[0]).(*ssa.BinOp)
			ok = isB && bo.Op == token.XOR &&
				((bo.X == ssa.Value(f.Params[0]) && bo.Y == ssa.Value(f.Params[1])) || (bo.X == ssa.Value(f.Params[1]) && bo.Y == ssa.Value(f.Params[0])))
		}
		if ok {
			c.OK(f, "add is XOR", f.Pos(), "single block returning a ^ b")
		} else {
			c.Violation(f, "add is XOR", f.Pos(), "add does not simply return the XOR of its two operands (addition in characteristic 2)", nil)
		}
	}

	// ---- mult
	if f := c.Fn("shamir.mult"); f != nil && len(f.Params) == 2 {
		c.Clause("R12", "C20.5b")
		var calls []ssa.CallInstruction
		for _, cl := range eng.Calls(f, `.`) {
			if !c20InertCall(cl) {
				calls = append(calls, cl)
			}
		}
		if len(calls) > 0 {
			c.Violation(f, "mult is self-contained", calls[0].Pos(), "mult calls "+eng.CalleeName(calls[0].Common()), nil)
		} else {
			c.OK(f, "mult is self-contained", f.Pos(), "no calls")
		}
		if tbl := eng.Instrs(f, isTableAccess); len(tbl) > 0 {
			c.Violation(f, "mult uses no lookup table", tbl[0].Pos(), "mult indexes memory (table lookups are operand-dependent memory accesses)", nil)
		} else {
			c.OK(f, "mult uses no lookup table", f.Pos(), "no index, map or global-table access")
		}
		nIf, dep := 0, ""
		for _, b := range f.Blocks {
			if ifi := eng.IfOf(b); ifi != nil {
				nIf++
				if d := c20ParamDeps(ifi.Cond); len(d) > 0 {
					dep = eng.ExprDeep(ifi.Cond) + " depends on " + d[0]
				}
			}
		}
		if dep != "" {
			c.Violation(f, "mult has no operand-dependent branch", f.Pos(), "branch condition "+dep, nil)
		} else {
			c.OK(f, "mult has no operand-dependent branch", f.Pos(), fmt.Sprintf("%d branch(es), none computed from a or b", nIf))
		}
		// fixed 8 rounds
		rounds := false
		for _, l := range c20Loops(f) {
			lo, hi, ok := c20Less(l.ifi)
			if !ok {
				continue
			}
			var ctr *ssa.Phi
			if p, isPhi := hi.(*ssa.Phi); isPhi && c20ConstInt(lo, 0) && l.bodyOn {
				ctr = p
			}
			if ctr == nil || len(ctr.Edges) != 2 {
				continue
			}
			start, step := false, false
			for _, e := range ctr.Edges {
				if c20ConstInt(e, 8) {
					start = true
				}
				if bo, ok := e.(*ssa.BinOp); ok && bo.Op == token.SUB && bo.X == ssa.Value(ctr) && c20ConstInt(bo.Y, 1) {
					step = true
				}
			}
			rounds = rounds || (start && step)
		}
		if rounds && nIf == 1 {
			c.OK(f, "mult runs a fixed 8 rounds", f.Pos(), "single loop: counter from 8 down by 1 while > 0")
		} else {
			c.Violation(f, "mult runs a fixed 8 rounds", f.Pos(), "mult is not a single loop whose counter starts at the constant 8 and decreases by 1 to 0 (one round per bit of the multiplier)", nil)
		}
		// reduction constant
		var red []int64
		for _, in := range eng.Instrs(f, func(in ssa.Instruction) bool { b, ok := in.(*ssa.BinOp); return ok && b.Op == token.AND }) {
			bo := in.(*ssa.BinOp)
			cv, isC := c20ConstVal(bo.Y)
			other := bo.X
			if !isC {
				cv, isC = c20ConstVal(bo.X)
				other = bo.Y
			}
			if !isC {
				continue
			}
			// -(r >> 7) & C
			if neg, ok := c20Strip(other).(*ssa.UnOp); ok && neg.Op == token.SUB {
				if sh, ok := c20Strip(neg.X).(*ssa.BinOp); ok && sh.Op == token.SHR && c20ConstInt(sh.Y, 7) {
					red = append(red, cv)
				}
			}
		}
		switch {
		case len(red) != 1:
			c.Violation(f, "reduction polynomial is irreducible", f.Pos(), fmt.Sprintf("expected exactly one conditional reduction -(r>>7) & C, found %d", len(red)), nil)
		case !c20Irreducible8(red[0]):
			c.Violation(f, "reduction polynomial is irreducible", f.Pos(), fmt.Sprintf("x^8 + 0x%02x is reducible over GF(2): the 256 bytes do not form a field (zero divisors, no inverses)", red[0]), nil)
		default:
			c.OK(f, "reduction polynomial is irreducible", f.Pos(), fmt.Sprintf("x^8 + 0x%02x has no factor of degree 1..4 over GF(2)", red[0]))
		}
		// result is the accumulator started at 0
		for _, r := range eng.Returns(f) {
			phi, ok := c20Strip(r.Results[0]).(*ssa.Phi)
			zero := false
			if ok {
				for _, e := range phi.Edges {
					zero = zero || c20ConstInt(e, 0)
				}
			}
			if zero {
				c.OK(f, "mult returns the accumulator started at 0", r.Pos(), eng.Expr(phi))
			} else {
				c.Violation(f, "mult returns the accumulator started at 0", r.Pos(), "returned value "+eng.ExprDeep(r.Results[0]), nil)
			}
		}
	}

	// ---- inverse: an addition chain of mult calls reaching exponent 254 (mod 255)
	if f := c.Fn("shamir.inverse"); f != nil && len(f.Params) == 1 {
		c.Clause("R12", "C20.5c")
		straight := len(f.Blocks) == 1
		for _, cl := range eng.Calls(f, `.`) {
			if eng.CalleeName(cl.Common()) != "shamir.mult" {
				// a call that receives nothing and whose result is not used cannot enter the chain
				if c20InertCall(cl) {
					continue
				}
				straight = false
			}
		}
		if tbl := eng.Instrs(f, isTableAccess); len(tbl) > 0 {
			straight = false
		}
		if !straight {
			c.Violation(f, "inverse is a straight-line chain of mult", f.Pos(), "inverse branches, indexes memory or calls something other than mult", nil)
		} else {
			c.OK(f, "inverse is a straight-line chain of mult", f.Pos(), fmt.Sprintf("%d mult calls, no branch, no table", len(eng.Calls(f, `.`))))
			exp := map[ssa.Value]int{f.Params[0]: 1}
			var ev func(v ssa.Value) int
			ev = func(v ssa.Value) int {
				v = c20Strip(v)
				if e, ok := exp[v]; ok {
					return e
				}
				cl, ok := v.(*ssa.Call)
				if !ok || len(cl.Call.Args) != 2 {
					return -1 << 20
				}
				a, b := ev(cl.Call.Args[0]), ev(cl.Call.Args[1])
				exp[v] = a + b
				return a + b
			}
			for _, r := range eng.Returns(f) {
				e := ev(r.Results[0])
				if e > 0 && e%255 == 254 {
					c.OK(f, "inverse computes a^254", r.Pos(), fmt.Sprintf("the mult chain raises its argument to the power %d ≡ -1 (mod 255)", e))
				} else {
					c.Violation(f, "inverse computes a^254", r.Pos(), fmt.Sprintf("the mult chain raises its argument to the power %d, which is not ≡ 254 (mod 255): not the multiplicative inverse in a field of 256 elements", e), nil)
				}
			}
		}
	}

	// ---- div = a * inverse(b), b the guarded divisor
	if f := c.Fn("shamir.div"); f != nil && len(f.Params) == 2 {
		c.Clause("R5", "C20.5d")
		a, b := f.Params[0], f.Params[1]
		site := "div multiplies the dividend by the inverse of the divisor"
		okDiv := false
		for _, m := range eng.Calls(f, `^shamir\.mult$`) {
			args := m.Common().Args
			for k := 0; k < 2; k++ {
				if inv := c20StaticCall(args[k], "shamir.inverse"); inv != nil && c20Strip(inv.Call.Args[0]) == ssa.Value(b) && c20Strip(args[1-k]) == ssa.Value(a) {
					okDiv = true
				}
			}
		}
		if okDiv {
			c.OK(f, site, f.Pos(), "mult(a, inverse(b))")
		} else {
			c.Violation(f, site, f.Pos(), "no call mult(a, inverse(b)) with b the zero-guarded second operand", nil)
		}
		for _, r := range eng.Returns(f) {
			c.Prov(f, "quotient returned", r, r.Results[0], `^call:shamir\.mult$`, `^call:crypto/subtle\.ConstantTimeSelect$`)
		}
		for _, s := range eng.Calls(f, `^crypto/subtle\.ConstantTimeSelect$`) {
			c.Prov(f, "non-zero-dividend arm of the select", s, s.Common().Args[2], `^call:shamir\.mult$`)
		}
		nDep := 0
		for _, bl := range f.Blocks {
			if ifi := eng.IfOf(bl); ifi != nil && len(c20ParamDeps(ifi.Cond)) > 0 {
				nDep++
			}
		}
		if nDep <= 1 {
			c.OK(f, "div branches only on the zero-divisor guard", f.Pos(), "one operand-dependent branch")
		} else {
			c.Violation(f, "div branches only on the zero-divisor guard", f.Pos(), fmt.Sprintf("%d operand-dependent branches", nDep), nil)
		}
	}

	// ---- evaluate: Horner from the top coefficient down to coefficient 0
	if f := c.Fn("shamir.(*polynomial).evaluate"); f != nil && len(f.Params) == 2 {
		c.Clause("R5", "C20.5e")
		p, x := regexp.QuoteMeta(eng.VarName(f.Params[0])), regexp.QuoteMeta(eng.VarName(f.Params[1]))
		co := p + `\.coefficients`
		idx := `φ[\w.]*\{\(len\(` + co + `\) - 1\) - 1\|φ[\w.]* - 1\}`
		horner := regexp.MustCompile(`^φ[\w.]*\{` + co + `\[len\(` + co + `\) - 1\]\|shamir\.add\(shamir\.mult\(φ[\w.]*, ` + x + `\), ` + co + `\[` + idx + `\]\)\}$`)
		for _, r := range eng.Returns(f) {
			s := eng.ExprDeep(r.Results[0])
			if horner.MatchString(s) {
				c.OK(f, "Horner accumulation", r.Pos(), "out = c[deg]; out = add(mult(out, x), c[i]) for i = deg-1 .. : "+s)
			} else {
				c.Violation(f, "Horner accumulation", r.Pos(), "the returned value is not the Horner accumulator over the coefficients (start c[len-1], step add(mult(out,x), c[i]), i from len-2 down by 1): "+s, nil)
			}
		}
		c.Clause("R2", "C20.5e")
		cond := `^\(` + idx + `\) < 0$`
		var rets []ssa.Instruction
		for _, r := range eng.Returns(f) {
			rets = append(rets, r)
		}
		c.Cut(f, "return of the value", rets, eng.GD(f, cond, true), nil)
		c.Cut(f, "Horner step", instrsOf(eng.Calls(f, `^shamir\.mult$`)), eng.GD(f, cond, false), nil)
	}

	// ---- interpolatePolynomial
	if f := c.Fn("shamir.interpolatePolynomial"); f != nil && len(f.Params) == 3 {
		c20Interpolate(c, f)
	}
}

func c20Interpolate(c *eng.Ctx, f *ssa.Function) {
	xs, ys, x := f.Params[0], f.Params[1], f.Params[2]
	c.Clause("R5", "C20.5f")
	divs := eng.Calls(f, `^shamir\.div$`)
	if !c.Floor(f, "div call", len(divs), 1) {
		return
	}
	dv := divs[0]
	site := "term = (x + x_j) / (x_i + x_j)"
	num := c20StaticCall(dv.Common().Args[0], "shamir.add")
	den := c20StaticCall(dv.Common().Args[1], "shamir.add")
	var I, J ssa.Value
	okT := false
	why := "div's operands are not add(x, xs[j]) and add(xs[i], xs[j])"
	if num != nil && den != nil {
		// numerator: x and xs[j] in either order
		var nj ssa.Value
		for k := 0; k < 2; k++ {
			if c20Strip(num.Call.Args[k]) == ssa.Value(x) {
				if a, j, ok := c20ElemLoad(num.Call.Args[1-k]); ok && a == ssa.Value(xs) {
					nj = j
				}
			}
		}
		a0, i0, ok0 := c20ElemLoad(den.Call.Args[0])
		a1, i1, ok1 := c20ElemLoad(den.Call.Args[1])
		if nj != nil && ok0 && ok1 && a0 == ssa.Value(xs) && a1 == ssa.Value(xs) && i0 != i1 {
			switch nj {
			case i1:
				I, J, okT = i0, i1, true
			case i0:
				I, J, okT = i1, i0, true
			default:
				why = "the numerator's sample index is not one of the denominator's"
			}
		}
	}
	if !okT {
		c.Violation(f, site, dv.Pos(), why+": "+eng.ExprDeep(dv.Common().Args[0])+" / "+eng.ExprDeep(dv.Common().Args[1]), nil)
		return
	}
	c.OK(f, site, dv.Pos(), "div(add(x, xs[j]), add(xs[i], xs[j])) with two distinct counters")
	// both counters run 0,1,.. bounded by len(xs); j is the inner one
	site = "i and j range over all sample indices"
	counter := func(v ssa.Value) *ssa.Phi {
		p, ok := v.(*ssa.Phi)
		if !ok || len(p.Edges) != 2 {
			return nil
		}
		start, step := false, false
		for _, e := range p.Edges {
			if c20ConstInt(e, 0) {
				start = true
			}
			if bo, ok := e.(*ssa.BinOp); ok && bo.Op == token.ADD && bo.X == ssa.Value(p) && c20ConstInt(bo.Y, 1) {
				step = true
			}
		}
		if start && step {
			return p
		}
		return nil
	}
	pi, pj := counter(I), counter(J)
	bounded := func(p *ssa.Phi) bool {
		// some If tests (p+1) < len(xs) or p < len(xs), continuing into p's block
		for _, b := range f.Blocks {
			ifi := eng.IfOf(b)
			if ifi == nil {
				continue
			}
			lo, hi, ok := c20Less(ifi)
			if !ok {
				continue
			}
			ln := c20StaticCall(hi, "len")
			if ln == nil || ln.Call.Args[0] != ssa.Value(xs) {
				continue
			}
			next := false
			if bo, ok := lo.(*ssa.BinOp); ok && bo.Op == token.ADD && bo.X == ssa.Value(p) && c20ConstInt(bo.Y, 1) {
				next = true
			}
			if lo == ssa.Value(p) || next {
				if c20BaseEdge(ifi, true).To() == p.Block() || lo == ssa.Value(p) {
					return true
				}
			}
		}
		return false
	}
	switch {
	case pi == nil || pj == nil:
		c.Violation(f, site, dv.Pos(), "a sample index is not a counter starting at 0 and stepping by 1", nil)
	case !bounded(pi) || !bounded(pj):
		c.Violation(f, site, dv.Pos(), "a counter is not bounded by len("+eng.VarName(xs)+"): some pair of samples is skipped or an index runs past the samples", nil)
	case !pi.Block().Dominates(pj.Block()) || pi.Block() == pj.Block():
		c.Violation(f, site, dv.Pos(), "the numerator's index j is not the inner loop counter", nil)
	default:
		c.OK(f, site, dv.Pos(), "i (outer) and j (inner) both count 0..len(xs)-1")
	}
	// i == j is skipped
	c.Clause("R2", "C20.5f")
	var skip []eng.Edge
	for _, b := range f.Blocks {
		if ifi := eng.IfOf(b); ifi != nil {
			if a, bb, ok := c20Eq(ifi); ok && ((a == I && bb == J) || (a == J && bb == I)) {
				skip = append(skip, c20BaseEdge(ifi, false))
			}
		}
	}
	c.Cut(f, "div", []ssa.Instruction{dv}, eng.Guard{Desc: "[i == j]=false", Edges: skip}, nil)
	// every j != i contributes: from the i != j edge, the next test of the inner counter is not reached without div and the basis update
	c.Clause("R3", "C20.5f")
	var basisMul ssa.CallInstruction
	if dvc, ok := dv.(*ssa.Call); ok && dvc.Referrers() != nil {
		for _, r := range *dvc.Referrers() {
			if m, ok := r.(*ssa.Call); ok && eng.CalleeName(&m.Call) == "shamir.mult" {
				basisMul = m
			}
		}
	}
	site = "basis accumulates every term, starting from 1"
	if basisMul == nil {
		c.Violation(f, site, dv.Pos(), "the quotient is not multiplied into the basis", nil)
	} else {
		var acc *ssa.Phi
		for _, a := range basisMul.Common().Args {
			if p, ok := a.(*ssa.Phi); ok {
				acc = p
			}
		}
		one := false
		feeds := false
		if acc != nil {
			seen := map[ssa.Value]bool{}
			var walk func(v ssa.Value)
			walk = func(v ssa.Value) {
				if seen[v] {
					return
				}
				seen[v] = true
				if v == ssa.Value(basisMul.(*ssa.Call)) {
					feeds = true
				}
				if c20ConstInt(v, 1) {
					one = true
				}
				if p, ok := v.(*ssa.Phi); ok {
					for _, e := range p.Edges {
						walk(e)
					}
				}
			}
			walk(acc)
		}
		if acc == nil || !one || !feeds {
			c.Violation(f, site, basisMul.Pos(), "basis is not a loop-carried product seeded with 1: "+eng.ExprDeep(basisMul.Common().Args[0]), nil)
		} else if len(skip) > 0 {
			if h := eng.Reach(eng.Query{Fn: f, StartEdges: skip, Barriers: []ssa.Instruction{basisMul}, Target: func(in ssa.Instruction) bool { _, ok := in.(*ssa.If); return ok }}); h != nil {
				c.Violation(f, site, h.Instr.Pos(), "for some j != i the loop advances without multiplying the term into the basis", h.Witness)
			} else {
				c.OK(f, site, basisMul.Pos(), "basis = 1; for every j != i: basis = mult(basis, term)")
			}
		}
	}
	// result = sum of y_i * basis, from 0
	c.Clause("R5", "C20.5f")
	site = "result accumulates y_i * basis_i from 0"
	okSum := false
	detail := ""
	for _, r := range eng.Returns(f) {
		res, isPhi := c20Strip(r.Results[0]).(*ssa.Phi)
		if !isPhi {
			detail = eng.ExprDeep(r.Results[0])
			continue
		}
		zero := false
		var addc *ssa.Call
		seen := map[ssa.Value]bool{}
		var walk func(v ssa.Value)
		walk = func(v ssa.Value) {
			if seen[v] {
				return
			}
			seen[v] = true
			if c20ConstInt(v, 0) {
				zero = true
			}
			if cl := c20StaticCall(v, "shamir.add"); cl != nil {
				addc = cl
			}
			if p, ok := v.(*ssa.Phi); ok {
				for _, e := range p.Edges {
					walk(e)
				}
			}
		}
		walk(res)
		if !zero || addc == nil {
			detail = eng.ExprDeep(res)
			continue
		}
		// add(resultφ, mult(ys[i], basisφ))
		for k := 0; k < 2; k++ {
			if _, isAcc := addc.Call.Args[k].(*ssa.Phi); !isAcc {
				continue
			}
			m := c20StaticCall(addc.Call.Args[1-k], "shamir.mult")
			if m == nil {
				continue
			}
			for q := 0; q < 2; q++ {
				if a, i, ok := c20ElemLoad(m.Call.Args[q]); ok && a == ssa.Value(ys) && i == I {
					if _, isB := m.Call.Args[1-q].(*ssa.Phi); isB {
						okSum = true
					}
				}
			}
		}
		detail = eng.ExprDeep(addc)
	}
	if okSum {
		c.OK(f, site, f.Pos(), "result = 0; result = add(result, mult(ys[i], basis)) with the same i as the denominator's x_i")
	} else {
		c.Violation(f, site, f.Pos(), "the returned value is not the running sum of ys[i]*basis seeded with 0: "+detail, nil)
	}
}

// c20InertCall: a call that receives nothing, captures nothing and whose result is not
// used cannot influence the value the enclosing field operation computes.
func c20InertCall(cl ssa.CallInstruction) bool {
	if len(cl.Common().Args) != 0 {
		return false
	}
	if v, isVal := cl.(ssa.Value); isVal && v.Referrers() != nil && len(*v.Referrers()) > 0 {
		return false
	}
	if mc, isClo := cl.Common().Value.(*ssa.MakeClosure); isClo && len(mc.Bindings) > 0 {
		return false
	}
	return true
}
