package props

import (
	"regexp"
	"sort"
	"strings"

	"golang.org/x/tools/go/ssa"

	"obsa/eng"
)

// c02Routes (C02.5): the HTTP routes are a reviewed registry. Everything that
// is not in the table of reviewed special endpoints must be served by the
// handleLogical* family (which builds a logical.Request and hands it to
// Core.HandleRequest, i.e. to the checks of C02.1-C02.3); the unauthenticated
// variants are registered only behind their listener-configuration flag and
// the raw recovery endpoint only in recovery mode.
func c02Routes(c *eng.Ctx) {
	// who registers routes at all
	c.Clause("R1", "C02.5")
	var sites []eng.CallSite
	for _, fn := range c.P.Funcs {
		if !eng.InPkg(fn, "http") { // the server's API package; agent/proxy commands have muxes of their own
			continue
		}
		for _, h := range eng.Calls(fn, `^\(\*net/http\.ServeMux\)\.(Handle|HandleFunc)$`) {
			sites = append(sites, eng.CallSite{Fn: fn, Call: h})
		}
	}
	c.CallerTable("(*http.ServeMux).Handle", sites, map[string]string{
		"http.handler": "the API route table (checked entry by entry below)",
		"http.TestServerWithListenerAndProperties": "test helper: wraps the same handler under /_test/auth for tests",
	}, 35)

	f := c.Fn("http.handler")
	if f == nil {
		return
	}
	logical := regexp.MustCompile(`^http\.(handleLogical|handleLogicalNoForward|handleLogicalWithInjector)\(\)$`)
	// path -> allowed non-logical handler constructors (outermost, then inner of a wrapper), with the reason
	type special struct{ ctor, why string }
	table := map[string][]special{
		`"/v1/sys/raw/"`: {{"http.handleLogicalRecovery()", "recovery mode only; guarded by the recovery token"}},
		`"/v1/sys/generate-recovery-token/attempt"`: {{"http.handleSysGenerateRootAttempt()", "recovery mode only"}},
		`"/v1/sys/generate-recovery-token/update"`:  {{"http.handleSysGenerateRootUpdate()", "recovery mode only"}},
		`"/v1/sys/init"`:                      {{"http.handleSysInit()", "must work before any token exists"}},
		`"/v1/sys/seal-status"`:               {{"http.handleSysSealStatus()", "status, works while sealed"}},
		`"/v1/sys/seal"`:                      {{"http.handleSysSeal()", "authenticates through Core.SealWithRequest"}},
		`"/v1/sys/step-down"`:                 {{"http.handleForwardIfStandby()>http.handleSysStepDown()", "authenticates through Core.StepDown"}},
		`"/v1/sys/unseal"`:                    {{"http.handleSysUnseal()", "authenticated by key shares"}},
		`"/v1/sys/leader"`:                    {{"http.handleSysLeader()", "status"}},
		`"/v1/sys/health"`:                    {{"http.handleSysHealth()", "status"}},
		`"/v1/sys/generate-root/attempt"`:     {{"http.handleForwardIfStandby()>http.handleAuditNonLogical()>http.handleSysGenerateRootAttempt()", "authenticated by key shares; can be disabled per listener"}},
		`"/v1/sys/generate-root/update"`:      {{"http.handleForwardIfStandby()>http.handleAuditNonLogical()>http.handleSysGenerateRootUpdate()", "authenticated by key shares; can be disabled per listener"}},
		`"/v1/sys/rekey/init"`:                {{"http.handleForwardIfStandby()>http.handleAuditNonLogical()>http.handleSysRekeyInit()", "authenticated by key shares; can be disabled per listener"}},
		`"/v1/sys/rekey/update"`:              {{"http.handleForwardIfStandby()>http.handleAuditNonLogical()>http.handleSysRekeyUpdate()", "same"}},
		`"/v1/sys/rekey/verify"`:              {{"http.handleForwardIfStandby()>http.handleAuditNonLogical()>http.handleSysRekeyVerify()", "same"}},
		`"/v1/sys/rekey-recovery-key/init"`:   {{"http.handleForwardIfStandby()>http.handleAuditNonLogical()>http.handleSysRekeyInit()", "same"}},
		`"/v1/sys/rekey-recovery-key/update"`: {{"http.handleForwardIfStandby()>http.handleAuditNonLogical()>http.handleSysRekeyUpdate()", "same"}},
		`"/v1/sys/rekey-recovery-key/verify"`: {{"http.handleForwardIfStandby()>http.handleAuditNonLogical()>http.handleSysRekeyVerify()", "same"}},
		`"/v1/sys/storage/raft/bootstrap"`:    {{"http.handleSysRaftBootstrap()", "only before initialisation"}},
		`"/v1/sys/storage/raft/join"`:         {{"http.handleSysRaftJoin()", "only before initialisation"}},
		`"/ui/"`:                              {{"net/http.StripPrefix()", "static UI assets"}, {"http.handleUIHeaders()", "UI stub"}},
		`"/robots.txt"`:                       {{"github.com/klauspost/compress/gzhttp.GzipHandler()", "static"}},
		`"/ui"`:                               {{"http.handleUIRedirect()", "redirect"}},
		`"/"`:                                 {{"http.handleUIRedirect()", "redirect"}},
		`"/v1/sys/metrics"`:                   {{"http.handleMetricsUnauthenticated()", "only behind Telemetry.UnauthenticatedMetricsAccess"}},
		`"/v1/sys/pprof/"`:                    {{"net/http/pprof.Index", "only behind Profiling.UnauthenticatedPProfAccess"}},
		`"/v1/sys/pprof/cmdline"`:             {{"net/http/pprof.Cmdline", "same"}},
		`"/v1/sys/pprof/profile"`:             {{"net/http/pprof.Profile", "same"}},
		`"/v1/sys/pprof/symbol"`:              {{"net/http/pprof.Symbol", "same"}},
		`"/v1/sys/pprof/trace"`:               {{"net/http/pprof.Trace", "same"}},
		`"/v1/sys/in-flight-req"`:             {{"http.handleUnAuthenticatedInFlightRequest()", "only behind InFlightRequestLogging.UnauthenticatedInFlightAccess"}},
	}
	pprofNamed := regexp.MustCompile(`^"/v1/sys/pprof/" \+ `)
	handles := eng.Calls(f, `^\(\*net/http\.ServeMux\)\.Handle$`)
	c.Clause("R8", "C02.5")
	if !c.Floor(f, "route registrations", len(handles), 35) {
		return
	}
	ctorOf := func(v ssa.Value) string {
		s := eng.Expr(v)
		// wrappers that take the real handler as their last argument
		if cl, ok := v.(*ssa.Call); ok && (s == "http.handleForwardIfStandby()" || s == "http.handleAuditNonLogical()") {
			a := cl.Call.Args
			return s + ">" + ctorOfInner2(a[len(a)-1])
		}
		if mi, ok := v.(*ssa.MakeInterface); ok {
			return ctorOfInner(mi.X)
		}
		return s
	}
	var catchAll []string
	unauth := map[string][]ssa.Instruction{}
	var recovery []ssa.Instruction
	nLogical, nSpecial := 0, 0
	for _, h := range handles {
		a := h.Common().Args
		path := eng.ExprDeep(a[1])
		ctor := ctorOf(a[2])
		site := "route " + path
		switch {
		case logical.MatchString(ctor):
			nLogical++
			c.OK(f, site, h.Pos(), "served through Core.HandleRequest ("+ctor+")")
			if path == `"/v1/"` || path == `"/v1/sys/"` {
				catchAll = append(catchAll, path)
			}
		case pprofNamed.MatchString(path) && ctor == "net/http/pprof.Handler()":
			nSpecial++
			unauth["pprof"] = append(unauth["pprof"], h)
			c.OK(f, "route /v1/sys/pprof/<profile>", h.Pos(), "reviewed: unauthenticated pprof, only behind its flag")
		default:
			ok := false
			for _, sp := range table[path] {
				if sp.ctor == ctor {
					ok = true
					nSpecial++
					c.OK(f, site, h.Pos(), "reviewed special endpoint: "+ctor+" — "+sp.why)
				}
			}
			if !ok {
				c.Violation(f, site, h.Pos(), "route "+path+" is served by "+ctor+", which is neither the handleLogical* family (Core.HandleRequest: token, policy and audit checks) nor the reviewed handler for this path: a route that bypasses the request checks", nil)
			}
			switch {
			case strings.Contains(ctor, "Unauthenticated") || strings.Contains(ctor, "UnAuthenticated"):
				k := "metrics"
				if strings.Contains(ctor, "InFlight") {
					k = "inflight"
				}
				unauth[k] = append(unauth[k], h)
			case strings.HasPrefix(ctor, "net/http/pprof."):
				unauth["pprof"] = append(unauth["pprof"], h)
			case strings.Contains(path, "recovery-token") || path == `"/v1/sys/raw/"`:
				recovery = append(recovery, h)
			case strings.Contains(path, "/generate-root/"):
				unauth["generate-root"] = append(unauth["generate-root"], h)
			case strings.Contains(path, "/rekey"):
				unauth["rekey"] = append(unauth["rekey"], h)
			}
		}
	}
	sort.Strings(catchAll)
	if strings.Join(catchAll, ",") == `"/v1/","/v1/sys/"` {
		c.OK(f, "catch-all routes /v1/ and /v1/sys/", f.Pos(), "both served by handleLogical")
	} else {
		c.Violation(f, "catch-all routes /v1/ and /v1/sys/", f.Pos(), "the catch-all API routes are not both served by handleLogical: "+strings.Join(catchAll, ","), nil)
	}
	c.Floor(f, "logical routes", nLogical, 8)
	c.Floor(f, "special routes", nSpecial, 25)
	// unauthenticated variants only behind their flag; recovery endpoints only in recovery mode
	c.Clause("R2", "C02.5")
	for k, flag := range map[string]string{
		"metrics":  `\.Telemetry\.UnauthenticatedMetricsAccess$`,
		"pprof":    `\.Profiling\.UnauthenticatedPProfAccess$`,
		"inflight": `\.InFlightRequestLogging\.UnauthenticatedInFlightAccess$`,
	} {
		if c.Floor(f, "unauthenticated "+k+" routes", len(unauth[k]), 1) {
			c.Cut(f, "register unauthenticated "+k+" route", unauth[k], eng.G(f, flag, true), nil)
		}
	}
	// share-authenticated endpoints are registered unless the listener disables them
	for k, flag := range map[string]string{
		"generate-root": `^\*props\.ListenerConfig\.DisableUnauthedGenerateRootEndpoints$`,
		"rekey":         `^\*props\.ListenerConfig\.DisableUnauthedRekeyEndpoints$`,
	} {
		if c.Floor(f, "share-authenticated "+k+" routes", len(unauth[k]), 2) {
			c.Cut(f, "register share-authenticated "+k+" route", unauth[k], eng.G(f, flag, false), nil)
		}
	}
	if c.Floor(f, "recovery-mode routes", len(recovery), 3) {
		c.Cut(f, "register recovery-mode route", recovery, eng.G(f, `^props\.RecoveryMode$`, true), nil)
	}
	// and no ordinary route is registered in recovery mode: the logical catch-alls lie on the other arm
	var logicalRegs []ssa.Instruction
	for _, h := range handles {
		if logical.MatchString(ctorOf(h.Common().Args[2])) {
			logicalRegs = append(logicalRegs, h)
		}
	}
	c.Cut(f, "register API route", logicalRegs, eng.G(f, `^props\.RecoveryMode$`, false), nil)

	// the logical family really goes through Core.HandleRequest
	c.Clause("R3", "C02.5")
	if g := c.Fn("http.request"); g != nil {
		hr := eng.Calls(g, `^vault\.\(\*Core\)\.HandleRequest$`)
		c.Floor(g, "Core.HandleRequest in http.request", len(hr), 1)
	}
	if g := c.Fn("http.handleLogicalInternal$1"); g != nil {
		rq := instrsOf(eng.Calls(g, `^http\.request$`))
		resp := instrsOf(eng.Calls(g, `^http\.respondLogical$`))
		if c.Floor(g, "http.request call", len(rq), 1) && c.Floor(g, "respondLogical call", len(resp), 1) {
			c.Before(g, "request handled by the core", rq, "logical response written", resp)
		}
	}
	for _, n := range []string{"http.handleLogical", "http.handleLogicalNoForward", "http.handleLogicalWithInjector"} {
		if g := c.Fn(n); g != nil {
			c.Floor(g, "delegation to handleLogicalInternal", len(eng.Calls(g, `^http\.handleLogicalInternal$`)), 1)
		}
	}
}

// ctorOfInner2 descends the reviewed wrappers (forward-if-standby, audit).
func ctorOfInner2(v ssa.Value) string {
	s := eng.Expr(v)
	if cl, ok := v.(*ssa.Call); ok && (s == "http.handleForwardIfStandby()" || s == "http.handleAuditNonLogical()") {
		a := cl.Call.Args
		return s + ">" + ctorOfInner2(a[len(a)-1])
	}
	return s
}

func ctorOfInner(v ssa.Value) string {
	switch x := v.(type) {
	case *ssa.ChangeType:
		return eng.Expr(x.X)
	case *ssa.MakeInterface:
		return ctorOfInner(x.X)
	}
	return eng.Expr(v)
}

// c02MountRelative (C02.1): the root-path and login-path tables of a mount are
// consulted with the request path made relative to THAT mount: the prefix that
// is trimmed is the mount found by the lookup, and it is trimmed from the very
// key that was looked up (the namespace-qualified path). Trimming it from the
// unqualified path leaves the mount prefix in place inside a child namespace,
// nothing matches the mount's root paths any more and sudo is no longer
// required there (seed C02-b).
func c02MountRelative(c *eng.Ctx) {
	c.Clause("R5", "C02.1")
	n := 0
	for _, f := range c.P.Funcs {
		if !eng.InPkg(f, "routing") {
			continue
		}
		for _, tp := range eng.Calls(f, `^strings\.TrimPrefix$`) {
			a := tp.Common().Args
			ex, ok := a[1].(*ssa.Extract)
			if !ok || ex.Index != 0 {
				continue
			}
			lp, ok := ex.Tuple.(*ssa.Call)
			if !ok || !strings.HasSuffix(eng.CalleeName(&lp.Call), "go-radix.Tree).LongestPrefix") {
				continue
			}
			n++
			looked := lp.Call.Args[len(lp.Call.Args)-1]
			site := "mount prefix trimmed from the key that was looked up"
			if a[0] == looked || eng.ExprDeep(a[0]) == eng.ExprDeep(looked) {
				c.OK(f, site, tp.Pos(), eng.ExprDeep(looked))
			} else {
				c.Violation(f, site, tp.Pos(), "the mount prefix found for "+eng.ExprDeep(looked)+" is trimmed from "+eng.ExprDeep(a[0])+": inside a child namespace the remainder keeps the mount prefix and matches none of the mount's root/login paths", nil)
			}
		}
	}
	c.Floor(nil, "mount-relative remainders", n, 2)
	// what RootPath / LoginPath match against their tables is that remainder
	for _, fn := range []string{"routing.(*Router).RootPath", "routing.(*Router).LoginPath"} {
		f := c.Fn(fn)
		if f == nil {
			continue
		}
		lps := eng.Calls(f, `go-radix\.Tree\)\.LongestPrefix$`)
		m := 0
		for _, lp := range lps {
			recv := eng.Expr(lp.Common().Args[0])
			if strings.HasSuffix(recv, ".root") {
				continue
			}
			m++
			c.Prov(f, "key matched against the mount's path table", lp, lp.Common().Args[1], `^call:strings\.TrimPrefix$`)
		}
		c.Floor(f, "path-table lookups", m, 1)
	}
}
