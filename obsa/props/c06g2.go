package props

import (
	"fmt"
	"go/token"
	"strings"

	"golang.org/x/tools/go/ssa"

	"obsa/eng"
)

// Second-tier mechanisms of C06 (gap round 2): the persistence helpers the
// "durable lease" rests on, the agreement between the index writer and the
// index remover used by the rollback, the outer condition that decides
// whether a secret is registered at all, and the persist flags handed to
// RegisterAuth.
func runC06Gaps2(c *eng.Ctx) {
	service, oks := c.P.ConstValue("logical.TokenTypeService")
	if !oks {
		c.Unresolved("logical.TokenTypeService")
		return
	}
	tokNSIn := `ByID\(namespace\.SplitIDFromString\(\)#1\)`
	rootGIn := `global:namespace\.RootNamespace`

	// ---- C06.8 persistEntry / deleteEntry: success means the storage operation on leaseView(le.namespace)[le.LeaseID] succeeded
	for _, w := range []struct{ fn, op string }{
		{"vault.(*ExpirationManager).persistEntry", "Put"},
		{"vault.(*ExpirationManager).deleteEntry", "Delete"},
	} {
		f := c.Fn(w.fn)
		if f == nil {
			continue
		}
		opS := nfPlain(nfSitesLocal(f, `^<barrier\.View>\.`+w.op+`$`))
		succ := eng.SuccessReturns(f, 0)
		if !c.Floor(f, "storage "+w.op, len(opS), 1) || !c.Floor(f, "nil-capable returns", len(succ), 1) {
			continue
		}
		c.Clause("R2", "C06.8")
		nfCutOK(c, f, "nil return", succ, 0, nfOKOf("success edge of ^<barrier\\.View>\\."+w.op+"$", opS))
		for _, e := range nfEffs(opS) {
			op := e.Call.In
			c.Clause("R5", "C06.8")
			if arg, afr := nfViewArg(e, `vault\.\(\*ExpirationManager\)\.leaseView$`); arg == nil {
				c.Violation(e.Fn, "view of the lease entry", op.Pos(), "the lease entry is not accessed through leaseView(ns)", nil)
			} else {
				nfProv(c, e.Fn, "namespace of the lease entry view", op, arg, afr, `^field:le\.namespace$`)
			}
			if w.op == "Delete" {
				a := e.Call.Args
				nfProv(c, e.Fn, "key of the lease entry deleted", op, a[len(a)-1], e.Fr, `^field:le\.LeaseID$`)
			}
			if w.op == "Put" {
				for _, k := range c04PutKeys(e) {
					c.Clause("R5", "C06.8")
					nfProv(c, k.fn, "key of the lease entry written", k.at, k.v, k.fr, `^field:le\.LeaseID$`)
				}
			}
		}
	}

	// ---- C06.9 the token-index writer reports success only after its Put; the remover used by the
	// rollback deletes the same key in the same view the writer wrote
	if f := c.Fn("vault.(*ExpirationManager).createIndexByToken"); f != nil {
		succ := eng.SuccessReturns(f, 0)
		if c.Floor(f, "nil-capable returns", len(succ), 1) {
			c.Clause("R2", "C06.9")
			nfCutOK(c, f, "nil return", succ, 0, nfOKOf(`success edge of ^<barrier\.View>\.Put$`, nfSitesLocal(f, `^<barrier\.View>\.Put$`)))
		}
	}
	if f := c.Fn("vault.(*ExpirationManager).removeIndexByToken"); f != nil {
		delS := nfPlain(nfSitesLocal(f, `^<barrier\.View>\.Delete$`))
		succ := eng.SuccessReturns(f, 0)
		if c.Floor(f, "index Delete", len(delS), 1) && c.Floor(f, "nil-capable returns", len(succ), 1) {
			c.Clause("R2", "C06.9")
			nfCutOK(c, f, "nil return", succ, 0, nfOKOf(`success edge of ^<barrier\.View>\.Delete$`, delS))
			for _, e := range nfEffs(delS) {
				d := e.Call.In
				c.Clause("R5", "C06.9")
				if arg, afr := nfViewArg(e, `vault\.\(\*ExpirationManager\)\.tokenIndexView$`); arg == nil {
					c.Violation(e.Fn, "view the token->lease index entry is removed from", d.Pos(), "the index entry is not removed through tokenIndexView(ns)", nil)
				} else {
					g2All(c, e.Fn, "namespace the token->lease index entry is removed from", d, g2NsOriginsF(arg, afr), "tokenIndexView(ns)", `^`+tokNSIn+`$`, `^`+rootGIn+`$`)
				}
				a := e.Call.Args
				nfProv(c, e.Fn, "key of the index entry removed", d, a[len(a)-1], e.Fr, `^call:vault\.\(\*TokenStore\)\.SaltID#0$`, `^const:"/"$`)
			}
			for _, e := range nfEffs(nfSitesLocal(f, `vault\.\(\*TokenStore\)\.SaltID$`)) {
				c.Clause("R5", "C06.9")
				g2All(c, e.Fn, "context the removed key is salted in", e.Call.In, g2CtxOriginsF(e.Call.Args[1], e.Fr), "SaltID(ctx, ...)", `^ctxNS\{`+tokNSIn+`\}$`, `^ctxNS\{`+rootGIn+`\}$`)
				nfProv(c, e.Fn, "ids salted for the removed key", e.Call.In, e.Call.Args[2], e.Fr, `^param:token$`, `^field:le\.LeaseID$`)
			}
		}
	}
	// the rollback removes the index of the very token the index was created for
	if f := c.Fn("vault.(*ExpirationManager).Register"); f != nil {
		var idxVar *ssa.Alloc
		for _, e := range nfEffs(nfSites(f, `vault\.\(\*ExpirationManager\)\.createIndexByToken$`)) {
			if a := c06CellRead(e.Call.Args[3], e.Fr); a != nil {
				idxVar = a
			}
		}
		c.Clause("R5", "C06.9")
		n := 0
		for _, in := range eng.Instrs(f, func(in ssa.Instruction) bool { _, ok := in.(*ssa.Defer); return ok }) {
			clo, _ := nfFuncValue(in.(*ssa.Defer).Call.Value)
			if clo == nil || clo.Parent() != f {
				continue
			}
			// the remover is called by the rollback closure itself or by a helper the closure always runs;
			// the token it is handed is followed back to the variable it is read from
			for _, e := range nfEffs(nfMust(clo, &nfFrame{call: in.(ssa.CallInstruction)}, nfNamed(`vault\.\(\*ExpirationManager\)\.removeIndexByToken$`), 2)) {
				n++
				site := "rollback removes the index of the token it was created for"
				same := idxVar != nil && c06CellRead(e.Call.Args[3], e.Fr) == idxVar
				if same {
					c.OK(e.Fn, site, e.Call.In.Pos(), "removeIndexByToken receives the captured variable handed to createIndexByToken")
				} else {
					c.Violation(e.Fn, site, e.Call.In.Pos(), "the rollback of Register removes the index under "+eng.Expr(e.Call.Args[3])+", not under the variable handed to createIndexByToken: for a batch token (indexed under its parent) a failed registration leaves a dangling index entry", nil)
				}
			}
		}
		c.Floor(f, "removeIndexByToken in the rollback", n, 1)
	}

	// ---- C06.10 handleRequest: a response that carries a secret leaves only across a successful
	// Register, the tested registerLease flag (KV arms, checked by C06.2) or the lease-renew path
	if f := c.Fn("vault.(*Core).handleRequest"); f != nil {
		c.Clause("R2", "C06.10")
		hasSecret := eng.CondEdges(f, `doRoutingIfApproved\(\)#0\.Secret == nil$`, false)
		if c.Floor(f, "branches on resp.Secret != nil", len(hasSecret), 1) {
			blocked := nfGCallOK(f, `vault\.\(\*ExpirationManager\)\.Register$`).Edges
			blocked = append(blocked, eng.CondEdgesDeep(f, `^strings\.HasPrefix\(req\.Path, "sys/leases/renew"\)$`, true)...)
			for _, b := range f.Blocks {
				if ifi := eng.IfOf(b); ifi != nil {
					if phi, ok := ifi.Cond.(*ssa.Phi); ok && eng.VarName(phi) == "registerLease" {
						blocked = append(blocked, eng.Edge{From: b, Succ: 1})
					}
				}
			}
			site := "on{resp.Secret != nil} response only across Register success / flag test / lease renewal"
			if h := eng.Reach(eng.Query{Fn: f, StartEdges: hasSecret, Blocked: blocked, Target: eng.IsTarget(eng.NonNilResultReturns(f, 0))}); h != nil {
				c.Violation(f, site, h.Instr.Pos(), "a response carrying a secret can be returned without reaching the registration decision: the exclusion ahead of it is wider than the sys/leases/renew path", h.Witness)
			} else {
				c.OK(f, site, hasSecret[0].From.Instrs[len(hasSecret[0].From.Instrs)-1].Pos(), "every non-nil response with a secret crosses Register success, the registerLease test or HasPrefix(req.Path, \"sys/leases/renew\")")
			}
		}
		// ---- C06.10 (exits) once a secret was generated, no exit abandons it: every return on the segment
		// passes the registration attempt (a failed Register rolls back: C06.1) or a revocation of the secret
		// at its backend — except across a tabled guard edge, each with its reason (seed C06-f exploits the
		// first of them by making the router restore a path MatchingMountEntry does not resolve: C06.14)
		c.Clause("R4", "C06.10")
		if len(hasSecret) > 0 {
			nilEdges := func(pat string) []eng.Edge {
				var out []eng.Edge
				for _, s := range nfPlain(nfSites(f, pat)) {
					if v := eng.ResultValue(s.At.(ssa.CallInstruction), 0); v != nil && len(s.Effs) == 1 && s.Effs[0].Call.In == s.At {
						out = append(out, eng.ValueNilEdges(v, true)...)
					}
				}
				return out
			}
			var ttlFail []eng.Edge
			for _, s := range nfPlain(nfSites(f, `^framework\.CalculateTTL$`)) {
				ttlFail = append(ttlFail, nfFailEdgesOf(s)...)
			}
			tabled := []struct {
				what, reason string
				edges        []eng.Edge
			}{
				{"router.MatchingMountEntry(req.Path) == nil", "the mount the secret came from is no longer in the router (unmounted between routing and this lookup): nothing can be routed to it any more, unmounting revokes by prefix; the router hands back a path this lookup resolves (C06.14)", nilEdges(`routing\.\(\*Router\)\.MatchingMountEntry$`)},
				{"router.MatchingBackend(req.Path) == nil", "KV arm only: key/value mounts issue no dynamic secret, nothing exists at a backend to revoke", nilEdges(`routing\.\(\*Router\)\.MatchingBackend$`)},
				{"router.MatchingSystemView(req.Path) == nil", "as for the mount entry: the mount vanished under the request", nilEdges(`routing\.\(\*Router\)\.MatchingSystemView$`)},
				{"framework.CalculateTTL failed", "with increment, period and explicit max 0 and a fresh start time it fails only for a mount whose max lease TTL is <= 0, which mount tuning refuses ('should never happen' guard)", ttlFail},
				{"HasPrefix(req.Path, \"sys/leases/renew\")", "a renewed lease is already registered", eng.CondEdgesDeep(f, `^strings\.HasPrefix\(req\.Path, "sys/leases/renew"\)$`, true)},
			}
			var flagOff []eng.Edge
			for _, b := range f.Blocks {
				if ifi := eng.IfOf(b); ifi != nil {
					if phi, ok := ifi.Cond.(*ssa.Phi); ok && eng.VarName(phi) == "registerLease" {
						flagOff = append(flagOff, eng.Edge{From: b, Succ: 1})
					}
				}
			}
			tabled = append(tabled, struct {
				what, reason string
				edges        []eng.Edge
			}{"registerLease == false", "cleared only on the KV arms (C06.2): no dynamic secret", flagOff})
			var blocked []eng.Edge
			for _, t := range tabled {
				if len(t.edges) == 0 {
					continue
				}
				blocked = append(blocked, t.edges...)
				c.Exception("vault.(*Core).handleRequest: exit after a secret was generated across "+t.what, t.reason)
			}
			regS := nfSites(f, `vault\.\(\*ExpirationManager\)\.Register$`)
			var revokeAt []ssa.Instruction
			for _, s := range nfSites(f, `routing\.\(\*Router\)\.Route$`) {
				all := len(s.Effs) > 0
				for _, e := range s.Effs {
					if ok, _ := nfAll(e.Call.Args[2], e.Fr, func(o eng.Origin) bool { return o.Kind == "call" && strings.HasSuffix(o.Desc, "logical.RevokeRequest") }); !ok {
						all = false
					}
				}
				if all {
					revokeAt = append(revokeAt, s.At)
				}
			}
			site := "on{resp.Secret != nil} every exit registers or revokes the secret"
			isRet := func(in ssa.Instruction) bool { r, ok := in.(*ssa.Return); return ok && r.Block().Comment != "recover" }
			if !c.Floor(f, "expiration.Register on the secret segment", len(regS), 1) {
				// reported by the floor
			} else if h := eng.Reach(eng.Query{Fn: f, StartEdges: hasSecret, Blocked: blocked, Barriers: append(nfAts(regS), revokeAt...), Target: isRet}); h != nil {
				c.Violation(f, site, h.Instr.Pos(), "after the backend generated a secret handleRequest can return without attempting expiration.Register and without revoking the secret at its backend: the credential stays live with no lease (the exit is not one of the tabled ones)", h.Witness)
			} else {
				c.OK(f, site, hasSecret[0].From.Instrs[len(hasSecret[0].From.Instrs)-1].Pos(), fmt.Sprintf("every return behind resp.Secret != nil passes expiration.Register or a routed RevokeRequest, or crosses one of %d tabled guard edges", len(blocked)))
			}
		}
		// ---- C06.11 a service token created through auth/token/ leaves only across RegisterAuth success
		c.Clause("R2", "C06.11")
		isService := eng.CondEdges(f, `\.Auth\.TokenType == `+service+`$`, true)
		if c.Floor(f, "service-token arm", len(isService), 1) {
			site := "on{created token is a service token} response only across RegisterAuth success"
			if h := eng.Reach(eng.Query{Fn: f, StartEdges: isService, Blocked: nfGCallOK(f, `vault\.\(\*ExpirationManager\)\.RegisterAuth$`).Edges, Target: eng.IsTarget(eng.NonNilResultReturns(f, 0))}); h != nil {
				c.Violation(f, site, h.Instr.Pos(), "handleRequest can hand out a freshly created service token without a successful expiration.RegisterAuth", h.Witness)
			} else {
				c.OK(f, site, isService[0].From.Instrs[len(isService[0].From.Instrs)-1].Pos(), "every non-nil response on the service-token arm crosses the success edge of RegisterAuth")
			}
		}
	}

	// ---- C06.14 the router hands the request back with the path it matched the mount by
	routerRestoresAdjustedPath(c, "C06.14")

	// ---- C06.12 the lease of a persisted token is persisted: the persist flag handed to
	// expiration.RegisterAuth is the one the token was created with (Core.RegisterAuth) or constant true
	for _, w := range []struct{ fn, want string }{
		{"vault.(*Core).RegisterAuth", `^param:persistToken$`},
		{"vault.(*Core).handleRequest", `^const:true$`},
		{"vault.(*Core).wrapInCubbyhole", `^const:true$`},
	} {
		f := c.Fn(w.fn)
		if f == nil {
			continue
		}
		ras := nfEffs(nfSites(f, `vault\.\(\*ExpirationManager\)\.RegisterAuth$`))
		c.Floor(f, "RegisterAuth call", len(ras), 1)
		for _, e := range ras {
			c.Clause("R5", "C06.12")
			nfProv(c, e.Fn, "persistLease handed to expiration.RegisterAuth", e.Call.In, e.Call.Args[5], e.Fr, w.want)
		}
		for _, e := range nfEffs(nfSites(f, `vault\.\(\*TokenStore\)\.create$|vault\.\(\*Core\)\.CreateToken$`)) {
			c.Clause("R5", "C06.12")
			nfProv(c, e.Fn, "persistToken handed to token creation", e.Call.In, e.Call.Args[3], e.Fr, w.want)
		}
	}
}

// c06CellRead: the variable v is a plain read of — in place, through the free
// variable of a closure, or through a parameter that was handed such a read
// (call chain fr); nil when v is anything else.
func c06CellRead(v ssa.Value, fr *nfFrame) *ssa.Alloc {
	for depth := 0; depth < 5 && v != nil; depth++ {
		switch x := v.(type) {
		case *ssa.UnOp:
			if x.Op != token.MUL {
				return nil
			}
			return nfCellOf(x.X)
		case *ssa.Parameter:
			if fr == nil {
				return nil
			}
			v = nfArgFor(fr.call, x)
			fr = fr.up
		default:
			return nil
		}
	}
	return nil
}

// routerRestoresAdjustedPath: Router.routeCommon rewrites req.Path for the
// backend and restores it in a deferred closure. The callers go on using the
// restored path (Core.handleRequest: MatchingMountEntry / MatchingSystemView /
// Register(req.Path) after a secret was issued), so the path restored must be
// the one the mount was matched by — req.Path AFTER the "foo means foo/"
// adjustment was stored into it: the snapshot the closure writes back is a read
// of req.Path that lies behind that store on every path (or is the adjusted
// value itself). Shared clause (C06; the router also serves C02 / C12).
func routerRestoresAdjustedPath(c *eng.Ctx, clause string) {
	f := c.Fn("routing.(*Router).routeCommon")
	pathF := c.P.Field("logical.Request.Path")
	if f == nil {
		return
	}
	if pathF == nil {
		c.Unresolved("logical.Request.Path")
		return
	}
	c.Clause("R5", clause)
	reqIdx := nfParamIndex(f, "req")
	isReq := func(base ssa.Value, fr *nfFrame) bool {
		ok, _ := nfIsParamOf(base, fr, f, reqIdx)
		return ok
	}
	isSlash := func(o eng.Origin) bool { return o.Kind == "const" && o.Desc == `"/"` }
	isPathRead := func(o eng.Origin, fr *nfFrame) bool {
		base, is := nfFieldOf(o, pathF)
		return is && isReq(base, fr)
	}
	// the adjustment: req.Path = <req.Path, possibly with "/" appended>
	var adj []ssa.Instruction
	adjSet := map[ssa.Value]bool{}
	for _, st := range nfFieldStores(f, pathF) {
		if st.Fn != f || !isReq(st.Base, nil) {
			continue
		}
		os := nfOrigins(st.St.Val, nil)
		slash, only := false, len(os) > 0
		for _, o := range os {
			if isSlash(o) {
				slash = true
			} else if !isPathRead(o, nil) {
				only = false
			}
		}
		if slash && only {
			adj = append(adj, st.St)
			for _, o := range os {
				adjSet[o.Val] = true
			}
		}
	}
	if !c.Floor(f, "store of the slash-adjusted path into req.Path", len(adj), 1) {
		return
	}
	n := 0
	for _, in := range eng.Instrs(f, func(in ssa.Instruction) bool { _, ok := in.(*ssa.Defer); return ok }) {
		clo, _ := nfFuncValue(in.(*ssa.Defer).Call.Value)
		if clo == nil || clo.Parent() != f {
			continue
		}
		fr := &nfFrame{call: in.(ssa.CallInstruction)}
		for _, st := range nfFieldStores(clo, pathF) {
			if st.Fn != clo || !isReq(st.Base, fr) {
				continue
			}
			n++
			site := "path restored into the request = the path the mount was matched by"
			os := nfOrigins(st.St.Val, fr)
			same := len(os) > 0
			bad := ""
			// the adjusted value itself: the same origins, the appended "/" included
			got := map[ssa.Value]bool{}
			for _, o := range os {
				got[o.Val] = true
				if !adjSet[o.Val] {
					same = false
				}
			}
			for v := range adjSet {
				if !got[v] {
					same = false
				}
			}
			if !same {
				for _, o := range os {
					ld, isInstr := o.Val.(ssa.Instruction)
					switch {
					case isSlash(o):
					case isPathRead(o, nil) && isInstr && ld.Parent() == f:
						if h := eng.Reach(eng.Query{Fn: f, Barriers: adj, Target: func(x ssa.Instruction) bool { return x == ld }}); h != nil {
							bad = "a read of req.Path taken before the adjusted path was stored into it (" + c.P.Pos(ld.Pos()) + ")"
						}
					default:
						bad = o.Kind + ":" + o.Desc
					}
				}
			}
			if len(os) == 0 {
				c.Undecided(clo, site, st.St.Pos(), "no origin found for the restored path")
			} else if bad != "" {
				c.Violation(clo, site, st.St.Pos(), "the deferred reset of routeCommon writes back "+bad+": a request addressed to the bare mount name (\"foo\" for mount \"foo/\") reaches the backend through the adjusted path but returns to its caller with the unadjusted one; Core.handleRequest then looks the mount up by that path (MatchingMountEntry does not retry with a slash), finds none and returns an internal error BEFORE expiration.Register: a freshly issued secret stays live at its backend without a lease", nil)
			} else {
				c.OK(clo, site, st.St.Pos(), "the snapshot written back is taken after req.Path = adjustedPath (or is the adjusted value)")
			}
		}
	}
	c.Floor(f, "restore of req.Path in the deferred reset", n, 1)
}
