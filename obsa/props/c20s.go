package props

import (
	"strings"

	"golang.org/x/tools/go/ssa"

	"obsa/eng"
)

// ---------------------------------------------------------------------------
// C20.4 callers of shamir.Split and the configured (shares, threshold)

func c20SplitCallers(c *eng.Ctx) {
	shares := c.P.Field("vault.SealConfig.SecretShares")
	thr := c.P.Field("vault.SealConfig.SecretThreshold")
	if shares == nil || thr == nil {
		c.Unresolved("vault.SealConfig.SecretShares")
		return
	}
	m := mustStatic(c, "shamir.Split")
	sites := c.P.FindCalls(m, func(fn *ssa.Function) bool { return !eng.InPkg(fn, "shamir") })
	c.Clause("R1", "C20.4a")
	c.CallerTable("shamir.Split", sites, map[string]string{
		"vault.(*Core).generateShares":      "initial unseal/recovery shares",
		"vault.(*Core).RecoveryRekeyUpdate": "legacy recovery rekey",
		"vault.(*SealManager).generateKey":  "key rotation",
	}, 3)
	for _, s := range sites {
		f, call := s.Fn, s.Call
		a := call.Common().Args
		c.Clause("R5", "C20.4b")
		site := "Split(key, cfg.SecretShares, cfg.SecretThreshold) of one configuration"
		nfa, ok1 := c20FieldLoad(a[1])
		tfa, ok2 := c20FieldLoad(a[2])
		switch {
		case !ok1 || eng.FieldVar(nfa) != shares:
			c.Violation(f, site, call.Pos(), "the number of parts is "+eng.ExprDeep(a[1])+", not a configuration's SecretShares", nil)
			continue
		case !ok2 || eng.FieldVar(tfa) != thr:
			c.Violation(f, site, call.Pos(), "the threshold is "+eng.ExprDeep(a[2])+", not a configuration's SecretThreshold (swapped or substituted arguments change how many shares reconstruct)", nil)
			continue
		case eng.ExprDeep(nfa.X) != eng.ExprDeep(tfa.X):
			c.Violation(f, site, call.Pos(), "parts and threshold come from different configurations: "+eng.ExprDeep(nfa.X)+" vs "+eng.ExprDeep(tfa.X), nil)
			continue
		}
		cfg := eng.ExprDeep(nfa.X)
		c.OK(f, site, call.Pos(), "both from "+cfg)
		c.Prov(f, "secret that is split", call, a[0], `^call:<barrier\.SecurityBarrier>\.GenerateKey#0$`)
		// only when more than one share is configured
		c.Clause("R2", "C20.4b")
		var multi []eng.Edge
		for _, b := range f.Blocks {
			ifi := eng.IfOf(b)
			if ifi == nil {
				continue
			}
			x, y, ok := c20Eq(ifi)
			if !ok || !c20ConstInt(y, 1) {
				continue
			}
			if fa, isF := c20FieldLoad(x); isF && eng.FieldVar(fa) == shares && eng.ExprDeep(fa.X) == cfg {
				multi = append(multi, c20BaseEdge(ifi, false))
			}
		}
		c.Cut(f, "shamir.Split", []ssa.Instruction{call}, eng.Guard{Desc: "[cfg.SecretShares == 1]=false", Edges: multi}, nil)
		c.Clause("R11", "C20.4b")
		c.ErrChecked(f, call)
		c.Clause("R4", "C20.4b")
		res := f.Signature.Results()
		for i := 0; i < res.Len()-1; i++ {
			c.NilResultOnEdges(f, "shamir.Split failed", eng.CallFailEdges(call), i, "key/shares")
		}
	}
}

// c20Config: the configured (shares, threshold) pairs are sane before they are used or cached.
func c20Config(c *eng.Ctx) {
	if f := c.Fn("vault.(*SealConfig).Validate"); f != nil && len(f.Params) == 1 {
		s := eng.VarName(f.Params[0])
		c.Clause("R2", "C20.4c")
		ok := eng.SuccessReturns(f, 0)
		if c.Floor(f, "nil-error returns of Validate", len(ok), 1) {
			c.Cut(f, "configuration accepted", ok, eng.G(f, `^`+s+`\.SecretShares < 1$`, false), nil)
			c.Cut(f, "configuration accepted", ok, eng.G(f, `^`+s+`\.SecretThreshold < 1$`, false), nil)
			var viaBase []ssa.Instruction
			for _, r := range ok {
				if c20StaticCall(r.(*ssa.Return).Results[0], "vault.(*SealConfig).baseValidate") != nil {
					viaBase = append(viaBase, r)
				}
			}
			if len(viaBase) == len(ok) {
				c.OK(f, "acceptance is baseValidate's verdict", ok[0].Pos(), "every possibly-nil return is the result of baseValidate")
			} else {
				c.Violation(f, "acceptance is baseValidate's verdict", ok[0].Pos(), "Validate can accept a configuration without consulting baseValidate", nil)
			}
		}
	}
	if f := c.Fn("vault.(*SealConfig).baseValidate"); f != nil && len(f.Params) == 1 {
		s := eng.VarName(f.Params[0])
		c.Clause("R2", "C20.4c")
		ok := eng.SuccessReturns(f, 0)
		if c.Floor(f, "nil-error returns of baseValidate", len(ok), 1) {
			c.Cut(f, "configuration accepted", ok, eng.G(f, `^255 < `+s+`\.SecretShares$`, false), nil)
			c.Cut(f, "configuration accepted", ok, eng.G(f, `^255 < `+s+`\.SecretThreshold$`, false), nil)
			c.Cut(f, "configuration accepted", ok, eng.G(f, `^`+s+`\.SecretShares < `+s+`\.SecretThreshold$`, false), nil)
			c.Cut(f, "configuration accepted", ok, eng.Or(eng.G(f, `^1 < `+s+`\.SecretShares$`, false), eng.G(f, `^`+s+`\.SecretThreshold < 2$`, false)), nil)
		}
	}
	// stored configurations are validated before they are cached or handed out
	c.Clause("R8", "C20.4d")
	n := 0
	for _, fn := range c.P.Funcs {
		if fn.Parent() != nil || !eng.InPkg(fn, "vault") || fn.Signature.Recv() == nil {
			continue
		}
		if fn.Name() != "BarrierConfig" && fn.Name() != "RecoveryConfig" {
			continue
		}
		if strings.Contains(eng.FuncName(fn), "Test") || len(eng.Calls(fn, `\.Get$`)) == 0 {
			continue // does not read the stored configuration
		}
		n++
		val := eng.GCallOK(fn, `^vault\.\(\*SealConfig\)\.(Validate|ValidateRecovery)$`)
		var cache []ssa.Instruction
		for _, cl := range eng.Calls(fn, `SetCachedBarrierConfig$|\.Store$`) {
			cache = append(cache, cl)
		}
		if len(val.Pass) == 0 {
			c.Violation(fn, "stored seal configuration is validated", fn.Pos(), "the configuration read from storage is never validated: its threshold is used to gate reconstruction as it is", nil)
			continue
		}
		if len(cache) > 0 {
			c.Cut(fn, "configuration cached", cache, val, nil)
		}
		var nonNil []ssa.Instruction
		for _, r := range eng.SuccessReturns(fn, 1) {
			if !eng.IsNilConst(r.(*ssa.Return).Results[0]) {
				nonNil = append(nonNil, r)
			}
		}
		// returns of a clone of the cached value precede the storage read and are not sinks of the decode path
		var fresh []ssa.Instruction
		gets := instrsOf(eng.Calls(fn, `\.Get$`))
		for _, r := range nonNil {
			if h := eng.Reach(eng.Query{Fn: fn, Barriers: gets, Target: func(in ssa.Instruction) bool { return in == r }}); h == nil {
				fresh = append(fresh, r)
			}
		}
		if len(fresh) > 0 {
			c.Cut(fn, "configuration decoded from storage is returned", fresh, val, nil)
		} else {
			c.Undecided(fn, "configuration decoded from storage is returned", fn.Pos(), "no return of a decoded configuration found")
		}
	}
	c.Floor(nil, "Seal implementations reading a stored configuration", n, 3)

	// rotation / rekey configurations are validated before they are installed
	c.Clause("R2", "C20.4e")
	if f := c.Fn("vault.(*SealManager).InitRotation"); f != nil {
		var inst []ssa.Instruction
		for _, cl := range eng.Calls(f, `^vault\.\(\*SealManager\)\.setRotationConfig$`) {
			if !eng.IsNilConst(cl.Common().Args[3]) {
				inst = append(inst, cl)
			}
		}
		if c.Floor(f, "setRotationConfig(non-nil)", len(inst), 1) {
			c.Cut(f, "rotation configuration installed", inst, eng.GCallOK(f, `^vault\.\(\*SealManager\)\.validateRotationConfig$`), nil)
		}
	}
	if f := c.Fn("vault.(*SealManager).validateRotationConfig"); f != nil {
		var ok []ssa.Instruction
		for _, r := range eng.SuccessReturns(f, 1) {
			if !eng.IsNilConst(r.(*ssa.Return).Results[0]) {
				ok = append(ok, r)
			}
		}
		if c.Floor(f, "accepting returns", len(ok), 1) {
			c.Cut(f, "rotation configuration accepted", ok, eng.GCallOK(f, `^vault\.\(\*SealConfig\)\.Validate$`), nil)
		}
	}
	for _, e := range [][2]string{{"vault.(*Core).BarrierRekeyInit", `^c\.rootRotationConfig$`}, {"vault.(*Core).RecoveryRekeyInit", `^c\.recoveryRotationConfig$`}} {
		fn, fld := e[0], e[1]
		f := c.Fn(fn)
		if f == nil {
			continue
		}
		var inst []ssa.Instruction
		for _, st := range eng.Stores(f, fld) {
			if !eng.IsNilConst(st.Val) {
				inst = append(inst, st)
			}
		}
		if !c.Floor(f, "rekey configuration installed", len(inst), 1) {
			continue
		}
		g := eng.GCallOK(f, `^vault\.\(\*SealConfig\)\.Validate$`)
		if strings.HasSuffix(fn, "BarrierRekeyInit") {
			// with an auto seal the new configuration carries no shares at all (0/0) and the stored recovery configuration gates the rekey
			zero := eng.Stores(f, `^config\.SecretThreshold$`)
			alt := eng.Guard{Desc: g.Desc + " OR shares/threshold forced to 0 for a non-Shamir barrier"}
			alt.Edges = append(alt.Edges, g.Edges...)
			for _, z := range zero {
				if c20ConstInt(z.Val, 0) {
					// the edge leaving the block that zeroes the threshold
					b := z.Block()
					for si := range b.Succs {
						alt.Edges = append(alt.Edges, eng.Edge{From: b, Succ: si})
					}
				}
			}
			c.Cut(f, "rekey configuration installed", inst, alt, nil)
			continue
		}
		c.Cut(f, "rekey configuration installed", inst, g, nil)
	}
}
