package props

// C05 rules added after round-4 seeds.

import (
	"obsa/eng"
)

func runC05Gaps3(c *eng.Ctx) {
	c05gEveryCapConsidered(c, "C05.1")
}

// C05.1 (seed C07-d): the effective maximum is the smallest of the mount, the
// backend and the explicit maximum, so BOTH narrowing tests have to be evaluated
// on every path before the effective maximum is first used — folding them into
// one switch (first match wins) silently drops the explicit maximum whenever a
// backend maximum applies. Structural form: the first test of the effective
// maximum (`maxTTL <= 0`) is reached only through the `backendMaxTTL > 0` test
// and through the `explicitMaxTTL > 0` test (either outcome).
func c05gEveryCapConsidered(c *eng.Ctx, clause string) {
	f := c.Fn("framework.CalculateTTL")
	if f == nil {
		return
	}
	c.Clause("R2", clause)
	use := append(eng.CondEdges(f, `^0 < φmaxTTL\{.*\}$`, true), eng.CondEdges(f, `^0 < φmaxTTL\{.*\}$`, false)...)
	if !c.Floor(f, "first test of the effective maximum (maxTTL <= 0)", len(use), 2) {
		return
	}
	for _, cap := range []string{"backendMaxTTL", "explicitMaxTTL"} {
		pat := `^0 < ` + cap + `$`
		c.CutEdges(f, "effective maximum used ("+cap+" considered first)", use,
			eng.Or(eng.G(f, pat, true), eng.G(f, pat, false)))
	}
}
