package props

import (
	"regexp"
	"sort"
	"strings"

	"golang.org/x/tools/go/ssa"

	"obsa/eng"
)

// runC19Gaps2: second-tier mechanisms of C19 — the functions around UseToken
// and handleRequest that the count bound silently relies on.
func runC19Gaps2(c *eng.Ctx) {
	c19gCheckTokenHandsEntryBack(c)
	c19gNoReturnBeforeUse(c)
	c19gSiblingEndpoints(c)
	c19gUseTokenByID(c, "C19.1")
	c19gFastPath(c)
	c19gInitialLimit(c)
	c19gLegacyLimit(c)
	c19gControlGroupRMW(c)
	c19gLockedStoresAreLockedReads(c)
	c19gParentIsLive(c)
	tokenEntryKeyAgreement(c, "C19.1")
}

// returnsUnder: the returns of f reachable after `after` when the conditions of
// `assume` are fixed.
func c19gReturnsUnder(f *ssa.Function, after ssa.Instruction, assume map[string]bool) []*ssa.Return {
	var out []*ssa.Return
	seen := map[*ssa.Return]bool{}
	for {
		h := eng.Reach(eng.Query{Fn: f, StartAfter: after, Assume: assume, Target: func(in ssa.Instruction) bool {
			r, ok := in.(*ssa.Return)
			return ok && !seen[r] && r.Block().Comment != "recover"
		}})
		if h == nil {
			return out
		}
		r := h.Instr.(*ssa.Return)
		seen[r] = true
		out = append(out, r)
	}
}

func c19gHasOrigin(v ssa.Value, pat string) bool {
	re := regexp.MustCompile(pat)
	for _, o := range eng.Origins(v) {
		if re.MatchString(o.Kind + ":" + o.Desc) {
			return true
		}
	}
	return false
}

// C19.2c: denied and failed requests are counted because CheckToken hands the
// token entry back with every verdict: once the entry was fetched (unauth=false)
// no return of CheckToken drops it.
func c19gCheckTokenHandsEntryBack(c *eng.Ctx) {
	f := c.Fn("vault.(*Core).CheckToken")
	if f == nil {
		return
	}
	c.Clause("R5", "C19.2")
	fetch := eng.Calls(f, `vault\.\(\*Core\)\.fetchACLTokenEntryAndEntity$`)
	if !c.Floor(f, "token/ACL fetch", len(fetch), 1) {
		return
	}
	const fromFetch = `^call:vault\.\(\*Core\)\.fetchACLTokenEntryAndEntity#1$`
	n := 0
	for _, fc := range fetch {
		for _, r := range c19gReturnsUnder(f, fc, map[string]bool{`^unauth$`: false}) {
			if len(r.Results) < 5 {
				continue
			}
			n++
			vals, _, _ := eng.ReturnVals(r, 2)
			ok := len(vals) > 0
			var got []string
			for _, v := range vals {
				if v == nil {
					ok = false
					got = append(got, "<unset>")
					continue
				}
				got = append(got, eng.Expr(v))
				if !c19gHasOrigin(v, fromFetch) {
					ok = false
				}
			}
			site := "entry handed back with the verdict"
			if ok {
				c.OK(f, site, r.Pos(), "token entry result = "+strings.Join(got, " | "))
			} else {
				c.Violation(f, site, r.Pos(), "after the token entry was fetched CheckToken returns "+strings.Join(got, " | ")+" as the entry: handleRequest only counts a use when it gets the entry back, so this verdict (denied / failed request) is free for a use-limited token", nil)
			}
		}
	}
	c.Floor(f, "returns after the token/ACL fetch", n, 4)
}

// C19.2d: between CheckToken and the counting of the use, handleRequest returns
// only for the two whole-request refusals (relative path, forward to the active
// node); every other verdict is acted on after UseToken ran.
func c19gNoReturnBeforeUse(c *eng.Ctx) {
	f := c.Fn("vault.(*Core).handleRequest")
	if f == nil {
		return
	}
	c.Clause("R2", "C19.2")
	cts := eng.Calls(f, `vault\.\(\*Core\)\.CheckToken$`)
	uses := c19Calls(c19Sites(f, useTokenPat))
	if !c.Floor(f, "CheckToken call", len(cts), 1) || !c.Floor(f, "UseToken call", len(uses), 1) {
		return
	}
	var rets []ssa.Instruction
	for _, ct := range cts {
		for _, r := range eng.ReturnsFrom(f, nil, ct, nil) {
			if r.Block().Comment != "recover" {
				rets = append(rets, r)
			}
		}
	}
	if !c.Floor(f, "returns after CheckToken", len(rets), 4) {
		return
	}
	var ran []eng.Edge
	for _, u := range uses {
		ran = append(ran, eng.CallOKEdges(u)...)
		ran = append(ran, eng.CallFailEdges(u)...)
	}
	g := eng.Or(
		eng.Guard{Desc: "UseToken ran", Edges: ran},
		eng.G(f, `^te == nil$`, true),
		eng.G(f, `^vault\.\(\*Core\)\.CheckToken\(\)#4 == logical\.ErrRelativePath$`, true),
		eng.G(f, `^vault\.\(\*Core\)\.CheckToken\(\)#4 == logical\.ErrPerfStandbyPleaseForward$`, true))
	c.Cut(f, "return after CheckToken", rets, g, nil)
}

// C19.7: sys/seal and sys/step-down authenticate by hand; they count the use
// before the policy verdict and before acting, look at UseToken's result for
// the last-use test, and revoke the token on its last use before acting.
func c19gSiblingEndpoints(c *eng.Ctx) {
	for _, h := range []struct {
		fn, what string
		action   func(f *ssa.Function) []ssa.Instruction
	}{
		{"vault.(*Core).sealInitCommon", "seal", func(f *ssa.Function) []ssa.Instruction {
			return c02MaySinks(f, `vault\.\(\*Core\)\.sealInternal$`)
		}},
		{"vault.(*Core).StepDown", "step-down", func(f *ssa.Function) []ssa.Instruction {
			return eng.Instrs(f, func(in ssa.Instruction) bool { _, ok := in.(*ssa.Select); return ok })
		}},
	} {
		f := c.Fn(h.fn)
		if f == nil {
			continue
		}
		c.Clause("R2", "C19.7")
		useSites := c19Sites(f, useTokenPat)
		uses := c19Calls(useSites)
		verdict := c02MaySinks(f, `vault\.\(\*Core\)\.performPolicyChecks$`)
		action := h.action(f)
		if !c.Floor(f, "UseToken call", len(uses), 1) || !c.Floor(f, "performPolicyChecks call", len(verdict), 1) || !c.Floor(f, h.what+" action", len(action), 1) {
			continue
		}
		use := c19OK(useTokenPat, useSites)
		counted := eng.Or(eng.Guard{Desc: use.Desc, Edges: use.Edges}, eng.G(f, `^vault\.\(\*Core\)\.fetchACLTokenEntryAndEntity\(\)#1 == nil$`, true))
		c.Cut(f, "policy verdict (performPolicyChecks)", verdict, counted, nil)
		c.Cut(f, h.what, action, counted, nil)
		c.Cut(f, h.what, action, eng.G(f, `^vault\.\(\*Core\)\.performPolicyChecks\(\)\.Allowed$`, true), nil)
		// a nil entry from UseToken refuses
		c.Clause("R4", "C19.7")
		gone := eng.CondEdges(f, `^vault\.\(\*TokenStore\)\.UseToken\(\)#0 == nil$`, true)
		var start []eng.Edge
		start = append(start, gone...)
		for _, u := range uses {
			start = append(start, eng.CallFailEdges(u)...)
		}
		if len(gone) == 0 {
			c.Violation(f, "on{token gone or UseToken failed} no "+h.what, f.Pos(), "no branch tests UseToken's entry for nil: an exhausted token is not refused", nil)
		} else if hit := eng.Reach(eng.Query{Fn: f, StartEdges: start, Target: eng.IsTarget(append(append([]ssa.Instruction{}, action...), verdict...))}); hit != nil {
			c.Violation(f, "on{token gone or UseToken failed} no "+h.what, hit.Instr.Pos(), "the policy check or the action is reachable although UseToken failed or returned no entry", hit.Witness)
		} else {
			c.OK(f, "on{token gone or UseToken failed} no "+h.what, uses[0].Pos(), "neither the policy check nor the action is reachable from UseToken's failure / nil-entry edges")
		}
		// last use: tested on UseToken's result, revoked before acting
		c.Clause("R5", "C19.7")
		pend := eng.CondEdges(f, `\.NumUses == -1$`, true)
		if !c.Floor(f, "last-use test (NumUses == tokenRevocationPending)", len(pend), 1) {
			continue
		}
		for _, iff := range eng.EdgeIfs(pend) {
			var base ssa.Value
			var find func(v ssa.Value, d int)
			find = func(v ssa.Value, d int) {
				if v == nil || d > 6 || base != nil {
					return
				}
				if fa, ok := v.(*ssa.FieldAddr); ok {
					if fv := eng.FieldVar(fa); fv != nil && fv.Name() == "NumUses" {
						base = fa.X
						return
					}
				}
				if in, ok := v.(ssa.Instruction); ok {
					for _, op := range in.Operands(nil) {
						if *op != nil {
							find(*op, d+1)
						}
					}
				}
			}
			find(iff.(*ssa.If).Cond, 0)
			site := "last-use test reads UseToken's result"
			switch {
			case base == nil:
				c.Undecided(f, site, iff.Pos(), "the entry whose NumUses is tested was not found")
			case c19gHasOrigin(base, `^call:vault\.\(\*TokenStore\)\.UseToken#0$`):
				c.OK(f, site, iff.Pos(), "tested entry = "+eng.Expr(base))
			default:
				c.Violation(f, site, iff.Pos(), "the last-use test reads "+eng.Expr(base)+", the entry from before the decrement: the last use is never recognised and the token is not revoked", nil)
			}
		}
		c.Clause("R4", "C19.7")
		mk := eng.Calls(f, `vault\.\(\*ExpirationManager\)\.CreateOrFetchRevocationLeaseByToken$`)
		rv := eng.Calls(f, `vault\.\(\*ExpirationManager\)\.Revoke$`)
		if !c.Floor(f, "revocation lease + Revoke", min(len(mk), len(rv)), 1) {
			continue
		}
		var mkFail []eng.Edge
		for _, m := range mk {
			mkFail = append(mkFail, eng.CallFailEdges(m)...)
		}
		if hit := eng.Reach(eng.Query{Fn: f, StartEdges: pend, Barriers: eng.AsInstrs(rv), Blocked: mkFail, Target: eng.IsTarget(action)}); hit != nil {
			c.Violation(f, "on{last use} revoke before "+h.what, hit.Instr.Pos(), "the action is reachable on the last-use edge without revoking the token", hit.Witness)
		} else {
			c.OK(f, "on{last use} revoke before "+h.what, rv[0].Pos(), "on the last-use edge the action is reachable only through expiration.Revoke (or the failure edge of the lease creation)")
		}
		// (the re-test "te != nil" in front of the last-use test cannot fail once UseToken returned an entry)
		noEntry := append(append([]eng.Edge{}, gone...), eng.CondEdges(f, `^φte\{.*UseToken\(\)#0.*\} == nil$`, true)...)
		if hit := eng.Reach(eng.Query{Fn: f, StartEdges: use.Edges, Barriers: eng.EdgeIfs(pend), Blocked: noEntry, Target: eng.IsTarget(action)}); hit != nil {
			c.Violation(f, "last-use test on every counted path", hit.Instr.Pos(), "the action is reachable after a successful UseToken without testing for the last use", hit.Witness)
		} else {
			c.OK(f, "last-use test on every counted path", eng.EdgeIfs(pend)[0].Pos(), "every path from UseToken's success to the action evaluates the last-use test")
		}
		for _, r := range rv {
			a := r.Common().Args
			c.Clause("R5", "C19.7")
			c.Prov(f, "lease revoked on the last use", r, a[len(a)-1], `^call:vault\.\(\*ExpirationManager\)\.CreateOrFetchRevocationLeaseByToken#0$`)
		}
	}
}

// C19.1b: the by-ID variant adds nothing to UseToken: whatever it returns with
// a possibly-nil error is UseToken's own result (a token that lookup no longer
// returns is UseToken's "invalid entry" error, never a success).
func c19gUseTokenByID(c *eng.Ctx, clause string) {
	f := c.Fn("vault.(*TokenStore).UseTokenByID")
	if f == nil {
		return
	}
	c.Clause("R5", clause)
	succ := eng.SuccessReturns(f, 1)
	if !c.Floor(f, "nil-capable returns", len(succ), 1) {
		return
	}
	for _, r := range succ {
		ret := r.(*ssa.Return)
		for i, pat := range []string{`^call:vault\.\(\*TokenStore\)\.UseToken#0$`, `^call:vault\.\(\*TokenStore\)\.UseToken#1$`} {
			vals, _, _ := eng.ReturnVals(ret, i)
			for _, v := range vals {
				if v == nil {
					c.Violation(f, "prov{result of the by-ID use}", ret.Pos(), "a result is returned unset with a possibly-nil error", nil)
					continue
				}
				c.Prov(f, "result of the by-ID use", ret, v, pat)
			}
		}
	}
	for _, u := range eng.Calls(f, `vault\.\(\*TokenStore\)\.UseToken$`) {
		c.Prov(f, "entry used by ID", u, u.Common().Args[2], `^call:vault\.\(\*TokenStore\)\.Lookup#0$`)
	}
}

// C19.1c: the unlocked fast path of UseToken (returning the caller's entry
// untouched) is taken only for NumUses == 0.
func c19gFastPath(c *eng.Ctx) {
	f := c.Fn("vault.(*TokenStore).UseToken")
	if f == nil {
		return
	}
	c.Clause("R2", "C19.1")
	var fast []ssa.Instruction
	for _, r := range eng.SuccessReturns(f, 1) {
		vals, _, _ := eng.ReturnVals(r.(*ssa.Return), 0)
		for _, v := range vals {
			if _, isParam := v.(*ssa.Parameter); isParam {
				fast = append(fast, r)
				break
			}
		}
	}
	if len(fast) == 0 {
		c.OK(f, "unlocked fast path", f.Pos(), "UseToken has no return that hands the caller's entry back undecremented")
		return
	}
	c.Cut(f, "return of the caller's entry without decrement", fast, eng.G(f, `^te\.NumUses == 0$`, true), nil)
}

// C19.8: the counter starts at the limit that was granted: a login token's
// entry carries auth.NumUses on every path to its creation.
func c19gInitialLimit(c *eng.Ctx) {
	f := c.Fn("vault.(*Core).RegisterAuth")
	if f == nil {
		return
	}
	c.Clause("R3", "C19.8")
	create := c02MaySinks(f, `vault\.\(\*TokenStore\)\.create$`)
	st := eng.Stores(f, `\.NumUses$`)
	if !c.Floor(f, "tokenStore.create", len(create), 1) || !c.Floor(f, "stores to the entry's NumUses", len(st), 1) {
		return
	}
	c.Before(f, "te.NumUses = auth.NumUses", eng.AsInstrs(st), "tokenStore.create", create)
	c.Clause("R5", "C19.8")
	for _, s := range st {
		c.Prov(f, "initial use count of a login token", s, s.Val, `^field:auth\.NumUses$`)
	}
}

// C19.8b: the on-read upgrade of a legacy entry keeps its limit: the deprecated
// field is cleared only after it was copied when the new field is unset, and the
// "smaller of the two" comparison is evaluated only for a set new field.
func c19gLegacyLimit(c *eng.Ctx) {
	f := c.Fn("vault.(*TokenStore).lookupInternal")
	if f == nil {
		return
	}
	var copies, clears []ssa.Instruction
	for _, s := range eng.Stores(f, `\.NumUses$`) {
		if fa, ok := s.Val.(*ssa.UnOp); ok {
			if fv := eng.FieldVar(fa.X); fv != nil && fv.Name() == "NumUsesDeprecated" {
				copies = append(copies, s)
			}
		}
	}
	for _, s := range eng.Stores(f, `\.NumUsesDeprecated$`) {
		clears = append(clears, s)
	}
	if c.P.Field("logical.TokenEntry.NumUsesDeprecated") == nil {
		// the legacy field is gone from the entry: nothing can be lost
		c.Clause("R4", "C19.8")
		c.OK(f, "legacy use limit", f.Pos(), "TokenEntry has no deprecated NumUses field any more")
		return
	}
	c.Clause("R4", "C19.8")
	if !c.Floor(f, "NumUses = NumUsesDeprecated", len(copies), 1) || !c.Floor(f, "NumUsesDeprecated cleared", len(clears), 1) {
		return
	}
	unset := eng.CondEdges(f, `\.NumUses == 0$`, true)
	site := "on{legacy entry, new field unset} limit copied before the deprecated field is cleared"
	if len(unset) == 0 {
		c.Violation(f, site, clears[0].Pos(), "no branch tests NumUses == 0 before the deprecated field is cleared: a legacy entry whose limit is only in the deprecated field becomes unlimited", nil)
	} else if h := eng.Reach(eng.Query{Fn: f, StartEdges: unset, Barriers: copies, Target: eng.IsTarget(clears)}); h != nil {
		c.Violation(f, site, h.Instr.Pos(), "the deprecated use limit is cleared without having been copied although NumUses is 0 (unlimited)", h.Witness)
	} else {
		c.OK(f, site, copies[0].Pos(), "from the NumUses == 0 edge the deprecated field is cleared only after NumUses = NumUsesDeprecated")
	}
	c.Clause("R2", "C19.8")
	smaller := eng.CondEdges(f, `\.NumUsesDeprecated < .*\.NumUses$`, true)
	if c.Floor(f, "comparison NumUsesDeprecated < NumUses", len(smaller), 1) {
		c.Cut(f, "comparison of the two limits", eng.EdgeIfs(smaller), eng.G(f, `\.NumUses == 0$`, false), nil)
		// not copying is only allowed when the deprecated limit is not the smaller one
		keep := eng.CondEdges(f, `\.NumUsesDeprecated < .*\.NumUses$`, false)
		if h := eng.Reach(eng.Query{Fn: f, StartEdges: eng.CondEdges(f, `\.NumUsesDeprecated == 0$`, false), Barriers: copies, Blocked: keep, Target: eng.IsTarget(clears)}); h != nil {
			c.Violation(f, "deprecated limit dropped only when it is not the smaller one", h.Instr.Pos(), "the deprecated use limit can be cleared without being copied and without having lost the comparison", h.Witness)
		} else {
			c.OK(f, "deprecated limit dropped only when it is not the smaller one", clears[0].Pos(), "clearing without copying crosses the NumUsesDeprecated < NumUses == false edge")
		}
	}
}

// C19.1d: the other read-modify-write of a live token entry (control-group
// authorisation) re-reads and stores under the same per-token lock, keyed by the
// id it looks up; otherwise it can overwrite a concurrent decrement.
func c19gControlGroupRMW(c *eng.Ctx) {
	f := c.Fn("vault.(*Core).addAuthorization")
	if f == nil {
		return
	}
	c.Clause("R9", "C19.1")
	held := eng.MustHold(f, tokenLockCall("Lock"), tokenLockCall("Unlock"))
	reread := eng.Calls(f, `vault\.\(\*TokenStore\)\.lookupInternal$`)
	stores := eng.Calls(f, `vault\.\(\*Core\)\.setControlGroupInTokenEntry$|vault\.\(\*TokenStore\)\.store$`)
	if !c.Floor(f, "re-read (lookupInternal)", len(reread), 1) || !c.Floor(f, "store of the entry", len(stores), 1) {
		return
	}
	for _, in := range append(append([]ssa.CallInstruction{}, reread...), stores...) {
		site := "locked{" + eng.CalleeName(in.Common()) + "}"
		if held(in) {
			c.OK(f, site, in.Pos(), "executes with the per-token lock held on every path")
		} else {
			c.Violation(f, site, in.Pos(), "reachable without holding LockForKey(tokenStore.tokenLocks, token).Lock(): the entry written back may predate a concurrent UseToken decrement", nil)
		}
	}
	c.Clause("R5", "C19.1")
	for _, s := range stores {
		a := s.Common().Args
		c.Prov(f, "entry written back", s, a[2], `^call:vault\.\(\*TokenStore\)\.lookupInternal#0$`)
	}
	// the lock is keyed by the id that is looked up
	locks := eng.Calls(f, `locksutil\.LockForKey`)
	if c.Floor(f, "LockForKey call", len(locks), 1) {
		for _, l := range locks {
			for _, r := range reread {
				la, ra := l.Common().Args, r.Common().Args
				site := "lock key is the token looked up"
				if len(la) >= 2 && len(ra) >= 3 && eng.ExprDeep(la[1]) == eng.ExprDeep(ra[2]) {
					c.OK(f, site, l.Pos(), "LockForKey(…, "+eng.Expr(la[1])+") / lookupInternal("+eng.Expr(ra[2])+")")
				} else {
					c.Violation(f, site, l.Pos(), "the per-token lock is taken for a different key than the token whose entry is rewritten", nil)
				}
			}
		}
	}
}

// C19.1e: a token entry that is written back under the per-token lock was read
// under that lock: for every TokenStore.store (or the control-group writer) in
// package vault that executes with a LockForKey(tokenLocks, …) lock held, the
// lookupInternal call its entry comes from is executed with the lock held as
// well. (The lock key can only be derived from the entry, so orphaning and tidy
// look the child up first; they must look it up again once the lock is held,
// otherwise the copy written back predates a concurrent UseToken.) Stores that
// are not made under a token lock at all — the revocation marker, lookup's own
// upgrade persist under the caller's read lock — are outside this clause.
func c19gLockedStoresAreLockedReads(c *eng.Ctx) {
	c.Clause("R9", "C19.1")
	const writers = tokenStorePat + `|vault\.\(\*Core\)\.setControlGroupInTokenEntry$`
	n := 0
	for _, fn := range c.P.Funcs {
		if !eng.InPkg(fn, "vault") || len(fn.Blocks) == 0 {
			continue
		}
		storeSites := c19Sites(fn, writers)
		if len(storeSites) == 0 {
			continue
		}
		held := eng.MustHold(fn, tokenLockCall("Lock"), tokenLockCall("Unlock"))
		entered := heldByEveryCaller(c, fn) // a "...Locked" body: the caller holds the lock over the whole function
		for _, ss := range storeSites {
			s := ss.At
			if !entered && !held(s) {
				continue
			}
			arg, argFr := ss.Arg(2)
			if arg == nil {
				continue
			}
			if rv, rfr := nfResolveParam(arg, argFr); rv != nil {
				arg, argFr = rv, rfr
			}
			_ = argFr
			type src struct {
				v    ssa.Value
				held eng.HeldFunc
				all  bool
			}
			srcs := []src{{arg, held, entered}}
			if p, isParam := arg.(*ssa.Parameter); isParam && entered {
				// the entry is the caller's: judge the value each (lock-holding) caller hands in
				srcs = nil
				for j, q := range fn.Params {
					if q != p {
						continue
					}
					for _, caller := range c.P.Funcs {
						if caller.Pkg != fn.Pkg {
							continue
						}
						for _, cs := range eng.Calls(caller, "^"+regexp.QuoteMeta(eng.FuncName(fn))+"$") {
							if cs.Common().StaticCallee() == fn && j < len(cs.Common().Args) {
								srcs = append(srcs, src{cs.Common().Args[j], eng.MustHold(caller, tokenLockCall("Lock"), tokenLockCall("Unlock")), heldByEveryCaller(c, caller)})
							}
						}
					}
				}
			}
			for _, sr := range srcs {
				for _, o := range eng.Origins(sr.v) {
					ex, ok := o.Val.(*ssa.Extract)
					if !ok || ex.Index != 0 {
						continue
					}
					lk, ok := ex.Tuple.(*ssa.Call)
					if !ok || !strings.HasSuffix(eng.CalleeName(&lk.Call), "vault.(*TokenStore).lookupInternal") {
						continue
					}
					n++
					site := "entry stored under the token lock was read under it"
					if sr.all || sr.held(lk) {
						c.OK(fn, site, s.Pos(), "lookupInternal and the store both execute with the per-token lock held")
					} else {
						c.Violation(fn, site, s.Pos(), "the entry written back under the per-token lock comes from a lookupInternal made before the lock was taken: a concurrent UseToken decrement (or revocation marker) stored in between is overwritten", nil)
					}
				}
			}
		}
	}
	c.Floor(nil, "token entries re-stored under the per-token lock", n, 4)
}

// C19.4b: the parent that the "no child from a use-limited parent" guard looks
// at is the LIVE entry: the value whose NumUses is tested with "> 0" in
// handleCreateCommon comes from the untainted TokenStore.Lookup, which hides an
// entry marked revocation-pending (NumUses == -1) — by the time the backend
// runs, handleRequest has already consumed a use, so a parent on its final use
// must not be found. A tainted lookup returns that entry, -1 > 0 is false and an
// orphan child escapes the limit (seed C19-c). Equivalently the guard may refuse
// on NumUses != 0. storeCommon's parent check rests on the same Lookup, and the
// tainted lookups have a reviewed caller table (revocation, tidy, wrapping
// validation and display paths only).
func c19gParentIsLive(c *eng.Ctx) {
	const live = `^call:vault\.\(\*TokenStore\)\.Lookup#0$`
	if f := c.Fn("vault.(*TokenStore).handleCreateCommon"); f != nil {
		c.Clause("R5", "C19.4")
		create := c02MaySinks(f, `vault\.\(\*TokenStore\)\.create$`)
		guards := eng.EdgeIfs(eng.CondEdges(f, `^0 < .*\.NumUses$`, false))
		if c.Floor(f, "use-limit guard on the parent", len(guards), 1) && c.Floor(f, "ts.create", len(create), 1) {
			for _, g := range guards {
				var base ssa.Value
				var find func(v ssa.Value, d int)
				find = func(v ssa.Value, d int) {
					if v == nil || d > 6 || base != nil {
						return
					}
					if fa, ok := v.(*ssa.FieldAddr); ok {
						if fv := eng.FieldVar(fa); fv != nil && fv.Name() == "NumUses" {
							base = fa.X
							return
						}
					}
					if in, ok := v.(ssa.Instruction); ok {
						for _, op := range in.Operands(nil) {
							if *op != nil {
								find(*op, d+1)
							}
						}
					}
				}
				find(g.(*ssa.If).Cond, 0)
				site := "parent tested by the use-limit guard is the live entry"
				if base == nil {
					c.Undecided(f, site, g.Pos(), "the entry whose NumUses is tested was not found")
					continue
				}
				if ok, _, all := eng.OriginsMatch(base, live); ok {
					c.OK(f, site, g.Pos(), strings.Join(all, ", "))
					continue
				} else {
					// a guard that refuses on NumUses != 0 does not depend on the tombstone being hidden
					nz := eng.CondEdges(f, `^`+regexp.QuoteMeta(eng.Expr(base))+`\.NumUses == 0$`, true)
					if len(nz) > 0 && eng.Reach(eng.Query{Fn: f, Blocked: nz, Target: eng.IsTarget(create)}) == nil {
						c.OK(f, site, g.Pos(), "creation is also behind "+eng.Expr(base)+".NumUses == 0")
						continue
					}
					c.Violation(f, site, g.Pos(), "the guard NumUses > 0 tests an entry from "+strings.Join(all, ", ")+": a lookup that returns revocation-pending entries hands it NumUses == -1 on the parent's final use, -1 > 0 is false and an (orphan) child is minted by an exhausted token", nil)
				}
			}
		}
	}
	if f := c.Fn("vault.(*TokenStore).storeCommon"); f != nil {
		c.Clause("R2", "C19.4")
		var puts []ssa.Instruction
		for _, p := range eng.Calls(f, `\.Put$`) {
			cc := p.Common()
			recv := cc.Value
			if !cc.IsInvoke() && len(cc.Args) > 0 {
				recv = cc.Args[0]
			}
			if recv != nil && strings.Contains(eng.ExprDeep(recv), "parentView") {
				puts = append(puts, p)
			}
		}
		if c.Floor(f, "parent-index write", len(puts), 1) {
			c.Cut(f, "parent-index write (child attached to its parent)", puts, eng.G(f, `^vault\.\(\*TokenStore\)\.Lookup\(\)#0 == nil$`, false), nil)
		}
	}
	// who may see revocation-pending entries
	c.Clause("R1", "C19.4")
	if m, miss := c.P.StaticCallee("vault.(*TokenStore).lookupTainted"); len(miss) == 0 {
		c.CallerTable("TokenStore.lookupTainted", c.P.FindCalls(m, nil), map[string]string{
			"vault.(*Core).handleCancelableRequest":       "deferred control-group request stored in a wrapping token that validateWrappingToken accepted",
			"vault.(*SystemBackend).handleWrappingLookup": "sys/wrapping/lookup: the wrapping token was just used for this very request",
			"vault.(*SystemBackend).handleWrappingRewrap": "sys/wrapping/rewrap: same",
			"vault.(*SystemBackend).handleWrappingUnwrap": "sys/wrapping/unwrap: same",
		}, 4)
	} else {
		c.Unresolved("vault.(*TokenStore).lookupTainted")
	}
	if m, miss := c.P.StaticCallee("vault.(*TokenStore).lookupInternal"); len(miss) == 0 {
		var tainted []eng.CallSite
		for _, s := range c.P.FindCalls(m, nil) {
			a := s.Call.Common().Args
			if len(a) >= 5 && eng.Expr(a[4]) != "false" {
				tainted = append(tainted, s)
			}
		}
		c.CallerTable("TokenStore.lookupInternal(tainted != false)", tainted, map[string]string{
			"vault.(*TokenStore).lookupTainted":       "the named tainted entry point (own table above)",
			"vault.(*TokenStore).lookupByAccessor":    "passes its caller's flag on (accessor lookups for revocation/display)",
			"vault.(*TokenStore).create":              "collision test for a client-chosen token id",
			"vault.(*TokenStore).revokeInternal":      "revocation",
			"vault.(*TokenStore).revokeTreeInternal":  "revocation",
			"vault.(*TokenStore).handleTidy":          "tidy",
			"vault.(*TokenStore).handleLookup":        "auth/token/lookup display",
			"vault.(*Core).handleControlGroupRequest": "control-group status display",
			"vault.(*ExpirationManager).Tidy":         "lease tidy",
		}, 8)
	} else {
		c.Unresolved("vault.(*TokenStore).lookupInternal")
	}
}

// tokenEntryKeyAgreement: writer and reader of a token entry agree on its
// storage key. Salts and id views are per namespace, and the namespace of the
// REQUEST may differ from the token's own. The writer (storeCommon, behind
// ts.store / ts.create) resolves the entry's own namespace from
// entry.NamespaceID, salts entry.ID in a context switched to that namespace and
// puts the entry into idView of that same namespace; the reader (lookupInternal)
// salts and reads in one namespace. A writer that salts in the caller's context
// files the decremented use count (or the revocation marker) under a key nobody
// reads: the stored count never drops (seed C19-d). Evaluated for C19.1 and,
// because ts.store also writes the revocation marker, for C04.20.
func tokenEntryKeyAgreement(c *eng.Ctx, clause string) {
	originSet := func(v ssa.Value) map[string]bool {
		m := map[string]bool{}
		for _, o := range eng.Origins(v) {
			m[o.Kind+":"+o.Desc] = true
		}
		return m
	}
	keys := func(m map[string]bool) string {
		var ks []string
		for k := range m {
			ks = append(ks, k)
		}
		sort.Strings(ks)
		return strings.Join(ks, ", ")
	}
	// the namespace arguments of the ContextWithNamespace calls a context value may come from
	ctxNamespaces := func(ctx ssa.Value) (ns map[string]bool, plain bool, other []string) {
		ns = map[string]bool{}
		for _, o := range eng.Origins(ctx) {
			cw, ok := o.Val.(*ssa.Call)
			switch {
			case ok && eng.CalleeName(&cw.Call) == "namespace.ContextWithNamespace" && len(cw.Call.Args) == 2:
				for k := range originSet(cw.Call.Args[1]) {
					ns[k] = true
				}
			case o.Kind == "param":
				plain = true
			default:
				other = append(other, o.Kind+":"+o.Desc)
			}
		}
		return
	}
	const ownNS = `call:vault.(*Core).NamespaceByID#0`
	if f := c.Fn("vault.(*TokenStore).storeCommon"); f != nil {
		c.Clause("R5", clause)
		// the write is located by what it is — a Put on a view built by idView — wherever it stands: in
		// storeCommon, or in a closure / helper it calls with the view and the entry as arguments (props/c04follow.go)
		type idPut struct {
			at   ssa.Instruction
			view *ssa.Call
			ent  ssa.Value
		}
		var puts []idPut
		for _, e := range nfEffs(nfViewOps(f, nil, "Put", `vault\.\(\*TokenStore\)\.idView$`)) {
			rv, _ := nfResolveParam(e.Call.Recv, e.Fr)
			view, ok := rv.(*ssa.Call)
			at := nfChainInstr(e, f)
			if !ok || at == nil || len(e.Call.Args) == 0 {
				continue
			}
			ent, _ := nfResolveParam(e.Call.Args[len(e.Call.Args)-1], e.Fr)
			puts = append(puts, idPut{at, view, ent})
		}
		if c.Floor(f, "write of the entry into the id view", len(puts), 1) {
			for _, pt := range puts {
				p, view := pt.at, pt.view
				nsArg := view.Call.Args[len(view.Call.Args)-1]
				// (1) the view is the one of the entry's own namespace
				site := "id view written is the one of the entry's own namespace"
				var nsCall *ssa.Call
				if ex, ok := nsArg.(*ssa.Extract); ok && ex.Index == 0 {
					nsCall, _ = ex.Tuple.(*ssa.Call)
				}
				if nsCall == nil || !strings.HasSuffix(eng.CalleeName(&nsCall.Call), "vault.(*Core).NamespaceByID") {
					c.Violation(f, site, p.Pos(), "idView is given "+eng.Expr(nsArg)+", not the namespace resolved from the entry", nil)
					continue
				}
				idArg := nsCall.Call.Args[len(nsCall.Call.Args)-1]
				if ok, bad, _ := eng.OriginsMatch(idArg, `^field:entry\.NamespaceID$`); ok {
					c.OK(f, site, p.Pos(), "idView(NamespaceByID(entry.NamespaceID))")
				} else {
					c.Violation(f, site, p.Pos(), "the namespace of the id view is resolved from "+bad+", not from entry.NamespaceID", nil)
				}
				// (2) the key is the entry's id salted in that same namespace
				site = "entry key is entry.ID salted in the entry's own namespace"
				kv := eng.StructLitField(pt.ent, "Key")
				if len(kv) == 0 {
					c.Undecided(f, site, p.Pos(), "the storage entry written is not a local literal with a Key")
					continue
				}
				for _, k := range kv {
					ex, ok := k.(*ssa.Extract)
					var salt *ssa.Call
					if ok && ex.Index == 0 {
						salt, _ = ex.Tuple.(*ssa.Call)
					}
					if salt == nil || !strings.HasSuffix(eng.CalleeName(&salt.Call), "vault.(*TokenStore).SaltID") {
						c.Violation(f, site, p.Pos(), "the key of the entry is "+eng.Expr(k)+", not a SaltID result", nil)
						continue
					}
					a := salt.Call.Args
					if ok, bad, _ := eng.OriginsMatch(a[2], `^field:entry\.ID$`); !ok {
						c.Violation(f, site, salt.Pos(), "the id salted for the entry's key comes from "+bad+", not entry.ID", nil)
						continue
					}
					ns, plain, other := ctxNamespaces(a[1])
					switch {
					case plain || len(other) > 0 || len(ns) == 0:
						c.Violation(f, site, salt.Pos(), "entry.ID is salted in "+eng.ExprDeep(a[1])+": salts are per namespace, so when the request namespace differs from the token's the entry is written under a key no lookup reads (the stored use count never drops)", nil)
					case len(ns) == 1 && ns[ownNS] && func() bool {
						// the very namespace value handed to idView
						for _, o := range eng.Origins(a[1]) {
							if cw, ok := o.Val.(*ssa.Call); ok && len(cw.Call.Args) == 2 && cw.Call.Args[1] != nsArg {
								return false
							}
						}
						return true
					}():
						c.OK(f, site, salt.Pos(), "SaltID(ContextWithNamespace(ctx, NamespaceByID(entry.NamespaceID)), entry.ID)")
					default:
						c.Violation(f, site, salt.Pos(), "entry.ID is salted in the namespace "+keys(ns)+", the entry is written into idView("+eng.Expr(nsArg)+")", nil)
					}
				}
			}
		}
	}
	if f := c.Fn("vault.(*TokenStore).lookupInternal"); f != nil {
		c.Clause("R5", clause)
		var gets []ssa.CallInstruction
		for _, g := range eng.Calls(f, `\.Get$`) {
			cc := g.Common()
			if cc.IsInvoke() {
				if rc, ok := cc.Value.(*ssa.Call); ok && strings.HasSuffix(eng.CalleeName(&rc.Call), "vault.(*TokenStore).idView") {
					gets = append(gets, g)
				}
			}
		}
		salts := eng.Calls(f, `vault\.\(\*TokenStore\)\.SaltID$`)
		if c.Floor(f, "read of the entry from the id view", len(gets), 1) && c.Floor(f, "SaltID of the looked-up id", len(salts), 1) {
			for _, g := range gets {
				view := g.Common().Value.(*ssa.Call)
				viewNS := originSet(view.Call.Args[len(view.Call.Args)-1])
				delete(viewNS, "call:namespace.FromContext#0") // the unswitched request namespace pairs with the plain ctx
				for _, s := range salts {
					ns, _, other := ctxNamespaces(s.Common().Args[1])
					site := "id is salted in the namespace whose id view is read"
					if len(other) == 0 && keys(ns) == keys(viewNS) {
						c.OK(f, site, s.Pos(), "switched namespaces: "+keys(ns))
					} else {
						c.Violation(f, site, s.Pos(), "SaltID runs in a context switched to {"+keys(ns)+"} "+strings.Join(other, ",")+" while idView is taken of {"+keys(viewNS)+"}", nil)
					}
				}
			}
		}
	}
}
