package props

import (
	"fmt"
	"go/token"
	"go/types"
	"regexp"
	"sort"
	"strings"

	"golang.org/x/tools/go/ssa"

	"obsa/eng"
)

func init() {
	register(&Prop{
		ID: "C17",
		Explanation: "Structural necessary conditions of 'transit encryption round-trips, binds its inputs and honours version limits', on every CFG path of sdk/helper/keysutil and the transit handlers: " +
			"(1) every Policy method that takes or parses a key version reaches its key-material fetch (safeGetKeyEntry / GetKey / DeriveKey) only across ver <= LatestVersion and its lower bound (consumers: MinDecryptionVersion, producers: MinEncryptionVersion or the default to latest, ECDH: MinAvailableVersion, HMACKey: non-negative with the lower bound at its two tabled callers); every fetch, convergent-version lookup and version prefix of one operation uses the same version value; the parsed version comes out of the policy's own template split; only tabled functions call the unguarded primitives; " +
			"(2) SymmetricEncryptRaw/SymmetricDecryptRaw hand the caller's key, data and opts.AdditionalData to the same AEAD constructor per key type; a random nonce or random-nonce AEAD is never used on the convergent arm and the convergent nonce is an HMAC of the plaintext under opts.HMACKey; Encrypt/DecryptWithFactory bind the factory's associated data and GetKey's key into the raw call, use the same cipher family and key-size switch per key type, and the ciphertext/signature prefix written by getVersionPrefix is built from the template getTemplateParts splits; the transit handlers bind a supplied associated_data into the call; " +
			"(3) Rotate/Upgrade/Persist arm a deferred rollback before mutating, restore the version fields and key map from snapshots taken before the mutation when the named error is non-nil, RotateInMemory cannot fail after its first mutation, Persist writes the policy only after handleArchiving succeeded, handleArchiving refuses an unordered window before writing and trims the live key map only after the archive was stored, and every copy between the archive slice and the live key map pairs slot v - MinAvailableVersion with Keys[Itoa(v)] for one and the same version value v; a handler that commits a storage transaction after mutating a cached policy restores or invalidates it when the commit fails; " +
			"(4) keys/<name>/config and trim change min_decryption_version / min_encryption_version / min_available_version only across their range checks, persist only across the ordering check, and the config rollback restores both fields from snapshots on an error or error response; the version fields are written only by tabled functions with tabled value shapes; " +
			"(gaps) Policy.Backup puts the archive it read after Persist into the backup and succeeds only if that read did; DeriveKey feeds the caller's context and the fetched entry's Key into the KDF and GetKey passes its context through; safeGetKeyEntry and convergentVersion read the live key map at Itoa(the requested version) only; rewrap re-encrypts only across a successful Decrypt and only the plaintext Decrypt returned; every per-item argument of the batch encrypt/decrypt/rewrap calls reads the loop's own batch item and the result goes to the response slot of the same index, and no value handed to a per-item call of the batch encrypt/decrypt/rewrap/sign/verify/HMAC loops is built on its own value of the previous iteration (no accumulator hoisted out of the batch loop); a generated HMAC is labelled with the version whose key was used, HMAC generation and verification key a fresh MAC state per message with HMACKey's key over the item's decoded input, and verification hands the unsliced Sum and the unsliced decoded MAC to hmac.Equal and stores its result; handleArchiving records ArchiveMinVersion = MinAvailableVersion before storing a trimmed archive, cuts MinAvailableVersion - ArchiveMinVersion slots and is the only writer of ArchiveMinVersion, and Persist's rollback restores every Policy field handleArchiving stores from a snapshot taken before it ran, and the loop copying the live keys of versions ArchiveVersion+1 .. LatestVersion into their archive slots is run on every path to storeArchive (not only when the archive grows) and copies in every iteration; the datakey endpoint hands an AssocDataFactory built from the request's associated_data to EncryptWithFactory; AssocDataFactory.GetAssociatedData decodes its own Encoded field and does not return success unless the decoder did.",
		NotDecided: "round-trip equality and tamper detection themselves (AEAD, OAEP, signature and HMAC arithmetic); determinism of the convergent nonce as a value; that derived keys differ per context (KDF); behaviour of external (KMS) keys; interleavings of concurrent requests (lock discipline); crash points between the archive write and the policy write.",
		Run:        runC17,
	})
}

// ---------------------------------------------------------------------------
// typed condition matching: comparisons are found by the identity of their
// operands (SSA values, field objects, constants), not by local names.

type c17match func(ssa.Value) bool

func c17strip(v ssa.Value) ssa.Value {
	for {
		switch x := v.(type) {
		case *ssa.ChangeType:
			v = x.X
		case *ssa.Convert:
			v = x.X
		default:
			return v
		}
	}
}

func c17is(vs ...ssa.Value) c17match {
	set := map[ssa.Value]bool{}
	for _, v := range vs {
		if v != nil {
			set[c17strip(v)] = true
		}
	}
	return func(v ssa.Value) bool { return set[c17strip(v)] }
}

// c17loadOf: a load of struct field fv (x.f read through a pointer or a value).
func c17loadOf(fv *types.Var) c17match {
	return func(v ssa.Value) bool {
		switch x := c17strip(v).(type) {
		case *ssa.UnOp:
			if x.Op == token.MUL {
				if fa, ok := x.X.(*ssa.FieldAddr); ok {
					f := eng.FieldVar(fa)
					return f != nil && (f == fv || f.Origin() == fv)
				}
			}
		case *ssa.Field:
			f := eng.FieldVar(x)
			return f != nil && (f == fv || f.Origin() == fv)
		}
		return false
	}
}

func c17const(s string) c17match {
	return func(v ssa.Value) bool {
		k, ok := c17strip(v).(*ssa.Const)
		return ok && k.Value != nil && eng.Expr(k) == s
	}
}

type c17cmp struct {
	blk    *ssa.BasicBlock
	eq     bool // L == R, otherwise L < R
	L, R   ssa.Value
	onTrue bool // truth value of the relation on the If's true edge
}

func c17cmps(f *ssa.Function) []c17cmp {
	var out []c17cmp
	for _, b := range f.Blocks {
		ifi := eng.IfOf(b)
		if ifi == nil {
			continue
		}
		v := ifi.Cond
		pol := true
		for {
			if u, ok := v.(*ssa.UnOp); ok && u.Op == token.NOT {
				pol = !pol
				v = u.X
				continue
			}
			break
		}
		bo, ok := v.(*ssa.BinOp)
		if !ok {
			continue
		}
		switch bo.Op {
		case token.LSS:
			out = append(out, c17cmp{b, false, bo.X, bo.Y, pol})
		case token.GTR:
			out = append(out, c17cmp{b, false, bo.Y, bo.X, pol})
		case token.LEQ:
			out = append(out, c17cmp{b, false, bo.Y, bo.X, !pol})
		case token.GEQ:
			out = append(out, c17cmp{b, false, bo.X, bo.Y, !pol})
		case token.EQL:
			out = append(out, c17cmp{b, true, bo.X, bo.Y, pol})
		case token.NEQ:
			out = append(out, c17cmp{b, true, bo.X, bo.Y, !pol})
		}
	}
	return out
}

// c17rel: the edges of f on which the relation (L < R), or (L == R) when eq,
// has truth value want, for every branch whose operands satisfy isL / isR.
func c17rel(f *ssa.Function, eq bool, isL, isR c17match, want bool) []eng.Edge {
	var out []eng.Edge
	for _, cm := range c17cmps(f) {
		if cm.eq != eq {
			continue
		}
		m := isL(cm.L) && isR(cm.R)
		if eq && !m {
			m = isL(cm.R) && isR(cm.L)
		}
		if !m {
			continue
		}
		if cm.onTrue == want {
			out = append(out, eng.Edge{From: cm.blk, Succ: 0})
		} else {
			out = append(out, eng.Edge{From: cm.blk, Succ: 1})
		}
	}
	return out
}

func c17guard(desc string, es ...[]eng.Edge) eng.Guard {
	g := eng.Guard{Desc: desc}
	for _, e := range es {
		g.Edges = append(g.Edges, e...)
	}
	return g
}

// c17leaves: the non-phi values merged into v.
func c17leaves(v ssa.Value) []ssa.Value {
	var out []ssa.Value
	seen := map[ssa.Value]bool{}
	var walk func(v ssa.Value)
	walk = func(v ssa.Value) {
		if v == nil || seen[v] {
			return
		}
		seen[v] = true
		if p, ok := v.(*ssa.Phi); ok {
			for _, e := range p.Edges {
				walk(e)
			}
			return
		}
		out = append(out, v)
	}
	walk(v)
	return out
}

// c17verArg: the argument bound to the first int parameter of the callee (the
// key version in every keysutil primitive that takes one).
func c17verArg(call ssa.CallInstruction) ssa.Value {
	cc := call.Common()
	sig := cc.Signature()
	off := 0
	if sig.Recv() != nil && !cc.IsInvoke() {
		off = 1
	}
	for i := 0; i < sig.Params().Len(); i++ {
		if b, ok := sig.Params().At(i).Type().Underlying().(*types.Basic); ok && b.Kind() == types.Int {
			if i+off < len(cc.Args) {
				return cc.Args[i+off]
			}
		}
	}
	return nil
}

// c17sameVal: a and b denote the same value: the same SSA value, or two reads
// of one local memory cell (a variable that a closure captures is kept in
// memory) that is not written any more once either of them was read.
func c17sameVal(f *ssa.Function, a, b ssa.Value) bool {
	a, b = c17strip(a), c17strip(b)
	if a == b {
		return a != nil
	}
	la, ok1 := a.(*ssa.UnOp)
	lb, ok2 := b.(*ssa.UnOp)
	if !ok1 || !ok2 || la.Op != token.MUL || lb.Op != token.MUL {
		return false
	}
	cell, ok := la.X.(*ssa.Alloc)
	if !ok || lb.X != ssa.Value(cell) || cell.Referrers() == nil {
		return false
	}
	var stores []ssa.Instruction
	for _, r := range *cell.Referrers() {
		switch x := r.(type) {
		case *ssa.Store:
			if x.Addr == ssa.Value(cell) {
				stores = append(stores, x)
			}
		case *ssa.MakeClosure:
			// a closure that captured the cell must only read it
			fn, _ := x.Fn.(*ssa.Function)
			for i, bnd := range x.Bindings {
				if bnd != ssa.Value(cell) || fn == nil || i >= len(fn.FreeVars) {
					continue
				}
				if refs := fn.FreeVars[i].Referrers(); refs != nil {
					for _, rr := range *refs {
						if st, ok := rr.(*ssa.Store); ok && st.Addr == ssa.Value(fn.FreeVars[i]) {
							return false
						}
						if _, ok := rr.(*ssa.MakeClosure); ok {
							return false
						}
					}
				}
			}
		case *ssa.UnOp:
		default:
			return false // address taken some other way
		}
	}
	for _, l := range []*ssa.UnOp{la, lb} {
		if eng.Reach(eng.Query{Fn: f, StartAfter: l, Target: eng.IsTarget(stores)}) != nil {
			return false
		}
	}
	return true
}

// c17stableCell: ld reads a local cell that is not written after this read,
// neither in f nor by a closure that captured it.
func c17stableCell(f *ssa.Function, ld *ssa.UnOp) bool {
	cell, ok := ld.X.(*ssa.Alloc)
	if !ok || cell.Referrers() == nil {
		return false
	}
	// a second, distinct read of the same cell lets c17sameVal do the work
	for _, r := range *cell.Referrers() {
		if l2, ok := r.(*ssa.UnOp); ok && l2 != ld && l2.Op == token.MUL {
			return c17sameVal(f, ld, l2) || c17stableAlone(f, ld, cell)
		}
	}
	return c17stableAlone(f, ld, cell)
}

func c17stableAlone(f *ssa.Function, ld *ssa.UnOp, cell *ssa.Alloc) bool {
	var stores []ssa.Instruction
	for _, r := range *cell.Referrers() {
		switch x := r.(type) {
		case *ssa.Store:
			if x.Addr == ssa.Value(cell) {
				stores = append(stores, x)
			}
		case *ssa.MakeClosure:
			fn, _ := x.Fn.(*ssa.Function)
			for i, bnd := range x.Bindings {
				if bnd != ssa.Value(cell) || fn == nil || i >= len(fn.FreeVars) {
					continue
				}
				if refs := fn.FreeVars[i].Referrers(); refs != nil {
					for _, rr := range *refs {
						if st, ok := rr.(*ssa.Store); ok && st.Addr == ssa.Value(fn.FreeVars[i]) {
							return false
						}
						if _, ok := rr.(*ssa.MakeClosure); ok {
							return false
						}
					}
				}
			}
		case *ssa.UnOp:
		default:
			return false
		}
	}
	return eng.Reach(eng.Query{Fn: f, StartAfter: ld, Target: eng.IsTarget(stores)}) == nil
}

// c17fwdResult: if v is result #i of a call of a closure literal, the values
// that closure returns as result #i (a forwarding closure such as
// func(n int) ([]byte, error) { return p.GetKey(ctx, ver, n) }); otherwise v.
func c17fwdResult(v ssa.Value) []ssa.Value {
	if ex, ok := c17strip(v).(*ssa.Extract); ok {
		if call, ok := ex.Tuple.(*ssa.Call); ok {
			if mc, ok := call.Call.Value.(*ssa.MakeClosure); ok {
				if fn, ok := mc.Fn.(*ssa.Function); ok {
					var out []ssa.Value
					for _, r := range eng.Returns(fn) {
						if ex.Index < len(r.Results) && !eng.AllNilThroughPhi(r.Results[ex.Index]) {
							out = append(out, r.Results[ex.Index])
						}
					}
					if len(out) > 0 {
						return out
					}
				}
			}
		}
	}
	return []ssa.Value{v}
}

func c17fieldStores(fn *ssa.Function, fv *types.Var) []*ssa.Store {
	var out []*ssa.Store
	for _, b := range fn.Blocks {
		for _, in := range b.Instrs {
			st, ok := in.(*ssa.Store)
			if !ok {
				continue
			}
			if fa, ok := st.Addr.(*ssa.FieldAddr); ok {
				if f := eng.FieldVar(fa); f != nil && (f == fv || f.Origin() == fv) {
					out = append(out, st)
				}
			}
		}
	}
	return out
}

// c17rollback: the deferred closure of f that tests a captured error variable
// (the named result) — the rollback — with its defer instruction and binding.
func c17rollback(f *ssa.Function) (clo *ssa.Function, mc *ssa.MakeClosure, deferIn []ssa.Instruction, fail []eng.Edge) {
	errT := types.Universe.Lookup("error").Type()
	for _, in := range eng.Instrs(f, func(in ssa.Instruction) bool { _, ok := in.(*ssa.Defer); return ok }) {
		m, ok := in.(*ssa.Defer).Call.Value.(*ssa.MakeClosure)
		if !ok {
			continue
		}
		fn := m.Fn.(*ssa.Function)
		var errVar *ssa.FreeVar
		for _, fv := range fn.FreeVars {
			if p, ok := fv.Type().(*types.Pointer); ok && types.Identical(p.Elem(), errT) {
				errVar = fv
			}
		}
		if errVar == nil {
			continue
		}
		// the edges on which the captured error is non-nil
		var es []eng.Edge
		for _, cm := range c17cmps(fn) {
			if !cm.eq {
				continue
			}
			isErr := func(v ssa.Value) bool {
				u, ok := v.(*ssa.UnOp)
				return ok && u.Op == token.MUL && u.X == ssa.Value(errVar)
			}
			if (isErr(cm.L) && eng.IsNilConst(cm.R)) || (isErr(cm.R) && eng.IsNilConst(cm.L)) {
				if cm.onTrue {
					es = append(es, eng.Edge{From: cm.blk, Succ: 1})
				} else {
					es = append(es, eng.Edge{From: cm.blk, Succ: 0})
				}
			}
		}
		if len(es) == 0 {
			continue
		}
		clo, mc, fail = fn, m, es
		deferIn = append(deferIn, in)
	}
	return
}

// c17snapshot resolves the value a rollback store writes back: it must be a
// load of a captured variable; returned are the stores to that variable in the
// enclosing function (the snapshot).
func c17snapshot(clo *ssa.Function, mc *ssa.MakeClosure, st *ssa.Store) (*ssa.Alloc, []*ssa.Store) {
	ld, ok := st.Val.(*ssa.UnOp)
	if !ok || ld.Op != token.MUL {
		return nil, nil
	}
	fv, ok := ld.X.(*ssa.FreeVar)
	if !ok {
		return nil, nil
	}
	for i, x := range clo.FreeVars {
		if x == fv && i < len(mc.Bindings) {
			a, ok := mc.Bindings[i].(*ssa.Alloc)
			if !ok || a.Referrers() == nil {
				return nil, nil
			}
			var out []*ssa.Store
			for _, r := range *a.Referrers() {
				if s, ok := r.(*ssa.Store); ok && s.Addr == ssa.Value(a) {
					out = append(out, s)
				}
			}
			return a, out
		}
	}
	return nil, nil
}

type c17fields struct {
	latest, minDec, minEnc, minAvail, keys, archiveVer, typ *types.Var
}

func runC17(c *eng.Ctx, thorough bool) {
	var F c17fields
	for name, dst := range map[string]**types.Var{
		"LatestVersion": &F.latest, "MinDecryptionVersion": &F.minDec, "MinEncryptionVersion": &F.minEnc,
		"MinAvailableVersion": &F.minAvail, "Keys": &F.keys, "ArchiveVersion": &F.archiveVer, "Type": &F.typ,
	} {
		*dst = c.P.Field("keysutil.Policy." + name)
		if *dst == nil {
			c.Unresolved("keysutil.Policy." + name)
			return
		}
	}
	c17windows(c, &F)
	c17binding(c, &F)
	c17aead(c, &F)
	c17durable(c, &F)
	c17config(c, &F)
	runC17Gaps2(c)
}

// ---------------------------------------------------------------------------
// C17.1 version windows

const c17fetchPat = `^keysutil\.\(\*Policy\)\.(safeGetKeyEntry|GetKey|DeriveKey)$`

type c17win struct {
	fn         string
	sinkPat    string
	defaulting bool       // version 0 is replaced by LatestVersion before the fetch
	lower      *types.Var // nil: no lower bound in this function
	conj       bool       // the lower bound is spelled "min > 0 && ver < min"
	nonneg     bool       // negative versions are refused
	eqLatest   bool       // "ver == LatestVersion" short-circuits the lower bound
	noUpper    bool       // the upper bound is the callee's (HMACKey), only the lower bound lives here
	floor      int
	role       string
}

func c17window(c *eng.Ctx, F *c17fields, w c17win) (f *ssa.Function, ver ssa.Value) {
	f = c.Fn(w.fn)
	if f == nil {
		return nil, nil
	}
	calls := c17calls(f, w.sinkPat)
	// a fetch made through a forwarding closure literal whose version is a
	// variable it captured from f: the call of the closure in f is the fetch
	// site, its version the captured variable (a memory cell of f)
	var viaClosure []ssa.Instruction
	var viaCell []ssa.Value
	for _, in := range eng.Instrs(f, func(in ssa.Instruction) bool { _, ok := in.(*ssa.Call); return ok }) {
		call := in.(*ssa.Call)
		mc, ok := call.Call.Value.(*ssa.MakeClosure)
		if !ok {
			continue
		}
		fn, _ := mc.Fn.(*ssa.Function)
		if fn == nil {
			continue
		}
		for _, k := range c17calls(fn, w.sinkPat) {
			if ld, ok := c17strip(c17verArg(k)).(*ssa.UnOp); ok && ld.Op == token.MUL {
				for i, fv := range fn.FreeVars {
					if ld.X == ssa.Value(fv) && i < len(mc.Bindings) {
						viaClosure = append(viaClosure, call)
						viaCell = append(viaCell, mc.Bindings[i])
					}
				}
			}
		}
	}
	if len(calls) == 0 || !c.Floor(f, "versioned key fetches", len(calls)+len(viaClosure), w.floor) {
		if len(calls) == 0 {
			c.Floor(f, "versioned key fetches", 0, w.floor)
		}
		return f, nil
	}
	sinks := append(instrsOf(calls), viaClosure...)
	// every fetch of one operation uses one version value
	c.Clause("R7", "C17.1")
	ver = c17verArg(calls[0])
	same := ver != nil
	for _, cl := range calls {
		if !c17sameVal(f, c17verArg(cl), ver) {
			same = false
			c.Violation(f, "agree{one version for every key fetch}", cl.Pos(), "this fetch uses "+eng.Expr(c17verArg(cl))+" while the first uses "+eng.Expr(ver)+": the window checks cover one of them only", nil)
		}
	}
	for i, cell := range viaCell {
		ld, ok := c17strip(ver).(*ssa.UnOp)
		if !ok || ld.Op != token.MUL || ld.X != cell || !c17stableCell(f, ld) {
			same = false
			c.Violation(f, "agree{one version for every key fetch}", viaClosure[i].Pos(), "the fetch made through the closure uses the captured variable "+eng.Expr(cell)+", which is not (provably) the value "+eng.Expr(ver)+" the window checks cover", nil)
		}
	}
	if !same {
		return f, nil
	}
	if len(calls) > 1 {
		c.OK(f, "agree{one version for every key fetch}", calls[0].Pos(), fmt.Sprintf("%d fetch(es) all use %s", len(calls), eng.Expr(ver)))
	}

	isLatest := c17loadOf(F.latest)
	cmpVals := []ssa.Value{ver}
	var zero []eng.Edge
	if w.defaulting {
		var raw []ssa.Value
		for _, l := range c17leaves(ver) {
			if !isLatest(l) {
				raw = append(raw, l)
			}
		}
		c.Clause("R5", "C17.1")
		if len(raw) != 1 || len(c17leaves(ver)) > 2 {
			var s []string
			for _, l := range c17leaves(ver) {
				s = append(s, eng.Expr(l))
			}
			c.Violation(f, "prov{version used = requested version or LatestVersion}", calls[0].Pos(), "the version handed to the fetch is merged from "+strings.Join(s, ", ")+"; expected the requested version and the policy's LatestVersion only", nil)
			return f, ver
		}
		c.OK(f, "prov{version used = requested version or LatestVersion}", calls[0].Pos(), "leaves: "+eng.Expr(raw[0])+" | LatestVersion")
		cmpVals = append(cmpVals, raw[0])
		zero = c17rel(f, true, c17is(raw[0]), c17const("0"), true)
	}
	exact := c17is(cmpVals...)
	x := c17match(func(v ssa.Value) bool {
		if exact(v) {
			return true
		}
		// another read of the memory cell the version lives in, taken when the cell is final
		ld, ok := c17strip(v).(*ssa.UnOp)
		if !ok || ld.Op != token.MUL {
			return false
		}
		for _, cv := range cmpVals {
			if l2, ok := c17strip(cv).(*ssa.UnOp); ok && l2.Op == token.MUL && l2.X == ld.X {
				if _, isCell := ld.X.(*ssa.Alloc); isCell && c17sameVal(f, ld, l2) {
					return true
				}
			}
		}
		return false
	})
	what := "key material fetch (" + w.role + ")"
	c.Clause("R2", "C17.1")
	if !w.noUpper {
		up := c17guard("ver <= LatestVersion"+ifs(w.defaulting, " OR ver == 0 (defaults to latest)"), c17rel(f, false, isLatest, x, false), zero)
		c.Cut(f, what, sinks, up, nil)
	}
	if w.lower != nil {
		lo := c17loadOf(w.lower)
		desc := "ver >= " + w.lower.Name()
		es := [][]eng.Edge{c17rel(f, false, x, lo, false), zero}
		if w.conj {
			es = append(es, c17rel(f, false, c17const("0"), lo, false))
			desc += " OR " + w.lower.Name() + " <= 0"
		}
		if w.eqLatest {
			es = append(es, c17rel(f, true, x, isLatest, true))
			desc += " OR ver == LatestVersion"
		}
		if w.defaulting {
			desc += " OR ver == 0 (defaults to latest)"
		}
		// the bound itself must be present, not only its escape hatches
		if len(es[0]) == 0 {
			c.Violation(f, "sink{"+what+"} guard{"+desc+"}", calls[0].Pos(), "guard absent: no branch of this function compares the version with "+w.lower.Name(), nil)
		} else {
			c.Cut(f, what, sinks, c17guard(desc, es...), nil)
		}
	}
	if w.nonneg {
		c.Cut(f, what, sinks, c17guard("ver >= 0"+ifs(w.defaulting, " OR ver == 0 (defaults to latest)"),
			c17rel(f, false, x, c17const("0"), false), c17rel(f, false, c17const("0"), x, true), zero), nil)
	}
	return f, ver
}

func ifs(b bool, s string) string {
	if b {
		return s
	}
	return ""
}

func c17windows(c *eng.Ctx, F *c17fields) {
	for _, w := range []c17win{
		{fn: "keysutil.(*Policy).DecryptWithFactory", sinkPat: c17fetchPat, lower: F.minDec, conj: true, floor: 3, role: "decrypt"},
		{fn: "keysutil.(*Policy).VerifySignatureWithOptions", sinkPat: c17fetchPat, lower: F.minDec, conj: true, floor: 5, role: "verify"},
		{fn: "keysutil.(*Policy).EncryptWithFactory", sinkPat: c17fetchPat, defaulting: true, lower: F.minEnc, nonneg: true, floor: 3, role: "encrypt"},
		{fn: "keysutil.(*Policy).SignWithOptions", sinkPat: c17fetchPat, defaulting: true, lower: F.minEnc, conj: true, nonneg: true, floor: 3, role: "sign"},
		{fn: "keysutil.(*Policy).WrapKey", sinkPat: c17fetchPat, defaulting: true, lower: F.minEnc, conj: true, nonneg: true, floor: 1, role: "wrap"},
		{fn: "keysutil.(*Policy).DeriveKeyECDH", sinkPat: c17fetchPat, defaulting: true, lower: F.minAvail, nonneg: true, floor: 1, role: "ECDH base key"},
		{fn: "keysutil.(*Policy).HMACKey", sinkPat: c17fetchPat, nonneg: true, floor: 1, role: "HMAC key; lower bound at the callers"},
		{fn: "keysutil.(*Policy).DeriveKey", sinkPat: c17fetchPat, nonneg: true, floor: 1, role: "derivation"},
		// the lower bound of HMACKey lives in its two callers
		{fn: "transit.(*backend).pathHMACWrite", sinkPat: `^keysutil\.\(\*Policy\)\.HMACKey$`, defaulting: true, lower: F.minEnc, conj: true, eqLatest: true, noUpper: true, floor: 1, role: "HMAC generation"},
		{fn: "transit.(*backend).pathHMACVerify", sinkPat: `^keysutil\.\(\*Policy\)\.HMACKey$`, lower: F.minDec, conj: true, noUpper: true, floor: 1, role: "HMAC verification"},
	} {
		c17window(c, F, w)
	}

	// GetKey passes its version straight through: non-derived keys are fetched without a bound of its own
	if f := c.Fn("keysutil.(*Policy).GetKey"); f != nil {
		c.Clause("R5", "C17.1")
		var pv []c17pv
		for _, cl := range c17calls(f, c17fetchPat) {
			pv = append(pv, c17pv{"version given to " + eng.CalleeName(cl.Common()), c17verArg(cl), []string{`^param:`}})
		}
		if c.Floor(f, "fetches in GetKey", len(pv), 2) {
			c17provAll(c, f, "GetKey passes its version through unchanged", f.Blocks[0].Instrs[0], pv)
		}
	}

	// who may call the primitives that do not check the window themselves
	c.Clause("R1", "C17.1")
	kx := "window checked in this function (C17.1 rule above)"
	c17callers(c, "Policy.safeGetKeyEntry", c.P.FindCalls(mustStatic(c, "keysutil.(*Policy).safeGetKeyEntry"), nil), map[string]string{
		"keysutil.(*Policy).DecryptWithFactory":         kx,
		"keysutil.(*Policy).VerifySignatureWithOptions": kx,
		"keysutil.(*Policy).EncryptWithFactory":         kx,
		"keysutil.(*Policy).SignWithOptions":            kx,
		"keysutil.(*Policy).WrapKey":                    kx,
		"keysutil.(*Policy).DeriveKeyECDH":              kx,
		"keysutil.(*Policy).HMACKey":                    kx,
		"keysutil.(*Policy).DeriveKey":                  kx,
		"keysutil.(*Policy).GetKey":                     "pass-through; callers tabled below",
		"keysutil.(*Policy).KeyVersionCanBeUpdated":     "existence only (import of a private key for a public-only version); versions below min_decryption_version are not in the live key map",
		"keysutil.(*Policy).ImportPrivateKeyForVersion": "existence only, same",
		"keysutil.(*Policy).CreateCSR":                  "existence only (CSR for a live version)",
		"keysutil.(*Policy).PersistCertificateChain":    "existence only (certificate chain of a live version)",
	}, 19)
	c17callers(c, "Policy.GetKey", c.P.FindCalls(mustStatic(c, "keysutil.(*Policy).GetKey"), nil), map[string]string{
		"keysutil.(*Policy).DecryptWithFactory":         kx,
		"keysutil.(*Policy).VerifySignatureWithOptions": kx,
		"keysutil.(*Policy).EncryptWithFactory":         kx,
		"keysutil.(*Policy).SignWithOptions":            kx,
		"transit.(*backend).formatKeyPolicy":            "public half of a derived ed25519 key for each live version listed by keys/<name>",
	}, 5)
	c17callers(c, "Policy.DeriveKey", c.P.FindCalls(mustStatic(c, "keysutil.(*Policy).DeriveKey"), nil), map[string]string{
		"keysutil.(*Policy).GetKey": "pass-through",
	}, 1)
	c17callers(c, "Policy.HMACKey", c.P.FindCalls(mustStatic(c, "keysutil.(*Policy).HMACKey"), nil), map[string]string{
		"transit.(*backend).pathHMACWrite":  "lower bound min_encryption_version checked here (C17.1)",
		"transit.(*backend).pathHMACVerify": "lower bound min_decryption_version checked here (C17.1)",
	}, 2)
	c17callers(c, "Policy.SymmetricEncryptRaw", c.P.FindCalls(mustStatic(c, "keysutil.(*Policy).SymmetricEncryptRaw"), nil), map[string]string{
		"keysutil.(*Policy).EncryptWithFactory": "the only producer of versioned ciphertext",
	}, 1)
	c17callers(c, "Policy.SymmetricDecryptRaw", c.P.FindCalls(mustStatic(c, "keysutil.(*Policy).SymmetricDecryptRaw"), nil), map[string]string{
		"keysutil.(*Policy).DecryptWithFactory": "the only consumer of versioned ciphertext",
	}, 1)
}

// ---------------------------------------------------------------------------
// C17.1b the version that is checked is the version that is used and written

func c17provAll(c *eng.Ctx, f *ssa.Function, site string, at ssa.Instruction, checks []c17pv) {
	site = "prov{" + site + "}"
	var okd []string
	for _, k := range checks {
		if k.v == nil {
			c.Violation(f, site, at.Pos(), k.what+": value not found", nil)
			return
		}
		ok, bad, all := c17originsMatch(k.v, k.allowed...)
		if !ok {
			c.Violation(f, site, at.Pos(), fmt.Sprintf("%s may originate from %s; allowed %v; all origins %v", k.what, bad, k.allowed, all), nil)
			return
		}
		okd = append(okd, k.what+" <- "+strings.Join(all, ","))
	}
	c.OK(f, site, at.Pos(), strings.Join(okd, "; "))
}

type c17pv struct {
	what    string
	v       ssa.Value
	allowed []string
}

func c17one(f *ssa.Function, pat string) ssa.CallInstruction {
	cs := c17calls(f, pat)
	if len(cs) == 0 {
		return nil
	}
	return cs[0]
}

func c17arg(cl ssa.CallInstruction, i int) ssa.Value {
	if cl == nil {
		return nil
	}
	a := c17args(cl)
	if i >= len(a) {
		return nil
	}
	return a[i]
}

// c17calls: the calls in f whose resolved callee matches pat: direct calls and
// calls through a bound method value (h := p.HMACKey; h(v)).
func c17calls(f *ssa.Function, pat string) []ssa.CallInstruction {
	var out []ssa.CallInstruction
	for _, nc := range nfCalls(f, pat) {
		out = append(out, nc.In)
	}
	return out
}

// c17args: the arguments of the call with the receiver first, also when the
// call goes through a bound method value.
func c17args(cl ssa.CallInstruction) []ssa.Value { return nfCallOf(cl).Args }

// c17sites: the instructions of f at which a call of pat has certainly
// happened: such a call itself (direct or through a bound method value), or
// the call of a closure of f / a helper of the package that performs it on
// every path. For rules that only need the program point, not the arguments.
func c17sites(f *ssa.Function, pat string) []ssa.Instruction {
	return nfAts(c17ownSites(f, pat))
}

// c17ownSites: the resolved sites of pat in f whose effect calls stand in f
// itself or in a closure of f. A package helper that performs the call
// somewhere inside (Persist reads the archive too) is not "the call of f": the
// rules here speak about a particular call of f, its result and its success.
func c17ownSites(f *ssa.Function, pat string) []nfSite {
	var out []nfSite
	for _, s := range nfPlain(nfSites(f, pat)) {
		own := len(s.Effs) > 0
		for _, e := range s.Effs {
			own = own && eng.TopFunc(e.Fn) == eng.TopFunc(f)
		}
		if own {
			out = append(out, s)
		}
	}
	return out
}

// c17GCallOK is eng.GCallOK over c17ownSites (same description, same key).
func c17GCallOK(f *ssa.Function, pat string) eng.Guard {
	return nfOKOf("success edge of "+pat, c17ownSites(f, pat))
}

// c17originStrings: the origins of v as kind:desc strings, with a call through
// a bound method value named by its method and the result of a forwarding
// closure literal resolved to what the closure returns.
func c17originStrings(v ssa.Value) []string {
	var out []string
	seen := map[*ssa.Call]bool{}
	var walk func(v ssa.Value, d int)
	walk = func(v ssa.Value, d int) {
		for _, o := range eng.Origins(v) {
			if o.Kind == "call" && d < 3 {
				var call *ssa.Call
				idx := -1
				switch x := o.Val.(type) {
				case *ssa.Call:
					call = x
				case *ssa.Extract:
					call, _ = x.Tuple.(*ssa.Call)
					idx = x.Index
				}
				if call != nil && !call.Call.IsInvoke() {
					if fn, mc := nfFuncValue(call.Call.Value); fn != nil && mc != nil {
						if nfIsBoundWrapper(fn) {
							s := "call:" + strings.TrimSuffix(eng.FuncName(fn), "$bound")
							if idx >= 0 {
								s += fmt.Sprintf("#%d", idx)
							}
							out = append(out, s)
							continue
						}
						if !seen[call] {
							seen[call] = true
							n, i := 0, idx
							if i < 0 {
								i = 0
							}
							for _, r := range eng.Returns(fn) {
								if i < len(r.Results) && !eng.AllNilThroughPhi(r.Results[i]) {
									n++
									walk(r.Results[i], d+1)
								}
							}
							if n > 0 {
								continue
							}
						}
					}
				}
			}
			out = append(out, o.Kind+":"+o.Desc)
		}
	}
	walk(v, 0)
	return out
}

// c17originsMatch is eng.OriginsMatch over c17originStrings.
func c17originsMatch(v ssa.Value, allowed ...string) (bool, string, []string) {
	all := c17originStrings(v)
	for _, s := range all {
		ok := false
		for _, a := range allowed {
			if m, _ := regexp.MatchString(a, s); m {
				ok = true
				break
			}
		}
		if !ok {
			return false, s, all
		}
	}
	return true, "", all
}

func c17binding(c *eng.Ctx, F *c17fields) {
	// consumers: the version is parsed out of the policy's own template split
	for _, h := range []struct {
		fn     string
		input  int // index of the ciphertext / signature parameter
		compat bool
	}{
		{"keysutil.(*Policy).DecryptWithFactory", 3, true},
		{"keysutil.(*Policy).VerifySignatureWithOptions", 3, false},
	} {
		f := c.Fn(h.fn)
		if f == nil {
			continue
		}
		fetch := c17calls(f, c17fetchPat)
		if len(fetch) == 0 {
			continue
		}
		ver := c17verArg(fetch[0])
		in := f.Params[h.input]
		// the parsing may have been extracted into a helper of the package that
		// receives the input and holds the Atoi: follow it (pf), with its own parameter as the input
		pf, pin := f, in
		var hcall ssa.CallInstruction
		if c17one(f, `^strconv\.Atoi$`) == nil {
			for _, k := range c17calls(f, `^keysutil\.`) {
				fn := k.Common().StaticCallee()
				if fn == nil || len(fn.Blocks) == 0 || c17one(fn, `^strconv\.Atoi$`) == nil {
					continue
				}
				for i, a := range k.Common().Args {
					if c17strip(a) == ssa.Value(in) && i < len(fn.Params) {
						pf, pin, hcall = fn, fn.Params[i], k
					}
				}
			}
		}
		tpl0 := `^op:keysutil\.\(\*Policy\)\.getTemplateParts\(\)#0\[0\]$`
		tpl1 := `^op:keysutil\.\(\*Policy\)\.getTemplateParts\(\)#0\[1\]$`
		inP := `^param:` + eng.VarName(pin) + `$`
		hp, tp, sp, at := c17one(pf, `^strings\.HasPrefix$`), c17one(pf, `^strings\.TrimPrefix$`), c17one(pf, `^strings\.SplitN$`), c17one(pf, `^strconv\.Atoi$`)
		c.Clause("R5", "C17.1")
		if at == nil {
			c.Undecided(f, "prov{version parsed from the template split}", f.Pos(), "no strconv.Atoi call in this function or in a helper of the package that is given the input: parsing moved? the rule cannot be evaluated")
			continue
		}
		parsed := `^call:strconv\.Atoi#0$`
		payload := `^op:strings\.SplitN\(\)\[1\]$`
		if hcall != nil {
			hn := quoteRe(eng.CalleeName(hcall.Common()))
			parsed, payload = `^call:`+hn+`#0$`, `^call:`+hn+`#1$`
		}
		verAllowed := []string{parsed}
		if h.compat {
			verAllowed = append(verAllowed, `^const:1$`) // version 0 of the first implementation
		}
		pv := []c17pv{
			{"Atoi input", c17arg(at, 0), []string{`^op:strings\.SplitN\(\)\[0\]$`}},
			{"SplitN input", c17arg(sp, 0), []string{`^call:strings\.TrimPrefix$`}},
			{"SplitN separator", c17arg(sp, 1), []string{tpl1}},
			{"SplitN count", c17arg(sp, 2), []string{`^const:2$`}},
			{"TrimPrefix input", c17arg(tp, 0), []string{inP}},
			{"TrimPrefix prefix", c17arg(tp, 1), []string{tpl0}},
			{"HasPrefix input", c17arg(hp, 0), []string{inP}},
			{"HasPrefix prefix", c17arg(hp, 1), []string{tpl0}},
		}
		if hcall == nil {
			c17provAll(c, f, "version parsed from the template split", at, append([]c17pv{{"version used", ver, verAllowed}}, pv...))
		} else {
			// what the helper hands back is what it parsed
			okRets := eng.SuccessReturns(pf, pf.Signature.Results().Len()-1)
			for _, r := range okRets {
				ret := r.(*ssa.Return)
				if len(ret.Results) >= 3 {
					pv = append(pv, c17pv{"version returned", ret.Results[0], []string{`^call:strconv\.Atoi#0$`}})
					pv = append(pv, c17pv{"payload returned", ret.Results[1], []string{`^op:strings\.SplitN\(\)\[1\]$`}})
				}
			}
			c17provAll(c, pf, "version parsed from the template split", at, pv)
			c17provAll(c, f, "version used = version parsed by "+eng.CalleeName(hcall.Common()), hcall, []c17pv{{"version used", ver, verAllowed}})
			c.Clause("R2", "C17.1")
			if c.Floor(pf, "success returns of the parsing helper", len(okRets), 1) {
				c.Cut(pf, "version handed back", okRets, eng.G(pf, `^strings\.HasPrefix\(\)$`, true), nil)
				c.Cut(pf, "version handed back", okRets, c17GCallOK(pf, `^strconv\.Atoi$`), nil)
			}
			c.Clause("R5", "C17.1")
		}
		// every base64 decoding of a piece of the input decodes the part after the version
		var pay []c17pv
		for _, d := range c17calls(f, `^\(\*encoding/base64\.Encoding\)\.DecodeString$`) {
			if ok, _, _ := c17originsMatch(c17arg(d, 1), `^op:strings\.SplitN\(\)`, `^param:`, `^call:strings\.`, `^call:keysutil\.`); ok {
				pay = append(pay, c17pv{"payload decoded", c17arg(d, 1), []string{payload}})
			}
		}
		if c.Floor(f, "decodings of the payload", len(pay), 1) {
			c17provAll(c, f, "payload = the part after the version", at, pay)
		}
		c.Clause("R2", "C17.1")
		sinks := instrsOf(fetch)
		if hcall == nil {
			c.Cut(f, "key material fetch", sinks, eng.G(f, `^strings\.HasPrefix\(\)$`, true), nil)
			c.Cut(f, "key material fetch", sinks, c17GCallOK(f, `^strconv\.Atoi$`), nil)
		} else {
			c.Cut(f, "key material fetch", sinks, c17GCallOK(f, `^`+quoteRe(eng.CalleeName(hcall.Common()))+`$`), nil)
		}
		// the convergent-version lookup is keyed by the same version
		c.Clause("R7", "C17.1")
		for _, cv := range c17calls(f, `^keysutil\.\(\*Policy\)\.convergentVersion$`) {
			if c17sameVal(f, c17verArg(cv), ver) {
				c.OK(f, "agree{convergentVersion(ver) uses the fetched version}", cv.Pos(), eng.Expr(ver))
			} else {
				c.Violation(f, "agree{convergentVersion(ver) uses the fetched version}", cv.Pos(), "convergentVersion is asked about "+eng.Expr(c17verArg(cv))+" but the key of "+eng.Expr(ver)+" is used", nil)
			}
		}
	}
	// producers: prefix, convergent lookup and raw encryption all name the version whose key is used
	for _, h := range []struct {
		fn   string
		pats []string
		min  int
	}{
		{"keysutil.(*Policy).EncryptWithFactory", []string{`^keysutil\.\(\*Policy\)\.getVersionPrefix$`, `^keysutil\.\(\*Policy\)\.convergentVersion$`, `^keysutil\.\(\*Policy\)\.SymmetricEncryptRaw$`}, 3},
		{"keysutil.(*Policy).SignWithOptions", []string{`^keysutil\.\(\*Policy\)\.getVersionPrefix$`}, 1},
	} {
		f := c.Fn(h.fn)
		if f == nil {
			continue
		}
		fetch := c17calls(f, c17fetchPat)
		if len(fetch) == 0 {
			continue
		}
		ver := c17verArg(fetch[0])
		c.Clause("R7", "C17.1")
		n := 0
		for _, p := range h.pats {
			for _, cl := range c17calls(f, p) {
				n++
				site := "agree{" + strings.TrimPrefix(eng.CalleeName(cl.Common()), "keysutil.(*Policy).") + "(ver) names the version whose key is used}"
				if c17sameVal(f, c17verArg(cl), ver) {
					c.OK(f, site, cl.Pos(), eng.Expr(ver))
				} else {
					c.Violation(f, site, cl.Pos(), "called with "+eng.Expr(c17verArg(cl))+" while the key of "+eng.Expr(ver)+" is fetched: the output would be labelled with, or derived for, another version", nil)
				}
			}
		}
		c.Floor(f, "version-labelled helper calls", n, h.min)
	}
	// what is returned is prefix + encoding of what was produced
	if f := c.Fn("keysutil.(*Policy).EncryptWithFactory"); f != nil {
		c.Clause("R5", "C17.2")
		for _, r := range eng.SuccessReturns(f, 1) {
			ret := r.(*ssa.Return)
			c.Prov(f, "ciphertext returned = version prefix + base64(ciphertext)", r, ret.Results[0], `^call:keysutil\.\(\*Policy\)\.getVersionPrefix$`, `^call:\(\*encoding/base64\.Encoding\)\.EncodeToString$`)
		}
	}
	if f := c.Fn("keysutil.(*Policy).SignWithOptions"); f != nil {
		c.Clause("R5", "C17.2")
		n := 0
		for _, b := range f.Blocks {
			for _, in := range b.Instrs {
				a, ok := in.(*ssa.Alloc)
				if !ok || !isAllocOf(a, "keysutil.SigningResult") {
					continue
				}
				for _, v := range eng.StructLitField(a, "Signature") {
					n++
					c.Prov(f, "signature returned = version prefix + encoding", in, v, `^call:keysutil\.\(\*Policy\)\.getVersionPrefix$`, `^call:\(\*encoding/base64\.Encoding\)\.EncodeToString$`, `^const:""$`)
				}
			}
		}
		c.Floor(f, "SigningResult.Signature", n, 1)
	}
	// the prefix writer and the prefix parser use the same template
	c.Clause("R7", "C17.2")
	def, okd := c.P.ConstValue("keysutil.DefaultVersionTemplate")
	if !okd {
		c.Unresolved("keysutil.DefaultVersionTemplate")
		return
	}
	tplAllowed := []string{`^field:\w+\.VersionTemplate$`, `^const:` + quoteRe(fmt.Sprintf("%q", def)) + `$`}
	gp, gt := c.Fn("keysutil.(*Policy).getVersionPrefix"), c.Fn("keysutil.(*Policy).getTemplateParts")
	if gp != nil && gt != nil {
		ra, spl := c17one(gp, `^strings\.ReplaceAll$`), c17one(gt, `^strings\.Split$`)
		if ra == nil || spl == nil {
			c.Violation(gp, "agree{prefix writer and parser share template and placeholder}", gp.Pos(), "strings.ReplaceAll / strings.Split over the version template not found", nil)
		} else {
			ph := eng.Expr(c17arg(ra, 1))
			if ph != eng.Expr(c17arg(spl, 1)) || !strings.HasPrefix(ph, `"`) || !strings.Contains(def, strings.Trim(ph, `"`)) {
				c.Violation(gp, "agree{prefix writer and parser share template and placeholder}", ra.Pos(), "writer replaces "+ph+", parser splits at "+eng.Expr(c17arg(spl, 1))+", default template "+def, nil)
			} else {
				c.OK(gp, "agree{prefix writer and parser share template and placeholder}", ra.Pos(), "placeholder "+ph+" in both, contained in the default template")
			}
			c.Clause("R5", "C17.2")
			c17provAll(c, gp, "prefix = template with the version substituted, cached under that version", ra, []c17pv{
				{"template (writer)", c17arg(ra, 0), tplAllowed},
				{"substituted value", c17arg(ra, 2), []string{`^call:strconv\.Itoa$`}},
				{"Itoa input", c17arg(c17one(gp, `^strconv\.Itoa$`), 0), []string{`^param:`}},
				{"cache key (Load)", c17arg(c17one(gp, `^sync\.\(\*Map\)\.Load$`), 1), []string{`^param:`}},
				{"cache key (Store)", c17arg(c17one(gp, `^sync\.\(\*Map\)\.Store$`), 1), []string{`^param:`}},
				{"cached value", c17arg(c17one(gp, `^sync\.\(\*Map\)\.Store$`), 2), []string{`^call:strings\.ReplaceAll$`}},
			})
			c17provAll(c, gt, "template parts = split of the same template, cached under a constant key", spl, []c17pv{
				{"template (parser)", c17arg(spl, 0), tplAllowed},
				{"cache key (Load)", c17arg(c17one(gt, `^sync\.\(\*Map\)\.Load$`), 1), []string{`^const:"`}},
				{"cache key (Store)", c17arg(c17one(gt, `^sync\.\(\*Map\)\.Store$`), 1), []string{`^const:"`}},
				{"cached value", c17arg(c17one(gt, `^sync\.\(\*Map\)\.Store$`), 2), []string{`^call:strings\.Split$`}},
			})
		}
	}
}

func quoteRe(s string) string {
	var b strings.Builder
	for _, r := range s {
		if strings.ContainsRune(`\.+*?()|[]{}^$`, r) {
			b.WriteByte('\\')
		}
		b.WriteRune(r)
	}
	return b.String()
}

// c17callers (R1): like CallerTable, one obligation per table.
func c17callers(c *eng.Ctx, what string, sites []eng.CallSite, allowed map[string]string, floor int) {
	site := "callers{" + what + "}"
	if len(sites) < floor {
		c.Undecided(nil, site, token.NoPos, fmt.Sprintf("rule went vacuous: %d call site(s) found for %s, expected at least %d", len(sites), what, floor))
		return
	}
	bad := false
	got := map[string]int{}
	for _, s := range sites {
		n := eng.FuncName(eng.TopFunc(s.Fn))
		if _, ok := allowed[n]; !ok {
			bad = true
			c.Violation(eng.TopFunc(s.Fn), site, s.Call.Pos(), "call site outside the frozen who-may-call table for "+what+": this primitive does not check the version window itself", nil)
			continue
		}
		got[n]++
	}
	if bad {
		return
	}
	var names []string
	for n, k := range got {
		names = append(names, fmt.Sprintf("%s×%d", n, k))
	}
	sort.Strings(names)
	c.OK(nil, site, token.NoPos, fmt.Sprintf("%d call site(s), all tabled: %s", len(sites), strings.Join(names, ", ")))
}

// ---------------------------------------------------------------------------
// C17.2 the AEAD sees the same inputs on both sides

const (
	c17ctorPat = `^crypto/aes\.NewCipher$|^golang\.org/x/crypto/chacha20poly1305\.(New|NewX)$`
	c17adf     = `^call:<keysutil\.AssociatedDataFactory>\.GetAssociatedData#0$`
	c17b64dec  = `^call:\(\*encoding/base64\.Encoding\)\.DecodeString#0$`
)

// c17typeArms: for every key type constant K compared with the policy type in
// f, the callees matching pat that are reachable from the edge [Type == K].
func c17typeArms(f *ssa.Function, F *c17fields, pat string) map[string][]string {
	out := map[string][]string{}
	calls := c17calls(f, pat)
	for _, cm := range c17cmps(f) {
		if !cm.eq {
			continue
		}
		var k *ssa.Const
		isT := c17loadOf(F.typ)
		switch {
		case isT(cm.L):
			k, _ = c17strip(cm.R).(*ssa.Const)
		case isT(cm.R):
			k, _ = c17strip(cm.L).(*ssa.Const)
		}
		if k == nil || k.Value == nil {
			continue
		}
		e := eng.Edge{From: cm.blk, Succ: 0}
		if !cm.onTrue {
			e.Succ = 1
		}
		key := eng.Expr(k)
		for _, cl := range calls {
			if eng.Reach(eng.Query{Fn: f, StartEdges: []eng.Edge{e}, Target: func(in ssa.Instruction) bool { return in == ssa.Instruction(cl) }}) != nil {
				n := eng.CalleeName(cl.Common())
				dup := false
				for _, x := range out[key] {
					dup = dup || x == n
				}
				if !dup {
					out[key] = append(out[key], n)
				}
			}
		}
	}
	for k := range out {
		sort.Strings(out[k])
	}
	return out
}

func c17tableStr(t map[string][]string, names map[string]string) string {
	var ks []string
	for k := range t {
		ks = append(ks, k)
	}
	sort.Strings(ks)
	var s []string
	for _, k := range ks {
		n := k
		if names[k] != "" {
			n = names[k]
		}
		s = append(s, n+"→"+strings.Join(t[k], "+"))
	}
	return strings.Join(s, "; ")
}

// c17constPhiEdges: the CFG edges through which constant k flows into a phi
// reachable from root through phis and integer additions.
func c17constPhiEdges(root ssa.Value, k string) []eng.Edge {
	var out []eng.Edge
	seen := map[ssa.Value]bool{}
	var walk func(v ssa.Value)
	walk = func(v ssa.Value) {
		if v == nil || seen[v] {
			return
		}
		seen[v] = true
		switch x := v.(type) {
		case *ssa.BinOp:
			walk(x.X)
			walk(x.Y)
		case *ssa.Phi:
			for i, e := range x.Edges {
				if cst, ok := e.(*ssa.Const); ok && cst.Value != nil && eng.Expr(cst) == k {
					pb := x.Block().Preds[i]
					for si, s := range pb.Succs {
						if s == x.Block() {
							out = append(out, eng.Edge{From: pb, Succ: si})
						}
					}
				} else {
					walk(e)
				}
			}
		}
	}
	walk(root)
	return out
}

func c17allocOfSuffix(f *ssa.Function, suffix string) []*ssa.Alloc {
	var out []*ssa.Alloc
	for _, b := range f.Blocks {
		for _, in := range b.Instrs {
			if a, ok := in.(*ssa.Alloc); ok && strings.HasSuffix(c17typeName(a.Type()), suffix) {
				out = append(out, a)
			}
		}
	}
	return out
}

func c17aead(c *eng.Ctx, F *c17fields) {
	kt := map[string]string{}
	for _, n := range []string{"AES128_GCM96", "AES256_GCM96", "ChaCha20_Poly1305", "XChaCha20_Poly1305", "RSA2048", "RSA3072", "RSA4096", "ExternalKey"} {
		v, ok := c.P.ConstValue("keysutil.KeyType_" + n)
		if !ok {
			c.Unresolved("keysutil.KeyType_" + n)
			return
		}
		kt[v] = n
	}
	aes128, _ := c.P.ConstValue("keysutil.KeyType_AES128_GCM96")

	enc, dec := c.Fn("keysutil.(*Policy).SymmetricEncryptRaw"), c.Fn("keysutil.(*Policy).SymmetricDecryptRaw")
	if enc != nil && dec != nil && len(enc.Params) == 5 && len(dec.Params) == 4 {
		keyE, ptE, optsE := eng.VarName(enc.Params[2]), eng.VarName(enc.Params[3]), eng.VarName(enc.Params[4])
		keyD, ctD, optsD := eng.VarName(dec.Params[1]), eng.VarName(dec.Params[2]), eng.VarName(dec.Params[3])
		seal, open := c17one(enc, `^<crypto/cipher\.AEAD>\.Seal$`), c17one(dec, `^<crypto/cipher\.AEAD>\.Open$`)
		c.Clause("R5", "C17.2")
		if seal == nil || open == nil {
			c.Violation(enc, "prov{AEAD inputs}", enc.Pos(), "AEAD Seal/Open call not found in SymmetricEncryptRaw/SymmetricDecryptRaw", nil)
		} else {
			c17provAll(c, enc, "AEAD Seal inputs: caller's plaintext and associated data", seal, []c17pv{
				{"plaintext", c17arg(seal, 2), []string{`^param:` + ptE + `$`}},
				{"associated data", c17arg(seal, 3), []string{`^field:&` + optsE + `\.AdditionalData$`}},
				{"nonce", c17arg(seal, 1), []string{`^field:&` + optsE + `\.Nonce$`, `^call:<hash\.Hash>\.Sum$`, `^call:github\.com/hashicorp/go-uuid\.GenerateRandomBytes#0$`}},
			})
			c17provAll(c, dec, "AEAD Open inputs: caller's ciphertext and associated data", open, []c17pv{
				{"nonce", c17arg(open, 1), []string{`^param:` + ctD + `$`}},
				{"ciphertext", c17arg(open, 2), []string{`^param:` + ctD + `$`}},
				{"associated data", c17arg(open, 3), []string{`^field:&` + optsD + `\.AdditionalData$`}},
			})
		}
		for _, h := range []struct {
			f   *ssa.Function
			key string
			n   int
		}{{enc, keyE, 3}, {dec, keyD, 3}} {
			var pv []c17pv
			for _, k := range c17calls(h.f, c17ctorPat) {
				pv = append(pv, c17pv{eng.CalleeName(k.Common()) + " key", c17arg(k, 0), []string{`^param:` + h.key + `$`}})
			}
			for _, k := range c17calls(h.f, `^crypto/cipher\.NewGCM(WithRandomNonce)?$`) {
				pv = append(pv, c17pv{eng.CalleeName(k.Common()) + " block", c17arg(k, 0), []string{`^call:crypto/aes\.NewCipher#0$`}})
			}
			if c.Floor(h.f, "AEAD constructors", len(pv), h.n) {
				c17provAll(c, h.f, "every AEAD is keyed with the caller's key", c17one(h.f, c17ctorPat), pv)
			}
		}
		// the same constructor per key type on both sides
		c.Clause("R7", "C17.2")
		te, td := c17typeArms(enc, F, c17ctorPat), c17typeArms(dec, F, c17ctorPat)
		se, sd := c17tableStr(te, kt), c17tableStr(td, kt)
		single := true
		for _, v := range te {
			single = single && len(v) == 1
		}
		switch {
		case len(te) < 4:
			c.Undecided(enc, "agree{AEAD constructor per key type, encrypt vs decrypt}", enc.Pos(), "rule went vacuous: only "+se)
		case se != sd || !single:
			c.Violation(dec, "agree{AEAD constructor per key type, encrypt vs decrypt}", dec.Pos(), "encrypt: "+se+" / decrypt: "+sd, nil)
		default:
			c.OK(dec, "agree{AEAD constructor per key type, encrypt vs decrypt}", dec.Pos(), se)
		}
		// convergent mode never draws randomness for the nonce
		c.Clause("R2", "C17.2")
		nonConv := eng.G(enc, `^&`+optsE+`\.Convergent$`, false)
		c.Cut(enc, "random nonce (uuid.GenerateRandomBytes)", c17sites(enc, `^github\.com/hashicorp/go-uuid\.GenerateRandomBytes$`), nonConv, nil)
		c.Cut(enc, "random-nonce AEAD (cipher.NewGCMWithRandomNonce)", c17sites(enc, `^crypto/cipher\.NewGCMWithRandomNonce$`), nonConv, nil)
		// ... and derives it from the plaintext under the HMAC key it was given
		hn, hw := c17one(enc, `^crypto/hmac\.New$`), c17one(enc, `^<hash\.Hash>\.Write$`)
		if hn == nil || hw == nil || seal == nil {
			c.Violation(enc, "on{convergent} nonce = HMAC(plaintext)", enc.Pos(), "hmac.New / Write not found: the convergent nonce is no longer derived from the plaintext", nil)
		} else {
			c.Clause("R5", "C17.2")
			c17provAll(c, enc, "convergent nonce = HMAC(opts.HMACKey, plaintext)", hn, []c17pv{
				{"HMAC key", c17arg(hn, 1), []string{`^field:&` + optsE + `\.HMACKey$`}},
				{"HMAC input", c17arg(hw, 0), []string{`^param:` + ptE + `$`}},
				{"HMAC receiver", hw.Common().Value, []string{`^call:crypto/hmac\.New$`}},
			})
			c.Clause("R4", "C17.2")
			conv := eng.Nearest(enc, eng.CondEdges(enc, `^&`+optsE+`\.Convergent$`, true), []ssa.Instruction{hn})
			if len(conv) == 0 {
				c.Undecided(enc, "on{convergent} nonce = HMAC(plaintext)", token.NoPos, "convergent arm not found")
			} else if h := eng.Reach(eng.Query{Fn: enc, StartEdges: conv, Barriers: []ssa.Instruction{hw}, Target: eng.IsTarget([]ssa.Instruction{seal})}); h != nil {
				c.Violation(enc, "on{convergent} nonce = HMAC(plaintext)", h.Instr.Pos(), "on the convergent arm Seal is reachable without hashing the plaintext into the nonce", h.Witness)
			} else {
				c.OK(enc, "on{convergent} nonce = HMAC(plaintext)", hw.Pos(), "every path from the convergent arm to Seal passes hmac.Write(plaintext)")
			}
		}
	}

	// Encrypt/DecryptWithFactory: what goes into the raw calls
	type side struct {
		fn, raw, oaep, kms, supported string
	}
	sides := []side{
		{"keysutil.(*Policy).EncryptWithFactory", `^keysutil\.\(\*Policy\)\.SymmetricEncryptRaw$`, `^crypto/rsa\.EncryptOAEP$`, `kms\.Key>\.Encrypt$`, "keysutil.(KeyType).EncryptionSupported"},
		{"keysutil.(*Policy).DecryptWithFactory", `^keysutil\.\(\*Policy\)\.SymmetricDecryptRaw$`, `^crypto/rsa\.DecryptOAEP$`, `kms\.Key>\.Decrypt$`, "keysutil.(KeyType).DecryptionSupported"},
	}
	tables := map[string]map[string][]string{}
	for _, s := range sides {
		f := c.Fn(s.fn)
		if f == nil {
			continue
		}
		raw := c17one(f, s.raw)
		if raw == nil {
			c.Violation(f, "prov{inputs of the raw AEAD call}", f.Pos(), "raw symmetric call not found", nil)
			continue
		}
		args := raw.Common().Args
		keyArg, dataArg, optsArg := args[len(args)-3], args[len(args)-2], args[len(args)-1]
		c.Clause("R5", "C17.2")
		pv := []c17pv{{"data", dataArg, []string{c17b64dec}}}
		for _, kv := range c17fwdResult(keyArg) {
			pv = append(pv, c17pv{"key", kv, []string{`^call:keysutil\.\(\*Policy\)\.GetKey#0$`}})
		}
		nAD := 0
		if ld, ok := optsArg.(*ssa.UnOp); ok && ld.Op == token.MUL {
			for _, v := range eng.StructLitField(ld.X, "AdditionalData") {
				nAD++
				pv = append(pv, c17pv{"opts.AdditionalData", v, []string{c17adf}})
			}
		}
		if nAD == 0 {
			c.Violation(f, "prov{inputs of the raw AEAD call}", raw.Pos(), "the options handed to the raw AEAD call never receive the factory's associated data: the associated data is not bound into the ciphertext", nil)
		} else {
			c17provAll(c, f, "inputs of the raw AEAD call", raw, pv)
		}
		// external keys: the KMS sees the same data / AAD
		pv = nil
		for _, a := range c17allocOfSuffix(f, "/kms.CipherOptions") {
			for _, v := range eng.StructLitField(a, "AAD") {
				pv = append(pv, c17pv{"CipherOptions.AAD", v, []string{c17adf, `^const:nil$`}})
			}
			for _, v := range eng.StructLitField(a, "Data") {
				pv = append(pv, c17pv{"CipherOptions.Data", v, []string{c17b64dec}})
			}
		}
		if c.Floor(f, "kms.CipherOptions fields", len(pv), 2) {
			c17provAll(c, f, "inputs of the external-key call", c17one(f, s.kms), pv)
		}
		// OAEP parameters
		if o := c17one(f, s.oaep); o != nil {
			c17provAll(c, f, "OAEP hash and label", o, []c17pv{
				{"hash", c17arg(o, 0), []string{`^call:crypto/sha256\.New$`}},
				{"label", c17arg(o, 4), []string{`^const:nil$`}},
				{"data", c17arg(o, 3), []string{c17b64dec}},
			})
		} else {
			c.Violation(f, "prov{OAEP hash and label}", f.Pos(), "RSA-OAEP call not found", nil)
		}
		// the factory's error is not dropped
		c.Clause("R11", "C17.2")
		gads := c17calls(f, `^<keysutil\.AssociatedDataFactory>\.GetAssociatedData$`)
		c.Floor(f, "GetAssociatedData calls", len(gads), 2)
		for _, g := range gads {
			c.ErrChecked(f, g)
		}
		// 16-byte keys only for AES-128
		c.Clause("R2", "C17.2")
		var szRoot ssa.Value
		if gk := c17one(f, `^keysutil\.\(\*Policy\)\.GetKey$`); gk != nil {
			szRoot = c17arg(gk, 3)
		} else {
			// GetKey called through a forwarding closure whose parameter is the size
			for _, in := range eng.Instrs(f, func(in ssa.Instruction) bool { _, ok := in.(*ssa.Call); return ok }) {
				call := in.(*ssa.Call)
				mc, ok := call.Call.Value.(*ssa.MakeClosure)
				if !ok {
					continue
				}
				fn, _ := mc.Fn.(*ssa.Function)
				if fn == nil {
					continue
				}
				if gk := c17one(fn, `^keysutil\.\(\*Policy\)\.GetKey$`); gk != nil {
					for i, p := range fn.Params {
						if c17strip(c17arg(gk, 3)) == ssa.Value(p) && i < len(call.Call.Args) {
							szRoot = call.Call.Args[i]
						}
					}
				}
			}
		}
		e16 := c17constPhiEdges(szRoot, "16")
		c.CutEdges(f, "key size 16", e16, c17guard("Type == AES128_GCM96", c17rel(f, true, c17loadOf(F.typ), c17const(aes128), true)))
		// cipher family per key type
		t := c17typeArms(f, F, s.raw+`|`+s.oaep+`|`+s.kms)
		tables[s.fn] = t
	}
	if len(tables) == 2 {
		c.Clause("R7", "C17.2")
		norm := func(t map[string][]string) string {
			r := strings.NewReplacer("Encrypt", "X", "Decrypt", "X")
			return r.Replace(c17tableStr(t, kt))
		}
		fe, fd := c.P.Func(sides[0].fn), c.P.Func(sides[1].fn)
		se, sd := norm(tables[sides[0].fn]), norm(tables[sides[1].fn])
		switch {
		case len(tables[sides[0].fn]) < 8:
			c.Undecided(fe, "agree{cipher family per key type, encrypt vs decrypt}", fe.Pos(), "rule went vacuous: "+se)
		case se != sd:
			c.Violation(fd, "agree{cipher family per key type, encrypt vs decrypt}", fd.Pos(), "encrypt: "+se+" / decrypt: "+sd, nil)
		default:
			c.OK(fd, "agree{cipher family per key type, encrypt vs decrypt}", fd.Pos(), se)
		}
		// the capability predicates name the same set
		for _, s := range sides {
			sf := c.Fn(s.supported)
			if sf == nil {
				continue
			}
			var got, want []string
			for _, cm := range c17cmps(sf) {
				if k, ok := c17strip(cm.R).(*ssa.Const); ok && cm.eq && k.Value != nil {
					got = append(got, eng.Expr(k))
				}
			}
			for k := range tables[s.fn] {
				want = append(want, k)
			}
			sort.Strings(got)
			sort.Strings(want)
			site := "agree{" + strings.TrimPrefix(s.supported, "keysutil.(KeyType).") + " = key types with an arm}"
			if strings.Join(got, ",") == strings.Join(want, ",") {
				c.OK(sf, site, sf.Pos(), strings.Join(got, ","))
			} else {
				c.Violation(sf, site, sf.Pos(), "predicate accepts {"+strings.Join(got, ",")+"}, arms exist for {"+strings.Join(want, ",")+"}", nil)
			}
		}
	}
	// a caller-supplied nonce reaches the AEAD only for convergent version 1 (which the raw call refuses)
	if f := c.Fn("keysutil.(*Policy).EncryptWithFactory"); f != nil && len(f.Params) >= 4 {
		c.Clause("R2", "C17.2")
		nn := eng.VarName(f.Params[3])
		c.Cut(f, "SymmetricEncryptRaw", c17sites(f, `^keysutil\.\(\*Policy\)\.SymmetricEncryptRaw$`),
			eng.Or(eng.G(f, `^0 < len\(`+nn+`\)$`, false), eng.G(f, `^keysutil\.\(\*Policy\)\.convergentVersion\(\) == 1$`, true)), nil)
	}

	// transit handlers: a supplied associated_data is bound into the call or the item is refused
	for _, h := range []struct{ fn, call string }{
		{"transit.(*backend).pathEncryptWrite", `^keysutil\.\(\*Policy\)\.EncryptWithFactory$`},
		{"transit.(*backend).pathDecryptWrite", `^keysutil\.\(\*Policy\)\.DecryptWithFactory$`},
	} {
		f := c.Fn(h.fn)
		if f == nil {
			continue
		}
		call := c17one(f, h.call)
		adf := c.P.Field("transit.BatchRequestItem.AssociatedData")
		if adf == nil {
			c.Unresolved("transit.BatchRequestItem.AssociatedData")
			continue
		}
		given := c17rel(f, true, c17loadOf(adf), c17const(`""`), false)
		var binds, refuse []ssa.Instruction
		var pv []c17pv
		for _, a := range c17allocOfSuffix(f, "transit.AssocDataFactory") {
			for _, v := range eng.StructLitField(a, "Encoded") {
				if c17loadOf(adf)(v) {
					pv = append(pv, c17pv{"AssocDataFactory.Encoded", v, []string{`^field:.*\.AssociatedData$`}})
				} else {
					pv = append(pv, c17pv{"AssocDataFactory.Encoded (not the item's associated_data)", v, []string{`^$`}})
				}
			}
		}
		for _, ap := range c17calls(f, `^append$`) {
			// append(factories, AssocDataFactory{...}): the variadic slot holds the factory literal
			sl, ok := c17arg(ap, 1).(*ssa.Slice)
			if !ok {
				continue
			}
			arr, ok := sl.X.(*ssa.Alloc)
			if !ok || arr.Referrers() == nil {
				continue
			}
			for _, r := range *arr.Referrers() {
				ia, ok := r.(*ssa.IndexAddr)
				if !ok || ia.Referrers() == nil {
					continue
				}
				for _, rr := range *ia.Referrers() {
					if st, ok := rr.(*ssa.Store); ok && st.Addr == ssa.Value(ia) {
						for _, root := range eng.Roots(st.Val, nil) {
							if a, ok := root.(*ssa.Alloc); ok && strings.HasSuffix(c17typeName(a.Type()), "transit.AssocDataFactory") {
								binds = append(binds, ap)
							}
						}
					}
				}
			}
		}
		for _, st := range eng.Stores(f, `\.Error$`) {
			refuse = append(refuse, st)
		}
		c.Clause("R4", "C17.2")
		site := "on{associated_data given} bound into the call or item refused"
		if call == nil || len(given) == 0 {
			c.Undecided(f, site, token.NoPos, "anchor moved: the call or the associated_data test was not found")
			continue
		}
		if hit := eng.Reach(eng.Query{Fn: f, StartEdges: given, Barriers: append(append([]ssa.Instruction{}, binds...), refuse...), Target: eng.IsTarget([]ssa.Instruction{call})}); hit != nil {
			c.Violation(f, site, hit.Instr.Pos(), "with associated_data supplied the call is reachable without appending an AssocDataFactory: the data would not be authenticated", hit.Witness)
		} else {
			c.OK(f, site, call.Pos(), "the call is reachable from the associated_data edge only through append(factories, AssocDataFactory{...})")
		}
		c.Clause("R5", "C17.2")
		pv = append(pv, c17pv{"factories argument", call.Common().Args[len(call.Common().Args)-1], []string{`^call:append$`, `^const:nil$`}})
		if c.Floor(f, "AssocDataFactory literal", len(pv), 2) {
			c17provAll(c, f, "factory carries the item's associated_data", call, pv)
		}
	}
}

// ---------------------------------------------------------------------------
// C17.3 rotation is durable before visible

// c17rollbackChecks: f arms a rollback closure before `before`, and the closure
// restores every field in `fields`, on every failure edge, from a snapshot
// taken before `before`. One obligation for the closure, one for the order.
func c17rollbackChecks(c *eng.Ctx, f *ssa.Function, clause string, fields []*types.Var, before []ssa.Instruction, beforeDesc string, extraEdges func(clo *ssa.Function) []eng.Edge) bool {
	clo, mc, deferIn, fail := c17rollback(f)
	c.Clause("R4", clause)
	var names []string
	for _, fv := range fields {
		names = append(names, fv.Name())
	}
	site := "rollback{" + strings.Join(names, ", ") + " restored from snapshots on failure}"
	if clo == nil {
		c.Violation(f, site, f.Pos(), "no deferred closure over the named error result restores the policy: a failed persist leaves the in-memory (cached) policy changed", nil)
		return false
	}
	if extraEdges != nil {
		fail = append(fail, extraEdges(clo)...)
	}
	isRet := func(in ssa.Instruction) bool { _, ok := in.(*ssa.Return); return ok }
	good := true
	for _, fv := range fields {
		sts := c17fieldStores(clo, fv)
		if len(sts) == 0 {
			good = false
			c.Violation(clo, site, clo.Pos(), "the rollback closure does not restore "+fv.Name(), nil)
			continue
		}
		if h := eng.Reach(eng.Query{Fn: clo, StartEdges: fail, Barriers: instrsOf(sts), Target: isRet}); h != nil {
			good = false
			c.Violation(clo, site, h.Instr.Pos(), "the closure can return on a failure edge without restoring "+fv.Name(), h.Witness)
			continue
		}
		// the value written back is a snapshot of the same field taken before the mutation
		a, snaps := c17snapshot(clo, mc, sts[0])
		if a == nil || len(snaps) == 0 {
			good = false
			c.Violation(clo, site, sts[0].Pos(), fv.Name()+" is restored from "+eng.Expr(sts[0].Val)+", which is not a captured snapshot variable", nil)
			continue
		}
		var snapIn []ssa.Instruction
		for _, s := range snaps {
			snapIn = append(snapIn, s)
			if c17loadOf(fv)(s.Val) {
				continue
			}
			// map snapshot: a fresh map filled by maps.Copy(snapshot, p.<field>)
			cp := false
			if _, isMap := s.Val.(*ssa.MakeMap); isMap {
				for _, k := range c17calls(f, `^maps\.Copy\[`) {
					if c17loadOf(fv)(c17arg(k, 1)) {
						if ld, ok := c17arg(k, 0).(*ssa.UnOp); ok && ld.X == ssa.Value(a) {
							cp = true
							snapIn = append(snapIn, k)
						}
					}
				}
			}
			if !cp {
				good = false
				c.Violation(f, site, s.Pos(), "the snapshot variable of "+fv.Name()+" is assigned "+eng.Expr(s.Val)+", not the prior value", nil)
			}
		}
		// no snapshot assignment once the mutation started
		for _, b := range before {
			if h := eng.Reach(eng.Query{Fn: f, StartAfter: b, Target: eng.IsTarget(snapIn)}); h != nil {
				good = false
				c.Violation(f, site, h.Instr.Pos(), "the snapshot of "+fv.Name()+" is (re)taken after "+beforeDesc+": the rollback would restore the new value", h.Witness)
				break
			}
		}
	}
	if good {
		c.OK(clo, site, clo.Pos(), "every failure edge of the closure passes the restores; each restored value is a snapshot of the same field taken before "+beforeDesc)
	}
	c.Clause("R3", clause)
	c.Before(f, "defer rollback", deferIn, beforeDesc, before)
	return true
}

func c17durable(c *eng.Ctx, F *c17fields) {
	persistPat := `^keysutil\.\(\*Policy\)\.Persist$`
	// ---- Rotate
	if f := c.Fn("keysutil.(*Policy).Rotate"); f != nil {
		rim := c17sites(f, `^keysutil\.\(\*Policy\)\.RotateInMemory$`)
		per := instrsOf(c17calls(f, persistPat))
		if c.Floor(f, "RotateInMemory call", len(rim), 1) && c.Floor(f, "Persist call", len(per), 1) {
			c17rollbackChecks(c, f, "C17.3", []*types.Var{F.latest, F.minDec, F.keys}, append(append([]ssa.Instruction{}, rim...), per...), "RotateInMemory / Persist", nil)
			// after the in-memory rotation the only outcome is Persist's
			c.Clause("R5", "C17.3")
			ok := true
			n := 0
			for _, cl := range c17calls(f, `^keysutil\.\(\*Policy\)\.RotateInMemory$`) {
				for _, r := range eng.ReturnsFrom(f, eng.CallOKEdges(cl), nil, nil) {
					vals, _, _ := eng.ReturnVals(r, 0)
					for _, v := range vals {
						n++
						if m, bad, _ := c17originsMatch(v, `^call:keysutil\.\(\*Policy\)\.Persist$`); !m {
							ok = false
							c.Violation(f, "after{RotateInMemory ok} result = Persist's result", r.Pos(), "Rotate can return "+bad+" after the in-memory rotation succeeded: success would not imply durability", nil)
						}
					}
				}
			}
			if ok && n > 0 {
				c.OK(f, "after{RotateInMemory ok} result = Persist's result", per[0].Pos(), "every return after a successful in-memory rotation carries Persist's error")
			} else if n == 0 {
				c.Undecided(f, "after{RotateInMemory ok} result = Persist's result", token.NoPos, "no return found after RotateInMemory")
			}
		}
	}
	// ---- RotateInMemory: all-or-nothing and monotone
	if f := c.Fn("keysutil.(*Policy).RotateInMemory"); f != nil {
		lv := c17fieldStores(f, F.latest)
		if c.Floor(f, "store to LatestVersion", len(lv), 1) {
			c.Clause("R4", "C17.3")
			bad := false
			for _, st := range lv {
				for _, r := range eng.ReturnsFrom(f, nil, st, nil) {
					if !bad && !eng.AllNilThroughPhi(r.Results[0]) {
						bad = true
						c.Violation(f, "after{LatestVersion incremented} no failure", r.Pos(), "RotateInMemory can fail after it incremented LatestVersion: callers without a rollback would keep a half-rotated policy", nil)
					}
				}
			}
			if !bad {
				c.OK(f, "after{LatestVersion incremented} no failure", lv[0].Pos(), "every return after the increment returns nil")
			}
			c.Clause("R12", "C17.3")
			for _, st := range lv {
				bo, ok := st.Val.(*ssa.BinOp)
				if ok && bo.Op == token.ADD && c17loadOf(F.latest)(bo.X) && c17const("1")(bo.Y) {
					c.OK(f, "const{LatestVersion = LatestVersion + 1}", st.Pos(), "versions are consecutive")
				} else {
					c.Violation(f, "const{LatestVersion = LatestVersion + 1}", st.Pos(), "LatestVersion is set to "+eng.Expr(st.Val), nil)
				}
			}
			// the new key is filed under the new latest version
			c.Clause("R3", "C17.3")
			var mus []ssa.Instruction
			keyOK := true
			for _, in := range eng.Instrs(f, func(in ssa.Instruction) bool { _, ok := in.(*ssa.MapUpdate); return ok }) {
				mu := in.(*ssa.MapUpdate)
				if !c17loadOf(F.keys)(mu.Map) {
					continue
				}
				mus = append(mus, in)
				k, ok := mu.Key.(*ssa.Call)
				if !ok || eng.CalleeName(k.Common()) != "strconv.Itoa" || !c17loadOf(F.latest)(c17arg(k, 0)) {
					keyOK = false
					c.Violation(f, "order{LatestVersion++ < Keys[LatestVersion] = entry}", in.Pos(), "the new key is stored under "+eng.ExprDeep(mu.Key)+", not under strconv.Itoa(LatestVersion)", nil)
				}
			}
			if keyOK {
				c.Before(f, "LatestVersion++", instrsOf(lv), "Keys[Itoa(LatestVersion)] = entry", mus)
			}
		}
	}
	// ---- Persist
	if f := c.Fn("keysutil.(*Policy).Persist"); f != nil {
		ha := c17sites(f, `^keysutil\.\(\*Policy\)\.handleArchiving$`)
		put := instrsOf(c17calls(f, `^<logical\.Storage>\.Put$`))
		if c.Floor(f, "handleArchiving call", len(ha), 1) && c.Floor(f, "storage.Put", len(put), 1) {
			c17rollbackChecks(c, f, "C17.3", []*types.Var{F.archiveVer, F.keys}, ha, "handleArchiving", nil)
			c.Clause("R2", "C17.3")
			c.Cut(f, "storage.Put(policy)", put, c17GCallOK(f, `^keysutil\.\(\*Policy\)\.handleArchiving$`), nil)
			c.Cut(f, "storage.Put(policy)", put, eng.G(f, `^\(\*sync/atomic\.Bool\)\.Load\(\)$`, false), nil)
			c.Cut(f, "nil return", eng.SuccessReturns(f, 0), c17GCallOK(f, `^<logical\.Storage>\.Put$`), nil)
			c.Clause("R5", "C17.3")
			var pv []c17pv
			ent := c17arg(put[0].(ssa.CallInstruction), 1)
			for _, v := range eng.StructLitField(ent, "Value") {
				pv = append(pv, c17pv{"entry value", v, []string{`^call:keysutil\.\(\*Policy\)\.Serialize#0$`}})
			}
			for _, v := range eng.StructLitField(ent, "Key") {
				pv = append(pv, c17pv{"entry key", v, []string{`^call:path\.Join$`}})
			}
			if c.Floor(f, "storage entry fields", len(pv), 2) {
				c17provAll(c, f, "policy entry = Serialize() under path.Join(prefix, policy, name)", put[0], pv)
			}
			if j := c17one(f, `^path\.Join$`); j != nil {
				c.Clause("R12", "C17.3")
				rn := eng.VarName(f.Params[0])
				if s := c17joinArgs(j); s == rn+`.StoragePrefix,"policy",`+rn+`.Name` {
					c.OK(f, "const{policy path}", j.Pos(), s)
				} else {
					c.Violation(f, "const{policy path}", j.Pos(), "policy is written under path.Join("+s+")", nil)
				}
			}
		}
	}
	// ---- handleArchiving
	if f := c.Fn("keysutil.(*Policy).handleArchiving"); f != nil {
		sa := c17sites(f, `^keysutil\.\(\*Policy\)\.storeArchive$`)
		if c.Floor(f, "storeArchive call", len(sa), 1) {
			sinks := append(append([]ssa.Instruction{}, sa...), eng.SuccessReturns(f, 0)...)
			what := "archive write / success"
			ld := c17loadOf
			c.Clause("R2", "C17.3")
			c.Cut(f, what, sinks, c17guard("MinDecryptionVersion >= 1", c17rel(f, false, ld(F.minDec), c17const("1"), false)), nil)
			c.Cut(f, what, sinks, c17guard("LatestVersion >= 1", c17rel(f, false, ld(F.latest), c17const("1"), false)), nil)
			c.Cut(f, what, sinks, c17guard("MinDecryptionVersion <= LatestVersion", c17rel(f, false, ld(F.latest), ld(F.minDec), false)), nil)
			c.Cut(f, what, sinks, c17guard("ArchiveVersion <= LatestVersion", c17rel(f, false, ld(F.latest), ld(F.archiveVer), false)), nil)
			c.Cut(f, what, sinks, c17guard("MinEncryptionVersion == 0 OR MinEncryptionVersion >= MinDecryptionVersion",
				c17rel(f, false, c17const("0"), ld(F.minEnc), false), c17rel(f, false, ld(F.minEnc), ld(F.minDec), false)), nil)
			c.Cut(f, what, sinks, c17GCallOK(f, `^keysutil\.\(\*Policy\)\.LoadArchive$`), nil)
			// the live map is trimmed only once the archive is safe
			var dels []ssa.Instruction
			for _, d := range c17calls(f, `^delete$`) {
				if c17loadOf(F.keys)(c17arg(d, 0)) {
					dels = append(dels, d)
				}
			}
			if c.Floor(f, "delete(p.Keys, ...)", len(dels), 1) {
				c.Cut(f, "delete(p.Keys, old version)", dels, c17GCallOK(f, `^keysutil\.\(\*Policy\)\.storeArchive$`), nil)
			}
			// deleted versions are below MinDecryptionVersion
			c.Cut(f, "delete(p.Keys, old version)", dels, c17guard("i < MinDecryptionVersion", c17rel(f, false, func(ssa.Value) bool { return true }, ld(F.minDec), true)), nil)
			c17archiveSlots(c, F, f)
		}
	}
	// the archive is read back from where it is written
	if w, r := c.Fn("keysutil.(*Policy).storeArchive"), c.Fn("keysutil.(*Policy).LoadArchive"); w != nil && r != nil {
		c.Clause("R7", "C17.3")
		jw, jr := c17one(w, `^path\.Join$`), c17one(r, `^path\.Join$`)
		if jw == nil || jr == nil {
			c.Violation(w, "agree{archive path, write vs read}", w.Pos(), "path.Join not found in storeArchive/LoadArchive", nil)
		} else if a, b := c17joinArgs(jw), c17joinArgs(jr); a != b || !strings.Contains(a, `"archive"`) {
			c.Violation(w, "agree{archive path, write vs read}", jw.Pos(), "written under path.Join("+a+"), read from path.Join("+b+")", nil)
		} else {
			c.OK(w, "agree{archive path, write vs read}", jw.Pos(), "path.Join("+a+") on both sides")
		}
	}
	// ---- Upgrade
	if f := c.Fn("keysutil.(*Policy).Upgrade"); f != nil {
		var muts []ssa.Instruction
		for _, fv := range []*types.Var{F.latest, F.minDec} {
			muts = append(muts, instrsOf(c17fieldStores(f, fv))...)
		}
		muts = append(muts, instrsOf(c17calls(f, persistPat))...)
		muts = append(muts, c17sites(f, `^keysutil\.\(\*Policy\)\.MigrateKeyToKeysMap$`)...)
		if c.Floor(f, "mutations", len(muts), 4) {
			c17rollbackChecks(c, f, "C17.3", []*types.Var{F.latest, F.minDec, F.keys}, muts, "the first mutation", nil)
			c.Clause("R2", "C17.3")
			pOK := c17GCallOK(f, persistPat)
			c.Cut(f, "nil return", eng.SuccessReturns(f, 0), eng.Or(eng.Guard{Desc: pOK.Desc, Edges: pOK.Edges}, c17guard("nothing to persist (boolean flag false)", c17boolPhiEdges(f, false))), nil)
		}
	}
	// ---- backup/restore: a restored key gets the archive it was backed up with (whenever the backup carries one),
	// before the policy is persisted; persisting first builds an archive of empty slots that later overwrites the
	// live keys when min_decryption_version is lowered again (seed C17-b)
	if f := c.Fn("keysutil.(*LockManager).RestorePolicy"); f != nil {
		c.Clause("R4", "C17.3")
		sa := c17sites(f, `^keysutil\.\(\*Policy\)\.storeArchive$`)
		ps := instrsOf(c17calls(f, persistPat))
		if c.Floor(f, "storeArchive in RestorePolicy", len(sa), 1) && c.Floor(f, "Persist in RestorePolicy", len(ps), 1) {
			has := eng.CondEdges(f, `\.ArchivedKeys == nil$`, false)
			site := "on{backup carries archived keys} the archive is restored before the policy is persisted"
			if len(has) == 0 {
				c.Violation(f, site, f.Pos(), "RestorePolicy no longer tests keyData.ArchivedKeys != nil", nil)
			} else if h := eng.Reach(eng.Query{Fn: f, StartEdges: has, Barriers: sa, Target: eng.IsTarget(ps)}); h != nil {
				c.Violation(f, site, h.Instr.Pos(), "the policy can be persisted although the backup's archive was not written back (the restore of the archive became conditional on something else than its presence)", h.Witness)
			} else {
				c.OK(f, site, sa[0].Pos(), "every path from ArchivedKeys != nil to Persist passes storeArchive")
			}
			c.Clause("R5", "C17.3")
			for _, x := range sa {
				a := x.(ssa.CallInstruction).Common().Args
				s := eng.Expr(a[len(a)-1])
				if strings.HasSuffix(s, ".ArchivedKeys") {
					c.OK(f, "archive restored = archive of the backup", x.Pos(), s)
				} else {
					c.Violation(f, "archive restored = archive of the backup", x.Pos(), "storeArchive is given "+s, nil)
				}
			}
			c.Clause("R2", "C17.3")
			c.Cut(f, "restored policy persisted", ps, eng.Or(c17GCallOK(f, `^keysutil\.\(\*Policy\)\.storeArchive$`), eng.G(f, `\.ArchivedKeys == nil$`, true)), nil)
		}
	}
	if f := c.Fn("keysutil.(*Policy).Backup"); f != nil {
		c.Clause("R4", "C17.3")
		la := c17calls(f, `^keysutil\.\(\*Policy\)\.LoadArchive$`)
		c.Floor(f, "backup reads the archive", len(la), 1)
	}
	// ---- every method that bumps the version and persists has the rollback
	c.Clause("R4", "C17.3")
	n := 0
	for _, fn := range c.P.Funcs {
		if fn.Parent() != nil || !eng.InPkg(fn, "keysutil") || len(c17calls(fn, persistPat)) == 0 {
			continue
		}
		bumps := len(c17calls(fn, `^keysutil\.\(\*Policy\)\.RotateInMemory$`)) > 0
		for _, st := range c17fieldStores(fn, F.latest) {
			if _, isLoad := st.Val.(*ssa.UnOp); !isLoad {
				bumps = true
			}
		}
		if !bumps {
			continue
		}
		n++
		site := "rollback{LatestVersion restored when Persist fails}"
		clo, _, _, _ := c17rollback(fn)
		if clo == nil || len(c17fieldStores(clo, F.latest)) == 0 || len(c17fieldStores(clo, F.keys)) == 0 {
			c.Violation(fn, site, fn.Pos(), "this method adds a key version (LatestVersion, Keys) and then calls Persist without a deferred rollback: if Persist fails the cached policy keeps a version that was never stored; ciphertexts made with it are lost on the next load", nil)
		} else {
			c.OK(fn, site, fn.Pos(), "deferred closure restores LatestVersion and Keys under the named error")
		}
	}
	c.Floor(nil, "methods that add a version and persist", n, 3)

	// ---- transit handlers: a failed commit must not leave the cached policy changed
	for _, h := range []string{
		"transit.(*backend).pathRotateWrite",
		"transit.(*backend).pathTrimUpdate$1",
		"transit.(*backend).pathKeysConfigWrite",
		"transit.(*backend).pathImportVersionWrite",
	} {
		f := c.Fn(h)
		if f == nil {
			continue
		}
		c.Clause("R4", "C17.3")
		ends := c17calls(f, `^logical\.EndTxStorage$`)
		if !c.Floor(f, "EndTxStorage call", len(ends), 1) {
			continue
		}
		var fe []eng.Edge
		for _, e := range ends {
			fe = append(fe, eng.CallFailEdges(e)...)
		}
		var cleanup []ssa.Instruction
		cleanup = append(cleanup, c17sites(f, `InvalidatePolicy$`)...)
		for _, fv := range []*types.Var{F.latest, F.minDec, F.minEnc, F.minAvail, F.keys} {
			cleanup = append(cleanup, instrsOf(c17fieldStores(f, fv))...)
		}
		if clo, _, deferIn, _ := c17rollback(f); clo != nil {
			restores := 0
			for _, fv := range []*types.Var{F.latest, F.minDec, F.minEnc, F.minAvail, F.keys} {
				restores += len(c17fieldStores(clo, fv))
			}
			if restores > 0 {
				// armed before the commit: the closure runs with the commit's error
				if eng.Reach(eng.Query{Fn: f, Barriers: deferIn, Target: eng.IsTarget(instrsOf(ends))}) == nil {
					c.OK(f, "on{EndTxStorage failed} cleanup{restore or invalidate the cached policy}", ends[0].Pos(), "a rollback closure over the named error is armed before the commit and restores the policy fields")
					continue
				}
			}
		}
		c.CleanupOnEdges(f, "EndTxStorage failed", fe, "restore or invalidate the cached policy", cleanup)
	}
}

// c17archiveSlots (R7): the archive is a slice whose slot for key version v is
// v - MinAvailableVersion; the live map is keyed by strconv.Itoa(v). Every
// transfer between the two in handleArchiving (either direction) must use one
// and the same version value on both sides, otherwise a version comes back
// from the archive with another version's key material.
func c17archiveSlots(c *eng.Ctx, F *c17fields, f *ssa.Function) {
	c.Clause("R7", "C17.3")
	isArchiveSlice := func(t types.Type) bool {
		sl, ok := t.Underlying().(*types.Slice)
		return ok && c17typeName(sl.Elem()) == "keysutil.KeyEntry"
	}
	itoaArg := func(v ssa.Value) ssa.Value {
		k, ok := v.(*ssa.Call)
		if !ok || eng.CalleeName(k.Common()) != "strconv.Itoa" {
			return nil
		}
		return c17strip(c17arg(k, 0))
	}
	n := 0
	check := func(dir string, pos token.Pos, idx ssa.Value, ver ssa.Value, key ssa.Value) {
		n++
		site := "agree{archive slot index, live key version} " + dir
		kv := itoaArg(key)
		switch {
		case ver == nil:
			c.Violation(f, site, pos, "the archive slot is "+eng.ExprDeep(idx)+", not <version> - MinAvailableVersion (the offset LoadArchive's reader and every other transfer use)", nil)
		case kv == nil:
			c.Violation(f, site, pos, "the live key is addressed by "+eng.ExprDeep(key)+", not by strconv.Itoa(<version>)", nil)
		case kv != ver:
			c.Violation(f, site, pos, "the archive slot of version "+eng.ExprDeep(ver)+" is paired with the live key of version "+eng.ExprDeep(kv)+": versions would come back from the archive with another version's key", nil)
		default:
			c.OK(f, site, pos, "slot "+eng.Expr(idx)+" <-> Keys[Itoa("+eng.Expr(kv)+")]")
		}
	}
	for _, in := range eng.Instrs(f, func(in ssa.Instruction) bool {
		ia, ok := in.(*ssa.IndexAddr)
		return ok && isArchiveSlice(ia.X.Type())
	}) {
		ia := in.(*ssa.IndexAddr)
		var ver ssa.Value
		if bo, ok := ia.Index.(*ssa.BinOp); ok && bo.Op == token.SUB && c17loadOf(F.minAvail)(bo.Y) {
			ver = c17strip(bo.X)
		}
		if ia.Referrers() == nil {
			continue
		}
		for _, r := range *ia.Referrers() {
			switch x := r.(type) {
			case *ssa.Store:
				if x.Addr != ssa.Value(ia) {
					continue
				}
				// live -> archive
				lk, ok := x.Val.(*ssa.Lookup)
				if !ok || !c17loadOf(F.keys)(lk.X) {
					n++
					c.Undecided(f, "agree{archive slot index, live key version} to archive", x.Pos(), "an archive slot is written with "+eng.ExprDeep(x.Val)+", which is not a read of the live key map")
					continue
				}
				check("to archive", x.Pos(), ia.Index, ver, lk.Index)
			case *ssa.UnOp:
				if x.Op != token.MUL || x.Referrers() == nil {
					continue
				}
				// archive -> live
				for _, rr := range *x.Referrers() {
					if mu, ok := rr.(*ssa.MapUpdate); ok && mu.Value == ssa.Value(x) && c17loadOf(F.keys)(mu.Map) {
						check("from archive", mu.Pos(), ia.Index, ver, mu.Key)
					}
				}
			}
		}
	}
	c.Floor(f, "transfers between the archive slice and the live key map", n, 2)
}

func c17joinArgs(j ssa.CallInstruction) string {
	// path.Join(elem...): the variadic slice is built in a local array
	sl, ok := c17arg(j, 0).(*ssa.Slice)
	if !ok {
		return eng.ExprDeep(c17arg(j, 0))
	}
	a, ok := sl.X.(*ssa.Alloc)
	if !ok || a.Referrers() == nil {
		return eng.ExprDeep(sl)
	}
	type el struct {
		i int64
		s string
	}
	var els []el
	for _, r := range *a.Referrers() {
		ia, ok := r.(*ssa.IndexAddr)
		if !ok || ia.Referrers() == nil {
			continue
		}
		idx, ok := ia.Index.(*ssa.Const)
		if !ok {
			continue
		}
		for _, rr := range *ia.Referrers() {
			if st, ok := rr.(*ssa.Store); ok && st.Addr == ssa.Value(ia) {
				els = append(els, el{idx.Int64(), eng.Expr(st.Val)})
			}
		}
	}
	sort.Slice(els, func(i, j int) bool { return els[i].i < els[j].i })
	var s []string
	for _, e := range els {
		s = append(s, e.s)
	}
	return strings.Join(s, ",")
}

// ---------------------------------------------------------------------------
// C17.4 configuration keeps the window ordered

func c17config(c *eng.Ctx, F *c17fields) {
	ld := c17loadOf
	if f := c.Fn("transit.(*backend).pathKeysConfigWrite"); f != nil {
		per := c17sites(f, `^keysutil\.\(\*Policy\)\.Persist$`)
		c.Floor(f, "Persist call", len(per), 1)
		c.Clause("R2", "C17.4")
		for _, fv := range []*types.Var{F.minDec, F.minEnc} {
			n := 0
			for _, st := range c17fieldStores(f, fv) {
				if c17const("1")(st.Val) {
					continue // forcing the floor of 1 (C17.4 below)
				}
				n++
				x := c17is(st.Val)
				what := "p." + fv.Name() + " = requested value"
				c.Cut(f, what, []ssa.Instruction{st}, c17guard("requested <= LatestVersion", c17rel(f, false, ld(F.latest), x, false)), nil)
				leaves := c17leaves(st.Val)
				c.Cut(f, what, []ssa.Instruction{st}, c17guard("requested >= 0", c17rel(f, false, c17is(append(leaves, st.Val)...), c17const("0"), false)), nil)
			}
			c.Floor(f, "stores of a requested "+fv.Name(), n, 1)
		}
		// persisted only with min_encryption_version == 0 or >= min_decryption_version, and both >= min_available_version
		order := c17guard("MinEncryptionVersion == 0 OR MinEncryptionVersion >= MinDecryptionVersion",
			c17rel(f, false, c17const("0"), ld(F.minEnc), false), c17rel(f, false, ld(F.minEnc), ld(F.minDec), false))
		c.Cut(f, "p.Persist", per, order, nil)
		c.Cut(f, "p.Persist", per, c17guard("MinEncryptionVersion >= MinAvailableVersion", c17rel(f, false, ld(F.minEnc), ld(F.minAvail), false)), nil)
		c.Cut(f, "p.Persist", per, c17guard("MinDecryptionVersion >= MinAvailableVersion", c17rel(f, false, ld(F.minDec), ld(F.minAvail), false)), nil)
		// nothing moves the bounds after the ordering check except forcing min_decryption_version up to 1
		c.Clause("R3", "C17.4")
		var late []ssa.Instruction
		for _, fv := range []*types.Var{F.minDec, F.minEnc} {
			for _, st := range c17fieldStores(f, fv) {
				if fv == F.minDec && c17const("1")(st.Val) {
					continue
				}
				late = append(late, st)
			}
		}
		c.NotAfter(f, "the ordering check", eng.EdgeIfs(c17rel(f, false, ld(F.minEnc), ld(F.minDec), false)), "store of a requested bound", late)
		// rollback: both fields, on an error and on an error response
		var muts []ssa.Instruction
		muts = append(muts, instrsOf(c17fieldStores(f, F.minDec))...)
		muts = append(muts, instrsOf(c17fieldStores(f, F.minEnc))...)
		muts = append(muts, per...)
		c17rollbackChecks(c, f, "C17.4", []*types.Var{F.minDec, F.minEnc}, muts, "the first change of a bound", func(clo *ssa.Function) []eng.Edge {
			return eng.CondEdges(clo, `^logical\.\(\*Response\)\.IsError\(\)$`, true)
		})
		if clo, _, _, _ := c17rollback(f); clo != nil {
			c.Clause("R4", "C17.4")
			if len(eng.CondEdges(clo, `^logical\.\(\*Response\)\.IsError\(\)$`, true)) == 0 {
				c.Violation(clo, "rollback{also on an error response}", clo.Pos(), "the rollback no longer covers handlers returning logical.ErrorResponse with a nil error (every range check of this handler does)", nil)
			} else {
				c.OK(clo, "rollback{also on an error response}", clo.Pos(), "resp.IsError() edge leads to the restores")
			}
		}
		// success after a change means persisted and committed
		c.Clause("R2", "C17.4")
		var okRets []ssa.Instruction
		for _, p := range per {
			for _, r := range eng.ReturnsFrom(f, eng.CallOKEdges(p.(ssa.CallInstruction)), nil, nil) {
				for _, s := range eng.SuccessReturns(f, 1) {
					if s == ssa.Instruction(r) {
						okRets = append(okRets, r)
					}
				}
			}
		}
		if c.Floor(f, "success returns after Persist", len(okRets), 1) {
			c.Cut(f, "success after Persist", okRets, c17GCallOK(f, `^logical\.EndTxStorage$`), nil)
		}
	}
	// trim
	if f := c.Fn("transit.(*backend).pathTrimUpdate$1"); f != nil {
		c.Clause("R2", "C17.4")
		n := 0
		for _, st := range c17fieldStores(f, F.minAvail) {
			if ld(F.minAvail)(st.Val) {
				continue // restore of the prior value
			}
			n++
			x := c17is(st.Val)
			what := "p.MinAvailableVersion = requested value"
			s := []ssa.Instruction{st}
			c.Cut(f, what, s, c17guard("requested <= MinDecryptionVersion", c17rel(f, false, ld(F.minDec), x, false)), nil)
			c.Cut(f, what, s, c17guard("requested <= MinEncryptionVersion", c17rel(f, false, ld(F.minEnc), x, false)), nil)
			c.Cut(f, what, s, c17guard("requested >= current MinAvailableVersion", c17rel(f, false, x, ld(F.minAvail), false)), nil)
			c.Cut(f, what, s, c17guard("requested != 0", c17rel(f, true, x, c17const("0"), false)), nil)
			c.Clause("R4", "C17.4")
			for _, p := range c17calls(f, `^keysutil\.\(\*Policy\)\.Persist$`) {
				var restores []ssa.Instruction
				for _, r := range c17fieldStores(f, F.minAvail) {
					if ld(F.minAvail)(r.Val) {
						restores = append(restores, r)
					}
				}
				c.CleanupOnEdges(f, "Persist failed", eng.CallFailEdges(p), "p.MinAvailableVersion = prior value", restores)
			}
		}
		c.Floor(f, "stores of a requested MinAvailableVersion", n, 1)
	}
	// who writes the window fields, and what
	c.Clause("R6", "C17.4")
	c17writers(c, F, F.latest, map[string]string{
		"keysutil.(*Policy).RotateInMemory":        "increment",
		"keysutil.(*Policy).ImportPublicOrPrivate": "increment",
		"keysutil.(*Policy).Upgrade":               "len(Keys)",
		"keysutil.(*Policy).Rotate$1":              "snapshot",
		"keysutil.(*Policy).Upgrade$1":             "snapshot",
	}, 5)
	c17writers(c, F, F.minDec, map[string]string{
		"keysutil.(*Policy).RotateInMemory":        "const:1",
		"keysutil.(*Policy).ImportPublicOrPrivate": "const:1",
		"keysutil.(*Policy).Upgrade":               "const:1",
		"keysutil.(*Policy).Rotate$1":              "snapshot",
		"keysutil.(*Policy).Upgrade$1":             "snapshot",
		"transit.(*backend).pathKeysConfigWrite":   "const:1,const:1|request",
		"transit.(*backend).pathKeysConfigWrite$1": "snapshot",
	}, 8)
	c17writers(c, F, F.minEnc, map[string]string{
		"transit.(*backend).pathKeysConfigWrite":   "request",
		"transit.(*backend).pathKeysConfigWrite$1": "snapshot",
	}, 2)
	c17writers(c, F, F.minAvail, map[string]string{
		"transit.(*backend).pathTrimUpdate$1": "request,prior value",
	}, 2)
}

// c17shape classifies a value written to a window field.
func c17shape(v ssa.Value, fv *types.Var, F *c17fields) string {
	v = c17strip(v)
	switch x := v.(type) {
	case *ssa.Const:
		return "const:" + eng.Expr(x)
	case *ssa.BinOp:
		if x.Op == token.ADD && c17loadOf(fv)(x.X) && c17const("1")(x.Y) {
			return "increment"
		}
	case *ssa.UnOp:
		if x.Op == token.MUL {
			if _, ok := x.X.(*ssa.FreeVar); ok {
				return "snapshot"
			}
			if c17loadOf(fv)(x) {
				return "prior value"
			}
		}
	case *ssa.Call:
		if eng.CalleeName(x.Common()) == "len" && c17loadOf(F.keys)(c17arg(x, 0)) {
			return "len(Keys)"
		}
	case *ssa.TypeAssert:
		if ok, _, _ := c17originsMatch(x.X, `^call:framework\.\(\*FieldData\)\.Get`); ok {
			return "request"
		}
	case *ssa.Phi:
		var parts []string
		for _, e := range x.Edges {
			parts = append(parts, c17shape(e, fv, F))
		}
		sort.Strings(parts)
		return strings.Join(parts, "|")
	}
	return "other:" + eng.Expr(v)
}

// c17writers (R6): every store to field fv lies in a tabled function and
// writes a value of a tabled shape. One obligation per field.
func c17writers(c *eng.Ctx, F *c17fields, fv *types.Var, table map[string]string, floor int) {
	site := "writers{Policy." + fv.Name() + "}"
	ws := c.P.FieldWriters(fv)
	if len(ws) < floor {
		c.Undecided(nil, site, token.NoPos, fmt.Sprintf("rule went vacuous: %d store(s) found, expected at least %d", len(ws), floor))
		return
	}
	bad := false
	var seen []string
	for _, w := range ws {
		name := eng.FuncName(w.Fn)
		shapes, ok := table[name]
		got := c17shape(w.Store.Val, fv, F)
		if !ok && w.Fn.Parent() != nil && got == "snapshot" {
			// a rollback closure of a tabled writer that writes back a captured snapshot
			if _, pok := table[eng.FuncName(w.Fn.Parent())]; pok {
				shapes, ok = "snapshot", true
			}
		}
		if !ok {
			bad = true
			c.Violation(w.Fn, site, w.Store.Pos(), "store of "+eng.Expr(w.Store.Val)+" to Policy."+fv.Name()+" outside the frozen writer table", nil)
			continue
		}
		match := false
		for _, sh := range strings.Split(shapes, ",") {
			match = match || sh == got
		}
		if !match {
			bad = true
			c.Violation(w.Fn, site, w.Store.Pos(), "Policy."+fv.Name()+" is set to "+eng.Expr(w.Store.Val)+" (shape "+got+"); tabled shapes for this writer: "+shapes, nil)
			continue
		}
		seen = append(seen, name+": "+got)
	}
	if !bad {
		sort.Strings(seen)
		c.OK(nil, site, token.NoPos, strings.Join(seen, "; "))
	}
}

func c17typeName(t types.Type) string {
	if p, ok := t.Underlying().(*types.Pointer); ok {
		t = p.Elem()
	}
	if n, ok := t.(*types.Named); ok && n.Obj() != nil && n.Obj().Pkg() != nil {
		return eng.Short(n.Obj().Pkg().Path() + "." + n.Obj().Name())
	}
	return ""
}

// c17boolPhiEdges: edges on which a branch over a merged boolean local (a phi
// of type bool, e.g. a "persistNeeded" flag) has value want.
func c17boolPhiEdges(f *ssa.Function, want bool) []eng.Edge {
	var out []eng.Edge
	for _, b := range f.Blocks {
		ifi := eng.IfOf(b)
		if ifi == nil {
			continue
		}
		v := ifi.Cond
		pol := true
		for {
			if u, ok := v.(*ssa.UnOp); ok && u.Op == token.NOT {
				pol = !pol
				v = u.X
				continue
			}
			break
		}
		if _, ok := v.(*ssa.Phi); !ok {
			continue
		}
		if pol == want {
			out = append(out, eng.Edge{From: b, Succ: 0})
		} else {
			out = append(out, eng.Edge{From: b, Succ: 1})
		}
	}
	return out
}
