package props

import (
	"fmt"
	"go/constant"
	"go/token"
	"go/types"
	"regexp"
	"strings"

	"golang.org/x/tools/go/ssa"

	"obsa/eng"
)

func init() {
	register(&Prop{
		ID: "C05",
		Explanation: "Structural necessary conditions of 'lifetimes are bounded by max TTL; every stored lease is tracked': " +
			"(1) framework.CalculateTTL: the effective maximum is selected among the mount maximum, the backend maximum and the explicit maximum only behind the 'positive and smaller' tests; a hard stop is always established — issue time + effective max in the non-periodic arm, issue time + explicit max in the periodic arm whenever an explicit max is set — before a TTL is returned, a request past the hard stop fails, and the TTL is capped to the remaining time (both tests are evaluated in CalculateTTL or in the one function of its package, called directly, that they were extracted into — together with the linkage: the helper's error never reaches a success return, success with a hard stop crosses the call, its result 0 is returned; anywhere else they are reported as undecided); the issue time used is the caller's start time; both narrowing tests (backend maximum, explicit maximum) are evaluated on every path before the effective maximum is first used; " +
			"(2) every TTL granted or extended by the server comes out of CalculateTTL, and the two renew functions pass the lease's original IssueTime; the expiry stored for a lease is derived from the response after the TTL was written; writers of leaseEntry.ExpireTime are tabled (an unexported function called only by tabled writers may write what they may, and the batch-token clamp stays behind 'expires after the token' wherever it was extracted to); " +
			"(3) Renew/RenewToken reach the backend only across the nil-error edge of leaseEntry.renewable (called directly or through its method value), whose nil-error returns lie behind the nil / irrevocable / zero-expiry / expired refusals (the non-renewable refusal is bypassed for leases under batch tokens: known finding A3); " +
			"(4) persisted ⇒ tracked: every success edge of persistEntry is followed by updatePending (tabled exceptions), and updatePendingInternal files a lease in exactly one of the pending / non-expiring / irrevocable sets; " +
			"(5) restore walks every stored lease of every namespace and tracks it; (6) failed revocations are retried a bounded number of times and then marked irrevocable; " +
			"(7) the mount maximum handed to CalculateTTL (dynamicSystemView.MaxLeaseTTL) is computed in MaxLeaseTTL itself or is the unchanged result of the one function of the package it calls (fetchTTLs' second result today), and is the mount's tuned max_lease_ttl whenever that is non-zero (and only then); " +
			"(8) LeaseOptions.ExpirationTime is time.Now() + LeaseTotal(), and LeaseTotal is the TTL field or 0; " +
			"(9) at issue time CalculateTTL's result is written (resp.Secret.TTL / te.TTL) before the lease is registered / the token created, a login token is created with CalculateTTL's result (Core.RegisterAuth, only caller LoginCreateToken) and the Auth its lease is registered with carries the created entry's TTL; " +
			"(10) of a role's and the request's explicit max TTL / period the role's value is taken only when it is smaller or none was requested; " +
			"(11) collectLeases fails when listing the namespaces or a namespace's leases fails and returns the sum of the per-namespace key counts, the restore worker sends every processRestore error to the restore loop, whose collector returns the received error on every return reachable after the receive (other than past a nil test of that value), and RestoreNamespace enters restore mode before it restores; " +
			"(12) revocationJob.Execute returns Revoke's error, and markLeaseIrrevocable files every live lease it is given in the irrevocable set before removing it from pending; revokeCommon removes a lease from the tracking sets (removeFromPending, Delete on pending / nonexpiring / irrevocable, identified by the field) only across the success of deleteEntry of the entry it loaded — a failed storage delete leaves the lease pending for the retry — and the functions that untrack at all are tabled (revokeCommon; removeFromPending; the two movers updatePendingInternal and markLeaseIrrevocable; Stop and StopNamespace, which drop tracking by design); " +
			"(13) the expiry timer is armed / reset with time.Until(le.ExpireTime); " +
			"(14) Register's deferred rollback, armed before persistEntry, deletes the stored lease whenever Register fails; (15) TokenStore.handleCreateCommon bounds the new token by parseAndMergeTTLPeriod's results (result 0: the merged explicit maximum, result 1: the merged period — the merge itself is (10)): they are what CalculateTTL is given, the only values besides CalculateTTL's result written to the created entry's TTL, what the token's Auth advertises, and with a positive merged maximum a token whose TTL is 0 does not reach TokenStore.create without one of them having been written to its TTL. Throughout, a call is located by its resolved callee: written directly, made through a bound method value, or made on every path by a closure of the function / an unexported helper of the package (arguments are followed back through captured variables and parameters); what cannot be followed is reported as undecided.",
		NotDecided: "the numeric bound itself (arithmetic over time.Duration inside CalculateTTL beyond the structural hard-stop clauses); periodic-token capping arithmetic; tracking after a crash at an arbitrary write prefix; clock behaviour.",
		Run:        runC05,
	})
}

func runC05(c *eng.Ctx, thorough bool) {
	// ---------- C05.1 CalculateTTL
	if f := c.Fn("framework.CalculateTTL"); f != nil {
		succ := eng.SuccessReturns(f, 2)
		c.Clause("R2", "C05.1")
		if c.Floor(f, "success returns", len(succ), 1) {
			c.Cut(f, "TTL returned", succ, c18G(f, `^0 < φmaxTTL\{.*\}$`, true), nil)
		}
		// effective max selection
		c.Clause("R5", "C05.1")
		for _, e := range eng.PhiEdges(f, "maxTTL", func(v ssa.Value) bool { p, ok := v.(*ssa.Parameter); return ok && eng.VarName(p) == "backendMaxTTL" }) {
			c.CutEdges(f, "maxTTL = backendMaxTTL", []eng.Edge{e}, c18G(f, `^backendMaxTTL < `, true))
			c.CutEdges(f, "maxTTL = backendMaxTTL", []eng.Edge{e}, c18G(f, `^0 < backendMaxTTL$`, true))
		}
		for _, e := range eng.PhiEdges(f, "maxTTL", func(v ssa.Value) bool { p, ok := v.(*ssa.Parameter); return ok && eng.VarName(p) == "explicitMaxTTL" }) {
			c.CutEdges(f, "maxTTL = explicitMaxTTL", []eng.Edge{e}, c18G(f, `^explicitMaxTTL < `, true))
			c.CutEdges(f, "maxTTL = explicitMaxTTL", []eng.Edge{e}, c18G(f, `^0 < explicitMaxTTL$`, true))
		}
		if len(eng.PhiEdges(f, "maxTTL", func(v ssa.Value) bool { _, ok := v.(*ssa.Parameter); return ok })) < 2 {
			c.Violation(f, "effective max selection", f.Pos(), "the effective maximum no longer takes both the backend maximum and the explicit maximum into account", nil)
		} else {
			c.OK(f, "effective max selection", f.Pos(), "maxTTL ∈ {sysView.MaxLeaseTTL(), backendMaxTTL, explicitMaxTTL}")
		}
		if len(c05Calls(f, `<logical\.SystemView>\.MaxLeaseTTL$`)) == 0 {
			c.Violation(f, "mount maximum consulted", f.Pos(), "CalculateTTL no longer consults the mount/system maximum", nil)
		}
		// hard stop
		c.Clause("R3", "C05.1")
		var addExplicit, addMax []ssa.Instruction
		for _, a := range c05Calls(f, `^time\.\(Time\)\.Add$`) {
			arg := eng.Expr(c05Args(a)[1])
			switch {
			case arg == "explicitMaxTTL":
				addExplicit = append(addExplicit, a)
			case strings.HasPrefix(arg, "φmaxTTL"):
				addMax = append(addMax, a)
			}
		}
		// the base of every hard stop is the caller's issue time: among the
		// values the base is read out of (through phis and Truncate) is the
		// parameter startTime; the only other admissible leaf is time.Now(),
		// and only on an edge behind startTime.IsZero()
		c.Clause("R5", "C05.1")
		hardStops := append(append([]ssa.Instruction{}, addExplicit...), addMax...)
		if c.Floor(f, "hard-stop computations .Add(maxTTL | explicitMaxTTL)", len(hardStops), 2) {
			isZeroStart := eng.GD(f, `^time\.\(Time\)\.IsZero\(startTime\)$`, true)
			for _, hs := range hardStops {
				a := hs.(ssa.CallInstruction)
				site := "hard stop counted from the issue time: base of .Add(" + eng.Expr(c05Args(a)[1]) + ")"
				leaves, nowEdges := timeLeaves(c05Args(a)[0])
				hasParam := false
				bad := ""
				for _, l := range leaves {
					switch x := l.(type) {
					case *ssa.Parameter:
						if eng.VarName(x) == "startTime" {
							hasParam = true
						} else {
							bad = "parameter " + eng.VarName(x)
						}
					case *ssa.Call:
						if eng.CalleeName(&x.Call) != "time.Now" {
							bad = eng.Expr(l)
						}
					default:
						bad = eng.Expr(l)
					}
				}
				switch {
				case !hasParam:
					c.Violation(f, site, a.Pos(), "the caller's issue time (parameter startTime) is not among the values the hard stop is computed from ("+eng.ExprDeep(c05Args(a)[0])+"): the hard stop moves with every renewal", nil)
				case bad != "":
					c.Violation(f, site, a.Pos(), "the hard stop may be computed from "+bad+", neither the caller's issue time nor the current time", nil)
				default:
					c.OK(f, site, a.Pos(), "base is read out of param startTime (or time.Now() when absent): "+eng.ExprDeep(c05Args(a)[0]))
					if len(nowEdges) > 0 {
						c.CutEdges(f, "issue time defaults to now ("+eng.Expr(c05Args(a)[1])+")", nowEdges, isZeroStart)
					}
				}
			}
		}
		periodic := map[string]bool{`^0 < period$`: true, `^0 < explicitMaxTTL$`: true}
		if h := eng.Reach(eng.Query{Fn: f, Assume: periodic, Barriers: addExplicit, Target: eng.IsTarget(succ)}); h != nil {
			c.Violation(f, "periodic with explicit max: hard stop = issue time + explicit max", h.Instr.Pos(), "a periodic token/lease with an explicit maximum can be granted a TTL without establishing the hard stop startTime.Add(explicitMaxTTL): renewals would move the expiry past issue time + explicit max", h.Witness)
		} else {
			c.OK(f, "periodic with explicit max: hard stop = issue time + explicit max", f.Pos(), "every success path with period > 0 and explicitMaxTTL > 0 passes startTime.Add(explicitMaxTTL)")
		}
		nonPeriodic := map[string]bool{`^0 < period$`: false}
		if h := eng.Reach(eng.Query{Fn: f, Assume: nonPeriodic, Barriers: addMax, Target: eng.IsTarget(succ)}); h != nil {
			c.Violation(f, "non-periodic: hard stop = issue time + effective max", h.Instr.Pos(), "a non-periodic TTL can be granted without establishing the hard stop startTime.Add(maxTTL)", h.Witness)
		} else {
			c.OK(f, "non-periodic: hard stop = issue time + effective max", f.Pos(), "every success path with period <= 0 passes startTime.Add(maxTTL)")
		}
		// past the hard stop => error; cap to the remainder (in CalculateTTL itself or in
		// the one function of its package the tail was moved into)
		c05HardStopTail(c, f, succ)
		// period capped by the effective maximum
		pc := eng.PhiEdges(f, "period", func(v ssa.Value) bool { return strings.HasPrefix(eng.Expr(v), "φmaxTTL") })
		if len(pc) == 0 {
			c.Violation(f, "period capped by the effective max", f.Pos(), "a period larger than the effective maximum is no longer capped", nil)
		} else {
			c.CutEdges(f, "period = maxTTL", pc, c18G(f, `^φmaxTTL\{.*\} < period$`, true))
		}
	}

	// ---------- C05.2 every granted TTL comes out of CalculateTTL
	c.Clause("R1", "C05.2")
	calc, _ := c.P.StaticCallee("framework.CalculateTTL")
	sites := c.P.FindCalls(calc, func(fn *ssa.Function) bool { return eng.InPkg(fn, "vault") })
	// (a helper called only by tabled functions, never used as a value, holds its callers' role)
	c.CallerTable("framework.CalculateTTL in the core", sites, c18WithHelpers(c, sites, map[string]string{
		"vault.(*Core).LoginCreateToken":         "login token TTL",
		"vault.(*Core).handleRequest":            "leased secret TTL",
		"vault.(*ExpirationManager).Renew":       "secret renewal",
		"vault.(*ExpirationManager).RenewToken":  "token renewal",
		"vault.(*TokenStore).handleCreateCommon": "child token TTL",
	}), 5)
	for _, fn := range []string{"vault.(*ExpirationManager).Renew", "vault.(*ExpirationManager).RenewToken"} {
		f := c.Fn(fn)
		if f == nil {
			continue
		}
		c.Clause("R5", "C05.2")
		for _, ct := range c05Calls(f, `framework\.CalculateTTL$`) {
			a := c05Args(ct)
			c05Prov(c, f, "issue time given to CalculateTTL on renewal", ct, a[6], `^field:vault\.\(\*ExpirationManager\)\.loadEntry\(\)#0\.IssueTime$`)
			c05Prov(c, f, "increment given to CalculateTTL", ct, a[1], `^param:increment$`)
		}
		c.Floor(f, "CalculateTTL call", len(c05Calls(f, `framework\.CalculateTTL$`)), 1)
		// the TTL written into the response is CalculateTTL's result
		n := 0
		for _, st := range eng.Stores(f, `\.(Secret|Auth)\.(LeaseOptions\.)?TTL$`) {
			n++
			if ok, _, _ := c18OriginsMatch(st.Val, nil, `^call:time\.\(Time\)\.Sub$`); ok {
				// batch-token clamp: recomputed from the clamped expiry, only behind "expires after the token"
				c.Cut(f, "TTL recomputed from the batch token's expiry", []ssa.Instruction{st}, c18G(f, `^time\.\(Time\)\.After\(\)$`, true), nil)
				continue
			}
			c05Prov(c, f, "TTL granted on renewal", st, st.Val, `^call:framework\.CalculateTTL#0$`)
		}
		c.Floor(f, "TTL store", n, 1)
		// the stored expiry is computed after the TTL was set, from the same response
		c.Clause("R3", "C05.2")
		var ttlSt []ssa.Instruction
		for _, st := range eng.Stores(f, `\.(Secret|Auth)\.(LeaseOptions\.)?TTL$`) {
			ttlSt = append(ttlSt, st)
		}
		exp := instrsOf(c05Calls(f, `ExpirationTime$`))
		c.Before(f, "resp TTL = CalculateTTL result", ttlSt, "ExpirationTime() for the stored lease", exp)
		// C05.3 gate
		c.Clause("R2", "C05.3")
		backend := instrsOf(c05Calls(f, `vault\.\(\*ExpirationManager\)\.renew(Auth)?Entry$`))
		if c.Floor(f, "backend renew call", len(backend), 1) {
			g := eng.Guard{Desc: "nil-error edge of leaseEntry.renewable"}
			// the call is selected by its resolved callee: written le.renewable()
			// or through the method value (check := le.renewable; check())
			gate, viaValue := c05CallsOf(f, c.P.Func("vault.(*leaseEntry).renewable"))
			for _, r := range gate {
				g.Edges = append(g.Edges, c05OKEdges(r)...)
				g.Pass = append(g.Pass, r)
			}
			if len(gate) == 0 && viaValue {
				// the method is taken as a value here but no call of that value could be resolved
				c.Undecided(f, "sink{backend renew} guard{"+g.Desc+"}", backend[0].Pos(), "leaseEntry.renewable is used as a function value in this function and no call of it could be resolved: the rule cannot be evaluated")
			} else {
				c.Cut(f, "backend renew", backend, g, nil)
			}
			c.Cut(f, "backend renew", backend, c18GCallOK(f, `vault\.\(\*ExpirationManager\)\.loadEntry$`), nil)
		}
		// persisted => tracked (C05.4) for the renew functions
		c.Clause("R3", "C05.4")
		for _, p := range c05Calls(f, `vault\.\(\*ExpirationManager\)\.persistEntry$`) {
			c.CleanupOnEdges(f, "persistEntry succeeded", c05OKEdges(p), "updatePending", instrsOf(c05Calls(f, `vault\.\(\*ExpirationManager\)\.updatePending$`)))
		}
	}
	// writers of leaseEntry.ExpireTime
	c.Clause("R6", "C05.2")
	if fv := c.P.Field("vault.leaseEntry.ExpireTime"); fv != nil {
		allowed := map[string][]string{
			"vault.(*ExpirationManager).Register":                            {`ExpirationTime$`, `\.ExpireTime$`},
			"vault.(*ExpirationManager).RegisterAuth":                        {`ExpirationTime$`},
			"vault.(*ExpirationManager).Renew":                               {`ExpirationTime$`, `\.ExpireTime$`},
			"vault.(*ExpirationManager).RenewToken":                          {`ExpirationTime$`},
			"vault.(*ExpirationManager).lazyRevokeInternal":                  {`^call:time\.Now$`},
			"vault.(*ExpirationManager).CreateOrFetchRevocationLeaseByToken": {`^call:time\.Now$`, `time\.\(Time\)\.Add$`, `ExpirationTime$`},
			"vault.(*ExpirationManager).FetchLeaseTimesByToken":              {`time\.\(Time\)\.Add$`},
			"vault.(*ExpirationManager).FetchLeaseTimes":                     {`\.ExpireTime$`},
			"vault.(*ExpirationManager).leaseTimesForExport":                 {`\.ExpireTime$`},
			"vault.(*ExpirationManager).leaseInfoForExport":                  {`\.ExpireTime$`},
			"vault.(*ExpirationManager).markLeaseIrrevocable":                {`^const:`, `\.ExpireTime$`},
			"vault.(*ExpirationManager).inMemoryLeaseInfo":                   {`\.ExpireTime$`, `^const:`},
			"vault.(*Core).AddIrrevocableLease":                              {`.*`},
		}
		for _, w := range c.P.FieldWriters(fv) {
			n := eng.FuncName(eng.TopFunc(w.Fn))
			pats, ok := allowed[n]
			if !ok {
				// an unexported function all of whose callers are tabled writers is a piece of
				// those writers (a block extracted into a helper): it may write what they may
				wf := eng.TopFunc(w.Fn)
				var from []string
				helper := wf.Object() != nil && !wf.Object().Exported() && len(wf.Blocks) > 0
				if helper {
					m, _ := c.P.StaticCallee(n)
					sites := c.P.FindCalls(m, nil)
					helper = len(sites) > 0
					seen := map[string]bool{}
					for _, s := range sites {
						cn := eng.FuncName(eng.TopFunc(s.Fn))
						cp, tabled := allowed[cn]
						if !tabled {
							helper = false
							break
						}
						if !seen[cn] {
							seen[cn] = true
							from = append(from, cn)
							pats = append(pats, cp...)
						}
					}
				}
				if !helper {
					c.Violation(wf, "writer{leaseEntry.ExpireTime}", w.Store.Pos(), "a lease expiry is set outside the reviewed writer table: "+eng.InstrStr(w.Store), nil)
					continue
				}
				c05Prov(c, wf, "lease expiry written in "+n+" (called only by "+strings.Join(from, ", ")+")", w.Store, w.Store.Val, pats...)
				// the batch-token clamp, when it is what moved: only shortens
				if strings.HasSuffix(eng.Expr(w.Store.Val), ".ExpireTime") {
					c.Clause("R2", "C05.2")
					c.Cut(wf, "clamp to the batch token's expiry", []ssa.Instruction{w.Store}, c18G(wf, `^time\.\(Time\)\.After\(\)$`, true), nil)
					c.Clause("R6", "C05.2")
				}
				continue
			}
			c05Prov(c, eng.TopFunc(w.Fn), "lease expiry written in "+n, w.Store, w.Store.Val, pats...)
		}
	} else {
		c.Unresolved("vault.leaseEntry.ExpireTime")
	}
	// batch-token clamp in Register/Renew: only shortens
	for _, fn := range []string{"vault.(*ExpirationManager).Register", "vault.(*ExpirationManager).Renew"} {
		f := c.P.Func(fn)
		if f == nil {
			continue
		}
		c.Clause("R2", "C05.2")
		for _, st := range eng.Stores(f, `\.ExpireTime$`) {
			if strings.HasSuffix(eng.Expr(st.Val), ".ExpireTime") {
				c.Cut(f, "clamp to the batch token's expiry", []ssa.Instruction{st}, c18G(f, `^time\.\(Time\)\.After\(\)$`, true), nil)
			}
		}
	}

	// ---------- C05.3 renewable()
	if f := c.Fn("vault.(*leaseEntry).renewable"); f != nil {
		c.Clause("R2", "C05.3")
		succ := eng.SuccessReturns(f, 1)
		if c.Floor(f, "nil-error returns", len(succ), 1) {
			c.Cut(f, "nil error", succ, c18G(f, `^le == nil$`, false), nil)
			c.Cut(f, "nil error", succ, c18G(f, `^vault\.\(\*leaseEntry\)\.isIrrevocable\(\)$`, false), nil)
			c.Cut(f, "nil error", succ, c18G(f, `^time\.\(Time\)\.IsZero\(\)$`, false), nil)
			c.Cut(f, "nil-error return crosses the expiry refusal", succ, c18G(f, `^time\.\(Time\)\.Before\(\)$`, false), nil)
			// non-renewable refusal (A3: bypassed by the batch arm)
			c.Cut(f, "nil-error return crosses the non-renewable refusal (secret)", succ, eng.Or(c18G(f, `^le\.Secret == nil$`, true), c18G(f, `^le\.Secret\.LeaseOptions\.Renewable$`, true)), nil)
			c.Cut(f, "nil-error return crosses the non-renewable refusal (auth)", succ, eng.Or(c18G(f, `^le\.Auth == nil$`, true), c18G(f, `^le\.Auth\.LeaseOptions\.Renewable$`, true)), nil)
			// the same two refusals for a lease that is NOT under a batch token
			// (the batch arm is the known finding A3; assuming it away keeps the
			// refusal for ordinary leases decided on its own)
			if batch, ok := c.P.ConstValue("logical.TokenTypeBatch"); !ok {
				c.Unresolved("logical.TokenTypeBatch")
			} else {
				batchArm := `^le\.ClientTokenType == ` + regexp.QuoteMeta(batch) + `$`
				notBatch := map[string]bool{batchArm: false}
				if len(eng.CondEdges(f, batchArm, true)) == 0 {
					// no batch arm: the unconditional rules above already speak about every lease
					c.OK(f, "batch arm of renewable()", f.Pos(), "renewable() has no batch-token arm; the non-renewable refusals above cover every lease")
				} else {
					c.Cut(f, "non-batch lease: nil-error return crosses the non-renewable refusal (secret)", succ, eng.Or(c18G(f, `^le\.Secret == nil$`, true), c18G(f, `^le\.Secret\.LeaseOptions\.Renewable$`, true)), notBatch)
					c.Cut(f, "non-batch lease: nil-error return crosses the non-renewable refusal (auth)", succ, eng.Or(c18G(f, `^le\.Auth == nil$`, true), c18G(f, `^le\.Auth\.LeaseOptions\.Renewable$`, true)), notBatch)
				}
			}
		}
		c.Clause("R5", "C05.3")
		for _, b := range c05Calls(f, `^time\.\(Time\)\.Before$`) {
			c05Prov(c, f, "expiry compared", b, c05Args(b)[0], `^field:le\.ExpireTime$`)
			c05Prov(c, f, "compared with now", b, c05Args(b)[1], `^call:time\.Now$`)
		}
	}

	// ---------- C05.4 persisted => tracked
	c.Clause("R8", "C05.4")
	pe, _ := c.P.StaticCallee("vault.(*ExpirationManager).persistEntry")
	exceptions := map[string]string{
		"vault.(*ExpirationManager).CreateOrFetchRevocationLeaseByToken": "the lease exists only to be revoked: every caller revokes it immediately (checked below)",
		"vault.(*ExpirationManager).markLeaseIrrevocable":                "moves the lease to the irrevocable set instead",
		"vault.(*Core).AddIrrevocableLease":                              "test helper",
	}
	nPersist := 0
	for _, s := range c.P.FindCalls(pe, nil) {
		top := eng.FuncName(eng.TopFunc(s.Fn))
		nPersist++
		if r, ok := exceptions[top]; ok {
			c.Exception(top+" → persistEntry", r)
			c.OK(s.Fn, "persisted ⇒ tracked [excepted]", s.Call.Pos(), r)
			continue
		}
		if top == "vault.(*ExpirationManager).Renew" || top == "vault.(*ExpirationManager).RenewToken" {
			continue // checked above
		}
		{
			f := s.Fn
			idx := f.Signature.Results().Len() - 1
			succ := eng.SuccessReturns(f, idx)
			up := instrsOf(c05Calls(f, `vault\.\(\*ExpirationManager\)\.updatePending$`))
			if h := eng.Reach(eng.Query{Fn: f, StartEdges: eng.CallOKEdgesDirect(s.Call), Barriers: up, Target: eng.IsTarget(succ)}); h != nil || len(eng.CallOKEdgesDirect(s.Call)) == 0 {
				var w []string
				if h != nil {
					w = h.Witness
				}
				c.Violation(f, "persisted ⇒ tracked", s.Call.Pos(), "a lease can be persisted and success reported without handing it to updatePending (it would never expire on this node)", w)
			} else {
				c.OK(f, "persisted ⇒ tracked", s.Call.Pos(), "every successful return after persistEntry succeeded passes updatePending")
			}
		}
	}
	c.Floor(nil, "persistEntry call sites", nPersist, 7)
	c.Clause("R1", "C05.4")
	rl, _ := c.P.StaticCallee("vault.(*ExpirationManager).CreateOrFetchRevocationLeaseByToken")
	for _, s := range c.P.FindCalls(rl, nil) {
		f := s.Fn
		rev := instrsOf(c05Calls(f, `vault\.\(\*ExpirationManager\)\.(Revoke|LazyRevoke|lazyRevokeInternal|revokeCommon)$`))
		// on the success edge the lease is revoked before any nil-error return
		idx := f.Signature.Results().Len() - 1
		var succ []ssa.Instruction
		if idx >= 0 {
			succ = eng.SuccessReturns(f, idx)
		} else {
			for _, r := range eng.Returns(f) {
				succ = append(succ, r)
			}
		}
		if h := eng.Reach(eng.Query{Fn: f, StartEdges: eng.CallOKEdgesDirect(s.Call), Barriers: rev, Target: eng.IsTarget(succ)}); h != nil && len(eng.CallOKEdgesDirect(s.Call)) > 0 {
			c.Violation(f, "revocation lease is revoked by its creator", s.Call.Pos(), "a revocation lease can be created and left without revoking it (it is not tracked for expiry)", h.Witness)
		} else {
			c.OK(f, "revocation lease is revoked by its creator", s.Call.Pos(), "success edge leads to Revoke/LazyRevoke before any successful return")
		}
	}
	if f := c.Fn("vault.(*ExpirationManager).updatePendingInternal"); f != nil {
		c.Clause("R2", "C05.4")
		var rets []ssa.Instruction
		for _, r := range eng.Returns(f) {
			if r.Block().Comment != "recover" {
				rets = append(rets, r)
			}
		}
		var filed []ssa.Instruction
		for _, cl := range c05Calls(f, `^sync\.\(\*Map\)\.Store$`) {
			filed = append(filed, cl)
		}
		if c.Floor(f, "filing into pending / nonexpiring / irrevocable", len(filed), 3) {
			// every return passes a filing, or the lease is already tracked (existing timer reset), or le == nil / expire time zero handled
			if h := eng.Reach(eng.Query{Fn: f, Barriers: append(filed, instrsOf(c05Calls(f, `time\.\(\*Timer\)\.Reset$|\.Delete$`))...), Target: eng.IsTarget(rets)}); h != nil {
				c.Violation(f, "every lease is filed somewhere", h.Instr.Pos(), "updatePendingInternal can return without filing the lease into any of the tracking sets", h.Witness)
			} else {
				c.OK(f, "every lease is filed somewhere", f.Pos(), "every return passes a store into pending/nonexpiring/irrevocable (or resets an existing timer)")
			}
		}
	}

	// ---------- C05.5 restore
	if f := c.Fn("vault.(*ExpirationManager).processRestore"); f != nil {
		c.Clause("R2", "C05.5")
		succ := eng.SuccessReturns(f, 0)
		c.Cut(f, "lease restored", succ, eng.Or(c18GCallOK(f, `vault\.\(\*ExpirationManager\)\.loadEntryInternal$`), c18G(f, `restoreLoaded.*#1$`, true), c18G(f, `sync\.\(\*Map\)\.Load\(\)#1$`, true)), nil)
		c.Clause("R12", "C05.5")
		for _, l := range c05Calls(f, `vault\.\(\*ExpirationManager\)\.loadEntryInternal$`) {
			a := c05Args(l)
			if eng.Expr(a[3]) == "true" || strings.HasSuffix(eng.Expr(a[3]), ".inRestoreMode()") {
				c.OK(f, "const{loadEntryInternal(restoreMode=true)}", l.Pos(), "restore mode tracks the loaded lease")
			} else {
				c.Violation(f, "const{loadEntryInternal(restoreMode=true)}", l.Pos(), "restoreMode="+eng.Expr(a[3]), nil)
			}
		}
	}
	if f := c.Fn("vault.(*ExpirationManager).loadEntryInternal"); f != nil {
		c.Clause("R2", "C05.5")
		up := instrsOf(c05Calls(f, `vault\.\(\*ExpirationManager\)\.updatePending(Internal)?$`))
		if c.Floor(f, "updatePending in loadEntryInternal", len(up), 1) {
			c.Cut(f, "track the restored lease", up, c18G(f, `^restoreMode$`, true), nil)
			c.Exception("vault.(*ExpirationManager).loadEntryInternal: m.useCache == false", "a node that does not process expirations (standby) tracks nothing; it re-restores when it becomes active")
			// in restore mode a found lease is tracked unless already loaded
			succ := eng.SuccessReturns(f, 1)
			var withEntry []ssa.Instruction
			for _, r := range succ {
				if !eng.IsNilConst(r.(*ssa.Return).Results[0]) {
					withEntry = append(withEntry, r)
				}
			}
			if h := eng.Reach(eng.Query{Fn: f, Assume: map[string]bool{`^restoreMode$`: true}, Barriers: up, Blocked: append(eng.CondEdges(f, `restoreLoaded.*#1$|sync\.\(\*Map\)\.Load\(\)#1$`, true), eng.CondEdges(f, `^m\.useCache$`, false)...), Target: eng.IsTarget(withEntry)}); h != nil {
				c.Violation(f, "restore mode tracks what it loads", h.Instr.Pos(), "in restore mode a lease can be loaded without being tracked for expiry", h.Witness)
			} else {
				c.OK(f, "restore mode tracks what it loads", up[0].Pos(), "every entry-returning path in restore mode passes updatePending or finds the lease already restored")
			}
		}
	}
	// the "already restored" set must not outlive the in-memory state it describes: a stale entry makes the
	// next restore skip the lease, which then sits in storage with no expiry timer (seed C05-b)
	if f := c.Fn("vault.(*ExpirationManager).StopNamespace"); f != nil {
		c.Clause("R4", "C05.5")
		var clears []ssa.Instruction
		var clo *ssa.Function
		for _, r := range c05Calls(f, `^sync\.\(\*Map\)\.Range$`) {
			if strings.HasSuffix(eng.Expr(c05Args(r)[0]), ".restoreLoaded") {
				clears = append(clears, r)
				if mc, ok := c05Args(r)[1].(*ssa.MakeClosure); ok {
					clo, _ = mc.Fn.(*ssa.Function)
				}
			}
		}
		site := "dropping a namespace's leases clears its restore markers on every path"
		if len(clears) == 0 {
			c.Violation(f, site, f.Pos(), "StopNamespace no longer scans restoreLoaded: markers of the stopped namespace survive and the next restore skips those leases", nil)
		} else if h := eng.Reach(eng.Query{Fn: f, Barriers: clears, Target: func(in ssa.Instruction) bool { _, ok := in.(*ssa.Return); return ok && in.Block().Comment != "recover" }}); h != nil {
			c.Violation(f, site, h.Instr.Pos(), "StopNamespace can return without scanning restoreLoaded (the scan became conditional): markers touched while another namespace was restoring survive and the next restore of this namespace skips those leases", h.Witness)
		} else {
			c.OK(f, site, clears[0].Pos(), "every return of StopNamespace passes the restoreLoaded scan")
		}
		if clo != nil {
			c.Clause("R2", "C05.5")
			dels := instrsOf(c05Calls(clo, `^sync\.\(\*Map\)\.Delete$`))
			if c.Floor(clo, "restoreLoaded.Delete", len(dels), 1) {
				c.Cut(clo, "restore marker deleted", dels, c18G(clo, `MatchesID\(\)$`, true), nil)
				// and every matching key is deleted
				if h := eng.Reach(eng.Query{Fn: clo, StartEdges: eng.CondEdges(clo, `MatchesID\(\)$`, true), Barriers: dels, Target: func(in ssa.Instruction) bool { _, ok := in.(*ssa.Return); return ok }}); h != nil {
					c.Violation(clo, "every marker of the namespace is deleted", h.Instr.Pos(), "a key of the namespace can be left in restoreLoaded", h.Witness)
				} else {
					c.OK(clo, "every marker of the namespace is deleted", dels[0].Pos(), "MatchesID ⇒ Delete")
				}
			}
		}
	}
	for _, fn := range []string{"vault.(*ExpirationManager).Restore", "vault.(*ExpirationManager).restore"} {
		if f := c.P.Func(fn); f != nil {
			c.Clause("R3", "C05.5")
			col := c05Calls(f, `collectLeases$`)
			if len(col) > 0 {
				c.OK(f, "restore enumerates stored leases", col[0].Pos(), "collectLeases called")
			}
		}
	}
	c.Clause("R1", "C05.5")
	if m, miss := c.P.StaticCallee("vault.(*ExpirationManager).Restore"); len(miss) == 0 {
		restoreSites := c.P.FindCalls(m, nil)
		c.CallerTable("ExpirationManager.Restore", restoreSites, c18WithHelpers(c, restoreSites, map[string]string{
			"vault.(*Core).setupExpiration":           "post-unseal / leadership",
			"vault.(*Core).namespaceSetup":            "namespace unseal",
			"vault.(*NamespaceStore).unsealNamespace": "namespace unseal",
			"vault.(*SealManager).UnsealNamespace":    "namespace unseal",
		}), 1)
	}

	// ---------- C05.6 bounded retries then irrevocable
	if f := c.Fn("vault.(*revocationJob).OnFailure"); f != nil {
		c.Clause("R2", "C05.6")
		requeue := instrsOf(c05Calls(f, `time\.\(\*Timer\)\.Reset$`))
		mark := instrsOf(c05Calls(f, `vault\.\(\*ExpirationManager\)\.markLeaseIrrevocable$`))
		if c.Floor(f, "re-queue (timer reset)", len(requeue), 1) && c.Floor(f, "markLeaseIrrevocable", len(mark), 1) {
			c.Cut(f, "re-queue for another attempt", requeue, c18G(f, `revokesAttempted.* < vault\.maxRevokeAttempts$|< 6$|revokesAttempted\) < `, true), nil)
			budget := eng.CondEdges(f, `revokesAttempted.* < vault\.maxRevokeAttempts$|< 6$|revokesAttempted\) < `, false)
			if len(budget) > 0 {
				if h := eng.Reach(eng.Query{Fn: f, StartEdges: budget, Target: eng.IsTarget(requeue)}); h != nil {
					c.Violation(f, "on{retry budget exhausted} no re-queue", h.Instr.Pos(), "a lease that consumed its retry budget is queued again", h.Witness)
				} else {
					c.OK(f, "on{retry budget exhausted} no re-queue", mark[0].Pos(), "the exhausted edge never re-queues")
				}
			}
			// the counter the budget test reads is incremented on every path to the
			// test, and the incremented record is what is put back into the pending map
			c.Clause("R3", "C05.6")
			var incs []ssa.Instruction
			var rec ssa.Value // the local pendingInfo record whose counter is incremented
			for _, st := range eng.Stores(f, `\.revokesAttempted$`) {
				bo, ok := st.Val.(*ssa.BinOp)
				if !ok || bo.Op != token.ADD {
					continue
				}
				ld, ok := bo.X.(*ssa.UnOp)
				k, isConst := bo.Y.(*ssa.Const)
				if !ok || ld.Op != token.MUL || eng.Expr(ld.X) != eng.Expr(st.Addr) || !isConst || k.Value == nil || constant.Sign(k.Value) <= 0 {
					continue
				}
				incs = append(incs, st)
				if fa, ok := st.Addr.(*ssa.FieldAddr); ok {
					rec = fa.X
				}
			}
			budgetIfs := eng.EdgeIfs(eng.CondEdges(f, `revokesAttempted.* < vault\.maxRevokeAttempts$|< 6$|revokesAttempted\) < `, true))
			c.Before(f, "revokesAttempted = revokesAttempted + k (k > 0)", incs, "retry budget test", budgetIfs)
			var putBack []ssa.Instruction
			for _, ms := range c05Calls(f, `^sync\.\(\*Map\)\.Store$`) {
				a := c05Args(ms)
				if !strings.HasSuffix(eng.Expr(a[0]), ".pending") {
					continue
				}
				// the value stored is the record carrying the incremented counter
				v := a[2]
				if mi, ok := v.(*ssa.MakeInterface); ok {
					v = mi.X
				}
				if ld, ok := v.(*ssa.UnOp); ok && ld.Op == token.MUL && rec != nil && ld.X == rec {
					putBack = append(putBack, ms)
				}
			}
			isRet := func(in ssa.Instruction) bool { _, ok := in.(*ssa.Return); return ok }
			site := "after{re-queue} the record with the incremented counter is stored back into the pending map"
			switch {
			case len(incs) == 0:
				c.Violation(f, site, f.Pos(), "no increment of revokesAttempted: the re-queued record carries the old attempt count, the retry budget never trips", nil)
			default:
				bad := false
				for _, rq := range requeue {
					if h := eng.Reach(eng.Query{Fn: f, StartAfter: rq, Barriers: putBack, Target: isRet}); h != nil {
						c.Violation(f, site, h.Instr.Pos(), "a re-queued lease can leave OnFailure without m.pending.Store(leaseID, <the incremented record>): the attempt count is lost", h.Witness)
						bad = true
						break
					}
				}
				if !bad {
					c.OK(f, site, requeue[0].Pos(), fmt.Sprintf("every return after the %d re-queue site(s) passes pending.Store of the record whose counter was incremented", len(requeue)))
				}
			}
		}
	}
	runC05Gaps2(c)
	runC05Gaps3(c)
}

// timeLeaves walks a time.Time value back through phis and the
// value-preserving Truncate/Round/UTC/Local methods (to their receiver) and
// returns the leaves; nowEdges are the CFG edges through which a value whose
// leaves are all time.Now() flows into a phi on the way.
func timeLeaves(v ssa.Value) (leaves []ssa.Value, nowEdges []eng.Edge) {
	seen := map[ssa.Value]bool{}
	var walk func(v ssa.Value) []ssa.Value
	walk = func(v ssa.Value) []ssa.Value {
		switch x := v.(type) {
		case *ssa.Phi:
			if seen[v] {
				return nil
			}
			seen[v] = true
			var out []ssa.Value
			for i, e := range x.Edges {
				sub := walk(e)
				out = append(out, sub...)
				allNow := len(sub) > 0
				for _, l := range sub {
					if cl, ok := l.(*ssa.Call); !ok || eng.CalleeName(&cl.Call) != "time.Now" {
						allNow = false
					}
				}
				if allNow {
					pb := x.Block().Preds[i]
					for si, sb := range pb.Succs {
						if sb == x.Block() {
							nowEdges = append(nowEdges, eng.Edge{From: pb, Succ: si})
						}
					}
				}
			}
			return out
		case *ssa.Call:
			switch eng.CalleeName(&x.Call) {
			case "time.(Time).Truncate", "time.(Time).Round", "time.(Time).UTC", "time.(Time).Local":
				return walk(x.Call.Args[0])
			}
		}
		return []ssa.Value{v}
	}
	leaves = walk(v)
	return leaves, nowEdges
}

// c05HardStopTail: the tail of CalculateTTL — (a) when the hard stop has
// passed (remaining time <= 0) no TTL is granted, (b) the TTL is capped to the
// remaining time, behind the comparison, and whenever a hard stop exists success
// needs the comparison to have been made.
//
// Each of the two tests is looked for in CalculateTTL itself; when it is not
// there, in the functions of the same package CalculateTTL calls directly (the
// tail extracted into a helper). A helper is followed only when exactly one
// direct call carries the test, it reports through a trailing error result and
// returns the capped value as result 0; the rule is then evaluated inside the
// helper, plus the linkage in CalculateTTL (the helper's failure never reaches a
// success return; every success with a hard stop crosses the call; the helper's
// result 0 is what CalculateTTL returns). A test that is in neither place is
// reported as undecided (removed, or moved out of the rule's sight).
func c05HardStopTail(c *eng.Ctx, f *ssa.Function, succ []ssa.Instruction) {
	const pastPat = `^0 < time\.\(Time\)\.Sub\(\)$`
	const cmpPat = `time\.\(Time\)\.Sub\(\) - .* < 0$`
	const zeroPat = `^time\.\(Time\)\.IsZero\(\)$`
	isSub := func(v ssa.Value) bool { return strings.Contains(eng.Expr(v), "time.(Time).Sub()") }

	// ---- (a) past the hard stop => error
	c.Clause("R4", "C05.1")
	site := "past the hard stop"
	hasPast := func(fn *ssa.Function) bool { return len(eng.CondEdges(fn, pastPat, false)) > 0 }
	switch host, call, n := c05TailHost(f, hasPast); {
	case host == f:
		past := eng.CondEdges(f, pastPat, false)
		if h := eng.Reach(eng.Query{Fn: f, StartEdges: past, Target: eng.IsTarget(succ)}); h != nil {
			c.Violation(f, site, h.Instr.Pos(), "a TTL can still be granted although the hard stop has passed", h.Witness)
		} else {
			c.OK(f, site, past[0].From.Instrs[len(past[0].From.Instrs)-1].Pos(), "maxValidTTL <= 0 returns an error")
		}
	case host == nil:
		c.Undecided(f, site, f.Pos(), fmt.Sprintf("the test whether the hard stop has passed (remaining time <= 0) is neither in CalculateTTL nor in exactly one function of its package that it calls directly (%d candidate calls): removed, or moved? the rule cannot be evaluated", n))
	default:
		hn := eng.FuncName(host)
		errIdx, ok := c05TrailingErr(host)
		if !ok {
			c.Undecided(f, site, call.Pos(), "the test whether the hard stop has passed moved into "+hn+", which has no trailing error result: the rule cannot be evaluated")
			break
		}
		hsucc := eng.SuccessReturns(host, errIdx)
		past := eng.CondEdges(host, pastPat, false)
		fail := eng.CallFailEdges(call)
		if h := eng.Reach(eng.Query{Fn: host, StartEdges: past, Target: eng.IsTarget(hsucc)}); h != nil {
			c.Violation(f, site, h.Instr.Pos(), hn+" (called by CalculateTTL) can return without an error although the hard stop has passed", h.Witness)
		} else if len(fail) == 0 {
			c.Violation(f, site, call.Pos(), "the error with which "+hn+" reports that the hard stop has passed is not tested in CalculateTTL", nil)
		} else if h := eng.Reach(eng.Query{Fn: f, StartEdges: fail, Target: eng.IsTarget(succ)}); h != nil {
			c.Violation(f, site, h.Instr.Pos(), "a TTL can still be granted after "+hn+" reported that the hard stop has passed", h.Witness)
		} else {
			c.OK(f, site, call.Pos(), "maxValidTTL <= 0 returns an error from "+hn+", and that error never reaches a success return of CalculateTTL")
		}
	}

	// ---- (b) cap to the remaining time
	c.Clause("R2", "C05.1")
	site = "cap to the remaining time"
	hasCap := func(fn *ssa.Function) bool {
		if fn == f {
			return len(eng.PhiEdges(f, "ttl", isSub)) > 0
		}
		return len(c05SubPhiEdges(fn, isSub)) > 0
	}
	switch host, call, n := c05TailHost(f, hasCap); {
	case host == f:
		capped := eng.PhiEdges(f, "ttl", isSub)
		c.CutEdges(f, "ttl = maxValidTTL", capped, c18G(f, cmpPat, true))
		// when a hard stop exists, success needs the comparison to have been made
		cmp := eng.EdgeIfs(eng.CondEdges(f, cmpPat, true))
		zero := eng.CondEdges(f, zeroPat, true)
		if h := eng.Reach(eng.Query{Fn: f, Barriers: cmp, Blocked: zero, Target: eng.IsTarget(succ)}); h != nil {
			c.Violation(f, "TTL compared with the remaining time whenever a hard stop exists", h.Instr.Pos(), "success without comparing the TTL with the remaining time", h.Witness)
		} else {
			c.OK(f, "TTL compared with the remaining time whenever a hard stop exists", f.Pos(), "success crosses maxValidTime.IsZero() or the remaining-time comparison")
		}
	case host == nil:
		c.Undecided(f, site, f.Pos(), fmt.Sprintf("the assignment of the remaining time to the TTL is neither in CalculateTTL nor in exactly one function of its package that it calls directly (%d candidate calls): removed, or moved? the rule cannot be evaluated", n))
	default:
		hn := eng.FuncName(host)
		errIdx, ok := c05TrailingErr(host)
		if !ok {
			c.Undecided(f, site, call.Pos(), "the cap to the remaining time moved into "+hn+", which has no trailing error result: the rule cannot be evaluated")
			break
		}
		hsucc := eng.SuccessReturns(host, errIdx)
		// the capped phi is what the helper returns as result 0 ...
		capPhis := map[ssa.Value]bool{}
		for _, r := range hsucc {
			vals, _, _ := eng.ReturnVals(r.(*ssa.Return), 0)
			for _, v := range vals {
				for _, l := range c05PhisOf(v) {
					if len(c05PhiInEdges(l, isSub)) > 0 {
						capPhis[l] = true
					}
				}
			}
		}
		// ... and the helper's result 0 is among the values CalculateTTL returns
		res0 := eng.ResultValue(call, 0)
		linked := false
		for _, r := range succ {
			vals, _, _ := eng.ReturnVals(r.(*ssa.Return), 0)
			for _, v := range vals {
				if v == res0 {
					linked = true
				}
				for _, l := range c05PhisOf(v) {
					for _, e := range l.Edges {
						if e == res0 {
							linked = true
						}
					}
				}
			}
		}
		if len(capPhis) == 0 || res0 == nil || !linked {
			c.Undecided(f, site, call.Pos(), "the cap to the remaining time moved into "+hn+", but the capped value is not visibly its result 0 returned by CalculateTTL: the rule cannot be evaluated")
			break
		}
		var capped []eng.Edge
		for p := range capPhis {
			capped = append(capped, c05PhiInEdges(p.(*ssa.Phi), isSub)...)
		}
		c.CutEdges(host, "ttl = maxValidTTL", capped, c18G(host, cmpPat, true))
		cmp := eng.EdgeIfs(eng.CondEdges(host, cmpPat, true))
		site2 := "TTL compared with the remaining time whenever a hard stop exists"
		if h := eng.Reach(eng.Query{Fn: host, Barriers: cmp, Blocked: eng.CondEdges(host, zeroPat, true), Target: eng.IsTarget(hsucc)}); h != nil {
			c.Violation(f, site2, h.Instr.Pos(), hn+" (called by CalculateTTL) can succeed without comparing the TTL with the remaining time", h.Witness)
		} else if h := eng.Reach(eng.Query{Fn: f, Barriers: []ssa.Instruction{call}, Blocked: eng.CondEdges(f, zeroPat, true), Target: eng.IsTarget(succ)}); h != nil {
			c.Violation(f, site2, h.Instr.Pos(), "success without passing "+hn+", which compares the TTL with the remaining time", h.Witness)
		} else {
			c.OK(f, site2, call.Pos(), "success crosses maxValidTime.IsZero() or the call of "+hn+", whose success crosses the remaining-time comparison")
		}
	}
}

// c05TailHost: f when has(f); otherwise the one function of f's package that f
// calls directly (plain call, exactly one call site among all candidates) for
// which has() holds. n is the number of candidate call sites when none or
// several were found.
func c05TailHost(f *ssa.Function, has func(*ssa.Function) bool) (host *ssa.Function, call ssa.CallInstruction, n int) {
	if has(f) {
		return f, nil, 0
	}
	for _, b := range f.Blocks {
		for _, in := range b.Instrs {
			cl, ok := in.(*ssa.Call)
			if !ok {
				continue
			}
			g := cl.Call.StaticCallee()
			if g == nil || g == f || g.Pkg == nil || g.Pkg != f.Pkg || len(g.Blocks) == 0 || !has(g) {
				continue
			}
			n++
			host, call = g, cl
		}
	}
	if n != 1 {
		return nil, nil, n
	}
	return host, call, 1
}

// c05TrailingErr: index of fn's last result when it is the error type.
func c05TrailingErr(fn *ssa.Function) (int, bool) {
	res := fn.Signature.Results()
	if res.Len() == 0 {
		return 0, false
	}
	if !types.Identical(res.At(res.Len()-1).Type(), types.Universe.Lookup("error").Type()) {
		return 0, false
	}
	return res.Len() - 1, true
}

// c05PhisOf: v when it is a phi, and the phis merged into it.
func c05PhisOf(v ssa.Value) []*ssa.Phi {
	var out []*ssa.Phi
	seen := map[*ssa.Phi]bool{}
	var walk func(v ssa.Value)
	walk = func(v ssa.Value) {
		p, ok := v.(*ssa.Phi)
		if !ok || seen[p] {
			return
		}
		seen[p] = true
		out = append(out, p)
		for _, e := range p.Edges {
			walk(e)
		}
	}
	walk(v)
	return out
}

// c05PhiInEdges: the CFG edges through which a value satisfying pred flows
// into phi.
func c05PhiInEdges(phi *ssa.Phi, pred func(ssa.Value) bool) []eng.Edge {
	var out []eng.Edge
	b := phi.Block()
	for i, e := range phi.Edges {
		if _, isPhi := e.(*ssa.Phi); isPhi || !pred(e) {
			continue
		}
		pb := b.Preds[i]
		for si, s := range pb.Succs {
			if s == b {
				out = append(out, eng.Edge{From: pb, Succ: si})
			}
		}
	}
	return out
}

// c05SubPhiEdges: c05PhiInEdges over every phi of fn.
func c05SubPhiEdges(fn *ssa.Function, pred func(ssa.Value) bool) []eng.Edge {
	var out []eng.Edge
	for _, b := range fn.Blocks {
		for _, in := range b.Instrs {
			phi, ok := in.(*ssa.Phi)
			if !ok {
				break
			}
			out = append(out, c05PhiInEdges(phi, pred)...)
		}
	}
	return out
}

// c05CallsOf: the calls in fn (closures not included) whose resolved callee is
// target — written directly, or through a method value bound in fn
// (v := x.m; v()), which the SSA form calls as a closure over the synthetic
// bound-method wrapper of m. valueTaken: the method is taken as a value
// somewhere in fn (whether or not a call of it could be resolved).
func c05CallsOf(fn, target *ssa.Function) (calls []ssa.CallInstruction, valueTaken bool) {
	if target == nil {
		return nil, false
	}
	wraps := func(g *ssa.Function) bool {
		return g != nil && g.Synthetic != "" && g.Object() != nil && g.Object() == target.Object()
	}
	for _, b := range fn.Blocks {
		for _, in := range b.Instrs {
			if mc, ok := in.(*ssa.MakeClosure); ok {
				if g, ok := mc.Fn.(*ssa.Function); ok && wraps(g) {
					valueTaken = true
				}
			}
			ci, ok := in.(ssa.CallInstruction)
			if !ok {
				continue
			}
			if g := ci.Common().StaticCallee(); g == target || (g != nil && g.Origin() == target) || wraps(g) {
				calls = append(calls, ci)
			}
		}
	}
	return calls, valueTaken
}
