package props

import (
	"fmt"
	"go/token"
	"regexp"
	"strings"

	"golang.org/x/tools/go/ssa"

	"obsa/eng"
)

var reCache = map[string]*regexp.Regexp{}

func regexpMatch(pat, s string) (bool, error) {
	re := reCache[pat]
	if re == nil {
		re = regexp.MustCompile(pat)
		reCache[pat] = re
	}
	return re.MatchString(s), nil
}

type sanField struct {
	field  string   // field of the copy
	origin string   // allowed origin of the stored value
	skip   []string // conditions (normalised, value) under which the field needs no overwrite: "pat=true|false"
	after  string   // optional: a call that must have succeeded before the store
}

func c11Sanitisers(c *eng.Ctx) {
	hmac := `^call:closure:salt\.\(\*Salt\)\.GetIdentifiedHMAC\$bound$`
	table := map[string][]sanField{
		"audit.HashAuth": {
			{field: "ClientToken", origin: hmac, skip: []string{`^&auth\.ClientToken == ""$=true`}},
			{field: "Accessor", origin: hmac, skip: []string{`^HMACAccessor$=false`, `^&auth\.Accessor == ""$=true`}},
		},
		"audit.HashRequest": {
			{field: "Auth", origin: `^call:audit\.HashAuth#0$`, skip: []string{`^&req\.Auth == nil$=true`}},
			{field: "ClientToken", origin: hmac, skip: []string{`^&req\.ClientToken == ""$=true`}},
			{field: "ClientTokenAccessor", origin: hmac, skip: []string{`^HMACAccessor$=false`, `^&req\.ClientTokenAccessor == ""$=true`}},
			{field: "Data", origin: `^call:audit\.getUnmarshaledCopy#0$`, skip: []string{`^&req\.Data == nil$=true`}, after: `audit\.hashMap$`},
		},
		"audit.HashResponse": {
			{field: "Auth", origin: `^call:audit\.HashAuth#0$`, skip: []string{`^&resp\.Auth == nil$=true`}},
			{field: "Data", origin: `^call:audit\.getUnmarshaledCopy#0$`, skip: []string{`^&resp\.Data == nil$=true`}, after: `audit\.hashMap$`},
			{field: "WrapInfo", origin: `^call:audit\.HashWrapInfo#0$`, skip: []string{`^&resp\.WrapInfo == nil$=true`}},
		},
		"audit.HashWrapInfo": {
			{field: "Token", origin: hmac},
			{field: "Accessor", origin: hmac, skip: []string{`^HMACAccessor$=false`}},
			{field: "WrappedAccessor", origin: hmac, skip: []string{`^HMACAccessor$=false`, `^&wrapinfo\.WrappedAccessor == ""$=true`}},
		},
	}
	for _, fn := range []string{"audit.HashAuth", "audit.HashRequest", "audit.HashResponse", "audit.HashWrapInfo"} {
		f := c.Fn(fn)
		if f == nil {
			continue
		}
		// success returns with a non-nil result
		var sinks []ssa.Instruction
		for _, r := range eng.SuccessReturns(f, 1) {
			ret := r.(*ssa.Return)
			if !eng.IsNilConst(ret.Results[0]) {
				sinks = append(sinks, r)
			}
		}
		c.Clause("R5", "C11.5")
		if !c.Floor(f, "success returns of a sanitised copy", len(sinks), 1) {
			continue
		}
		// the function returns the copy, not the input
		var copyAlloc *ssa.Alloc
		for _, r := range sinks {
			ret := r.(*ssa.Return)
			a, ok := ret.Results[0].(*ssa.Alloc)
			if !ok {
				c.Violation(f, "returns the copy", ret.Pos(), "the sanitiser returns "+eng.Expr(ret.Results[0])+", not the address of its local copy: the caller would log (or the sanitiser would mutate) the original", nil)
				continue
			}
			copyAlloc = a
			// the copy is initialised from *in
			c.OK(f, "returns the copy", ret.Pos(), "returns the address of local copy "+eng.Expr(a))
		}
		if copyAlloc == nil {
			continue
		}
		for _, sf := range table[fn] {
			c.Clause("R2", "C11.5")
			site := "sanitised{" + sf.field + "}"
			var stores []ssa.Instruction
			for _, v := range fieldStores(copyAlloc, sf.field) {
				if c11SanOrigin(v.Val, sf.origin, sf.origin == hmac) {
					stores = append(stores, v)
				} else {
					c.Violation(f, site, v.Pos(), fmt.Sprintf("the copy's field %s is overwritten with a value that is not the sanitiser's output (allowed origin %s): %s", sf.field, sf.origin, eng.Expr(v.Val)), nil)
				}
			}
			var blocked []eng.Edge
			for _, s := range sf.skip {
				i := len(s) - 1
				for s[i] != '=' {
					i--
				}
				blocked = append(blocked, eng.CondEdges(f, s[:i], s[i+1:] == "true")...)
			}
			if h := eng.Reach(eng.Query{Fn: f, Barriers: stores, Blocked: blocked, Target: eng.IsTarget(sinks)}); h != nil {
				fact := fmt.Sprintf("the sanitised copy can be returned with field %s still holding the plaintext (no overwrite with the salted HMAC / hashed sub-copy on this path)", sf.field)
				if len(stores) == 0 {
					fact = "no overwrite of field " + sf.field + " with the sanitiser's output exists any more; " + fact
				}
				c.Violation(f, site, h.Instr.Pos(), fact, h.Witness)
			} else {
				c.OK(f, site, stores[0].Pos(), fmt.Sprintf("every success return passes the overwrite of %s (or a tabled skip edge: %v)", sf.field, sf.skip))
			}
			if sf.after != "" {
				c.Cut(f, "store copy."+sf.field, stores, eng.GCallOK(f, sf.after), nil)
				// and the structure hashed is the one stored, with the HMAC callback
				for _, hm := range eng.Calls(f, sf.after) {
					c.Clause("R5", "C11.5")
					if c11IsHMACFunc(hm.Common().Args[0]) {
						c.OK(f, "prov{callback given to hashMap}", hm.Pos(), "the salt's GetIdentifiedHMAC (method value, or a closure that only forwards to it)")
					} else {
						c.Violation(f, "prov{callback given to hashMap}", hm.Pos(), "the callback handed to hashMap is "+eng.ExprDeep(hm.Common().Args[0])+", not the salt's GetIdentifiedHMAC", nil)
					}
					c.Prov(f, "structure given to hashMap", hm, hm.Common().Args[1], sf.origin)
					// ... and it is the very value stored into the copy, judged at the call: a load of the
					// copy's field before the overwrite still sees the input's live map
					site := "hashed{" + sf.field + "} is the value stored into the copy"
					vals, fromInput := c11ValuesAt(copyAlloc, sf.field, hm.Common().Args[1], hm)
					stored := map[ssa.Value]bool{}
					for _, st := range stores {
						stored[c11Strip(st.(*ssa.Store).Val)] = true
					}
					bad := ""
					for _, v := range vals {
						if !stored[c11Strip(v)] {
							bad = eng.Expr(v)
						}
					}
					switch {
					case fromInput:
						c.Violation(f, site, hm.Pos(), "hashMap is applied to the copy's field "+sf.field+" as it stands before the overwrite, i.e. to the input's own live map: the caller's data is hashed in place while the unhashed JSON copy is what gets stored into the entry", nil)
					case bad != "" || len(vals) == 0:
						c.Violation(f, site, hm.Pos(), "the structure handed to hashMap ("+bad+") is not the value that is stored into the copy's "+sf.field, nil)
					default:
						c.OK(f, site, hm.Pos(), "hashMap receives the same SSA value that the overwrite of "+sf.field+" stores (resolved flow-sensitively at the call)")
					}
				}
			}
		}
	}
	// hashMap -> HashStructure -> walker with the same callback and keys
	if f := c.Fn("audit.HashStructure"); f != nil {
		c.Clause("R5", "C11.5")
		for _, w := range eng.Calls(f, `reflectwalk\.Walk$`) {
			c.Prov(f, "data walked", w, w.Common().Args[0], `^param:data$`)
			wk := w.Common().Args[1]
			for _, v := range eng.StructLitField(rootAlloc(wk), "Callback") {
				c.Prov(f, "walker.Callback", w, v, `^param:cb$`)
			}
			for _, v := range eng.StructLitField(rootAlloc(wk), "IgnoredKeys") {
				c.Prov(f, "walker.IgnoredKeys", w, v, `^param:ignoredKeys$`)
			}
			if len(eng.StructLitField(rootAlloc(wk), "Callback")) == 0 {
				c.Violation(f, "prov{walker.Callback}", w.Pos(), "the walker is built without the hash callback", nil)
			}
		}
		c.Floor(f, "reflectwalk.Walk call", len(eng.Calls(f, `reflectwalk\.Walk$`)), 1)
	}
}

// c11Strip removes value-preserving wrappers.
func c11Strip(v ssa.Value) ssa.Value {
	for {
		switch x := v.(type) {
		case *ssa.MakeInterface:
			v = x.X
		case *ssa.ChangeType:
			v = x.X
		case *ssa.ChangeInterface:
			v = x.X
		default:
			return v
		}
	}
}

// c11ValuesAt resolves v as seen by instruction `at`: if v is a load of
// cp.field (cp a local struct), the values of the stores to that field that
// can still be its content when the load executes; fromInput reports that the
// content may (also) be what the whole-struct initialisation `cp = *in` put
// there, i.e. the input's own field. Any other v is returned as is.
func c11ValuesAt(cp *ssa.Alloc, field string, v ssa.Value, at ssa.Instruction) (vals []ssa.Value, fromInput bool) {
	v = c11Strip(v)
	ld, ok := v.(*ssa.UnOp)
	if !ok || ld.Op != token.MUL {
		return []ssa.Value{v}, false
	}
	fa, ok := ld.X.(*ssa.FieldAddr)
	if !ok || fa.X != ssa.Value(cp) || eng.FieldVar(fa) == nil || eng.FieldVar(fa).Name() != field {
		return []ssa.Value{v}, false
	}
	var defs []ssa.Instruction
	whole := map[ssa.Instruction]bool{}
	for _, st := range fieldStores(cp, field) {
		defs = append(defs, st)
	}
	if refs := cp.Referrers(); refs != nil {
		for _, r := range *refs {
			if st, ok := r.(*ssa.Store); ok && st.Addr == ssa.Value(cp) {
				defs = append(defs, st)
				whole[st] = true
			}
		}
	}
	isLoad := func(in ssa.Instruction) bool { return in == ssa.Instruction(ld) }
	for _, d := range defs {
		var others []ssa.Instruction
		for _, o := range defs {
			if o != d {
				others = append(others, o)
			}
		}
		if eng.Reach(eng.Query{Fn: cp.Parent(), StartAfter: d, Barriers: others, Target: isLoad}) == nil {
			continue
		}
		if whole[d] {
			fromInput = true
		} else {
			vals = append(vals, d.(*ssa.Store).Val)
		}
	}
	// no definition reaches: the zero value of the local
	if len(vals) == 0 && !fromInput {
		if eng.Reach(eng.Query{Fn: cp.Parent(), Barriers: defs, Target: isLoad}) != nil {
			fromInput = true
		}
	}
	return vals, fromInput
}

func rootAlloc(v ssa.Value) ssa.Value {
	for {
		switch x := v.(type) {
		case *ssa.MakeInterface:
			v = x.X
		case *ssa.ChangeType:
			v = x.X
		default:
			return v
		}
	}
}

func fieldStores(base ssa.Value, name string) []*ssa.Store {
	var out []*ssa.Store
	refs := base.Referrers()
	if refs == nil {
		return nil
	}
	for _, r := range *refs {
		fa, ok := r.(*ssa.FieldAddr)
		if !ok || eng.FieldVar(fa) == nil || eng.FieldVar(fa).Name() != name {
			continue
		}
		if fr := fa.Referrers(); fr != nil {
			for _, rr := range *fr {
				if st, ok := rr.(*ssa.Store); ok && st.Addr == fa {
					out = append(out, st)
				}
			}
		}
	}
	return out
}

// c11Walker: hashWalker.Primitive writes back only the callback's result and
// returns early (leaving the leaf as it is) only on the reviewed guards.
func c11Walker(c *eng.Ctx) {
	f := c.Fn("audit.(*hashWalker).Primitive")
	if f == nil {
		return
	}
	c.Clause("R5", "C11.5")
	var writes []ssa.Instruction
	for _, cl := range eng.Calls(f, `^reflect\.\(Value\)\.(SetMapIndex|Set)$`) {
		writes = append(writes, cl)
		args := cl.Common().Args
		c.Prov(f, "value written back by the walker", cl, args[len(args)-1], `^call:reflect\.ValueOf$`)
	}
	c.Floor(f, "write-back calls (SetMapIndex/Set)", len(writes), 2)
	for _, vo := range eng.Calls(f, `^reflect\.ValueOf$`) {
		c.Prov(f, "replacement value", vo, vo.Common().Args[0], `^call:dyn:w\.Callback$`)
	}
	for _, cb := range eng.Calls(f, `^dyn:w\.Callback$`) {
		c.Prov(f, "callback input", cb, cb.Common().Args[0], `^call:reflect\.\(Value\)\.String$`)
	}
	c.Floor(f, "callback call", len(eng.Calls(f, `^dyn:w\.Callback$`)), 1)
	// every nil-error return either passes a write-back or crosses one of the reviewed skip guards
	c.Clause("R2", "C11.5")
	succ := eng.SuccessReturns(f, 0)
	mapKey, ok1 := c.P.ImportedConst("audit", "github.com/mitchellh/reflectwalk", "MapKey")
	mapValue, ok2 := c.P.ImportedConst("audit", "github.com/mitchellh/reflectwalk", "MapValue")
	strKind, ok3 := c.P.ImportedConst("audit", "reflect", "String")
	if !ok1 || !ok2 || !ok3 {
		c.Unresolved("reflectwalk.MapKey / reflectwalk.MapValue / reflect.String constants")
		return
	}
	skip := []eng.Guard{
		eng.G(f, `^w\.Callback == nil$`, true),
		eng.G(f, `^\(?w\.loc\[.*\]\)? == `+mapKey+`$`, true),            // reflectwalk.MapKey
		eng.G(f, `reflect\.\(Value\)\.Kind\(\) == `+strKind+`$`, false), // reflect.String
		eng.G(f, `^time\.\(\*Time\)\.UnmarshalText\(\) == nil$`, true),
		eng.G(f, `^slices\.Contains\[.*\]\(\)$`, true),
	}
	names := []string{"no callback", "map key", "not a string", "RFC3339 time", "current key exempted"}
	var blocked []eng.Edge
	for i, g := range skip {
		if len(g.Edges) == 0 {
			c.Violation(f, "skip guard{"+names[i]+"}", f.Pos(), "reviewed skip guard no longer present in this form ("+g.Desc+"); the set of leaves left unhashed changed — re-read", nil)
		}
		blocked = append(blocked, g.Edges...)
	}
	if h := eng.Reach(eng.Query{Fn: f, Barriers: writes, Blocked: blocked, Target: eng.IsTarget(succ)}); h != nil {
		c.Violation(f, "leaf left as is only on reviewed guards", h.Instr.Pos(), "Primitive can return nil without writing back the callback's result and without crossing a reviewed skip guard", h.Witness)
	} else {
		c.OK(f, "leaf left as is only on reviewed guards", f.Pos(), "every nil return either writes back the callback's result or crosses one of: "+fmt.Sprint(names))
	}
	// the exemption tests the leaf's own key: top of the key stack against IgnoredKeys
	c.Clause("R5", "C11.5")
	for _, sc := range eng.Calls(f, `^slices\.Contains\[`) {
		c.Prov(f, "exemption list consulted", sc, sc.Common().Args[0], `^field:w\.IgnoredKeys$`)
		key := sc.Common().Args[1]
		s := eng.ExprDeep(key)
		if ok, _ := regexpMatch(`^w\.key\[\(?len\(w\.key\) - 1\)?\]$`, s); ok {
			c.OK(f, "exemption tests the current key", sc.Pos(), "key tested = "+s+" (top of the map-key stack maintained by MapElem/Exit)")
		} else {
			c.Violation(f, "exemption tests the current key", sc.Pos(), "the exemption test does not use the top of the key stack (w.key[len(w.key)-1]) but "+s, nil)
		}
	}
	// the key stack is pushed in MapElem and popped in Exit on MapValue
	if me := c.Fn("audit.(*hashWalker).MapElem"); me != nil {
		c.Clause("R6", "C11.5")
		st := eng.Stores(me, `^w\.key$`)
		if len(st) == 0 {
			c.Violation(me, "push{w.key}", me.Pos(), "MapElem no longer pushes the map key on w.key", nil)
		}
		for _, s := range st {
			c.Prov(me, "w.key push", s, s.Val, `^call:append$`)
		}
	}
	if ex := c.Fn("audit.(*hashWalker).Exit"); ex != nil {
		c.Clause("R6", "C11.5")
		st := eng.Stores(ex, `^w\.key$`)
		if len(st) == 0 {
			c.Violation(ex, "pop{w.key}", ex.Pos(), "Exit no longer pops w.key", nil)
		} else {
			c.Cut(ex, "pop w.key", instrsOf(st), eng.G(ex, `^loc == `+mapValue+`$`, true), nil) // reflectwalk.MapValue
		}
	}
	// writers of hashWalker.key: only MapElem and Exit
	c.Clause("R6", "C11.5")
	if fv := c.P.Field("audit.hashWalker.key"); fv != nil {
		for _, w := range c.P.FieldWriters(fv) {
			n := eng.FuncName(eng.TopFunc(w.Fn))
			if n == "audit.(*hashWalker).MapElem" || n == "audit.(*hashWalker).Exit" {
				c.OK(w.Fn, "writer{hashWalker.key}", w.Store.Pos(), "tabled writer")
			} else {
				c.Violation(w.Fn, "writer{hashWalker.key}", w.Store.Pos(), "unexpected writer of the walker's key stack", nil)
			}
		}
	} else {
		c.Unresolved("audit.hashWalker.key")
	}
}

type reWrap struct{ re *regexp.Regexp }

func regexpMust(p string) *reWrap { return &reWrap{regexp.MustCompile(p)} }

// FindStringSubmatch returns [full, firstNonEmptyGroup].
func (r *reWrap) FindStringSubmatch(s string) []string {
	m := r.re.FindStringSubmatch(s)
	if m == nil {
		return nil
	}
	for _, g := range m[1:] {
		if g != "" {
			return []string{m[0], g}
		}
	}
	return nil
}

// ---------- "the salted-HMAC function", however it is written

const c11HMACFn = "salt.(*Salt).GetIdentifiedHMAC"

// c11IsHMACFunc: v denotes salt.(*Salt).GetIdentifiedHMAC — the bound method value, or a
// closure with one parameter every return of which is GetIdentifiedHMAC applied to that
// parameter (read through a local alias / captured variable if need be).
func c11IsHMACFunc(v ssa.Value) bool {
	fn, mc := nfFuncValue(c11Strip(v))
	if fn == nil {
		return false
	}
	if mc != nil && nfIsBoundWrapper(fn) {
		return strings.TrimSuffix(eng.FuncName(fn), "$bound") == c11HMACFn
	}
	if fn.Parent() == nil || len(fn.Params) != 1 || len(fn.Blocks) == 0 {
		return false
	}
	rets := eng.Returns(fn)
	for _, r := range rets {
		if len(r.Results) != 1 {
			return false
		}
		cl, ok := r.Results[0].(*ssa.Call)
		if !ok {
			return false
		}
		nc := nfCallOf(cl)
		if nc.Name != c11HMACFn || len(nc.Args) != 2 || nc.Args[1] != ssa.Value(fn.Params[0]) {
			return false
		}
	}
	return len(rets) > 0
}

// c11IsHMACResult: v is the result of calling the salted-HMAC function.
func c11IsHMACResult(v ssa.Value) bool {
	cl, ok := v.(*ssa.Call)
	if !ok {
		return false
	}
	return nfCallOf(cl).Name == c11HMACFn || c11IsHMACFunc(cl.Call.Value)
}

// c11SanOrigin: every origin of v matches pat, or (hmacToo) is a result of the salted-HMAC function.
func c11SanOrigin(v ssa.Value, pat string, hmacToo bool) bool {
	os := eng.Origins(v)
	if len(os) == 0 {
		return false
	}
	for _, o := range os {
		if ok, _ := regexpMatch(pat, o.Kind+":"+o.Desc); ok {
			continue
		}
		if hmacToo && c11IsHMACResult(o.Val) {
			continue
		}
		return false
	}
	return true
}
