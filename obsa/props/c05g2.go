package props

import (
	"fmt"
	"go/constant"
	"go/token"
	"go/types"
	"regexp"
	"strings"

	"golang.org/x/tools/go/ssa"

	"obsa/eng"
)

// runC05Gaps2: second-tier mechanisms of C05 (clauses C05.7 .. C05.14): the
// helpers that compute the mount maximum and the expiry, the issue-side
// application of the capped TTL, the merge of a role's explicit maximum, the
// enumeration / error legs / restore-mode bracket of restore, the revocation
// job's error hand-over, the expiry timer's operand, and two error legs that
// would leave a stored lease tracked nowhere.
func runC05Gaps2(c *eng.Ctx) {
	c05MountMax(c)
	c05ExpiryHelpers(c)
	c05IssueApplied(c)
	c05RoleMerge(c)
	c05RestoreLegs(c)
	c05RevocationHandOver(c)
	c05ForgetAfterDelete(c)
	c05RootBoundByMergedMax(c)
	c05Timer(c)
	c05RegisterRollback(c)
}

// ---------- C05.7 the mount maximum CalculateTTL is handed
//
// The maximum MaxLeaseTTL reports is computed either in MaxLeaseTTL itself or
// in the one function of the package whose result it hands on unchanged
// (fetchTTLs today); the structural rules are evaluated where the computation
// is. What is neither is reported as undecided.
func c05MountMax(c *eng.Ctx) {
	f := c.Fn("vault.(dynamicSystemView).MaxLeaseTTL")
	if f == nil {
		return
	}
	c.Clause("R5", "C05.7")
	var rets []*ssa.Return
	for _, r := range eng.Returns(f) {
		if r.Block().Comment != "recover" && len(r.Results) > 0 {
			rets = append(rets, r)
		}
	}
	if !c.Floor(f, "returns of MaxLeaseTTL", len(rets), 1) {
		return
	}
	// where is the value computed?
	host, idx := f, 0
	var helper *ssa.Function
	helperIdx, nHelper, nOther := 0, 0, 0
	for _, r := range rets {
		for _, o := range eng.Origins(r.Results[0]) {
			var cl *ssa.Call
			k := 0
			switch x := o.Val.(type) {
			case *ssa.Extract:
				cl, _ = x.Tuple.(*ssa.Call)
				k = x.Index
			case *ssa.Call:
				cl = x
			}
			var g *ssa.Function
			if cl != nil {
				g = nfBody(cl, f)
			}
			if g == nil {
				nOther++
				continue
			}
			if helper != nil && (helper != g || helperIdx != k) {
				nOther++ // two different helpers: not followed
				continue
			}
			helper, helperIdx = g, k
			nHelper++
		}
	}
	site := "prov{mount maximum reported to CalculateTTL}"
	switch {
	case nHelper > 0 && nOther == 0:
		host, idx = helper, helperIdx
		c.OK(f, site, rets[0].Pos(), fmt.Sprintf("MaxLeaseTTL hands on result %d of %s unchanged", idx, eng.FuncName(host)))
	case nHelper == 0:
		c.OK(f, site, rets[0].Pos(), "the maximum is computed in MaxLeaseTTL itself")
	default:
		c.Violation(f, site, rets[0].Pos(), "MaxLeaseTTL reports the result of "+eng.FuncName(helper)+" on some paths and something else on others: the mount maximum handed to CalculateTTL is not the one computed there", nil)
		return
	}
	// the returns of the host that carry the maximum
	type retVal struct {
		r *ssa.Return
		v ssa.Value
	}
	var maxes []retVal
	for _, r := range eng.Returns(host) {
		if r.Block().Comment == "recover" || len(r.Results) <= idx {
			continue
		}
		vals, _, _ := eng.ReturnVals(r, idx)
		for _, v := range vals {
			maxes = append(maxes, retVal{r, v})
		}
	}
	c.Clause("R2", "C05.7")
	isMountMax := func(v ssa.Value) bool { return strings.HasSuffix(eng.Expr(v), ".mountEntry.Config.MaxLeaseTTL") }
	// the variable the maximum is kept in: the phis the returned value is merged from
	var tuned []eng.Edge
	seenPhi := map[*ssa.Phi]bool{}
	for _, m := range maxes {
		for _, p := range c05PhisOf(m.v) {
			if !seenPhi[p] {
				seenPhi[p] = true
				tuned = append(tuned, c05PhiInEdges(p, isMountMax)...)
			}
		}
	}
	if c.Floor(host, "max = mountEntry.Config.MaxLeaseTTL", len(tuned), 1) {
		c.CutEdges(host, "max = the mount's tuned maximum", tuned, c18G(host, `\.mountEntry\.Config\.MaxLeaseTTL == 0$`, false))
	}
	// and conversely: a mount with a tuned (non-zero) maximum reports exactly that maximum
	c.Clause("R5", "C05.7")
	site = "a tuned mount maximum replaces the system maximum"
	asm := map[string]bool{`\.mountEntry == nil$`: false, `\.mountEntry\.Config\.MaxLeaseTTL == 0$`: false}
	fe := eng.Feasible(host, asm)
	n, bad := 0, ""
	for _, m := range maxes {
		// leaves: field loads (not descended into) and whatever else the value is read out of
		var leaves []ssa.Value
		rest := eng.RootsVisit(m.v, fe, func(x ssa.Value) bool {
			if ld, ok := x.(*ssa.UnOp); ok && ld.Op == token.MUL {
				if _, isField := ld.X.(*ssa.FieldAddr); isField {
					leaves = append(leaves, x)
					return true
				}
			}
			return false
		})
		for _, root := range append(leaves, rest...) {
			n++
			if !isMountMax(root) {
				bad = eng.Expr(root)
			}
		}
	}
	hn := eng.FuncName(host)
	switch {
	case n == 0:
		c.Undecided(host, site, host.Pos(), "no value found for the maximum returned by "+hn)
	case bad != "":
		c.Violation(host, site, host.Pos(), "for a mount whose max_lease_ttl is tuned (non-zero) "+hn+" may still report "+bad+": the mount maximum no longer bounds the mount's leases", nil)
	default:
		c.OK(host, site, host.Pos(), "with mountEntry != nil and Config.MaxLeaseTTL != 0 the maximum returned is Config.MaxLeaseTTL")
	}
}

// ---------- C05.8 expiry = now + the (capped) TTL
func c05ExpiryHelpers(c *eng.Ctx) {
	if f := c.Fn("logical.(*LeaseOptions).ExpirationTime"); f != nil {
		c.Clause("R5", "C05.8")
		adds := c05Calls(f, `^time\.\(Time\)\.Add$`)
		if c.Floor(f, "now.Add(total)", len(adds), 1) {
			for _, a := range adds {
				c05Prov(c, f, "expiry counted from now", a, c05Args(a)[0], `^call:time\.Now$`)
				c05Prov(c, f, "expiry = now + LeaseTotal()", a, c05Args(a)[1], `^call:logical\.\(\*LeaseOptions\)\.LeaseTotal$`)
			}
		}
		for _, r := range eng.Returns(f) {
			if r.Block().Comment == "recover" || len(r.Results) == 0 {
				continue
			}
			c05Prov(c, f, "expiry returned", r, r.Results[0], `^call:time\.\(Time\)\.Add$`, `^const:`)
		}
	}
	if f := c.Fn("logical.(*LeaseOptions).LeaseTotal"); f != nil {
		c.Clause("R5", "C05.8")
		n := 0
		for _, r := range eng.Returns(f) {
			if r.Block().Comment == "recover" || len(r.Results) == 0 {
				continue
			}
			n++
			c05Prov(c, f, "lease total", r, r.Results[0], `^field:l\.TTL$`, `^const:0$`)
		}
		c.Floor(f, "returns of LeaseTotal", n, 1)
	}
}

// c05AppliedBefore: starting on the nil-error edges of every CalculateTTL
// call of f, every path to a sink first stores CalculateTTL's TTL through an
// address matching storePat. When the CalculateTTL call is not in f but in the
// one function of the package f calls directly (the block extracted into a
// helper), the rule is evaluated there — every successful return of the helper
// after CalculateTTL succeeded passes the store into field `field` (selected
// by field identity) — together with the linkage in f: the sinks are reached
// only across the helper's success.
func c05AppliedBefore(c *eng.Ctx, f *ssa.Function, storePat string, field *types.Var, storeDesc, sinkDesc string, sinks []ssa.Instruction) {
	const calcPat = `framework\.CalculateTTL$`
	host, via, _ := c05TailHost(f, func(g *ssa.Function) bool { return len(c05Calls(g, calcPat)) > 0 })
	if host == nil || host == f || field == nil {
		host, via = f, nil
	}
	calcs := c05Calls(host, calcPat)
	if !c.Floor(f, "CalculateTTL call", len(calcs), 1) || !c.Floor(f, sinkDesc, len(sinks), 1) {
		return
	}
	var applied []ssa.Instruction
	if host == f {
		for _, st := range eng.Stores(f, storePat) {
			if ok, _, _ := c18OriginsMatch(st.Val, nil, `^call:framework\.CalculateTTL#0$`); ok {
				applied = append(applied, st)
			}
		}
	} else {
		for _, in := range eng.Instrs(host, func(in ssa.Instruction) bool { _, ok := in.(*ssa.Store); return ok }) {
			st := in.(*ssa.Store)
			fa, ok := st.Addr.(*ssa.FieldAddr)
			if !ok {
				continue
			}
			if g := eng.FieldVar(fa); g == nil || (g != field && g.Origin() != field) {
				continue
			}
			if ok, _, _ := c18OriginsMatch(st.Val, nil, `^call:framework\.CalculateTTL#0$`); ok {
				applied = append(applied, st)
			}
		}
	}
	site := "after{CalculateTTL} " + storeDesc + " before " + sinkDesc
	targets := sinks
	if host != f {
		// inside the helper the "sinks" are its successful returns
		targets = nil
		if idx, ok := c05TrailingErr(host); ok {
			targets = eng.SuccessReturns(host, idx)
		} else {
			for _, r := range eng.Returns(host) {
				if r.Block().Comment != "recover" {
					targets = append(targets, r)
				}
			}
		}
	}
	for _, ct := range calcs {
		ok := c05OKEdges(ct)
		if len(ok) == 0 {
			c.Undecided(f, site, ct.Pos(), "no nil-error edge found for the CalculateTTL call")
			return
		}
		if h := eng.Reach(eng.Query{Fn: host, StartEdges: ok, Barriers: applied, Target: eng.IsTarget(targets)}); h != nil {
			c.Violation(f, site, h.Instr.Pos(), sinkDesc+" is reachable after CalculateTTL succeeded without first writing its TTL ("+storeDesc+"): the lifetime that is stored / tracked is not the capped one", h.Witness)
			return
		}
	}
	if host != f {
		hn := eng.FuncName(host)
		_, hasErr := c05TrailingErr(host)
		okEdges := eng.CallOKEdges(via)
		if h := eng.Reach(eng.Query{Fn: f, Barriers: []ssa.Instruction{via}, Target: eng.IsTarget(sinks)}); h != nil {
			c.Violation(f, site, h.Instr.Pos(), sinkDesc+" is reachable without passing "+hn+", which computes and writes the capped TTL", h.Witness)
			return
		}
		if hasErr {
			if len(okEdges) == 0 {
				c.Violation(f, site, via.Pos(), "the error of "+hn+", which computes and writes the capped TTL, is not tested before "+sinkDesc, nil)
				return
			}
			if h := eng.Reach(eng.Query{Fn: f, StartAfter: via, Blocked: okEdges, Target: eng.IsTarget(sinks)}); h != nil {
				c.Violation(f, site, h.Instr.Pos(), sinkDesc+" is reachable after "+hn+" failed", h.Witness)
				return
			}
		}
		c.OK(f, site, via.Pos(), "every successful return of "+hn+" after CalculateTTL succeeded passes "+storeDesc+", and "+sinkDesc+" is reached only across its success")
		return
	}
	c.OK(f, site, calcs[0].Pos(), "every path from CalculateTTL's success edge to "+sinkDesc+" passes "+storeDesc)
}

// ---------- C05.9 the capped TTL is what is registered at issue time
func c05IssueApplied(c *eng.Ctx) {
	if f := c.Fn("vault.(*Core).handleRequest"); f != nil {
		c.Clause("R3", "C05.9")
		c05AppliedBefore(c, f, `\.Secret\.LeaseOptions\.TTL$`, c.P.Field("logical.LeaseOptions.TTL"), "resp.Secret.TTL = ttl", "ExpirationManager.Register", instrsOf(c05Calls(f, `vault\.\(\*ExpirationManager\)\.Register$`)))
	}
	if f := c.Fn("vault.(*TokenStore).handleCreateCommon"); f != nil {
		c.Clause("R3", "C05.9")
		c05AppliedBefore(c, f, `^&te\.TTL$`, c.P.Field("logical.TokenEntry.TTL"), "te.TTL = ttl", "TokenStore.create", instrsOf(c05Calls(f, `vault\.\(\*TokenStore\)\.create$`)))
	}
	if f := c.Fn("vault.(*Core).LoginCreateToken"); f != nil {
		c.Clause("R5", "C05.9")
		regs := c05Calls(f, `^vault\.\(\*Core\)\.RegisterAuth$`)
		if c.Floor(f, "Core.RegisterAuth call", len(regs), 1) {
			for _, r := range regs {
				c05Prov(c, f, "TTL of the login token", r, c05Args(r)[2], `^call:framework\.CalculateTTL#0$`)
			}
		}
	}
	if m, miss := c.P.StaticCallee("vault.(*Core).RegisterAuth"); len(miss) == 0 {
		c.Clause("R1", "C05.9")
		c.CallerTable("Core.RegisterAuth (trusts its tokenTTL argument)", c.P.FindCalls(m, nil), map[string]string{
			"vault.(*Core).LoginCreateToken": "passes CalculateTTL's result",
		}, 1)
	}
	if f := c.Fn("vault.(*Core).RegisterAuth"); f != nil {
		c.Clause("R5", "C05.9")
		creates := c05Calls(f, `vault\.\(\*TokenStore\)\.create$`)
		regs := c05Calls(f, `vault\.\(\*ExpirationManager\)\.RegisterAuth$`)
		if c.Floor(f, "TokenStore.create call", len(creates), 1) && c.Floor(f, "ExpirationManager.RegisterAuth call", len(regs), 1) {
			te := c05Args(creates[0])[2]
			ttls := eng.StructLitField(te, "TTL")
			if c.Floor(f, "TTL of the token entry literal", len(ttls), 1) {
				for _, v := range ttls {
					c05Prov(c, f, "token entry TTL", creates[0], v, `^param:tokenTTL$`)
				}
			}
			// the Auth the lease is registered with carries the entry's TTL
			var sync []ssa.Instruction
			for _, st := range eng.Stores(f, `^auth\.LeaseOptions\.TTL$`) {
				if base, ok := c18FieldLoad(st.Val, "TTL"); ok && base == te {
					sync = append(sync, st)
				}
			}
			c.Clause("R3", "C05.9")
			c.Before(f, "auth.TTL = te.TTL", sync, "ExpirationManager.RegisterAuth (lease of the login token)", instrsOf(regs))
			for _, r := range regs {
				a := c05Args(r)
				if a[2] != te {
					c.Violation(f, "lease registered for the entry created", r.Pos(), "ExpirationManager.RegisterAuth is handed "+eng.Expr(a[2])+", not the token entry given to TokenStore.create", nil)
				}
			}
		}
	}
}

// ---------- C05.10 of a role's and the request's explicit max / period the smaller wins
func c05RoleMerge(c *eng.Ctx) {
	f := c.Fn("vault.(*TokenStore).parseAndMergeTTLPeriod")
	if f == nil {
		return
	}
	c.Clause("R2", "C05.10")
	for _, m := range []struct{ v, fld string }{{"explicitMaxTTLToUse", "TokenExplicitMaxTTL"}, {"periodToUse", "TokenPeriod"}} {
		fromRole := func(v ssa.Value) bool { return strings.HasSuffix(eng.Expr(v), "."+m.fld) }
		edges := eng.PhiEdges(f, m.v, fromRole)
		if !c.Floor(f, m.v+" = role."+m.fld, len(edges), 1) {
			continue
		}
		c.CutEdges(f, m.v+" = role."+m.fld, edges, eng.Or(
			c18G(f, `\.`+m.fld+` < φ`+m.v+`\{.*\}$`, true),
			c18G(f, `^φ`+m.v+`\{.*\} == 0$`, true)))
	}
}

// ---------- C05.11 restore: enumeration, error legs, restore-mode bracket
func c05RestoreLegs(c *eng.Ctx) {
	if f := c.Fn("vault.(*ExpirationManager).collectLeases"); f != nil {
		errIdx := f.Signature.Results().Len() - 1
		succ := eng.SuccessReturns(f, errIdx)
		c.Clause("R4", "C05.11")
		n := 0
		for _, cl := range c05Calls(f, `vault\.\(\*ExpirationManager\)\.collectNamespaceLeases$|vault\.\(\*Core\)\.ListNamespaces$`) {
			n++
			site := "on{" + eng.CalleeName(cl.Common()) + " failed} the enumeration fails"
			fe := eng.CallFailEdges(cl)
			if len(fe) == 0 {
				c.Violation(f, site, cl.Pos(), "the error of "+eng.CalleeName(cl.Common())+" is not tested: a namespace whose leases cannot be listed is silently left out of the restore", nil)
			} else if h := eng.Reach(eng.Query{Fn: f, StartEdges: fe, Target: eng.IsTarget(succ)}); h != nil {
				c.Violation(f, site, h.Instr.Pos(), "collectLeases can report success although "+eng.CalleeName(cl.Common())+" failed: the leases of that namespace stay in storage untracked", h.Witness)
			} else {
				c.OK(f, site, cl.Pos(), "no nil-error return is reachable from the failure edge")
			}
		}
		c.Floor(f, "enumeration calls (ListNamespaces, collectNamespaceLeases)", n, 2)
		// the count sizes restore()'s channels and its wait loop: it is the sum over the namespaces
		c.Clause("R5", "C05.11")
		site := "lease count accumulated over the namespaces"
		var stored ssa.Value
		for _, b := range f.Blocks {
			for _, in := range b.Instrs {
				if mu, ok := in.(*ssa.MapUpdate); ok {
					stored = mu.Value
				}
			}
		}
		decided := false
		for _, r := range succ {
			vals, _, _ := eng.ReturnVals(r.(*ssa.Return), 1)
			for _, v := range vals {
				phi, ok := v.(*ssa.Phi)
				if !ok {
					continue
				}
				decided = true
				bad := ""
				adds := 0
				for _, e := range phi.Edges {
					switch x := e.(type) {
					case *ssa.Const:
					case *ssa.Phi:
						if x != phi {
							bad = eng.Expr(e)
						}
					case *ssa.BinOp:
						l, isLen := c05LenOf(x.Y)
						if x.Op == token.ADD && x.X == ssa.Value(phi) && isLen && (stored == nil || l == stored) {
							adds++
						} else if l, isLen = c05LenOf(x.X); x.Op == token.ADD && x.Y == ssa.Value(phi) && isLen && (stored == nil || l == stored) {
							adds++
						} else {
							bad = eng.Expr(e)
						}
					default:
						bad = eng.Expr(e)
					}
				}
				switch {
				case bad != "":
					c.Violation(f, site, r.Pos(), "the lease count returned is carried round the namespace loop as "+bad+", not as count + len(keys): restore() sizes its channels and its wait loop with a count smaller than the number of leases it dispatches", nil)
				case adds == 0:
					c.Violation(f, site, r.Pos(), "the lease count returned is never increased by len(keys)", nil)
				default:
					c.OK(f, site, r.Pos(), "count = Σ len(keys of every collected namespace)")
				}
			}
		}
		if !decided {
			c.Undecided(f, site, f.Pos(), "the count returned by collectLeases is not a loop-carried value (anchor moved?)")
		}
	}
	if f := c.Fn("vault.(*ExpirationManager).restore"); f != nil {
		c.Clause("R4", "C05.11")
		var worker *ssa.Function
		for _, cl := range eng.Closures(f) {
			if len(c05Calls(cl, `vault\.\(\*ExpirationManager\)\.processRestore$`)) > 0 {
				worker = cl
			}
		}
		site := "on{processRestore failed} the error is sent to the restore loop"
		if worker == nil {
			c.Undecided(f, site, f.Pos(), "no restore worker closure calling processRestore found")
		} else {
			isErrChan := func(v ssa.Value) bool {
				ch, ok := v.Type().Underlying().(*types.Chan)
				return ok && types.Identical(ch.Elem(), types.Universe.Lookup("error").Type())
			}
			var report []ssa.Instruction
			for _, in := range eng.Instrs(worker, func(in ssa.Instruction) bool { s, ok := in.(*ssa.Send); return ok && isErrChan(s.Chan) }) {
				report = append(report, in)
			}
			moveOn := func(in ssa.Instruction) bool {
				switch x := in.(type) {
				case *ssa.Return, *ssa.Select:
					return true
				case *ssa.Send:
					return !isErrChan(x.Chan)
				}
				return false
			}
			for _, pr := range c05Calls(worker, `vault\.\(\*ExpirationManager\)\.processRestore$`) {
				fe := eng.CallFailEdges(pr)
				if len(fe) == 0 {
					c.Violation(worker, site, pr.Pos(), "processRestore's error is not tested by the restore worker: a lease that cannot be loaded is counted as restored", nil)
				} else if h := eng.Reach(eng.Query{Fn: worker, StartEdges: fe, Barriers: report, Target: moveOn}); h != nil {
					c.Violation(worker, site, h.Instr.Pos(), "after processRestore failed the worker moves on (next lease / done signal) without sending the error: restore completes 'successfully' with that stored lease untracked", h.Witness)
				} else {
					c.OK(worker, site, pr.Pos(), "the failure edge reaches nothing but the send on the error channel")
				}
			}
		}
	}
	if f := c.Fn("vault.(*ExpirationManager).restore"); f != nil {
		c05RestoreCollector(c, f)
	}
	if f := c.Fn("vault.(*ExpirationManager).RestoreNamespace"); f != nil {
		c.Clause("R3", "C05.11")
		var enter []ssa.Instruction
		for _, a := range c05Calls(f, `^\(\*sync/atomic\.Int(32|64)\)\.Add$`) {
			if _, isCall := a.(*ssa.Call); !isCall {
				continue // deferred / go: runs after the restore
			}
			args := c05Args(a)
			k, ok := args[len(args)-1].(*ssa.Const)
			if ok && k.Value != nil && k.Int64() > 0 && strings.HasSuffix(eng.Expr(args[0]), ".restoreMode") {
				enter = append(enter, a)
			}
		}
		c.Before(f, "restoreMode.Add(k>0)", enter, "restore of the namespace's leases", instrsOf(c05Calls(f, `vault\.\(\*ExpirationManager\)\.restore$`)))
	}
}

// c05RestoreCollector (R4, C05.11): the loop of restore that collects the
// workers' results. Once a value was received from the error channel, restore
// may only return that value as its error (the deferred handler acts on it:
// errorFunc shuts the core down / re-seals the namespace); the only way past
// is the nil test of the received value itself. A receive into a shadowing
// variable (seed C05-d) leaves the function's error nil: restore reports
// success, restore mode ends and the leases not yet dispatched are untracked.
func c05RestoreCollector(c *eng.Ctx, f *ssa.Function) {
	c.Clause("R4", "C05.11")
	site := "on{error received from a restore worker} restore returns that error"
	errT := types.Universe.Lookup("error").Type()
	n := 0
	for _, in := range eng.Instrs(f, func(in ssa.Instruction) bool { _, ok := in.(*ssa.Select); return ok }) {
		sel := in.(*ssa.Select)
		recvIdx := 2
		for i, st := range sel.States {
			if st.Dir != types.RecvOnly {
				continue
			}
			idx := recvIdx
			recvIdx++
			ch, ok := st.Chan.Type().Underlying().(*types.Chan)
			if !ok || !types.Identical(ch.Elem(), errT) {
				continue
			}
			n++
			// the value received and the tuple's case index
			var recv, which ssa.Value
			if refs := sel.Referrers(); refs != nil {
				for _, r := range *refs {
					if ex, ok := r.(*ssa.Extract); ok {
						switch ex.Index {
						case idx:
							recv = ex
						case 0:
							which = ex
						}
					}
				}
			}
			// the edge on which this case was chosen
			var edges []eng.Edge
			for _, b := range f.Blocks {
				ifi := eng.IfOf(b)
				if ifi == nil {
					continue
				}
				bo, ok := ifi.Cond.(*ssa.BinOp)
				if !ok || bo.Op != token.EQL || which == nil {
					continue
				}
				k, isConst := bo.Y.(*ssa.Const)
				x := bo.X
				if !isConst {
					k, isConst = bo.X.(*ssa.Const)
					x = bo.Y
				}
				if isConst && x == which && k.Value != nil && k.Int64() == int64(i) {
					edges = append(edges, eng.Edge{From: b, Succ: 0})
				}
			}
			if len(edges) == 0 {
				c.Undecided(f, site, sel.Pos(), "no branch found on which the receive from the error channel was chosen")
				continue
			}
			if recv == nil {
				c.Violation(f, site, sel.Pos(), "the value received from the workers' error channel is dropped: a failed lease load does not fail the restore", nil)
				continue
			}
			first := edges[0].To().Instrs[0]
			fe := eng.FeasibleAfter(first)
			isRecv := func(v ssa.Value) bool {
				rs := eng.Roots(v, fe)
				if len(rs) == 0 {
					return false
				}
				for _, r := range rs {
					if r != recv {
						return false
					}
				}
				return true
			}
			// the way past: the received value itself tested nil
			var blocked []eng.Edge
			for _, b := range f.Blocks {
				ifi := eng.IfOf(b)
				if ifi == nil || !fe.Reach[b] {
					continue
				}
				bo, ok := ifi.Cond.(*ssa.BinOp)
				if !ok || (bo.Op != token.EQL && bo.Op != token.NEQ) {
					continue
				}
				x := bo.X
				if eng.IsNilConst(bo.X) {
					x = bo.Y
				} else if !eng.IsNilConst(bo.Y) {
					continue
				}
				if isRecv(x) {
					succ := 0
					if bo.Op == token.NEQ {
						succ = 1
					}
					blocked = append(blocked, eng.Edge{From: b, Succ: succ})
				}
			}
			bad, badPos, nRet := "", sel.Pos(), 0
			seen := map[*ssa.Return]bool{}
			for {
				h := eng.Reach(eng.Query{Fn: f, StartEdges: edges, Blocked: blocked, Target: func(in ssa.Instruction) bool {
					r, ok := in.(*ssa.Return)
					return ok && !seen[r] && in.Block().Comment != "recover"
				}})
				if h == nil {
					break
				}
				r := h.Instr.(*ssa.Return)
				seen[r] = true
				nRet++
				vals, _, _ := eng.ReturnVals(r, f.Signature.Results().Len()-1)
				if len(vals) == 0 {
					bad, badPos = "an error result that cannot be resolved", r.Pos()
				}
				for _, v := range vals {
					if !isRecv(v) {
						bad, badPos = eng.ExprDeep(v), r.Pos()
					}
				}
			}
			switch {
			case bad != "":
				c.Violation(f, site, badPos, "after a worker's error was received restore can return "+bad+" as its error instead of the value received (other than past a nil test of that value): the restore is reported complete, errorFunc never runs and the leases not yet dispatched stay untracked", nil)
			case nRet == 0:
				c.Undecided(f, site, sel.Pos(), "no return is reachable after the receive from the error channel")
			default:
				c.OK(f, site, first.Pos(), "every return reachable after the receive (not past 'received == nil') returns the received error")
			}
		}
	}
	c.Floor(f, "receive from the workers' error channel in restore", n, 1)
}

// c05LenOf: v is len(x); returns x.
func c05LenOf(v ssa.Value) (ssa.Value, bool) {
	cl, ok := v.(*ssa.Call)
	if !ok {
		return nil, false
	}
	if b, ok := cl.Call.Value.(*ssa.Builtin); ok && b.Name() == "len" && len(cl.Call.Args) == 1 {
		return cl.Call.Args[0], true
	}
	return nil, false
}

// ---------- C05.12 a failed revocation reaches the retry / irrevocable logic, which files the lease
func c05RevocationHandOver(c *eng.Ctx) {
	if f := c.Fn("vault.(*revocationJob).Execute"); f != nil {
		c.Clause("R5", "C05.12")
		revs := c05Calls(f, `vault\.\(\*ExpirationManager\)\.Revoke$`)
		if c.Floor(f, "Revoke call", len(revs), 1) {
			site := "the job reports Revoke's error (so that OnFailure runs)"
			n := 0
			bad := ""
			for _, r := range eng.ReturnsFrom(f, nil, revs[0], nil) {
				if r.Block().Comment == "recover" {
					continue
				}
				vals, _, esc := eng.ReturnVals(r, 0)
				if esc {
					bad = "a value that escapes"
				}
				for _, v := range vals {
					n++
					if ok, b, _ := c18OriginsMatch(v, nil, `^call:vault\.\(\*ExpirationManager\)\.Revoke$`); !ok && !c05VerdictOf(v, revs) {
						bad = b
					}
				}
			}
			switch {
			case n == 0:
				c.Undecided(f, site, revs[0].Pos(), "no return value found after the Revoke call")
			case bad != "":
				c.Violation(f, site, revs[0].Pos(), "after calling Revoke the job may return "+bad+" instead of Revoke's error: a failed revocation is neither retried nor marked irrevocable", nil)
			default:
				c.OK(f, site, revs[0].Pos(), "every return after the Revoke call returns Revoke's result")
			}
		}
	}
	if f := c.Fn("vault.(*ExpirationManager).markLeaseIrrevocable"); f != nil {
		c.Clause("R4", "C05.12")
		var filed []ssa.Instruction
		for _, s := range c05Calls(f, `^sync\.\(\*Map\)\.Store$`) {
			if strings.HasSuffix(eng.Expr(c05Args(s)[0]), ".irrevocable") {
				filed = append(filed, s)
			}
		}
		if c.Floor(f, "irrevocable.Store", len(filed), 1) {
			site := "a lease that is to be marked irrevocable is filed in the irrevocable set"
			refused := append(eng.CondEdges(f, `^le == nil$`, true), eng.CondEdges(f, `^vault\.\(\*leaseEntry\)\.isIrrevocable\(\)$`, true)...)
			isRet := func(in ssa.Instruction) bool {
				_, ok := in.(*ssa.Return)
				return ok && in.Block().Comment != "recover"
			}
			if h := eng.Reach(eng.Query{Fn: f, Blocked: refused, Barriers: filed, Target: isRet}); h != nil {
				c.Violation(f, site, h.Instr.Pos(), "markLeaseIrrevocable can return for a live, not yet irrevocable lease without storing it into m.irrevocable: out of retries, it is tracked nowhere", h.Witness)
			} else {
				c.OK(f, site, filed[0].Pos(), "every return past the nil / already-irrevocable refusals passes m.irrevocable.Store")
			}
			c.Clause("R3", "C05.12")
			c.Before(f, "irrevocable.Store", filed, "removal from the pending set", instrsOf(c05Calls(f, `vault\.\(\*ExpirationManager\)\.removeFromPending$`)))
		}
	}
}

// ---------- C05.13 the expiry timer runs for the time remaining until the stored expiry
func c05Timer(c *eng.Ctx) {
	f := c.Fn("vault.(*ExpirationManager).updatePendingInternal")
	if f == nil {
		return
	}
	c.Clause("R5", "C05.13")
	arm := c05Calls(f, `^time\.AfterFunc$`)
	reset := c05Calls(f, `^time\.\(\*Timer\)\.Reset$`)
	if c.Floor(f, "time.AfterFunc", len(arm), 1) {
		for _, a := range arm {
			c05Prov(c, f, "duration of the expiry timer", a, c05Args(a)[0], `^call:time\.Until$`)
		}
	}
	if c.Floor(f, "timer.Reset", len(reset), 1) {
		for _, a := range reset {
			args := c05Args(a)
			c05Prov(c, f, "duration the expiry timer is reset to", a, args[len(args)-1], `^call:time\.Until$`)
		}
	}
	until := c05Calls(f, `^time\.Until$`)
	if c.Floor(f, "time.Until", len(until), 1) {
		for _, u := range until {
			c05Prov(c, f, "instant the timer runs until", u, c05Args(u)[0], `^field:le\.ExpireTime$`)
		}
	}
}

// ---------- C05.14 a Register that fails after persisting leaves no stored lease behind
func c05RegisterRollback(c *eng.Ctx) {
	f := c.Fn("vault.(*ExpirationManager).Register")
	if f == nil {
		return
	}
	c.Clause("R4", "C05.14")
	var rb *ssa.Function
	for _, cl := range eng.DeferredClosures(f) {
		if len(c05Calls(cl, `vault\.\(\*ExpirationManager\)\.deleteEntry$`)) > 0 {
			rb = cl
		}
	}
	if rb == nil {
		c.Violation(f, "rollback of a failed Register deletes the stored lease", f.Pos(), "Register has no deferred rollback calling deleteEntry: a failure after persistEntry leaves a stored lease that nothing tracks", nil)
		return
	}
	c.CleanupOnEdges(rb, "Register is failing (retErr != nil)", eng.CondEdges(rb, `^\^retErr == nil$`, false), "deleteEntry of the lease just persisted", instrsOf(c05Calls(rb, `vault\.\(\*ExpirationManager\)\.deleteEntry$`)))
	// the rollback is armed before the lease is persisted
	c.Clause("R3", "C05.14")
	var armed []ssa.Instruction
	for _, in := range eng.Instrs(f, func(in ssa.Instruction) bool {
		d, ok := in.(*ssa.Defer)
		if !ok {
			return false
		}
		mc, ok := d.Call.Value.(*ssa.MakeClosure)
		return ok && mc.Fn == ssa.Value(rb)
	}) {
		armed = append(armed, in)
	}
	c.Before(f, "defer rollback", armed, "persistEntry", instrsOf(c05Calls(f, `vault\.\(\*ExpirationManager\)\.persistEntry$`)))
}

// ---------------------------------------------------------------------------
// Call sites of the C05 rules are located through the resolution helpers
// shared with C18 (c18Calls, built on c04follow.go): a call is the same call
// when it is written directly, made through a bound method value, or made by a
// closure of the function / an unexported helper of the package on every path.

// c05Sites remembers, for the instruction a site stands at, the site itself, so
// that the rules can ask for the arguments of the call behind it.
var c05Sites = map[ssa.Instruction]c18Site{}

// c05Calls is eng.Calls over resolved sites: the instructions of f at which a
// call whose resolved callee matches pat certainly happens (or is deferred /
// spawned, as with eng.Calls).
func c05Calls(f *ssa.Function, pat string) []ssa.CallInstruction {
	var out []ssa.CallInstruction
	for _, s := range c18Calls(f, pat) {
		ci, ok := s.At.(ssa.CallInstruction)
		if !ok {
			continue
		}
		c05Sites[ci] = s
		out = append(out, ci)
	}
	return out
}

// c05Args: the arguments (receiver first) of the call behind in — of in itself
// (through a bound method value: with the bound receiver), or of the call a
// forwarding closure / helper performs.
func c05Args(in ssa.CallInstruction) []ssa.Value {
	if s, ok := c05Sites[in]; ok && len(s.Effs) > 0 {
		return s.Effs[0].Call.Args
	}
	return nfCallOf(in).Args
}

// c05Fr: the call chain the arguments of c05Args live in (nil: f itself).
func c05Fr(in ssa.Instruction) *nfFrame {
	if s, ok := c05Sites[in]; ok && len(s.Effs) > 0 {
		return s.Effs[0].Fr
	}
	return nil
}

// c05OKEdges is eng.CallOKEdges for a resolved site: the nil-error edges of the
// call when its error result is the verdict of the call behind it.
func c05OKEdges(in ssa.CallInstruction) []eng.Edge {
	if s, ok := c05Sites[in]; ok && !s.Fwd {
		return nil
	}
	return eng.CallOKEdges(in)
}

// c05Prov is Ctx.Prov whose value may be an argument read inside a forwarding
// closure / helper (followed back into the function through c05Fr(at)).
func c05Prov(c *eng.Ctx, f *ssa.Function, site string, at ssa.Instruction, v ssa.Value, allowed ...string) bool {
	return c18Prov(c, f, site, at, v, c05Fr(at), allowed...)
}

// c05VerdictOf: every origin of v is the (error) result of one of the resolved
// sites whose result is the verdict of the call behind it.
func c05VerdictOf(v ssa.Value, sites []ssa.CallInstruction) bool {
	os := eng.Origins(v)
	if len(os) == 0 {
		return false
	}
	for _, o := range os {
		ok := false
		for _, s := range sites {
			if st, rec := c05Sites[s]; rec && !st.Fwd {
				continue
			}
			if sv, isVal := s.(ssa.Value); isVal && (o.Val == sv || o.Val == eng.ErrValue(s)) {
				ok = true
			}
		}
		if !ok {
			return false
		}
	}
	return true
}

// ---------- C05.12 a lease is forgotten only after it is durably gone
//
// The in-memory tracking of a lease (the pending / nonexpiring / irrevocable
// sets) is what gets a stored lease revoked and, when that fails, retried or
// marked irrevocable. revokeCommon therefore deletes the stored entry FIRST and
// forgets the lease only across the success of that delete: if the delete
// fails the lease is still pending and revocationJob.OnFailure finds it (seed
// C05-f moved the delete behind the untracking: a failed delete then leaves a
// stored, expired lease in none of the sets until the next restore).
//
// An untracking operation is a call of removeFromPending, or Delete / Clear /
// LoadAndDelete / CompareAndDelete on the sync.Map that is the field pending,
// nonexpiring or irrevocable of the ExpirationManager (identified by the field,
// not by how the receiver is written). Who may untrack is tabled; siblings:
//   - revokeCommon: decided here (Tidy, Revoke, LazyRevoke's worker, RevokeByToken
//     and the expiry job all forget a lease through revokeCommon only);
//   - removeFromPending: the operation itself, its callers are in this table;
//   - updatePendingInternal / markLeaseIrrevocable: MOVE a lease between the sets
//     (decided by C05.4 "every lease is filed somewhere" and C05.12 "irrevocable.Store
//     before the removal from pending");
//   - Stop / StopNamespace: drop tracking by design when the manager / the namespace
//     is sealed; Restore re-creates it from storage.
func c05ForgetAfterDelete(c *eng.Ctx) {
	sets := map[*types.Var]string{}
	for _, n := range []string{"pending", "nonexpiring", "irrevocable"} {
		fv := c.P.Field("vault.ExpirationManager." + n)
		if fv == nil {
			c.Unresolved("vault.ExpirationManager." + n)
			return
		}
		sets[fv] = n
	}
	// the set a sync.Map method call operates on ("" when it is none of the three)
	setOf := func(recv ssa.Value, fr *nfFrame) string {
		v, _ := c18Val(recv, fr)
		for depth := 0; depth < 4 && v != nil; depth++ {
			switch x := v.(type) {
			case *ssa.FieldAddr:
				if fv := eng.FieldVar(x); fv != nil {
					if n, ok := sets[fv]; ok {
						return n
					}
					if n, ok := sets[fv.Origin()]; ok {
						return n
					}
				}
				return ""
			case *ssa.Phi:
				if len(x.Edges) == 0 {
					return ""
				}
				v = x.Edges[0]
			default:
				return ""
			}
		}
		return ""
	}
	const mapOps = `^sync\.\(\*Map\)\.(Delete|Clear|LoadAndDelete|CompareAndDelete)$`
	const rmPending = `^vault\.\(\*ExpirationManager\)\.removeFromPending$`
	untrackIn := func(f *ssa.Function) []c18Site {
		var out []c18Site
		out = append(out, c18Calls(f, rmPending)...)
		for _, s := range c18Calls(f, mapOps) {
			for _, e := range s.Effs {
				if len(e.Call.Args) > 0 && setOf(e.Call.Args[0], e.Fr) != "" {
					out = append(out, s)
					break
				}
			}
		}
		return out
	}

	// ---- revokeCommon: forget only across the success of the durable delete
	if f := c.Fn("vault.(*ExpirationManager).revokeCommon"); f != nil {
		c.Clause("R3", "C05.12")
		forget := untrackIn(f)
		del := c18Plain(c18Calls(f, `^vault\.\(\*ExpirationManager\)\.deleteEntry$`))
		if c.Floor(f, "untracking of the revoked lease (removeFromPending, nonexpiring.Delete, irrevocable.Delete)", len(forget), 3) &&
			c.Floor(f, "deleteEntry of the revoked lease", len(del), 1) {
			c.Cut(f, "the lease is forgotten (removed from pending / nonexpiring / irrevocable)", c18Ats(forget), c18GCallOK(f, `^vault\.\(\*ExpirationManager\)\.deleteEntry$`), nil)
			// ... and the entry deleted is the one that was loaded and revoked
			c.Clause("R5", "C05.12")
			for _, d := range del {
				for _, e := range d.Effs {
					c18Prov(c, f, "lease entry deleted from storage before it is forgotten", d.At, e.Call.Args[2], e.Fr, `^call:vault\.\(\*ExpirationManager\)\.loadEntry#0$`)
				}
			}
		}
	}

	// ---- who may untrack at all
	c.Clause("R1", "C05.12")
	allowed := map[string]string{
		"vault.(*ExpirationManager).revokeCommon":          "forgets the lease across the success of deleteEntry (decided above)",
		"vault.(*ExpirationManager).removeFromPending":     "the operation itself; its callers are in this table",
		"vault.(*ExpirationManager).updatePendingInternal": "moves a lease between the tracking sets (C05.4: every lease is filed somewhere)",
		"vault.(*ExpirationManager).markLeaseIrrevocable":  "moves a lease to the irrevocable set (Store before the removal)",
		"vault.(*ExpirationManager).Stop":                  "seal: all tracking is dropped by design, Restore rebuilds it from storage",
		"vault.(*ExpirationManager).StopNamespace":         "a namespace is stopped: its tracking is dropped by design",
	}
	var sites []eng.CallSite
	for _, fn := range c.P.Funcs {
		if !eng.InPkg(fn, "vault") || len(fn.Blocks) == 0 {
			continue
		}
		for _, in := range nfAllCalls(fn) {
			nc := nfCallOf(in)
			switch {
			case regexp.MustCompile(rmPending).MatchString(nc.Name):
				sites = append(sites, eng.CallSite{Fn: fn, Call: in})
			case regexp.MustCompile(mapOps).MatchString(nc.Name):
				if len(nc.Args) > 0 && setOf(nc.Args[0], nil) != "" {
					sites = append(sites, eng.CallSite{Fn: fn, Call: in})
				}
			}
		}
	}
	c.CallerTable("untracking of a lease (removeFromPending, Delete/Clear on pending / nonexpiring / irrevocable)", sites, c18WithHelpers(c, sites, allowed), 8)
}

// ---------- C05.15 a created token is bounded by the MERGED explicit maximum
//
// parseAndMergeTTLPeriod returns the explicit maximum and the period that apply
// to the new token: the lesser of the call's and the role's (the merge itself
// is C05.10 / C07.9). handleCreateCommon must bound the token by THOSE results
// everywhere: what it hands to CalculateTTL, what it falls back to for a token
// that skips CalculateTTL (a root token without ttl / period: the fallback is the
// only thing that bounds it), and what it advertises in the Auth that renewals
// are later capped by. te.ExplicitMaxTTL holds the call's own value only (seed
// C05-g read it in the fallback: a root token created through a role with
// token_explicit_max_ttl then never expires).
//
// Sites are selected by resolved callee and result index, stores and tests by
// field identity (TokenEntry.TTL of the entry handed to ts.create,
// Auth.ExplicitMaxTTL / Auth.Period).
func c05RootBoundByMergedMax(c *eng.Ctx) {
	f := c.Fn("vault.(*TokenStore).handleCreateCommon")
	if f == nil {
		return
	}
	const mergePat = `^vault\.\(\*TokenStore\)\.parseAndMergeTTLPeriod$`
	const calcPat = `^framework\.CalculateTTL$`
	const mergedMax = `^call:vault\.\(\*TokenStore\)\.parseAndMergeTTLPeriod#0$`
	const mergedPeriod = `^call:vault\.\(\*TokenStore\)\.parseAndMergeTTLPeriod#1$`
	ttlField := c.P.Field("logical.TokenEntry.TTL")
	authMax := c.P.Field("logical.Auth.ExplicitMaxTTL")
	authPeriod := c.P.Field("logical.Auth.Period")
	if ttlField == nil || authMax == nil || authPeriod == nil {
		c.Unresolved("logical.TokenEntry.TTL / logical.Auth.ExplicitMaxTTL / logical.Auth.Period")
		return
	}
	c.Clause("R5", "C05.15")
	merges := c18Plain(c18Calls(f, mergePat))
	creates := c18Plain(c18Calls(f, `^vault\.\(\*TokenStore\)\.create$`))
	if !c.Floor(f, "parseAndMergeTTLPeriod call", len(merges), 1) || !c.Floor(f, "TokenStore.create call", len(creates), 1) {
		return
	}
	if !merges[0].Self() {
		c.Undecided(f, "merged explicit maximum", merges[0].At.Pos(), "parseAndMergeTTLPeriod is not called by handleCreateCommon itself: which results are the merged maximum and period is not followed; the rule cannot be evaluated")
		return
	}
	merge := merges[0].At.(ssa.CallInstruction)
	m0 := eng.ResultValue(merge, 0)
	// the entry that is created
	entry, _ := c18Val(creates[0].Effs[0].Call.Args[2], creates[0].Effs[0].Fr)

	// where the TTL is settled: handleCreateCommon itself, or the one function of the
	// package it calls directly that carries the CalculateTTL call (the block extracted
	// into a helper, which is handed the entry and the merged values)
	type scopeFn struct {
		fn *ssa.Function
		fr *nfFrame
	}
	scope := []scopeFn{{f, nil}}
	host, via, _ := c05TailHost(f, func(g *ssa.Function) bool { return len(c18Calls(g, calcPat)) > 0 })
	if host != nil && host != f {
		scope = append(scope, scopeFn{host, &nfFrame{call: via}})
	}

	sameField := func(a *ssa.FieldAddr, fv *types.Var) bool {
		g := eng.FieldVar(a)
		return g != nil && (g == fv || g.Origin() == fv)
	}
	isEntryTTL := func(addr ssa.Value, fr *nfFrame) bool {
		fa, ok := addr.(*ssa.FieldAddr)
		if !ok || !sameField(fa, ttlField) {
			return false
		}
		base, _ := c18Val(fa.X, fr)
		return base == entry
	}
	// (a) what is written into the entry's TTL
	type ttlStore struct {
		st *ssa.Store
		sc scopeFn
	}
	var ttlStores []ttlStore
	for _, sc := range scope {
		for _, in := range eng.Instrs(sc.fn, func(in ssa.Instruction) bool { st, ok := in.(*ssa.Store); return ok && isEntryTTL(st.Addr, sc.fr) }) {
			st := in.(*ssa.Store)
			ttlStores = append(ttlStores, ttlStore{st, sc})
			c18Prov(c, f, "TTL given to the created token", st, st.Val, sc.fr, `^call:framework\.CalculateTTL#0$`, mergedMax)
		}
	}
	c.Floor(f, "stores to the TTL of the entry that is created (CalculateTTL's result, the merged explicit maximum)", len(ttlStores), 2)
	// (b) what CalculateTTL is bounded by
	nCalc := 0
	for _, sc := range scope {
		for _, ct := range c18CallsIn(sc.fn, sc.fr, calcPat) {
			nCalc++
			for _, e := range ct.Effs {
				if len(e.Call.Args) < 7 {
					continue
				}
				c18Prov(c, f, "explicit maximum given to CalculateTTL", ct.At, e.Call.Args[5], e.Fr, mergedMax)
				c18Prov(c, f, "period given to CalculateTTL", ct.At, e.Call.Args[3], e.Fr, mergedPeriod)
			}
		}
	}
	c.Floor(f, "CalculateTTL call", nCalc, 1)
	// (c) what the Auth of the new token advertises (renewals are capped by it)
	nAuth := 0
	for _, in := range eng.Instrs(f, func(in ssa.Instruction) bool { _, ok := in.(*ssa.Store); return ok }) {
		st := in.(*ssa.Store)
		fa, ok := st.Addr.(*ssa.FieldAddr)
		if !ok {
			continue
		}
		switch {
		case sameField(fa, authMax):
			nAuth++
			c18Prov(c, f, "explicit maximum of the new token's Auth", st, st.Val, nil, mergedMax)
		case sameField(fa, authPeriod):
			nAuth++
			c18Prov(c, f, "period of the new token's Auth", st, st.Val, nil, mergedPeriod)
		}
	}
	c.Floor(f, "Auth.ExplicitMaxTTL / Auth.Period of the new token", nAuth, 2)

	// (d) a token whose TTL is still zero is created only when the merged maximum is zero too:
	// on the paths on which every test of the entry's TTL says "zero" and the merged
	// maximum is positive, ts.create is not reached without a TTL having been written
	c.Clause("R2", "C05.15")
	site := "a token with TTL 0 is created only when the merged explicit maximum is 0"
	asm := map[string]bool{}
	nZero := 0
	isZeroConst := func(v ssa.Value) bool {
		k, ok := v.(*ssa.Const)
		return ok && k.Value != nil && k.Value.Kind() == constant.Int && constant.Sign(k.Value) == 0
	}
	for _, sc := range scope {
		for _, b := range sc.fn.Blocks {
			ifi := eng.IfOf(b)
			if ifi == nil {
				continue
			}
			nc := eng.Normalize(ifi.Cond)
			bo, ok := nc.Val.(*ssa.BinOp)
			if !ok {
				continue
			}
			for _, pair := range [][2]ssa.Value{{bo.X, bo.Y}, {bo.Y, bo.X}} {
				x, k := pair[0], pair[1]
				if !isZeroConst(k) {
					continue
				}
				subjectTTL := false
				if ld, ok := x.(*ssa.UnOp); ok && ld.Op == token.MUL && isEntryTTL(ld.X, sc.fr) {
					subjectTTL = true
				}
				subjectMerged := false
				if !subjectTTL && m0 != nil {
					rx, _ := c18Val(x, sc.fr)
					subjectMerged = rx == m0
				}
				if !subjectTTL && !subjectMerged {
					continue
				}
				// value of the normalised condition when the subject is 0 (TTL) / positive (merged maximum)
				var val bool
				switch {
				case strings.HasSuffix(nc.Base, " == 0"):
					val = subjectTTL // x == 0
				case strings.HasPrefix(nc.Base, "0 < "):
					val = subjectMerged // 0 < x
				case strings.HasSuffix(nc.Base, " < 0"):
					val = false // never, for a duration that is 0 or positive
				default:
					continue
				}
				asm["^"+regexp.QuoteMeta(nc.Base)+"$"] = val
				if subjectTTL {
					nZero++
				}
			}
		}
	}
	// (no test of the merged maximum at all leaves every such path open: reported by the reachability below)
	if !c.Floor(f, "tests of the created entry's TTL against zero", nZero, 2) {
		return
	}
	bounded := map[*ssa.Function][]ssa.Instruction{}
	for _, ts := range ttlStores {
		if ok, _, _ := c18OriginsMatch(ts.st.Val, ts.sc.fr, `^call:framework\.CalculateTTL#0$`, mergedMax); ok {
			bounded[ts.sc.fn] = append(bounded[ts.sc.fn], ts.st)
		}
	}
	open := "with a positive merged explicit maximum (the lesser of the call's and the role's) a token whose TTL is 0 can reach TokenStore.create without the merged maximum (or CalculateTTL's result) having been written to its TTL: it is registered as non-expiring"
	if len(scope) == 1 {
		if h := eng.Reach(eng.Query{Fn: f, StartAfter: merge, Assume: asm, Barriers: bounded[f], Target: eng.IsTarget(c18Ats(creates))}); h != nil {
			c.Violation(f, site, h.Instr.Pos(), open, h.Witness)
		} else {
			c.OK(f, site, creates[0].At.Pos(), "with merged maximum > 0 and TTL == 0 every path to TokenStore.create writes CalculateTTL's result or the merged maximum into the TTL")
		}
		return
	}
	// the TTL is settled in a helper: inside it no successful return is reached without the
	// write; in handleCreateCommon TokenStore.create is reached only across the helper's success
	hn := eng.FuncName(host)
	var hsucc []ssa.Instruction
	if idx, ok := c05TrailingErr(host); ok {
		hsucc = eng.SuccessReturns(host, idx)
	} else {
		for _, r := range eng.Returns(host) {
			if r.Block().Comment != "recover" {
				hsucc = append(hsucc, r)
			}
		}
	}
	okEdges := eng.CallOKEdges(via)
	_, hasErr := c05TrailingErr(host)
	switch {
	case len(hsucc) == 0:
		c.Undecided(f, site, via.Pos(), hn+" (which settles the TTL) has no successful return: the rule cannot be evaluated")
	case eng.Reach(eng.Query{Fn: host, Assume: asm, Barriers: bounded[host], Target: eng.IsTarget(hsucc)}) != nil:
		h := eng.Reach(eng.Query{Fn: host, Assume: asm, Barriers: bounded[host], Target: eng.IsTarget(hsucc)})
		c.Violation(f, site, h.Instr.Pos(), open+" ("+hn+" can return successfully without the write)", h.Witness)
	case eng.Reach(eng.Query{Fn: f, StartAfter: merge, Barriers: []ssa.Instruction{via}, Target: eng.IsTarget(c18Ats(creates))}) != nil:
		h := eng.Reach(eng.Query{Fn: f, StartAfter: merge, Barriers: []ssa.Instruction{via}, Target: eng.IsTarget(c18Ats(creates))})
		c.Violation(f, site, h.Instr.Pos(), "TokenStore.create is reachable without passing "+hn+", which settles the TTL", h.Witness)
	case hasErr && len(okEdges) == 0:
		c.Violation(f, site, via.Pos(), "the error of "+hn+", which settles the TTL, is not tested before the token is created", nil)
	case hasErr && eng.Reach(eng.Query{Fn: f, StartAfter: via, Blocked: okEdges, Target: eng.IsTarget(c18Ats(creates))}) != nil:
		h := eng.Reach(eng.Query{Fn: f, StartAfter: via, Blocked: okEdges, Target: eng.IsTarget(c18Ats(creates))})
		c.Violation(f, site, h.Instr.Pos(), "TokenStore.create is reachable after "+hn+" failed to settle the TTL", h.Witness)
	default:
		c.OK(f, site, creates[0].At.Pos(), "with merged maximum > 0 and TTL == 0 every successful return of "+hn+" writes CalculateTTL's result or the merged maximum into the TTL, and TokenStore.create is reached only across its success")
	}
}
