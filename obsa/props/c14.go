package props

import (
	"fmt"
	"go/constant"
	"go/token"
	"go/types"
	"regexp"
	"sort"
	"strings"

	"golang.org/x/tools/go/ssa"

	"obsa/eng"
)

func init() {
	register(&Prop{
		ID: "C14",
		Explanation: "Structural necessary conditions of 'versioned KV is a linearizable versioned register with exact check-and-set', decided on every CFG path of every Create/Update/Patch/Delete callback registered in the versioned kv backend's framework.Path tables (the family is enumerated from the tables through the upgradeCheck wrapper, not hand-listed): " +
			"(1) every handler that addresses a secret path takes the write lock LockForKey(b.locks, <the \"path\" field>) before its first storage access, defers its Unlock at once, never releases it by hand, and holds it over every storage access, BeginTx and Commit; every per-key helper (getKeyMetadata, getVersionKey, cleanupOldVersions, the metadata delete, fresh KeyMetadata literals) is keyed by the locked path value; " +
			"every mutating handler decides on a transaction before its first storage access, begins a read-write transaction when the storage is transactional, arms Rollback of it and switches req.Storage to it before any access, performs every access through req.Storage as loaded after that point (never a saved copy of the original storage), reaches a nil-error return after a successful write only across Commit's success edge on req.Storage's transaction (or the not-a-transaction edges), and writes nothing after Commit; " +
			"(2) in pathDataWrite/pathDataPatch the version Put, AddVersion, the metadata write, the pruning and the reported version lie behind the success edge of validateCheckAndSetOption, which is evaluated on the metadata read under the lock (or a fresh zero-version record) and the engine config; the same metadata object is validated, bumped, persisted and reported; validateCheckAndSetOption returns nil only across (cas absent and not required by config or key) or (cas decoded and equal to meta.CurrentVersion); the version key is getVersionKey(lockedKey, the number AddVersion assigns); the stored value is the marshalled request data (for patch: the merge applied to the data read from the current version's key); the metadata write follows the version Put's success, pruning and the reported version follow the metadata write's success; the reported version is meta.CurrentVersion loaded after AddVersion; AddVersion increments CurrentVersion by exactly one on every path, files the returned entry under the incremented number; only AddVersion writes CurrentVersion/OldestVersion/elements of the Versions map (field-writer tables), only the tabled handlers write Destroyed/DeletionTime; pruning deletes only getVersionKey(lockedKey, n) for n counting down from AddVersion's second result; who-may-call tables for validateCheckAndSetOption, AddVersion, cleanupOldVersions; " +
			"(4) delete/undelete/destroy/data-delete modify only entries meta.Versions[n] of the metadata read under the lock with n taken from the request's versions field (CurrentVersion for data delete), never a missing entry, never the deletion time of a destroyed one, and persist that same record; destroy persists Destroyed before deleting version data, and deletes only keys of the named numbers; metadata delete removes only the version keys listed in the key's own metadata and its metadata entry, the latter never after a failed version delete; metadata PATCH can only touch the five settings fields; " +
			"metadata PUT and metadata PATCH persist the metadata record only behind an exact check-and-set on the metadata version (a supplied metadata_cas must equal CurrentMetadataVersion of the record read under the lock, or 0 for a new key), and a request without metadata_cas reaches the write neither when the key's nor when the engine's metadata_cas_required is set (required = key OR engine; evaluated phi-sensitively so that the short-circuit value is followed); " +
			"(5) data/subkeys reads hold the read lock, read the version data of the same number whose metadata entry they checked (current or requested), and only for an existing, non-destroyed, not-yet-deleted version; the payload returned lies behind a successful, non-empty storage Get; " +
			"(3) no error result of a storage call, transaction call or kv storage helper in package kv is dropped (deferred Rollback excepted); " +
			"second-tier mechanisms: getVersionKey salts an identifier that depends on both the key and the version number and returns a key built from that salted id; getKeyMetadata reads the record of its key parameter through Wrap(getKeyEncryptor, storage parameter), answers (nil, nil) only for an absent item and a record only after a successful Get and decode, and writeKeyMetadata writes (meta.Key, Marshal(meta)) through the same wrapper; every Configuration that config() hands out is a literal copying every exported setting from the cached configuration (b.globalConfig or the object just installed as it) — made in config() itself or by a helper of the package all of whose returns are such a literal of the parameter that receives the cache — never the cached object itself, which callers modify before persisting; HandlePatchOperation merges with the stored resource as document and the pre-processed request as patch, and the kv patch pre-processor hands on exactly the request's data field; patch reads and merges its base only for an existing, non-destroyed, not-yet-deleted current version; the upgradeCheck wrapper reaches the wrapped handler only across upgrading.Load() being false, and the upgrade goroutine clears the flag only after the last per-key rewrite; the per-key lock table is written only by the factory; Salt() caches the salt NewSalt created through the caller's storage only across 'that storage is not a transaction' or 'the salt was not generated by this call' (a salt generated inside a transaction is not durable until commit); in the batch handlers (delete, undelete, destroy) no nil-error return is reachable from inside a loop over the request's version numbers except across the loop's exit edge, and where the metadata write follows the loop every nil-error return after it passes that write (skipping one version continues the loop).",
		NotDecided: "linearizability of concurrent histories as such (schedules); 'affects only the versions named' beyond the provenance of the version numbers (value-level set reasoning: AddVersion's pruning window arithmetic, the JSON merge in metadata patch, cleanupOldVersions stopping at the first missing blob); atomicity on non-transactional storage when a failure hits between the version write and the metadata write (by design there is none); conflict detection / isolation inside the storage transaction implementation; the engine configuration (read outside the per-key lock and transaction by design); the upgrade routine (upgrade.go upgradeKey), which is not a registered handler and runs while all handlers are refused.",
		Run:        runC14,
	})
}

// ---------------------------------------------------------------------------
// handler enumeration (R8 family)

type c14Handler struct {
	fn     *ssa.Function
	ops    map[string]bool // operation constant values it is registered for
	tables map[string]bool // table constructor functions
}

func (h *c14Handler) opList() string {
	var o []string
	for k := range h.ops {
		o = append(o, k)
	}
	sort.Strings(o)
	return strings.Join(o, ",")
}

// c14TypeName is structTypeName tolerant of universe types (error).
func c14TypeName(t types.Type) string {
	if p, ok := t.Underlying().(*types.Pointer); ok {
		t = p.Elem()
	}
	if n, ok := t.(*types.Named); ok && n.Obj() != nil && n.Obj().Pkg() != nil {
		return eng.Short(n.Obj().Pkg().Path() + "." + n.Obj().Name())
	}
	return ""
}

func c14IsAllocOf(v ssa.Value, typ string) bool {
	a, ok := v.(*ssa.Alloc)
	return ok && c14TypeName(a.Type()) == typ
}

func c14HasParamOf(fn *ssa.Function, typ string) bool {
	for _, p := range fn.Params {
		if c14TypeName(p.Type()) == typ {
			return true
		}
	}
	return false
}

// c14ResolveCallback maps the value stored into PathOperation.Callback to the
// handler function bodies that will run: closures, functions, the closures
// returned by constructor methods, looking through wrappers that take an
// OperationFunc and return one (upgradeCheck).
func c14ResolveCallback(v ssa.Value, depth int) (fns []*ssa.Function, wrappers []*ssa.Function, ok bool) {
	if depth > 4 {
		return nil, nil, false
	}
	switch x := v.(type) {
	case *ssa.MakeClosure:
		return []*ssa.Function{x.Fn.(*ssa.Function)}, nil, true
	case *ssa.Function:
		return []*ssa.Function{x}, nil, true
	case *ssa.ChangeType:
		return c14ResolveCallback(x.X, depth)
	case *ssa.MakeInterface:
		return c14ResolveCallback(x.X, depth)
	case *ssa.Call:
		callee := x.Call.StaticCallee()
		if callee == nil || len(callee.Blocks) == 0 {
			return nil, nil, false
		}
		isWrapper := false
		ok = true
		for _, a := range x.Call.Args {
			if c14TypeName(a.Type()) == "framework.OperationFunc" {
				isWrapper = true
				f2, w2, ok2 := c14ResolveCallback(a, depth+1)
				fns = append(fns, f2...)
				wrappers = append(wrappers, w2...)
				ok = ok && ok2
			}
		}
		if isWrapper {
			wrappers = append(wrappers, callee)
			return fns, wrappers, ok
		}
		n := 0
		for _, r := range eng.Returns(callee) {
			if len(r.Results) == 0 {
				continue
			}
			f2, w2, ok2 := c14ResolveCallback(r.Results[0], depth+1)
			fns = append(fns, f2...)
			wrappers = append(wrappers, w2...)
			ok = ok && ok2
			n++
		}
		return fns, wrappers, ok && n > 0
	}
	return nil, nil, false
}

// c14Handlers enumerates the callbacks registered under the given operations
// in every framework.Path table built by a function of package kv that takes
// the versioned backend.
func c14Handlers(c *eng.Ctx, ops map[string]string) (hs []*c14Handler, wrappers map[*ssa.Function]bool, nEntries int) {
	by := map[*ssa.Function]*c14Handler{}
	wrappers = map[*ssa.Function]bool{}
	for _, fn := range c.P.Funcs {
		if !eng.InPkg(fn, "kv") || fn.Parent() != nil || !c14HasParamOf(fn, "kv.versionedKVBackend") {
			continue
		}
		for _, b := range fn.Blocks {
			for _, in := range b.Instrs {
				mu, ok := in.(*ssa.MapUpdate)
				if !ok {
					continue
				}
				k, ok := mu.Key.(*ssa.Const)
				if !ok || c14TypeName(k.Type()) != "logical.Operation" || k.Value == nil || k.Value.Kind() != constant.String {
					continue
				}
				op := constant.StringVal(k.Value)
				if _, want := ops[op]; !want {
					continue
				}
				val := mu.Value
				if mi, ok := val.(*ssa.MakeInterface); ok {
					val = mi.X
				}
				if !c14IsAllocOf(val, "framework.PathOperation") {
					c.Undecided(fn, "table entry "+op, mu.Pos(), "operation table entry is not a *framework.PathOperation literal: "+eng.Expr(val))
					continue
				}
				cbs := eng.StructLitField(val, "Callback")
				if len(cbs) == 0 {
					c.Undecided(fn, "table entry "+op, mu.Pos(), "PathOperation literal without Callback")
					continue
				}
				for _, cb := range cbs {
					nEntries++
					fns, ws, ok := c14ResolveCallback(cb, 0)
					if !ok || len(fns) == 0 {
						c.Undecided(fn, "table entry "+op, mu.Pos(), "callback cannot be resolved to a function body: "+eng.ExprDeep(cb))
						continue
					}
					for _, w := range ws {
						wrappers[w] = true
					}
					for _, hf := range fns {
						h := by[hf]
						if h == nil {
							h = &c14Handler{fn: hf, ops: map[string]bool{}, tables: map[string]bool{}}
							by[hf] = h
							hs = append(hs, h)
						}
						h.ops[op] = true
						h.tables[eng.FuncName(fn)] = true
					}
				}
			}
		}
	}
	sort.Slice(hs, func(i, j int) bool { return eng.FuncName(hs[i].fn) < eng.FuncName(hs[j].fn) })
	return hs, wrappers, nEntries
}

// ---------------------------------------------------------------------------
// storage accesses

type c14Access struct {
	call     ssa.CallInstruction
	name     string
	operands []ssa.Value // the storage-typed receiver / arguments
	write    bool
}

func c14Iface(c *eng.Ctx, short string) *types.Interface {
	n := c.P.NamedType(short)
	if n == nil {
		c.Unresolved(short)
		return nil
	}
	it, _ := n.Underlying().(*types.Interface)
	if it == nil {
		c.Unresolved(short)
	}
	return it
}

func c14IsStorage(v ssa.Value, st *types.Interface) bool {
	if v == nil {
		return false
	}
	if _, ok := v.Type().Underlying().(*types.Interface); !ok {
		return false
	}
	return types.Implements(v.Type(), st)
}

var c14StorageMethods = map[string]bool{"Get": true, "Put": true, "Delete": true, "List": true, "ListPage": true}

// c14Accesses lists the calls of f (own body) that read or write storage:
// Storage methods invoked on a storage-typed receiver and calls that hand a
// storage-typed value to a callee. Deferred calls are not accesses
// (the deferred Rollback).
func c14Accesses(f *ssa.Function, st *types.Interface) []c14Access {
	var out []c14Access
	for _, b := range f.Blocks {
		for _, in := range b.Instrs {
			ci, ok := in.(*ssa.Call)
			if !ok {
				continue
			}
			cc := ci.Common()
			name := eng.CalleeName(cc)
			if cc.IsInvoke() {
				if c14IsStorage(cc.Value, st) && c14StorageMethods[cc.Method.Name()] {
					out = append(out, c14Access{call: ci, name: name, operands: []ssa.Value{cc.Value}, write: cc.Method.Name() == "Put" || cc.Method.Name() == "Delete"})
				}
				continue
			}
			var ops []ssa.Value
			for _, a := range cc.Args {
				if c14IsStorage(a, st) {
					ops = append(ops, a)
				}
			}
			if len(ops) > 0 {
				w := strings.HasSuffix(name, ").writeKeyMetadata") || strings.HasSuffix(name, ").cleanupOldVersions") || c14CalleeWrites(cc, st)
				out = append(out, c14Access{call: ci, name: name, operands: ops, write: w})
			}
		}
	}
	// an access made by a forwarding closure that is only ever called directly counts at the
	// closure's call site, with the storage operand read back through the captured variable
	for _, fw := range c14Forwards(f) {
		if a, ok := c14ForwardedAccess(fw, st); ok {
			out = append(out, a)
		}
	}
	return out
}

// c14ForwardedAccess: the storage access a forwarding closure stands for, if
// its storage operands resolve to values of the enclosing function.
func c14ForwardedAccess(fw c14Fwd, st *types.Interface) (c14Access, bool) {
	inner := c14Accesses(fw.cl, st)
	if len(inner) != 1 || inner[0].call != ssa.CallInstruction(fw.inner) {
		return c14Access{}, false
	}
	cc := fw.inner.Common()
	var raw []ssa.Value
	if cc.IsInvoke() {
		raw = append(raw, cc.Value)
	}
	raw = append(raw, cc.Args...)
	var ops []ssa.Value
	for i, a := range raw {
		if !c14IsStorage(a, st) || (cc.IsInvoke() && i > 0) {
			continue
		}
		r := fw.args[i]
		if cell, isCell := r.(*ssa.Alloc); isCell {
			r = c14SoleStore(cell)
		}
		if r == nil {
			return c14Access{}, false
		}
		ops = append(ops, r)
	}
	if len(ops) == 0 {
		return c14Access{}, false
	}
	return c14Access{call: fw.site, name: inner[0].name, operands: ops, write: inner[0].write}, true
}

// c14ReqStorageLoad resolves a storage operand to the load of req.Storage it
// is (or wraps: EncryptedKeyStorageWrapper.Wrap(req.Storage)); nil otherwise.
func c14ReqStorageLoad(v ssa.Value) *ssa.UnOp {
	for i := 0; i < 4; i++ {
		switch x := v.(type) {
		case *ssa.ChangeInterface:
			v = x.X
			continue
		case *ssa.MakeInterface:
			v = x.X
			continue
		case *ssa.Call:
			if strings.HasSuffix(eng.CalleeName(&x.Call), "EncryptedKeyStorageWrapper).Wrap") && len(x.Call.Args) == 2 {
				v = x.Call.Args[1]
				continue
			}
		case *ssa.UnOp:
			// a local alias of req.Storage that lives in a memory cell (because a closure
			// captures it): the one value ever stored into the cell
			if a, ok := x.X.(*ssa.Alloc); ok && x.Op == token.MUL {
				if sv := c14SoleStore(a); sv != nil {
					v = sv
					continue
				}
			}
		}
		break
	}
	u, ok := v.(*ssa.UnOp)
	if !ok || u.Op != token.MUL {
		return nil
	}
	fa, ok := u.X.(*ssa.FieldAddr)
	if !ok {
		return nil
	}
	if _, isParam := fa.X.(*ssa.Parameter); !isParam || c14TypeName(fa.X.Type()) != "logical.Request" {
		return nil
	}
	if fv := eng.FieldVar(fa); fv == nil || fv.Name() != "Storage" {
		return nil
	}
	return u
}

// c14SoleStore: the value of the only store ever made into the local cell a
// (in its function or, through a captured variable, in a nested closure); nil
// if there is none, more than one, or the cell's address escapes otherwise.
func c14SoleStore(a *ssa.Alloc) ssa.Value {
	if a.Referrers() == nil {
		return nil
	}
	var val ssa.Value
	n := 0
	for _, r := range *a.Referrers() {
		switch x := r.(type) {
		case *ssa.Store:
			if x.Addr != ssa.Value(a) {
				return nil // the address itself is stored somewhere
			}
			n++
			val = x.Val
		case *ssa.UnOp, *ssa.DebugRef:
		case *ssa.MakeClosure:
			fn, _ := x.Fn.(*ssa.Function)
			if fn == nil {
				return nil
			}
			for i, bnd := range x.Bindings {
				if bnd != ssa.Value(a) || i >= len(fn.FreeVars) {
					continue
				}
				if refs := fn.FreeVars[i].Referrers(); refs != nil {
					for _, fr := range *refs {
						switch fr.(type) {
						case *ssa.UnOp, *ssa.DebugRef:
						default:
							return nil // written, re-captured or escaping inside the closure
						}
					}
				}
			}
		default:
			return nil
		}
	}
	if n != 1 {
		return nil
	}
	return val
}

// c14PathKeys: the values data.Get("path").(string) of a handler.
func c14PathKeys(f *ssa.Function) map[ssa.Value]bool {
	out := map[ssa.Value]bool{}
	for _, g := range eng.Calls(f, `^framework\.\(\*FieldData\)\.Get$`) {
		cv, ok := g.(*ssa.Call)
		if !ok || len(cv.Call.Args) != 2 || eng.Expr(cv.Call.Args[1]) != `"path"` {
			continue
		}
		if _, isParam := cv.Call.Args[0].(*ssa.Parameter); !isParam {
			continue
		}
		if refs := cv.Referrers(); refs != nil {
			for _, r := range *refs {
				if ta, ok := r.(*ssa.TypeAssert); ok && !ta.CommaOk {
					out[ta] = true
				}
			}
		}
	}
	return out
}

// c14KeyLockCalls: calls of sync.(*RWMutex).<method> whose receiver is the
// RWMutex of LockForKey(<backend>.locks, <one of keys>).
func c14IsKeyLock(ci ssa.CallInstruction, method string, keys map[ssa.Value]bool) bool {
	cc := ci.Common()
	if cc.IsInvoke() || eng.CalleeName(cc) != "sync.(*RWMutex)."+method || len(cc.Args) != 1 {
		return false
	}
	fa, ok := cc.Args[0].(*ssa.FieldAddr)
	if !ok {
		return false
	}
	lk, ok := fa.X.(*ssa.Call)
	if !ok || !strings.HasPrefix(eng.CalleeName(&lk.Call), "locksutil.LockForKey") || len(lk.Call.Args) != 2 {
		return false
	}
	// first argument: the backend's lock array
	ld, ok := lk.Call.Args[0].(*ssa.UnOp)
	if !ok || ld.Op != token.MUL {
		return false
	}
	lfa, ok := ld.X.(*ssa.FieldAddr)
	if !ok || c14TypeName(lfa.X.Type()) != "kv.versionedKVBackend" {
		return false
	}
	if fv := eng.FieldVar(lfa); fv == nil || fv.Name() != "locks" {
		return false
	}
	return keys[lk.Call.Args[1]]
}

func c14IsRet(in ssa.Instruction) bool { _, ok := in.(*ssa.Return); return ok }

func c14Ifs(f *ssa.Function, base string) []ssa.Instruction {
	var out []ssa.Instruction
	for _, b := range f.Blocks {
		if ifi := eng.IfOf(b); ifi != nil && eng.Normalize(ifi.Cond).Base == base {
			out = append(out, ifi)
		}
	}
	return out
}

func c14CallNames(as []c14Access) string {
	seen := map[string]int{}
	var ns []string
	for _, a := range as {
		n := a.name[strings.LastIndex(a.name, ".")+1:]
		if seen[n] == 0 {
			ns = append(ns, n)
		}
		seen[n]++
	}
	sort.Strings(ns)
	for i, n := range ns {
		if seen[n] > 1 {
			ns[i] = fmt.Sprintf("%s×%d", n, seen[n])
		}
	}
	return strings.Join(ns, ", ")
}

// c14LockRules (R9): the per-key write lock spans every storage access, the
// transaction begin and the commit; the unlock is deferred right away; every
// per-key helper is keyed by the locked path.
func c14LockRules(c *eng.Ctx, clause string, h *c14Handler, acc []c14Access, keys map[ssa.Value]bool, mode string) {
	f := h.fn
	lockM, unlockM := "Lock", "Unlock"
	if mode == "read" {
		lockM, unlockM = "RLock", "RUnlock"
	}
	c.Clause("R9", clause)
	var locks []ssa.Instruction
	for _, b := range f.Blocks {
		for _, in := range b.Instrs {
			if ci, ok := in.(*ssa.Call); ok && c14KeyLockOp(ci, lockM, keys) {
				locks = append(locks, in)
			}
		}
	}
	// the unlock is deferred: directly, through a bound method value, or inside a deferred closure on every path
	deferUnlocks := c14Deferred(f, func(ci ssa.CallInstruction) bool { return c14KeyLockOp(ci, unlockM, keys) })
	site := "locked{every storage access under LockForKey(b.locks, path)." + lockM + "}"
	if len(locks) == 0 {
		why := "its read-modify-write of the key metadata is not serialised against other writers of the same key"
		if mode == "read" {
			why = "it can observe the metadata of one write and the version data of another (non-transactional storage) while a writer of the same key is in its critical section"
		}
		c.Violation(f, site, f.Pos(), "the handler addresses a secret path but never takes LockForKey(b.locks, data.Get(\"path\"))."+lockM+"(): "+why, nil)
		return
	}
	acquire := func(ci ssa.CallInstruction) bool {
		if _, isDefer := ci.(*ssa.Defer); isDefer {
			return false
		}
		if mode == "read" {
			return c14KeyLockOp(ci, "RLock", keys) || c14KeyLockOp(ci, "Lock", keys)
		}
		return c14KeyLockOp(ci, "Lock", keys)
	}
	release := func(ci ssa.CallInstruction) bool {
		return c14KeyLockOp(ci, "Unlock", keys) || c14KeyLockOp(ci, "RUnlock", keys)
	}
	held := eng.MustHold(f, acquire, release)
	var must []ssa.CallInstruction
	for _, a := range acc {
		must = append(must, a.call)
	}
	if mode != "read" {
		must = append(must, eng.Calls(f, `^<logical\.(TransactionalStorage|Transactional)>\.Begin(ReadOnly)?Tx$`)...)
		must = append(must, eng.Calls(f, `^<logical\.Transaction>\.Commit$`)...)
	}
	bad := 0
	for _, m := range must {
		if _, isDefer := m.(*ssa.Defer); isDefer {
			continue
		}
		if !held(m) {
			bad++
			c.Violation(f, site, m.Pos(), eng.InstrStr(m)+" is reachable without holding the per-key "+lockM+" on the \"path\" field (lock taken too late, released early, or on another key)", nil)
		}
	}
	// the lock is never released by hand: the section from the metadata read to the write-back/commit is one critical section
	for _, b := range f.Blocks {
		for _, in := range b.Instrs {
			if ci, ok := in.(*ssa.Call); ok && release(ci) {
				bad++
				c.Violation(f, site, in.Pos(), "the per-key lock is released by an explicit "+eng.CalleeName(ci.Common())+" inside the handler: the read-validate-write section is split and another writer of the same key can run in between", nil)
			}
		}
	}
	// the unlock of the same lock entry is deferred directly after the lock is taken
	if len(deferUnlocks) == 0 {
		bad++
		c.Violation(f, site, locks[0].Pos(), "no deferred "+unlockM+" of the per-key lock: an error path leaves the key locked, or the lock is released by hand before the handler is done", nil)
	}
	for _, l := range locks {
		if hh := eng.Reach(eng.Query{Fn: f, StartAfter: l, Barriers: deferUnlocks, Target: func(in ssa.Instruction) bool {
			if c14IsRet(in) {
				return true
			}
			_, isCall := in.(*ssa.Call)
			return isCall
		}}); hh != nil && len(deferUnlocks) > 0 {
			bad++
			c.Violation(f, site, hh.Instr.Pos(), "after taking the per-key lock a call or return is reachable before its "+unlockM+" is deferred", hh.Witness)
			break
		}
	}
	if bad == 0 {
		c.OK(f, site, locks[0].Pos(), fmt.Sprintf("%d storage/transaction call(s) all execute with the per-key lock held on every path; its %s is deferred right after the %s and never called by hand before them", len(must), unlockM, lockM))
	}
}

// c14KeyProv (R5): every per-key helper call is keyed by the locked path value.
func c14KeyProv(c *eng.Ctx, clause string, h *c14Handler, keys map[ssa.Value]bool) {
	f := h.fn
	c.Clause("R5", clause)
	site := "prov{key of every per-key storage helper = the locked \"path\" field}"
	type keyed struct {
		pat string
		idx int
	}
	n, bad := 0, 0
	check := func(at ssa.Instruction, what string, v ssa.Value) {
		n++
		if !keys[v] {
			bad++
			c.Violation(f, site, at.Pos(), what+" is keyed by "+eng.ExprDeep(v)+", not by the data.Get(\"path\") value the lock was taken on: the handler can modify a secret it does not hold the lock for", nil)
		}
	}
	for _, k := range []keyed{
		{`^kv\.\(\*versionedKVBackend\)\.getKeyMetadata$`, 3},
		{`^kv\.\(\*versionedKVBackend\)\.getVersionKey$`, 2},
		{`^kv\.\(\*versionedKVBackend\)\.cleanupOldVersions$`, 3},
	} {
		for _, cl := range eng.Calls(f, k.pat) {
			if a := cl.Common().Args; k.idx < len(a) {
				check(cl, eng.CalleeName(cl.Common()), a[k.idx])
			}
		}
	}
	// direct operations on the encrypted key storage (metadata delete)
	for _, cl := range eng.Calls(f, `^<logical\.Storage>\.(Get|Put|Delete)$`) {
		cc := cl.Common()
		if w, ok := cc.Value.(*ssa.Call); ok && strings.HasSuffix(eng.CalleeName(&w.Call), "EncryptedKeyStorageWrapper).Wrap") && len(cc.Args) >= 2 && cc.Method.Name() != "Put" {
			check(cl, "metadata "+cc.Method.Name()+" on the encrypted key storage", cc.Args[1])
		}
	}
	// fresh KeyMetadata literals
	for _, b := range f.Blocks {
		for _, in := range b.Instrs {
			if a, ok := in.(*ssa.Alloc); ok && c14IsAllocOf(a, "kv.KeyMetadata") {
				for _, v := range eng.StructLitField(a, "Key") {
					check(in, "KeyMetadata{Key: ...}", v)
				}
			}
		}
	}
	if n == 0 {
		c.Undecided(f, site, f.Pos(), "no per-key helper call found in a handler that reads the \"path\" field")
		return
	}
	if bad == 0 {
		c.OK(f, site, f.Pos(), fmt.Sprintf("%d per-key helper call(s)/literal(s) all use the locked path value", n))
	}
}

// c14TxnRules (R3): transaction discipline of one mutating handler.
func c14TxnRules(c *eng.Ctx, h *c14Handler, acc []c14Access) {
	f := h.fn
	c.Clause("R3", "C14.1")
	rq := c14ReqStorageExpr(f) // "<request parameter>.Storage"
	rqq := regexp.QuoteMeta(rq)
	taIfs := c14Ifs(f, rq+`.(logical.TransactionalStorage)#1`)
	var accIn, writes []ssa.Instruction
	for _, a := range acc {
		accIn = append(accIn, a.call)
		if a.write {
			writes = append(writes, a.call)
		}
	}
	commits := eng.Calls(f, `^<logical\.Transaction>\.Commit$`)
	// T1-T3: the decision precedes every access; on the transactional edge a
	// read-write transaction is begun and req.Storage switched before any access
	site := "order{transaction decision, BeginTx, defer Rollback, req.Storage = txn < every storage access}"
	if len(taIfs) == 0 {
		c.Violation(f, site, f.Pos(), "a mutating handler with storage accesses never tests req.Storage.(logical.TransactionalStorage): its writes are not grouped into one transaction on transactional storage", nil)
		return
	}
	txEdges := eng.CondEdges(f, `^`+rqq+`\.\(logical\.TransactionalStorage\)#1$`, true)
	begins := eng.Calls(f, `^<logical\.TransactionalStorage>\.BeginTx$`)
	var switches []ssa.Instruction
	for _, st := range eng.Stores(f, `^`+rqq+`$`) {
		if ok, _, _ := eng.OriginsMatch(st.Val, `^call:<logical\.TransactionalStorage>\.BeginTx#0$`); ok {
			switches = append(switches, st)
		}
	}
	tgt := append(append([]ssa.Instruction{}, accIn...), eng.AsInstrs(commits)...)
	anyCall := func(in ssa.Instruction) bool {
		if c14IsRet(in) {
			return true
		}
		_, isCall := in.(*ssa.Call)
		return isCall
	}
	okSetup := false
	if hh := eng.Reach(eng.Query{Fn: f, Barriers: taIfs, Target: eng.IsTarget(accIn)}); hh != nil {
		c.Violation(f, site, hh.Instr.Pos(), eng.InstrStr(hh.Instr)+" is reachable before the handler decided whether to open a transaction: this access runs outside the transaction", hh.Witness)
	} else if len(begins) == 0 {
		c.Violation(f, site, taIfs[0].Pos(), "no read-write BeginTx on the transactional edge (a read-only or missing transaction cannot make the handler's writes atomic)", nil)
	} else if len(switches) == 0 {
		c.Violation(f, site, begins[0].Pos(), "req.Storage is never replaced by the transaction returned by BeginTx: the accesses bypass the transaction", nil)
	} else if hh := eng.Reach(eng.Query{Fn: f, StartEdges: txEdges, Barriers: switches, Target: eng.IsTarget(tgt)}); hh != nil {
		c.Violation(f, site, hh.Instr.Pos(), eng.InstrStr(hh.Instr)+" is reachable on transactional storage before req.Storage was switched to the transaction", hh.Witness)
	} else {
		okSetup = true
	}
	// rollback armed on BeginTx success; its failure touches nothing
	for _, bg := range begins {
		if !okSetup {
			break
		}
		txnVal := eng.ResultValue(bg, 0)
		rb := c14Deferred(f, func(ci ssa.CallInstruction) bool { return c14IsRollbackOf(ci, txnVal) })
		okE := eng.CallOKEdges(bg)
		if len(okE) == 0 {
			okSetup = false
			c.Violation(f, site, bg.Pos(), "the error of BeginTx is not tested", nil)
		} else if hh := eng.Reach(eng.Query{Fn: f, StartEdges: okE, Barriers: rb, Target: anyCall}); hh != nil {
			okSetup = false
			c.Violation(f, site, hh.Instr.Pos(), "after BeginTx succeeded a call or return is reachable before Rollback of that transaction is deferred: a failing exit leaves the transaction open / its partial writes pending", hh.Witness)
		} else if hh := eng.Reach(eng.Query{Fn: f, StartEdges: eng.CallFailEdges(bg), Target: eng.IsTarget(accIn)}); hh != nil {
			okSetup = false
			c.Violation(f, site, hh.Instr.Pos(), "the handler goes on to touch storage although the transaction could not be begun", hh.Witness)
		}
	}
	if okSetup {
		c.OK(f, site, switches[0].Pos(), fmt.Sprintf("all %d storage access(es) lie behind the TransactionalStorage test, and on its true edge behind BeginTx ok, defer Rollback of that transaction and req.Storage = BeginTx()#0; a failed BeginTx reaches no access", len(accIn)))
	}
	// T-use: every access goes through the (switched) req.Storage
	c.Clause("R5", "C14.1")
	site = "prov{storage operand of every access = req.Storage loaded after the transaction decision}"
	bad := 0
	for _, a := range acc {
		for _, op := range a.operands {
			ld := c14ReqStorageLoad(op)
			if ld == nil {
				bad++
				c.Violation(f, site, a.call.Pos(), a.name+" is given "+eng.ExprDeep(op)+" instead of the request's (transaction-switched) req.Storage: this access bypasses the transaction", nil)
				continue
			}
			isLd := func(in ssa.Instruction) bool { return in == ssa.Instruction(ld) }
			if hh := eng.Reach(eng.Query{Fn: f, Barriers: taIfs, Target: isLd}); hh != nil {
				bad++
				c.Violation(f, site, a.call.Pos(), a.name+" uses a copy of req.Storage taken before the transaction was begun (the original, non-transactional storage): this access bypasses the transaction", nil)
			} else if hh := eng.Reach(eng.Query{Fn: f, StartEdges: txEdges, Barriers: switches, Target: isLd}); hh != nil && len(switches) > 0 {
				bad++
				c.Violation(f, site, a.call.Pos(), a.name+" uses a copy of req.Storage taken on transactional storage before req.Storage was switched to the transaction: this access bypasses the transaction", nil)
			}
		}
	}
	if bad == 0 {
		c.OK(f, site, f.Pos(), fmt.Sprintf("%d access(es) (%s) all read req.Storage after the switch point", len(acc), c14CallNames(acc)))
	}
	// T5 success after a write crosses Commit; Commit is on the current req.Storage; nothing is written after it
	if len(writes) == 0 {
		return
	}
	c.Clause("R2", "C14.1")
	site = "after{successful storage write} success needs Commit ok (or storage not a transaction); no write after Commit"
	var blocked []eng.Edge
	for _, cm := range commits {
		if _, isDefer := cm.(*ssa.Defer); isDefer {
			continue
		}
		blocked = append(blocked, eng.CallOKEdges(cm)...)
	}
	nCommitEdges := len(blocked)
	blocked = append(blocked, eng.CondEdges(f, `^`+rqq+`\.\(logical\.Transaction\)#1$`, false)...)
	blocked = append(blocked, eng.CondEdges(f, `^`+rqq+` == `+rqq+`$`, true)...)
	succ := eng.SuccessReturns(f, 1)
	// a return of a call's own error value is not a success on that call's failure edge
	for _, r := range succ {
		vals, _, _ := eng.ReturnVals(r.(*ssa.Return), 1)
		for _, v := range vals {
			if v != nil && !eng.IsNilConst(v) {
				blocked = append(blocked, eng.ValueNilEdges(v, false)...)
			}
		}
	}
	if nCommitEdges == 0 {
		c.Violation(f, site, writes[0].Pos(), "the handler writes to storage inside a transaction but never calls Commit (or does not test its error): on transactional storage the deferred Rollback discards the write while the client is told it succeeded", nil)
		return
	}
	for _, cm := range commits {
		if s := eng.Expr(cm.Common().Value); s != rq+".(logical.Transaction)#0" {
			c.Violation(f, site, cm.Pos(), "Commit is called on "+s+", not on the transaction currently installed in req.Storage", nil)
			return
		}
		if ld := c14ReqStorageLoad(c14AssertOperand(cm.Common().Value)); ld == nil {
			c.Violation(f, site, cm.Pos(), "the committed transaction is not read from the request's req.Storage", nil)
			return
		}
	}
	for _, w := range writes {
		q := eng.Query{Fn: f, Blocked: blocked, Target: eng.IsTarget(succ)}
		if okE := eng.CallOKEdges(w.(ssa.CallInstruction)); len(okE) > 0 {
			q.StartEdges = okE
		} else {
			q.StartAfter = w
		}
		if hit := eng.Reach(q); hit != nil {
			c.Violation(f, site, hit.Instr.Pos(), "after "+eng.InstrStr(w)+" succeeded a nil-error return is reachable without crossing Commit's success edge: on transactional storage the write is rolled back (or left uncommitted) while success is reported", hit.Witness)
			return
		}
	}
	for _, cm := range commits {
		if hit := eng.Reach(eng.Query{Fn: f, StartAfter: cm, Target: eng.IsTarget(writes)}); hit != nil {
			c.Violation(f, site, hit.Instr.Pos(), eng.InstrStr(hit.Instr)+" is reachable after Commit: that write is outside the transaction", hit.Witness)
			return
		}
	}
	c.OK(f, site, commits[0].Pos(), fmt.Sprintf("every nil-error return reachable after any of the %d write(s) crosses Commit()==nil on req.Storage's transaction or a not-a-transaction edge; no write follows Commit", len(writes)))
}

// c14ParamName: the name of f's parameter of the given (pointer-to) named type.
func c14ParamName(f *ssa.Function, typ string) string {
	for _, p := range f.Params {
		if c14TypeName(p.Type()) == typ {
			return eng.VarName(p)
		}
	}
	return "?"
}

// c14ReqStorageExpr renders "<req>.Storage" for the handler's *logical.Request parameter.
func c14ReqStorageExpr(f *ssa.Function) string {
	return c14ParamName(f, "logical.Request") + ".Storage"
}

// c14AssertOperand: for x.(T)#0 returns x.
func c14AssertOperand(v ssa.Value) ssa.Value {
	if e, ok := v.(*ssa.Extract); ok {
		if ta, ok := e.Tuple.(*ssa.TypeAssert); ok {
			return ta.X
		}
	}
	if ta, ok := v.(*ssa.TypeAssert); ok {
		return ta.X
	}
	return v
}

func runC14(c *eng.Ctx, thorough bool) {
	ops := map[string]string{}
	for _, n := range []string{"CreateOperation", "UpdateOperation", "PatchOperation", "DeleteOperation"} {
		v, ok := c.P.ConstValue("logical." + n)
		if !ok {
			c.Unresolved("logical." + n)
			return
		}
		ops[v] = n
	}
	st := c14Iface(c, "logical.Storage")
	if st == nil {
		return
	}

	// ---------------- C14.1 the family of mutating handlers
	c.Clause("R8", "C14.1")
	hs, wrappers, nEntries := c14Handlers(c, ops)
	c.Floor(nil, "Create/Update/Patch/Delete entries in the versioned kv path tables", nEntries, 20)
	c.Floor(nil, "distinct mutating handlers of the versioned kv backend", len(hs), 10)
	perKey := 0
	var members []string
	for _, h := range hs {
		f := h.fn
		acc := c14Accesses(f, st)
		// nested closures must not touch storage (they would escape the per-handler analysis)
		forwarded := map[*ssa.Function]bool{}
		for _, fw := range c14Forwards(f) {
			if _, ok := c14ForwardedAccess(fw, st); ok {
				forwarded[fw.cl] = true
			}
		}
		for _, cl := range eng.Closures(f) {
			if len(c14Accesses(cl, st)) > 0 && !forwarded[cl] {
				c.Undecided(cl, "storage access inside a nested closure", cl.Pos(), "a closure nested in a mutating handler touches storage; the lock/transaction rules do not follow it")
			}
		}
		keys := c14PathKeys(f)
		var tbl []string
		for t := range h.tables {
			tbl = append(tbl, t)
		}
		sort.Strings(tbl)
		members = append(members, fmt.Sprintf("%s [%s; %s; %d accesses; per-key=%v]", eng.FuncName(f), h.opList(), strings.Join(tbl, ","), len(acc), len(keys) > 0))
		// the engine configuration is read through its own cache and lock and is not a per-key record
		var keyAcc []c14Access
		for _, a := range acc {
			if a.name == "kv.(*versionedKVBackend).config" && len(keys) > 0 {
				continue
			}
			keyAcc = append(keyAcc, a)
		}
		if len(keys) > 0 {
			perKey++
			c14LockRules(c, "C14.1", h, keyAcc, keys, "write")
			c14KeyProv(c, "C14.1", h, keys)
		}
		if len(keyAcc) > 0 {
			c14TxnRules(c, h, keyAcc)
		}
	}
	c.Clause("R8", "C14.1")
	if c.Floor(nil, "mutating handlers that address a secret path", perKey, 9) && len(hs) > 0 {
		c.OK(c.P.Func("kv.VersionedKVFactory"), "family{mutating callbacks of the versioned kv path tables}", token.NoPos, fmt.Sprintf("%d table entries resolve to %d handlers: %s", nEntries, len(hs), strings.Join(members, "; ")))
	}
	if len(hs) > 0 {
		c.Exception("kv.(*versionedKVBackend).config inside per-key handlers", "the engine configuration is not a per-key record: it is read through b.globalConfig under globalConfigLock, may be read before the per-key lock and outside the transaction")
	}
	// ---------------- C14.2
	c14WriteRules(c, "kv.(*versionedKVBackend).pathDataWrite$1", false)
	c14WriteRules(c, "kv.(*versionedKVBackend).pathDataPatch$1", true)
	c14CasRules(c)
	c14AddVersionRules(c)
	c14CleanupRules(c)

	// ---------------- C14.4 version-scoped operations
	c14ScopedRules(c, "kv.(*versionedKVBackend).pathDeleteWrite$1", "DeletionTime", "request", "delete")
	c14ScopedRules(c, "kv.(*versionedKVBackend).pathUndeleteWrite$1", "DeletionTime", "request", "undelete")
	c14ScopedRules(c, "kv.(*versionedKVBackend).pathDataDelete$1", "DeletionTime", "current", "data delete")
	c14ScopedRules(c, "kv.(*versionedKVBackend).pathDestroyWrite$1", "Destroyed", "request", "destroy")
	c14DestroyRules(c)
	c14MetadataDeleteRules(c)
	c14MetadataPatchRules(c)
	c14MetadataCasRules(c, "kv.(*versionedKVBackend).pathMetadataWrite$1")
	c14MetadataCasRules(c, "kv.(*versionedKVBackend).pathMetadataPatch$1")
	// ---------------- C14.5 reads
	c14ReadRules(c, "kv.(*versionedKVBackend).pathDataRead$1", st)
	c14ReadRules(c, "kv.(*versionedKVBackend).pathSubkeysRead$1", st)
	// ---------------- C14.3
	c14ErrRules(c)

	// wrappers pass the request through unchanged
	for w := range wrappers {
		c.Clause("R5", "C14.1")
		for _, cl := range eng.Closures(w) {
			// only closures shaped like an operation handler are wrappers (an unrelated helper closure is not)
			if cl.Signature.Params().Len() != 3 || cl.Signature.Results().Len() != 2 {
				continue
			}
			if sts := eng.Stores(cl, `^(`+regexp.QuoteMeta(c14ParamName(cl, "logical.Request"))+`|`+regexp.QuoteMeta(c14ParamName(cl, "framework.FieldData"))+`)\.`); len(sts) > 0 {
				c.Violation(cl, "wrapper calls the wrapped handler", sts[0].Pos(), "the operation wrapper rewrites the request before handing it on: "+eng.InstrStr(sts[0]), nil)
				continue
			}
			nx := eng.Calls(cl, `^dyn:\^`)
			if len(nx) == 0 {
				c.Violation(cl, "wrapper calls the wrapped handler", cl.Pos(), "the operation wrapper never calls the handler it wraps", nil)
				continue
			}
			for _, n := range nx {
				okArgs := len(n.Common().Args) == 3
				for _, a := range n.Common().Args {
					if _, isParam := a.(*ssa.Parameter); !isParam {
						okArgs = false
					}
				}
				if okArgs {
					c.OK(cl, "wrapper calls the wrapped handler", n.Pos(), "the wrapped handler receives the wrapper's own (ctx, req, data)")
				} else {
					c.Violation(cl, "wrapper calls the wrapped handler", n.Pos(), "the wrapper alters the request handed to the handler", nil)
				}
			}
		}
	}
	runC14Gaps2(c)
}

// ---------------------------------------------------------------------------
// C14.2 check-and-set before the write; version then metadata

// c14LoadOfField: v is a load of <base>.<field>; returns the load and base.
func c14LoadOfField(v ssa.Value, field string) (*ssa.UnOp, ssa.Value) {
	for {
		if cv, ok := v.(*ssa.Convert); ok {
			v = cv.X
			continue
		}
		if ct, ok := v.(*ssa.ChangeType); ok {
			v = ct.X
			continue
		}
		if mi, ok := v.(*ssa.MakeInterface); ok {
			v = mi.X
			continue
		}
		break
	}
	u, ok := v.(*ssa.UnOp)
	if !ok || u.Op != token.MUL {
		return nil, nil
	}
	fa, ok := u.X.(*ssa.FieldAddr)
	if !ok {
		return nil, nil
	}
	if fv := eng.FieldVar(fa); fv == nil || fv.Name() != field {
		return nil, nil
	}
	return u, fa.X
}

func c14ExtractOf(v ssa.Value, idx int) *ssa.Call {
	e, ok := v.(*ssa.Extract)
	if !ok || e.Index != idx {
		return nil
	}
	cl, _ := e.Tuple.(*ssa.Call)
	return cl
}

func c14MapUpdates(f *ssa.Function, key string) []*ssa.MapUpdate {
	var out []*ssa.MapUpdate
	for _, b := range f.Blocks {
		for _, in := range b.Instrs {
			if mu, ok := in.(*ssa.MapUpdate); ok && eng.Expr(mu.Key) == key {
				out = append(out, mu)
			}
		}
	}
	return out
}

func c14WriteRules(c *eng.Ctx, fname string, patch bool) {
	f := c.Fn(fname)
	if f == nil {
		return
	}
	const (
		pVcas  = `^kv\.validateCheckAndSetOption$`
		pPut   = `^<logical\.Storage>\.Put$`
		pAddV  = `^kv\.\(\*KeyMetadata\)\.AddVersion$`
		pWkm   = `^kv\.\(\*versionedKVBackend\)\.writeKeyMetadata$`
		pGkm   = `^kv\.\(\*versionedKVBackend\)\.getKeyMetadata$`
		pClean = `^kv\.\(\*versionedKVBackend\)\.cleanupOldVersions$`
		pGvk   = `^kv\.\(\*versionedKVBackend\)\.getVersionKey$`
	)
	vcas, put, addv := eng.Calls(f, pVcas), eng.Calls(f, pPut), eng.Calls(f, pAddV)
	clean, gkm := eng.Calls(f, pClean), eng.Calls(f, pGkm)
	// the version Put may have been extracted (with the marshalling) into a helper of the
	// package: follow the unique callee that puts Marshal(<parameter>) under <parameter key>
	// into <parameter storage> and reports success only behind that Put
	putKeys := map[ssa.CallInstruction][]ssa.Value{} // followed Put -> key argument(s) at the site
	putVers := map[ssa.CallInstruction][]ssa.Value{} // followed Put -> marshalled object argument(s) at the site
	if len(put) == 0 {
		if site, k, v := c14FollowedPut(f); site != nil {
			put = append(put, site)
			putKeys[site], putVers[site] = []ssa.Value{k}, []ssa.Value{v}
		}
	}
	gPut := eng.Guard{Desc: "success edge of " + pPut}
	for _, p := range put {
		gPut.Edges = append(gPut.Edges, eng.CallOKEdges(p)...)
		gPut.Pass = append(gPut.Pass, p)
	}
	// the metadata write may stand behind a forwarding closure that is called directly
	wkm, wkMeta := c14MetaWrites(f)
	gWkm := eng.Guard{Desc: "success edge of " + pWkm}
	for _, w := range wkm {
		gWkm.Edges = append(gWkm.Edges, eng.CallOKEdges(w)...)
		gWkm.Pass = append(gWkm.Pass, w)
	}
	c.Clause("R2", "C14.2")
	if !(c.Floor(f, "validateCheckAndSetOption call", len(vcas), 1) && c.Floor(f, "version Put", len(put), 1) &&
		c.Floor(f, "AddVersion call", len(addv), 1) && c.Floor(f, "writeKeyMetadata call", len(wkm), 1) &&
		c.Floor(f, "cleanupOldVersions call", len(clean), 1) && c.Floor(f, "getKeyMetadata call", len(gkm), 1)) {
		return
	}
	// the response entries reporting the new version: "version" map updates after AddVersion
	var verOut []*ssa.MapUpdate
	for _, mu := range c14MapUpdates(f, `"version"`) {
		if eng.Reach(eng.Query{Fn: f, StartAfter: addv[0], Target: func(in ssa.Instruction) bool { return in == ssa.Instruction(mu) }}) != nil {
			verOut = append(verOut, mu)
		}
	}
	c.Floor(f, "reported version (response \"version\" after AddVersion)", len(verOut), 1)
	effects := append(append(append(append([]ssa.Instruction{}, eng.AsInstrs(put)...), eng.AsInstrs(addv)...), eng.AsInstrs(wkm)...), eng.AsInstrs(clean)...)
	effects = append(effects, eng.AsInstrs(verOut)...)
	c.Cut(f, "version Put, AddVersion, metadata write, pruning, reported version", effects, eng.GCallOK(f, pVcas), nil)
	c.Cut(f, "check-and-set validation", eng.AsInstrs(vcas), eng.GCallOK(f, pGkm), nil)
	c.Cut(f, "metadata write", eng.AsInstrs(wkm), gPut, nil)
	c.Cut(f, "pruning of old versions, reported version", append(eng.AsInstrs(clean), eng.AsInstrs(verOut)...), gWkm, nil)
	c.Clause("R3", "C14.2")
	c.Before(f, "AddVersion", eng.AsInstrs(addv), "metadata write", eng.AsInstrs(wkm))

	// one metadata object: read under the lock -> validated -> bumped -> persisted -> reported
	c.Clause("R5", "C14.2")
	M := vcas[0].Common().Args[2]
	allowed := []string{`^call:kv\.\(\*versionedKVBackend\)\.getKeyMetadata#0$`}
	if !patch {
		allowed = append(allowed, `^alloc:&complit$`)
	}
	c.Prov(f, "metadata validated by check-and-set", vcas[0], M, allowed...)
	c.Prov(f, "configuration used by check-and-set", vcas[0], vcas[0].Common().Args[1], `^call:kv\.\(\*versionedKVBackend\)\.config#0$`)
	if _, isParam := vcas[0].Common().Args[0].(*ssa.Parameter); !isParam {
		c.Violation(f, "prov{options validated by check-and-set}", vcas[0].Pos(), "validateCheckAndSetOption is not given the request's field data", nil)
	}
	site := "prov{validated = bumped = persisted = reported metadata object}"
	var diffs []string
	// when the record lives in a variable cell (a closure captures it), "the same record" is
	// "a read of the same variable", provided the variable is not reassigned after validation
	if cell := c14CellOf(M); cell != nil {
		if stores, ok := c14CellStores(cell); !ok {
			diffs = append(diffs, "the metadata variable may be written by a closure or escapes")
		} else if eng.Reach(eng.Query{Fn: f, StartAfter: vcas[0], Target: eng.IsTarget(stores)}) != nil {
			diffs = append(diffs, "the metadata variable is reassigned after it was validated")
		}
	}
	for _, a := range addv {
		if !c14SameVar(a.Common().Args[0], M) {
			diffs = append(diffs, "AddVersion is applied to "+eng.Expr(a.Common().Args[0]))
		}
	}
	for _, w := range wkm {
		if !c14SameVar(wkMeta[w], M) {
			diffs = append(diffs, "writeKeyMetadata persists "+eng.Expr(wkMeta[w]))
		}
	}
	for _, mu := range verOut {
		ld, base := c14LoadOfField(mu.Value, "CurrentVersion")
		switch {
		case ld == nil || !c14SameVar(base, M):
			diffs = append(diffs, "the reported version is "+eng.Expr(mu.Value))
		case eng.Reach(eng.Query{Fn: f, Barriers: eng.AsInstrs(addv), Target: func(in ssa.Instruction) bool { return in == ssa.Instruction(ld) }}) != nil:
			diffs = append(diffs, "the reported version is read before AddVersion incremented it")
		}
	}
	if len(diffs) > 0 {
		c.Violation(f, site, vcas[0].Pos(), "validateCheckAndSetOption checks "+eng.Expr(M)+", but: "+strings.Join(diffs, "; ")+" — the check-and-set decision and the version that is written/reported no longer refer to the same record and increment", nil)
	} else {
		c.OK(f, site, vcas[0].Pos(), "AddVersion receiver, writeKeyMetadata argument and the reported CurrentVersion (loaded after AddVersion) are all "+eng.Expr(M))
	}
	// a fresh key starts at version 0
	if !patch {
		n := 0
		for _, b := range f.Blocks {
			for _, in := range b.Instrs {
				if a, ok := in.(*ssa.Alloc); ok && c14IsAllocOf(a, "kv.KeyMetadata") {
					n++
					if vs := append(eng.StructLitField(a, "CurrentVersion"), eng.StructLitField(a, "OldestVersion")...); len(vs) > 0 {
						c.Violation(f, "const{fresh KeyMetadata starts at version 0}", in.Pos(), "the metadata literal for a new key presets CurrentVersion/OldestVersion", nil)
					} else {
						c.OK(f, "const{fresh KeyMetadata starts at version 0}", in.Pos(), "literal leaves CurrentVersion and OldestVersion zero")
					}
				}
			}
		}
		c.Floor(f, "fresh KeyMetadata literal", n, 1)
	}
	// the version key: getVersionKey(lockedKey, M.CurrentVersion + 1), number read before AddVersion
	for _, p := range put {
		entry := p.Common().Args[len(p.Common().Args)-1]
		site = "prov{key of the version Put = getVersionKey(path, meta.CurrentVersion+1) read before AddVersion}"
		ks := eng.StructLitField(entry, "Key")
		_, followed := putKeys[p]
		if followed {
			ks = putKeys[p]
		}
		if len(ks) == 0 {
			c.Violation(f, site, p.Pos(), "the storage entry of the version Put has no Key set in a literal: "+eng.ExprDeep(entry), nil)
		}
		for _, k := range ks {
			g := c14ExtractOf(k, 0)
			if g == nil || !strings.HasSuffix(eng.CalleeName(&g.Call), ").getVersionKey") {
				c.Violation(f, site, p.Pos(), "the key written is "+eng.ExprDeep(k)+", not a key derived by getVersionKey", nil)
				continue
			}
			// two equivalent shapes: CurrentVersion+1 read before AddVersion, or CurrentVersion read after it
			var ld *ssa.UnOp
			var base ssa.Value
			plusOne := false
			if bo, isBin := g.Call.Args[3].(*ssa.BinOp); isBin && bo.Op == token.ADD && eng.Expr(bo.Y) == "1" {
				ld, base = c14LoadOfField(bo.X, "CurrentVersion")
				plusOne = true
			} else {
				ld, base = c14LoadOfField(g.Call.Args[3], "CurrentVersion")
			}
			isLd := func(in ssa.Instruction) bool { return in == ssa.Instruction(ld) }
			switch {
			case ld == nil || !c14SameVar(base, M):
				c.Violation(f, site, g.Pos(), "the new version is stored under version number "+eng.ExprDeep(g.Call.Args[3])+" instead of <validated metadata>.CurrentVersion + 1: version numbers are not consecutive / an existing version is overwritten", nil)
			case plusOne && eng.Reach(eng.Query{Fn: f, StartAfter: addv[0], Target: isLd}) != nil:
				c.Violation(f, site, g.Pos(), "CurrentVersion+1 is computed for the version key after AddVersion already incremented it: the data lands one version ahead of the metadata", nil)
			case !plusOne && eng.Reach(eng.Query{Fn: f, Barriers: eng.AsInstrs(addv), Target: isLd}) != nil:
				c.Violation(f, site, g.Pos(), "the new version is stored under the un-incremented CurrentVersion: the current version's data is overwritten", nil)
			default:
				c.OK(f, site, g.Pos(), "key = getVersionKey(path, "+eng.Expr(g.Call.Args[3])+"), i.e. the number AddVersion assigns")
			}
		}
		// the value stored is the marshalled new Version whose Data is the request's data
		vs := eng.StructLitField(entry, "Value")
		var vers []ssa.Value
		if followed {
			vs = nil
			vers = putVers[p]
			c.OK(f, "prov{value of the version Put}", p.Pos(), "the followed helper stores proto.Marshal of the object it is handed")
		}
		for _, v := range vs {
			c.Prov(f, "value of the version Put", p, v, `^call:google\.golang\.org/protobuf/proto\.Marshal#0$`)
			if m := c14ExtractOf(v, 0); m != nil {
				vers = append(vers, m.Call.Args[0])
			}
		}
		{
			for _, ver := range vers {
				if mi, ok := ver.(*ssa.MakeInterface); ok {
					ver = mi.X
				}
				ds := eng.StructLitField(ver, "Data")
				if len(ds) == 0 {
					c.Violation(f, "prov{Data of the stored Version}", p.Pos(), "the marshalled Version has no Data set", nil)
				}
				for _, d := range ds {
					if patch {
						c.Prov(f, "Data of the stored Version", p, d, `^call:framework\.HandlePatchOperation#0$`)
					} else {
						c.Prov(f, "Data of the stored Version", p, d, `^call:encoding/json\.Marshal#0$`)
					}
				}
			}
		}
		if len(vs) == 0 && !followed {
			c.Violation(f, "prov{value of the version Put}", p.Pos(), "the storage entry of the version Put has no Value", nil)
		}
	}
	if !patch {
		for _, jm := range eng.Calls(f, `^encoding/json\.Marshal$`) {
			s := eng.ExprDeep(jm.Common().Args[0])
			if strings.Contains(s, `GetOk(`+c14ParamName(f, "framework.FieldData")+`, "data")#0`) {
				c.OK(f, "prov{payload marshalled = the request's data field}", jm.Pos(), s)
			} else {
				c.Violation(f, "prov{payload marshalled = the request's data field}", jm.Pos(), "json.Marshal is applied to "+s, nil)
			}
		}
	} else {
		// the patch is applied to the data of the current version read in the same critical section
		for _, hp := range eng.Calls(f, `^framework\.HandlePatchOperation$`) {
			site = "prov{patch base = data stored under getVersionKey(path, meta.CurrentVersion)}"
			gets := eng.Calls(f, `^<logical\.Storage>\.Get$`)
			okBase := false
			why := "no storage Get of the current version"
			for _, g := range gets {
				k := c14ExtractOf(g.Common().Args[len(g.Common().Args)-1], 0)
				if k == nil || !strings.HasSuffix(eng.CalleeName(&k.Call), ").getVersionKey") {
					why = "the base is read from " + eng.ExprDeep(g.Common().Args[len(g.Common().Args)-1])
					continue
				}
				ld, base := c14LoadOfField(k.Call.Args[3], "CurrentVersion")
				if ld != nil && c14SameVar(base, M) {
					okBase = true
				} else {
					why = "the base version number is " + eng.ExprDeep(k.Call.Args[3])
				}
			}
			if okBase && eng.Reach(eng.Query{Fn: f, Barriers: eng.AsInstrs(gets), Target: func(in ssa.Instruction) bool { return in == ssa.Instruction(hp) }}) != nil {
				okBase, why = false, "HandlePatchOperation is reachable without reading the current version"
			}
			if okBase {
				c.OK(f, site, hp.Pos(), "the existing data is read from the version key of meta.CurrentVersion before the merge")
			} else {
				c.Violation(f, site, hp.Pos(), why, nil)
			}
		}
	}
	// pruning is driven by AddVersion's verdict
	for _, cl := range clean {
		c.Prov(f, "versionToDelete given to cleanupOldVersions", cl, cl.Common().Args[4], `^call:kv\.\(\*KeyMetadata\)\.AddVersion#1$`)
	}
}

func c14CasRules(c *eng.Ctx) {
	f := c.Fn("kv.validateCheckAndSetOption")
	if f == nil {
		return
	}
	c.Clause("R2", "C14.2")
	nilRets := eng.SuccessReturns(f, 0)
	if !c.Floor(f, "nil-capable returns", len(nilRets), 1) {
		return
	}
	if len(f.Params) != 3 {
		c.Unresolved("kv.validateCheckAndSetOption(data, config, meta)")
		return
	}
	pConfig, pMeta := regexp.QuoteMeta(eng.VarName(f.Params[1])), regexp.QuoteMeta(eng.VarName(f.Params[2]))
	const present = `\["cas"\]#1\}?$`
	eq := eng.G(f, `^\w+ == `+pMeta+`\.CurrentVersion$`, true)
	c.Cut(f, "return nil (cas supplied)", nilRets, eq, map[string]bool{present: true})
	c.Cut(f, "return nil", nilRets, eng.Or(eq, eng.G(f, `^`+pConfig+`\.CasRequired$`, false)), nil)
	c.Cut(f, "return nil", nilRets, eng.Or(eq, eng.G(f, `^`+pMeta+`\.CasRequired$`, false)), nil)
	dec := eng.GCallOK(f, `mapstructure/v2\.WeakDecode$`)
	c.Cut(f, "return nil", nilRets, eng.Or(eng.Guard{Desc: dec.Desc, Edges: dec.Edges}, eng.G(f, present, false)), nil)
	// the number compared is the decoded "cas" option, compared for equality with the current version
	c.Clause("R5", "C14.2")
	site := "prov{compared number = decoded options[\"cas\"]}"
	found := false
	for _, b := range f.Blocks {
		ifi := eng.IfOf(b)
		if ifi == nil {
			continue
		}
		nc := eng.Normalize(ifi.Cond)
		bo, ok := nc.Val.(*ssa.BinOp)
		if !ok || !(strings.HasSuffix(nc.Base, "== "+eng.VarName(f.Params[2])+".CurrentVersion") || strings.HasSuffix(nc.Alt, "== "+eng.VarName(f.Params[2])+".CurrentVersion")) {
			continue
		}
		found = true
		lhs := bo.X
		if _, base := c14LoadOfField(bo.X, "CurrentVersion"); base != nil {
			lhs = bo.Y
		}
		for {
			if cv, ok := lhs.(*ssa.Convert); ok {
				lhs = cv.X
				continue
			}
			break
		}
		var decoded *ssa.Alloc
		if u, ok := lhs.(*ssa.UnOp); ok && u.Op == token.MUL {
			decoded, _ = u.X.(*ssa.Alloc)
		}
		okProv := false
		for _, w := range eng.Calls(f, `mapstructure/v2\.WeakDecode$`) {
			a := w.Common().Args
			tgt := a[1]
			if mi, ok := tgt.(*ssa.MakeInterface); ok {
				tgt = mi.X
			}
			if decoded != nil && tgt == ssa.Value(decoded) && strings.Contains(eng.ExprDeep(a[0]), `["cas"]#0`) {
				okProv = true
			}
		}
		if okProv {
			c.OK(f, site, ifi.Cond.Pos(), "the value compared with meta.CurrentVersion is the local WeakDecode filled from options[\"cas\"]")
		} else {
			c.Violation(f, site, ifi.Cond.Pos(), "the value compared with meta.CurrentVersion ("+eng.ExprDeep(lhs)+") is not the decoded cas option", nil)
		}
	}
	if !found {
		c.Violation(f, site, f.Pos(), "no equality test against meta.CurrentVersion", nil)
	}
	// who calls it
	c.Clause("R1", "C14.2")
	c.CallerTable("kv.validateCheckAndSetOption", c.P.FindCalls(mustStatic(c, "kv.validateCheckAndSetOption"), nil), map[string]string{
		"kv.(*versionedKVBackend).pathDataWrite": "create/update of a secret",
		"kv.(*versionedKVBackend).pathDataPatch": "patch of a secret",
	}, 2)
}

func c14AddVersionRules(c *eng.Ctx) {
	f := c.Fn("kv.(*KeyMetadata).AddVersion")
	if f != nil {
		c.Clause("R3", "C14.2")
		var rets []ssa.Instruction
		for _, r := range eng.Returns(f) {
			rets = append(rets, r)
		}
		recv := regexp.QuoteMeta(eng.VarName(f.Params[0]))
		bumps := eng.Stores(f, `^`+recv+`\.CurrentVersion$`)
		site := "const{CurrentVersion = CurrentVersion + 1, exactly once, on every path}"
		switch {
		case len(bumps) != 1:
			c.Violation(f, site, f.Pos(), fmt.Sprintf("AddVersion stores CurrentVersion %d times", len(bumps)), nil)
		default:
			bo, ok := bumps[0].Val.(*ssa.BinOp)
			var base ssa.Value
			if ok && bo.Op == token.ADD && eng.Expr(bo.Y) == "1" {
				_, base = c14LoadOfField(bo.X, "CurrentVersion")
			}
			if _, isParam := base.(*ssa.Parameter); !isParam {
				c.Violation(f, site, bumps[0].Pos(), "the new CurrentVersion is "+eng.ExprDeep(bumps[0].Val)+", not the receiver's CurrentVersion + 1: successful writes do not get consecutive version numbers", nil)
			} else if eng.Reach(eng.Query{Fn: f, Barriers: []ssa.Instruction{bumps[0]}, Target: eng.IsTarget(rets)}) != nil {
				c.Violation(f, site, bumps[0].Pos(), "a return of AddVersion is reachable without incrementing CurrentVersion", nil)
			} else if eng.Reach(eng.Query{Fn: f, StartAfter: bumps[0], Target: func(in ssa.Instruction) bool { return in == ssa.Instruction(bumps[0]) }}) != nil {
				c.Violation(f, site, bumps[0].Pos(), "the increment sits in a loop", nil)
			} else {
				c.OK(f, site, bumps[0].Pos(), "single store k.CurrentVersion = k.CurrentVersion + 1 on every path to every return, not in a loop")
			}
		}
		// the new entry is filed under the bumped number and returned
		site = "prov{Versions[CurrentVersion (after ++)] = the returned entry}"
		var mus []*ssa.MapUpdate
		for _, b := range f.Blocks {
			for _, in := range b.Instrs {
				if mu, ok := in.(*ssa.MapUpdate); ok && eng.Expr(mu.Map) == eng.VarName(f.Params[0])+".Versions" {
					mus = append(mus, mu)
				}
			}
		}
		if len(mus) != 1 || len(bumps) != 1 {
			c.Violation(f, site, f.Pos(), fmt.Sprintf("%d updates of k.Versions in AddVersion", len(mus)), nil)
		} else {
			mu := mus[0]
			ld, base := c14LoadOfField(mu.Key, "CurrentVersion")
			_, isParam := base.(*ssa.Parameter)
			okRet := true
			for _, r := range eng.Returns(f) {
				if r.Results[0] != mu.Value {
					okRet = false
				}
			}
			switch {
			case ld == nil || !isParam:
				c.Violation(f, site, mu.Pos(), "the new entry is filed under "+eng.ExprDeep(mu.Key), nil)
			case eng.Reach(eng.Query{Fn: f, Barriers: []ssa.Instruction{bumps[0]}, Target: func(in ssa.Instruction) bool { return in == ssa.Instruction(ld) }}) != nil:
				c.Violation(f, site, mu.Pos(), "the key of the new entry is read before CurrentVersion was incremented: the previous version's metadata is overwritten", nil)
			case !okRet:
				c.Violation(f, site, mu.Pos(), "AddVersion returns a different entry than the one it filed", nil)
			case eng.Reach(eng.Query{Fn: f, Barriers: []ssa.Instruction{mu}, Target: eng.IsTarget(rets)}) != nil:
				c.Violation(f, site, mu.Pos(), "a return is reachable without filing the new entry", nil)
			default:
				c.OK(f, site, mu.Pos(), "k.Versions[k.CurrentVersion] = vm after the increment; every return hands back vm")
			}
		}
		// pruning removes map entries only inside AddVersion's window loop and reports the bound it used
		dels := eng.Calls(f, `^delete$`)
		c.Floor(f, "delete(k.Versions, i)", len(dels), 1)
		c.Clause("R5", "C14.2")
		for _, d := range dels {
			c.Prov(f, "map pruned", d, d.Common().Args[0], `^field:`+recv+`\.Versions$`)
		}
	}
	// field writers (R6)
	c.Clause("R6", "C14.2")
	tables := []struct {
		field   string
		floor   int
		allowed map[string]string
	}{
		{"kv.KeyMetadata.CurrentVersion", 1, map[string]string{"kv.(*KeyMetadata).AddVersion": "the one increment"}},
		{"kv.KeyMetadata.OldestVersion", 1, map[string]string{"kv.(*KeyMetadata).AddVersion": "sliding window of max_versions"}},
		{"kv.KeyMetadata.Versions", 3, map[string]string{
			"kv.(*KeyMetadata).AddVersion":               "lazy map allocation",
			"kv.(*versionedKVBackend).pathDataWrite":     "empty map of a fresh key",
			"kv.(*versionedKVBackend).pathMetadataWrite": "empty map of a fresh key",
			"kv.(*versionedKVBackend).Upgrade":           "empty map of an upgraded key",
		}},
		{"kv.VersionMetadata.Destroyed", 1, map[string]string{"kv.(*versionedKVBackend).pathDestroyWrite": "destroy of the named versions"}},
		{"kv.VersionMetadata.DeletionTime", 4, map[string]string{
			"kv.(*KeyMetadata).AddVersion":               "deletion time of the new version (delete_version_after)",
			"kv.(*versionedKVBackend).pathDataDelete":    "soft delete of the current version",
			"kv.(*versionedKVBackend).pathDeleteWrite":   "soft delete of the named versions",
			"kv.(*versionedKVBackend).pathUndeleteWrite": "undelete of the named versions",
		}},
	}
	for _, t := range tables {
		fv := c.P.Field(t.field)
		if fv == nil {
			c.Unresolved(t.field)
			continue
		}
		ws := c.P.FieldWriters(fv)
		got := map[string]int{}
		var pos = map[string]token.Pos{}
		var fn = map[string]*ssa.Function{}
		for _, w := range ws {
			n := eng.FuncName(eng.TopFunc(w.Fn))
			got[n]++
			pos[n], fn[n] = w.Store.Pos(), eng.TopFunc(w.Fn)
		}
		var names, okNames []string
		for n := range got {
			names = append(names, n)
		}
		sort.Strings(names)
		nbad := 0
		for _, n := range names {
			if _, ok := t.allowed[n]; ok {
				okNames = append(okNames, fmt.Sprintf("%s ×%d (%s)", n, got[n], t.allowed[n]))
			} else {
				nbad++
				c.Violation(fn[n], "writer{"+t.field+"}", pos[n], "store to "+t.field+" outside the reviewed writer table: version bookkeeping is changed by something other than AddVersion / the version-scoped handlers", nil)
			}
		}
		if nbad == 0 && len(names) > 0 {
			c.OK(fn[names[0]], "writer{"+t.field+"}", pos[names[0]], "all writers tabled: "+strings.Join(okNames, "; "))
		}
		c.Floor(nil, "writers of "+t.field, len(ws), t.floor)
	}
	// map-level writers of a Versions map (element insert/delete)
	n := 0
	for _, fn := range c.P.Funcs {
		if !eng.InPkg(fn, "kv") {
			continue
		}
		for _, b := range fn.Blocks {
			for _, in := range b.Instrs {
				var m ssa.Value
				switch x := in.(type) {
				case *ssa.MapUpdate:
					m = x.Map
				case *ssa.Call:
					if bi, ok := x.Call.Value.(*ssa.Builtin); ok && bi.Name() == "delete" {
						m = x.Call.Args[0]
					}
				}
				if m == nil {
					continue
				}
				if _, base := c14LoadOfField(m, "Versions"); base == nil || c14TypeName(base.Type()) != "kv.KeyMetadata" {
					continue
				}
				n++
				if top := eng.FuncName(eng.TopFunc(fn)); top == "kv.(*KeyMetadata).AddVersion" {
					c.OK(fn, "writer{elements of KeyMetadata.Versions}", in.Pos(), "AddVersion inserts the new version / prunes the window")
				} else {
					c.Violation(fn, "writer{elements of KeyMetadata.Versions}", in.Pos(), "an element of a key's Versions map is inserted or removed outside AddVersion", nil)
				}
			}
		}
	}
	c.Floor(nil, "element writers of KeyMetadata.Versions", n, 2)
	c.Clause("R1", "C14.2")
	c.CallerTable("kv.(*KeyMetadata).AddVersion", c.P.FindCalls(mustStatic(c, "kv.(*KeyMetadata).AddVersion"), nil), map[string]string{
		"kv.(*versionedKVBackend).pathDataWrite": "create/update of a secret",
		"kv.(*versionedKVBackend).pathDataPatch": "patch of a secret",
		"kv.(*versionedKVBackend).Upgrade":       "v1 -> v2 upgrade of a key (handlers are refused meanwhile)",
	}, 3)
}

func c14CleanupRules(c *eng.Ctx) {
	f := c.Fn("kv.(*versionedKVBackend).cleanupOldVersions")
	if f == nil {
		return
	}
	c.Clause("R5", "C14.2")
	gvk := eng.Calls(f, `^kv\.\(\*versionedKVBackend\)\.getVersionKey$`)
	dels := eng.Calls(f, `^<logical\.Storage>\.Delete$`)
	if !c.Floor(f, "getVersionKey", len(gvk), 1) || !c.Floor(f, "storage Delete", len(dels), 1) || len(f.Params) != 5 {
		return
	}
	for _, g := range gvk {
		a := g.Common().Args
		c.Prov(f, "key whose versions are pruned", g, a[2], `^param:`+regexp.QuoteMeta(eng.VarName(f.Params[3]))+`$`)
		s := eng.ExprDeep(a[3])
		// the loop variable starts at versionToDelete and only decreases
		ok := false
		if phi, isPhi := a[3].(*ssa.Phi); isPhi {
			ok = true
			for _, e := range phi.Edges {
				if p, isParam := e.(*ssa.Parameter); isParam && p == f.Params[4] {
					continue
				}
				if bo, isBin := e.(*ssa.BinOp); isBin && bo.Op == token.SUB && bo.X == ssa.Value(phi) && eng.Expr(bo.Y) == "1" {
					continue
				}
				ok = false
			}
		}
		if ok {
			c.OK(f, "prov{pruned version numbers = versionToDelete counting down}", g.Pos(), s)
		} else {
			c.Violation(f, "prov{pruned version numbers = versionToDelete counting down}", g.Pos(), "version numbers pruned are "+s+": versions above AddVersion's bound can be deleted", nil)
		}
	}
	for _, d := range dels {
		a := d.Common().Args
		k := a[len(a)-1]
		okKeys := false
		var elems []ssa.Value
		if u, isLoad := k.(*ssa.UnOp); isLoad && u.Op == token.MUL {
			if ia, isIdx := u.X.(*ssa.IndexAddr); isIdx {
				var clean bool
				elems, clean = c14AppendedElems(ia.X, map[ssa.Value]bool{})
				okKeys = clean && len(elems) > 0
			}
		}
		for _, e := range elems {
			if g := c14ExtractOf(e, 0); g == nil || !strings.HasSuffix(eng.CalleeName(&g.Call), ").getVersionKey") {
				okKeys = false
			}
		}
		if okKeys {
			c.OK(f, "prov{storage keys deleted = collected getVersionKey results}", d.Pos(), fmt.Sprintf("deletes an element of a list holding only getVersionKey results (%d append site(s))", len(elems)))
		} else {
			c.Violation(f, "prov{storage keys deleted = collected getVersionKey results}", d.Pos(), "pruning deletes "+eng.ExprDeep(k)+", which is not (only) a version key derived by getVersionKey for this secret", nil)
		}
		c.Prov(f, "storage pruned", d, d.Common().Value, `^param:`+regexp.QuoteMeta(eng.VarName(f.Params[2]))+`$`)
	}
	c.Clause("R1", "C14.2")
	c.CallerTable("kv.(*versionedKVBackend).cleanupOldVersions", c.P.FindCalls(mustStatic(c, "kv.(*versionedKVBackend).cleanupOldVersions"), nil), map[string]string{
		"kv.(*versionedKVBackend).pathDataWrite": "after the metadata write",
		"kv.(*versionedKVBackend).pathDataPatch": "after the metadata write",
	}, 2)
}

// c14AppendedElems: the values appended to a slice built only by
// `s = append(s, v...)` starting from nil; clean=false if anything else feeds it.
func c14AppendedElems(v ssa.Value, seen map[ssa.Value]bool) (elems []ssa.Value, clean bool) {
	if v == nil || seen[v] {
		return nil, true
	}
	seen[v] = true
	switch x := v.(type) {
	case *ssa.Const:
		return nil, x.Value == nil
	case *ssa.Phi:
		clean = true
		for _, e := range x.Edges {
			es, cl := c14AppendedElems(e, seen)
			elems = append(elems, es...)
			clean = clean && cl
		}
		return elems, clean
	case *ssa.Call:
		bi, ok := x.Call.Value.(*ssa.Builtin)
		if !ok || bi.Name() != "append" || len(x.Call.Args) != 2 {
			return nil, false
		}
		elems, clean = c14AppendedElems(x.Call.Args[0], seen)
		sl, ok := x.Call.Args[1].(*ssa.Slice)
		if !ok {
			return elems, false
		}
		arr, ok := sl.X.(*ssa.Alloc)
		if !ok || arr.Referrers() == nil {
			return elems, false
		}
		for _, r := range *arr.Referrers() {
			ia, ok := r.(*ssa.IndexAddr)
			if !ok || ia.Referrers() == nil {
				continue
			}
			for _, rr := range *ia.Referrers() {
				if st, ok := rr.(*ssa.Store); ok && st.Addr == ia {
					elems = append(elems, st.Val)
				}
			}
		}
		return elems, clean
	}
	return nil, false
}

// ---------------------------------------------------------------------------
// C14.4 delete / undelete / destroy touch only the versions they name

// c14VersionNumberOrigin classifies the version number used to index a
// Versions map or to derive a version key.
func c14VersionNumberOrigin(v ssa.Value, meta ssa.Value) string {
	for {
		switch x := v.(type) {
		case *ssa.Convert:
			v = x.X
			continue
		case *ssa.ChangeType:
			v = x.X
			continue
		}
		break
	}
	if ld, base := c14LoadOfField(v, "CurrentVersion"); ld != nil && c14Same(base, meta) {
		return "current"
	}
	if u, ok := v.(*ssa.UnOp); ok && u.Op == token.MUL {
		if ia, ok := u.X.(*ssa.IndexAddr); ok {
			if ta, ok := ia.X.(*ssa.TypeAssert); ok {
				if g, ok := ta.X.(*ssa.Call); ok && eng.CalleeName(&g.Call) == "framework.(*FieldData).Get" && len(g.Call.Args) == 2 && eng.Expr(g.Call.Args[1]) == `"versions"` {
					if _, isParam := g.Call.Args[0].(*ssa.Parameter); isParam {
						return "request"
					}
				}
			}
		}
	}
	if e, ok := v.(*ssa.Extract); ok && e.Index == 1 {
		if nx, ok := e.Tuple.(*ssa.Next); ok {
			if rg, ok := nx.Iter.(*ssa.Range); ok {
				if ld, base := c14LoadOfField(rg.X, "Versions"); ld != nil && c14Same(base, meta) {
					return "all"
				}
			}
		}
	}
	return "other:" + eng.ExprDeep(v)
}

// c14ScopedRules: the handler modifies only VersionMetadata entries looked
// up in the metadata it read, under the numbers `want` allows.
func c14ScopedRules(c *eng.Ctx, fname string, field string, want string, whatFor string) {
	f := c.Fn(fname)
	if f == nil {
		return
	}
	gkm := eng.Calls(f, `^kv\.\(\*versionedKVBackend\)\.getKeyMetadata$`)
	wkm, wkMeta := c14MetaWrites(f)
	c.Clause("R5", "C14.4")
	if !c.Floor(f, "getKeyMetadata", len(gkm), 1) || !c.Floor(f, "writeKeyMetadata", len(wkm), 1) {
		return
	}
	M := eng.ResultValue(gkm[0], 0)
	stores := eng.Stores(f, `\.`+field+`$`)
	if !c.Floor(f, "stores to VersionMetadata."+field, len(stores), 1) {
		return
	}
	site := "prov{VersionMetadata." + field + " written = meta.Versions[<" + want + " version number(s)>] of the metadata read under the lock}"
	bad := 0
	for _, st := range stores {
		fa, ok := st.Addr.(*ssa.FieldAddr)
		if !ok {
			continue
		}
		lk, ok := fa.X.(*ssa.Lookup)
		if !ok {
			bad++
			c.Violation(f, site, st.Pos(), whatFor+" writes "+field+" of "+eng.ExprDeep(fa.X)+", which is not an entry looked up in the key's Versions map", nil)
			continue
		}
		ld, base := c14LoadOfField(lk.X, "Versions")
		if ld == nil || !c14Same(base, M) {
			bad++
			c.Violation(f, site, st.Pos(), whatFor+" modifies a Versions map that does not belong to the metadata read under the lock: "+eng.ExprDeep(lk.X), nil)
			continue
		}
		if o := c14VersionNumberOrigin(lk.Index, M); o != want {
			bad++
			c.Violation(f, site, st.Pos(), whatFor+" modifies version "+eng.ExprDeep(lk.Index)+" ("+o+"); it may only touch the "+want+" version number(s)", nil)
		}
	}
	if bad == 0 {
		c.OK(f, site, stores[0].Pos(), fmt.Sprintf("%d store(s), each on meta.Versions[n] with n from the %s version number(s)", len(stores), want))
	}
	for _, w := range wkm {
		if !c14Same(wkMeta[w], M) {
			c.Violation(f, "prov{metadata persisted = metadata read under the lock}", w.Pos(), "writeKeyMetadata persists "+eng.Expr(wkMeta[w])+" instead of the record read under the lock", nil)
		} else {
			c.OK(f, "prov{metadata persisted = metadata read under the lock}", w.Pos(), "writeKeyMetadata(getKeyMetadata()#0)")
		}
	}
	c.Clause("R2", "C14.4")
	if field == "DeletionTime" {
		c.Cut(f, "store of a version's DeletionTime", eng.AsInstrs(stores), eng.G(f, `\.Versions\[.*\]\.Destroyed$`, false), nil)
	}
	c.Cut(f, "store of a version's "+field, eng.AsInstrs(stores), eng.G(f, `\.Versions\[.*\]\)? == nil$`, false), nil)
	c.Cut(f, "store of a version's "+field+", metadata write", append(eng.AsInstrs(stores), eng.AsInstrs(wkm)...), eng.G(f, `^kv\.\(\*versionedKVBackend\)\.getKeyMetadata\(\)#0 == nil$`, false), nil)
}

func c14DestroyRules(c *eng.Ctx) {
	f := c.Fn("kv.(*versionedKVBackend).pathDestroyWrite$1")
	if f == nil {
		return
	}
	dels := eng.Calls(f, `^<logical\.Storage>\.Delete$`)
	gkm := eng.Calls(f, `^kv\.\(\*versionedKVBackend\)\.getKeyMetadata$`)
	if !c.Floor(f, "version data Delete", len(dels), 1) || !c.Floor(f, "getKeyMetadata", len(gkm), 1) {
		return
	}
	c.Clause("R2", "C14.4")
	c.Cut(f, "deletion of version data", eng.AsInstrs(dels), eng.GCallOK(f, `^kv\.\(\*versionedKVBackend\)\.writeKeyMetadata$`), nil)
	c.Clause("R5", "C14.4")
	M := eng.ResultValue(gkm[0], 0)
	for _, d := range dels {
		site := "prov{version data deleted = getVersionKey(path, <request version number>)}"
		a := d.Common().Args
		g := c14ExtractOf(a[len(a)-1], 0)
		if g == nil || !strings.HasSuffix(eng.CalleeName(&g.Call), ").getVersionKey") {
			c.Violation(f, site, d.Pos(), "destroy deletes "+eng.ExprDeep(a[len(a)-1])+", not a version key", nil)
			continue
		}
		if o := c14VersionNumberOrigin(g.Call.Args[3], M); o != "request" {
			c.Violation(f, site, d.Pos(), "destroy deletes the data of version "+eng.ExprDeep(g.Call.Args[3])+" ("+o+"), not of a version named in the request", nil)
		} else {
			c.OK(f, site, d.Pos(), "key = getVersionKey(path, uint64(versions[i]))")
		}
	}
}

func c14MetadataDeleteRules(c *eng.Ctx) {
	f := c.Fn("kv.(*versionedKVBackend).pathMetadataDelete$1")
	if f == nil {
		return
	}
	gkm := eng.Calls(f, `^kv\.\(\*versionedKVBackend\)\.getKeyMetadata$`)
	dels := eng.Calls(f, `^<logical\.Storage>\.Delete$`)
	// the deletion of the version data may have been extracted into a helper of the package
	var followed []c14VerDel
	if st := c14Iface(c, "logical.Storage"); st != nil {
		followed = c14FollowedVersionDeletes(f, st)
	}
	if !c.Floor(f, "getKeyMetadata", len(gkm), 1) || !c.Floor(f, "storage Delete", len(dels)+len(followed), 2) {
		return
	}
	M := eng.ResultValue(gkm[0], 0)
	c.Clause("R5", "C14.4")
	var verDel, metaDel []ssa.Instruction
	keys := c14PathKeys(f)
	for _, fd := range followed {
		verDel = append(verDel, fd.site)
		site := "prov{version data deleted = versions listed in the key's own metadata}"
		switch {
		case !c14Same(fd.meta, M):
			c.Violation(f, site, fd.site.Pos(), "the helper deletes the versions listed in "+eng.ExprDeep(fd.meta)+", not in the metadata read under the lock", nil)
		case !keys[fd.key] && !keys[c14Resolve(fd.key)]:
			c.Violation(f, site, fd.site.Pos(), "the helper deletes version data of key "+eng.ExprDeep(fd.key)+", not of the locked path", nil)
		default:
			c.OK(f, site, fd.site.Pos(), eng.CalleeName(fd.site.Common())+" iterates meta.Versions of the metadata read under the lock, for the locked key")
		}
	}
	for _, d := range dels {
		a := d.Common().Args
		if g := c14ExtractOf(a[len(a)-1], 0); g != nil && strings.HasSuffix(eng.CalleeName(&g.Call), ").getVersionKey") {
			verDel = append(verDel, d)
			if o := c14VersionNumberOrigin(g.Call.Args[3], M); o == "all" {
				c.OK(f, "prov{version data deleted = versions listed in the key's own metadata}", d.Pos(), "iterates meta.Versions of the metadata read under the lock")
			} else {
				c.Violation(f, "prov{version data deleted = versions listed in the key's own metadata}", d.Pos(), "deletes version "+eng.ExprDeep(g.Call.Args[3])+" ("+o+")", nil)
			}
			continue
		}
		if w, ok := d.Common().Value.(*ssa.Call); ok && strings.HasSuffix(eng.CalleeName(&w.Call), "EncryptedKeyStorageWrapper).Wrap") {
			metaDel = append(metaDel, d)
			continue
		}
		c.Violation(f, "prov{keys deleted by metadata delete}", d.Pos(), "metadata delete removes "+eng.ExprDeep(a[len(a)-1])+" from "+eng.Expr(d.Common().Value)+": neither a version key of this secret nor its metadata entry", nil)
	}
	c.Floor(f, "deletion of version data", len(verDel), 1)
	c.Floor(f, "deletion of the metadata entry", len(metaDel), 1)
	c.Clause("R2", "C14.4")
	if len(metaDel) > 0 && len(verDel) > 0 {
		// the metadata entry goes last: a failed version delete keeps the key discoverable for a retry
		var fail []eng.Edge
		for _, d := range verDel {
			fail = append(fail, eng.CallFailEdges(d.(ssa.CallInstruction))...)
		}
		if hh := eng.Reach(eng.Query{Fn: f, StartEdges: fail, Target: eng.IsTarget(metaDel)}); hh != nil {
			c.Violation(f, "on{version delete failed} metadata entry kept", hh.Instr.Pos(), "the metadata entry can be deleted after a version delete failed: the orphaned version data is no longer reachable", hh.Witness)
		} else {
			c.OK(f, "on{version delete failed} metadata entry kept", metaDel[0].Pos(), "a failed version delete never reaches the deletion of the metadata entry")
		}
		c.Cut(f, "deletion of version data / of the metadata entry", append(append([]ssa.Instruction{}, verDel...), metaDel...), eng.G(f, `^kv\.\(\*versionedKVBackend\)\.getKeyMetadata\(\)#0 == nil$`, false), nil)
	}
}

// the metadata PATCH may only touch the settings fields
func c14MetadataPatchRules(c *eng.Ctx) {
	f := c.Fn("kv.(*versionedKVBackend).pathMetadataPatch$1")
	if f == nil {
		return
	}
	c.Clause("R12", "C14.4")
	allowed := map[string]bool{`"max_versions"`: true, `"cas_required"`: true, `"metadata_cas_required"`: true, `"delete_version_after"`: true, `"custom_metadata"`: true}
	pre := eng.Calls(f, `^kv\.metadataPatchPreprocessor$`)
	if !c.Floor(f, "metadataPatchPreprocessor call", len(pre), 1) {
		return
	}
	for _, p := range pre {
		elems := sliceLitElems(p.Common().Args[0])
		site := "const{patchable metadata fields ⊆ settings}"
		var bad []string
		for _, e := range elems {
			if !allowed[e] {
				bad = append(bad, e)
			}
		}
		switch {
		case len(elems) == 0:
			c.Undecided(f, site, p.Pos(), "the list of patchable fields is not a slice literal: "+eng.ExprDeep(p.Common().Args[0]))
		case len(bad) > 0:
			c.Violation(f, site, p.Pos(), "metadata PATCH lets the client overwrite "+strings.Join(bad, ", ")+": version bookkeeping (current_version, versions, oldest_version, ...) must not be client-settable", nil)
		default:
			c.OK(f, site, p.Pos(), "patchable: "+strings.Join(elems, ", "))
		}
	}
	if g := c.Fn("kv.metadataPatchPreprocessor$1"); g != nil {
		// only keys of the list are copied from the input
		n := 0
		for _, b := range g.Blocks {
			for _, in := range b.Instrs {
				if mu, ok := in.(*ssa.MapUpdate); ok {
					n++
					if s := eng.ExprDeep(mu.Key); len(g.FreeVars) == 1 && strings.HasPrefix(s, "^"+eng.VarName(g.FreeVars[0])+"[") {
						c.OK(g, "prov{key copied into the patch = element of the patchable list}", mu.Pos(), s)
					} else {
						c.Violation(g, "prov{key copied into the patch = element of the patchable list}", mu.Pos(), "the preprocessor copies key "+s+" from the request into the patch", nil)
					}
				}
			}
		}
		c.Floor(g, "patch map updates", n, 2)
	}
}

// ---------------------------------------------------------------------------
// C14.5 reads

func c14ReadRules(c *eng.Ctx, fname string, st *types.Interface) {
	f := c.Fn(fname)
	if f == nil {
		return
	}
	h := &c14Handler{fn: f}
	keys := c14PathKeys(f)
	acc := c14Accesses(f, st)
	c.Clause("R9", "C14.5")
	if !c.Floor(f, "\"path\" field", len(keys), 1) || !c.Floor(f, "storage accesses", len(acc), 3) {
		return
	}
	c14LockRules(c, "C14.5", h, acc, keys, "read")
	c14KeyProv(c, "C14.5", h, keys)
	gkm := eng.Calls(f, `^kv\.\(\*versionedKVBackend\)\.getKeyMetadata$`)
	gets := eng.Calls(f, `^<logical\.Storage>\.Get$`)
	if !c.Floor(f, "getKeyMetadata", len(gkm), 1) || !c.Floor(f, "version data Get", len(gets), 1) {
		return
	}
	M := eng.ResultValue(gkm[0], 0)
	c.Clause("R5", "C14.5")
	site := "prov{version data read = getVersionKey(path, n) for the same n whose metadata entry was checked}"
	for _, g := range gets {
		a := g.Common().Args
		k := c14ExtractOf(a[len(a)-1], 0)
		if k == nil || !strings.HasSuffix(eng.CalleeName(&k.Call), ").getVersionKey") {
			c.Violation(f, site, g.Pos(), "the data is read from "+eng.ExprDeep(a[len(a)-1]), nil)
			continue
		}
		n := k.Call.Args[3]
		same := false
		for _, b := range f.Blocks {
			for _, in := range b.Instrs {
				if lk, ok := in.(*ssa.Lookup); ok && lk.Index == n {
					if ld, base := c14LoadOfField(lk.X, "Versions"); ld != nil && c14Same(base, M) {
						same = true
					}
				}
			}
		}
		// n is the current version or the requested one
		okN := true
		var leaves []string
		var walk func(v ssa.Value, d int)
		walk = func(v ssa.Value, d int) {
			if phi, ok := v.(*ssa.Phi); ok && d < 4 {
				for _, e := range phi.Edges {
					walk(e, d+1)
				}
				return
			}
			if ld, base := c14LoadOfField(v, "CurrentVersion"); ld != nil && c14Same(base, M) {
				leaves = append(leaves, "meta.CurrentVersion")
				return
			}
			s := eng.ExprDeep(v)
			leaves = append(leaves, s)
			if !strings.Contains(s, `Get(`+c14ParamName(f, "framework.FieldData")+`, "version")`) {
				okN = false
			}
		}
		walk(n, 0)
		if same && okN {
			c.OK(f, site, g.Pos(), "n ∈ {"+strings.Join(leaves, ", ")+"}; meta.Versions[n] is the entry whose deleted/destroyed state gates the read")
		} else {
			c.Violation(f, site, g.Pos(), fmt.Sprintf("the version number of the data read (%s) is not the one whose metadata entry is checked (same=%v) or not the current/requested version", eng.ExprDeep(n), same), nil)
		}
	}
	c.Clause("R2", "C14.5")
	sinks := eng.AsInstrs(gets)
	c.Cut(f, "read of version data", sinks, eng.G(f, `\.Versions\[.*\]\)? == nil$`, false), nil)
	c.Cut(f, "read of version data", sinks, eng.G(f, `\.Versions\[.*\]\.Destroyed$`, false), nil)
	c.Cut(f, "read of version data", sinks, eng.Or(eng.G(f, `\.Versions\[.*\]\.DeletionTime == nil$`, true), eng.G(f, `^time\.\(Time\)\.Before\(\)$`, false)), nil)
	c.Cut(f, "read of version data", sinks, eng.GCallOK(f, `^kv\.\(\*versionedKVBackend\)\.getKeyMetadata$`), nil)
	// the payload returned is what was read
	var out []ssa.Instruction
	for _, key := range []string{`"data"`, `"subkeys"`} {
		for _, mu := range c14MapUpdates(f, key) {
			if !eng.IsNilConst(mu.Value) {
				if mi, ok := mu.Value.(*ssa.MakeInterface); !ok || !eng.IsNilConst(mi.X) {
					out = append(out, mu)
				}
			}
		}
	}
	if c.Floor(f, "payload attached to the response", len(out), 1) {
		c.Cut(f, "payload attached to the response", out, eng.GCallOK(f, `^<logical\.Storage>\.Get$`), nil)
		c.Cut(f, "payload attached to the response", out, eng.G(f, `^<logical\.Storage>\.Get\(\)#0 == nil$`, false), nil)
	}
}

// ---------------------------------------------------------------------------
// C14.3 errors of storage calls in package kv are consumed

func c14ErrRules(c *eng.Ctx) {
	c.Clause("R11", "C14.3")
	var ms []eng.CalleeMatcher
	if m, ok := c.P.IfaceCallee("logical.Storage", "Get", "Put", "Delete", "List", "ListPage"); ok {
		ms = append(ms, m)
	} else {
		c.Unresolved("logical.Storage")
	}
	if m, ok := c.P.IfaceCallee("logical.Transaction", "Commit"); ok {
		ms = append(ms, m)
	} else {
		c.Unresolved("logical.Transaction")
	}
	if m, ok := c.P.IfaceCallee("logical.Transactional", "BeginTx", "BeginReadOnlyTx"); ok {
		ms = append(ms, m)
	} else {
		c.Unresolved("logical.Transactional")
	}
	ms = append(ms, mustStatic(c,
		"kv.(*versionedKVBackend).getKeyMetadata", "kv.(*versionedKVBackend).writeKeyMetadata", "kv.(*versionedKVBackend).getVersionKey",
		"kv.(*versionedKVBackend).config", "kv.(*versionedKVBackend).getKeyEncryptor", "kv.(*versionedKVBackend).Salt",
		"kv.(*versionedKVBackend).policy", "kv.(*versionedKVBackend).upgradeDone", "kv.validateCheckAndSetOption"))
	sites := c.P.FindCalls(eng.AnyOf(ms...), func(fn *ssa.Function) bool { return eng.InPkg(fn, "kv") })
	group := func(fn *ssa.Function) string {
		if strings.Contains(eng.FuncName(eng.TopFunc(fn)), "PassthroughBackend") {
			return "kv v1 passthrough backend"
		}
		return "versioned kv backend"
	}
	type agg struct {
		n, bad int
		fns    map[string]bool
		first  eng.CallSite
	}
	groups := map[string]*agg{}
	n := 0
	for _, s := range sites {
		if _, isDefer := s.Call.(*ssa.Defer); isDefer {
			continue // the deferred Rollback: its error is irrelevant once Commit ran or the handler failed
		}
		g := groups[group(s.Fn)]
		if g == nil {
			g = &agg{fns: map[string]bool{}, first: s}
			groups[group(s.Fn)] = g
		}
		n++
		g.n++
		g.fns[eng.FuncName(s.Fn)] = true
		ev := eng.ErrValue(s.Call)
		used := false
		if ev != nil && ev.Referrers() != nil {
			for _, r := range *ev.Referrers() {
				if _, dbg := r.(*ssa.DebugRef); !dbg {
					used = true
				}
			}
		}
		if !used {
			g.bad++
			c.ErrChecked(s.Fn, s.Call)
		}
	}
	var gnames []string
	for k := range groups {
		gnames = append(gnames, k)
	}
	sort.Strings(gnames)
	for _, k := range gnames {
		g := groups[k]
		if g.bad == 0 {
			c.OK(eng.TopFunc(g.first.Fn), "errcheck{storage / transaction / kv storage helpers: "+k+"}", g.first.Call.Pos(), fmt.Sprintf("the error result of all %d call(s) in %d function(s) is consumed", g.n, len(g.fns)))
		}
	}
	c.Floor(nil, "storage-related calls in package kv", n, 80)
}

// ---------------------------------------------------------------------------
// C14.2 (metadata record): exact check-and-set on the metadata version of
// metadata PUT and metadata PATCH

// c14OpKey names an operand of a fact: loads of a field are keyed by
// (base value, field) so that two loads of the same field agree (go/ssa has no
// CSE); everything else by SSA identity.
func c14OpKey(v ssa.Value) string {
	for {
		switch x := v.(type) {
		case *ssa.ChangeType:
			v = x.X
			continue
		case *ssa.MakeInterface:
			v = x.X
			continue
		case *ssa.Convert:
			v = x.X
			continue
		}
		break
	}
	if k, ok := v.(*ssa.Const); ok {
		if k.Value == nil {
			return "c:nil"
		}
		return "c:" + k.Value.ExactString()
	}
	if u, ok := v.(*ssa.UnOp); ok && u.Op == token.MUL {
		if fa, ok := u.X.(*ssa.FieldAddr); ok {
			if fv := eng.FieldVar(fa); fv != nil {
				return c14FieldKey(fa.X, fv.Name())
			}
		}
	}
	return fmt.Sprintf("v:%p", v)
}

func c14FieldKey(base ssa.Value, field string) string {
	return fmt.Sprintf("f:%p.%s;", base, field)
}

func c14NilKey(v ssa.Value) string { return "eq(" + c14OpKey(v) + ",c:nil)" }

// c14FactKey: boolean value v holds iff (proposition key) == pol.
func c14FactKey(v ssa.Value) (key string, pol bool) {
	pol = true
	for {
		if u, ok := v.(*ssa.UnOp); ok && u.Op == token.NOT {
			pol = !pol
			v = u.X
			continue
		}
		break
	}
	if b, ok := v.(*ssa.BinOp); ok && (b.Op == token.EQL || b.Op == token.NEQ) {
		x, y := c14OpKey(b.X), c14OpKey(b.Y)
		if strings.HasPrefix(x, "c:") || (x > y && !strings.HasPrefix(y, "c:")) {
			x, y = y, x
		}
		if b.Op == token.NEQ {
			pol = !pol
		}
		return "eq(" + x + "," + y + ")", pol
	}
	return c14OpKey(v), pol
}

type c14WalkHit struct {
	instr   ssa.Instruction
	witness []string
}

// c14Walk is a forward reachability walk from the entry of fn that — unlike
// eng.Reach — (a) decides an If that tests a boolean phi of its own block by
// the value flowing in along the arrival edge (what `a || b` and `a && b`
// compile to), and (b) carries boolean facts: the given initial facts plus
// what every branch taken establishes about a proposition tested more than
// once. A store to a field drops the facts about that field. exhausted
// reports that the state bound was hit (the caller must not conclude).
func c14Walk(fn *ssa.Function, facts map[string]bool, blocked []eng.Edge, target func(ssa.Instruction) bool) (hit *c14WalkHit, exhausted bool) {
	if len(fn.Blocks) == 0 {
		return nil, false
	}
	isBlocked := map[eng.Edge]bool{}
	for _, e := range blocked {
		isBlocked[e] = true
	}
	// propositions worth tracking: initial ones and those tested at least twice
	count := map[string]int{}
	for _, b := range fn.Blocks {
		ifi := eng.IfOf(b)
		if ifi == nil {
			continue
		}
		v := ifi.Cond
		for {
			if u, ok := v.(*ssa.UnOp); ok && u.Op == token.NOT {
				v = u.X
				continue
			}
			break
		}
		if phi, ok := v.(*ssa.Phi); ok && phi.Block() == b {
			for _, e := range phi.Edges {
				k, _ := c14FactKey(e)
				count[k]++
			}
			continue
		}
		k, _ := c14FactKey(v)
		count[k]++
	}
	tracked := func(k string) bool {
		if _, ok := facts[k]; ok {
			return true
		}
		return count[k] >= 2 && !strings.HasPrefix(k, "c:")
	}
	ser := func(f map[string]bool) string {
		ks := make([]string, 0, len(f))
		for k, v := range f {
			if v {
				ks = append(ks, k+"=1")
			} else {
				ks = append(ks, k+"=0")
			}
		}
		sort.Strings(ks)
		return strings.Join(ks, "&")
	}
	type item struct {
		b     *ssa.BasicBlock
		ai    int // index of the arrival predecessor, -1 at the entry
		facts map[string]bool
		from  int
		note  string
	}
	trail := []item{{fn.Blocks[0], -1, facts, -1, "entry"}}
	seen := map[string]bool{}
	queue := []int{0}
	witness := func(i int, last string) []string {
		var w []string
		for j := i; j >= 0; j = trail[j].from {
			s := fmt.Sprintf("b%d", trail[j].b.Index)
			if trail[j].note != "" {
				s = trail[j].note + " -> " + s
			}
			w = append(w, s)
		}
		for l, r := 0, len(w)-1; l < r; l, r = l+1, r-1 {
			w[l], w[r] = w[r], w[l]
		}
		return append(w, last)
	}
	for len(queue) > 0 {
		if len(trail) > 200000 {
			return nil, true
		}
		cur := queue[0]
		queue = queue[1:]
		it := trail[cur]
		b := it.b
		fs := it.facts
		copied := false
		for _, in := range b.Instrs {
			if target(in) {
				return &c14WalkHit{in, witness(cur, "reaches "+eng.InstrStr(in))}, false
			}
			if st, ok := in.(*ssa.Store); ok {
				if fa, ok := st.Addr.(*ssa.FieldAddr); ok {
					if fv := eng.FieldVar(fa); fv != nil {
						tag := "." + fv.Name() + ";"
						for k := range fs {
							if strings.Contains(k, tag) {
								if !copied {
									nf := map[string]bool{}
									for kk, vv := range fs {
										nf[kk] = vv
									}
									fs, copied = nf, true
								}
								delete(fs, k)
							}
						}
					}
				}
			}
		}
		ifi := eng.IfOf(b)
		for si, succ := range b.Succs {
			if isBlocked[eng.Edge{From: b, Succ: si}] {
				continue
			}
			nf := fs
			note := ""
			if ifi != nil {
				v := ssa.Value(ifi.Cond)
				pol := true
				for {
					if u, ok := v.(*ssa.UnOp); ok && u.Op == token.NOT {
						pol = !pol
						v = u.X
						continue
					}
					break
				}
				if phi, ok := v.(*ssa.Phi); ok && phi.Block() == b && it.ai >= 0 && it.ai < len(phi.Edges) {
					v = phi.Edges[it.ai]
				}
				want := (si == 0) == pol // truth of v on this edge
				if k, ok := v.(*ssa.Const); ok && k.Value != nil && k.Value.Kind() == constant.Bool {
					if constant.BoolVal(k.Value) != want {
						continue
					}
				} else {
					key, kp := c14FactKey(v)
					prop := want == kp // truth of the proposition on this edge
					if have, ok := fs[key]; ok {
						if have != prop {
							continue
						}
					} else if tracked(key) {
						nf = map[string]bool{}
						for kk, vv := range fs {
							nf[kk] = vv
						}
						nf[key] = prop
					}
				}
				note = fmt.Sprintf("[%s]=%v", eng.Normalize(ifi.Cond).Base, (si == 0) == eng.Normalize(ifi.Cond).Pol)
			}
			ai := -1
			for pi, p := range succ.Preds {
				if p == b {
					ai = pi
					break
				}
			}
			key := fmt.Sprintf("%d|%d|%s", succ.Index, ai, ser(nf))
			if seen[key] {
				continue
			}
			seen[key] = true
			trail = append(trail, item{succ, ai, nf, cur, note})
			queue = append(queue, len(trail)-1)
		}
	}
	return nil, false
}

// c14MetadataCasRules: the handlers that rewrite the metadata record itself
// (metadata PUT and PATCH) persist it only behind an exact check-and-set on
// CurrentMetadataVersion whenever metadata_cas is supplied, and refuse a
// request without metadata_cas when the key OR the engine requires it.
func c14MetadataCasRules(c *eng.Ctx, fname string) {
	f := c.Fn(fname)
	if f == nil {
		return
	}
	gkm := eng.Calls(f, `^kv\.\(\*versionedKVBackend\)\.getKeyMetadata$`)
	wkm, _ := c14MetaWrites(f)
	cfg := eng.Calls(f, `^kv\.\(\*versionedKVBackend\)\.config$`)
	var casGet ssa.CallInstruction
	for _, g := range eng.Calls(f, `^framework\.\(\*FieldData\)\.GetOk$`) {
		if a := g.Common().Args; len(a) == 2 && eng.Expr(a[1]) == `"metadata_cas"` {
			casGet = g
		}
	}
	c.Clause("R2", "C14.2")
	nCas := 0
	if casGet != nil {
		nCas = 1
	}
	if !(c.Floor(f, "getKeyMetadata call", len(gkm), 1) && c.Floor(f, "writeKeyMetadata call", len(wkm), 1) &&
		c.Floor(f, "engine config read", len(cfg), 1) && c.Floor(f, "read of the metadata_cas option", nCas, 1)) {
		return
	}
	M, CFG := eng.ResultValue(gkm[0], 0), eng.ResultValue(cfg[0], 0)
	casVal, casOk := eng.ResultValue(casGet, 0), eng.ResultValue(casGet, 1)
	if M == nil || CFG == nil || casVal == nil || casOk == nil {
		c.Undecided(f, "metadata check-and-set", f.Pos(), "the metadata record, the engine config or the metadata_cas option/presence flag is not bound to a value: the rule cannot be evaluated")
		return
	}
	W := eng.AsInstrs(wkm)
	present, absent := eng.BoolEdges(casOk, true), eng.BoolEdges(casOk, false)
	metaNil, metaNonNil := eng.ValueNilEdges(M, true), eng.ValueNilEdges(M, false)
	isCas := func(v ssa.Value) bool {
		for {
			switch x := v.(type) {
			case *ssa.Convert:
				v = x.X
				continue
			case *ssa.ChangeType:
				v = x.X
				continue
			case *ssa.TypeAssert:
				v = x.X
				continue
			}
			break
		}
		return v == casVal
	}
	var eqCur, eqZero []eng.Edge
	for _, b := range f.Blocks {
		ifi := eng.IfOf(b)
		if ifi == nil {
			continue
		}
		nc := eng.Normalize(ifi.Cond)
		bo, ok := nc.Val.(*ssa.BinOp)
		if !ok || (bo.Op != token.EQL && bo.Op != token.NEQ) {
			continue
		}
		x, y := bo.X, bo.Y
		if isCas(y) {
			x, y = y, x
		}
		if !isCas(x) {
			continue
		}
		eqEdge := eng.Edge{From: b, Succ: 1}
		if nc.Pol {
			eqEdge.Succ = 0
		}
		if ld, base := c14LoadOfField(y, "CurrentMetadataVersion"); ld != nil && c14Same(base, M) {
			eqCur = append(eqCur, eqEdge)
		} else if k, ok := y.(*ssa.Const); ok && k.Value != nil && k.Value.Kind() == constant.Int && constant.Sign(k.Value) == 0 {
			eqZero = append(eqZero, eqEdge)
		}
	}
	site := "metadata write (existing key, metadata_cas supplied)"
	if len(eqCur) == 0 {
		c.Violation(f, "sink{"+site+"} guard{metadata_cas == meta.CurrentMetadataVersion}", wkm[0].Pos(), "guard absent: no branch compares the supplied metadata_cas for equality with CurrentMetadataVersion of the metadata read under the lock (an ordering test or a test against another record is not a check-and-set)", nil)
	} else {
		c.Cut(f, site, W, eng.Guard{Desc: "metadata_cas == meta.CurrentMetadataVersion OR metadata_cas absent OR no metadata yet", Edges: append(append(append([]eng.Edge{}, eqCur...), absent...), metaNil...)}, nil)
	}
	c.Cut(f, "metadata write (new key, metadata_cas supplied)", W, eng.Guard{Desc: "metadata_cas == 0 OR metadata_cas absent OR metadata exists", Edges: append(append(append([]eng.Edge{}, eqZero...), absent...), metaNonNil...)}, nil)
	if len(present) == 0 {
		c.Violation(f, "metadata_cas presence is tested", casGet.Pos(), "the presence flag of the metadata_cas option is never branched on", nil)
		return
	}
	// required = key OR engine: with either flag set, the write needs metadata_cas
	for _, r := range []struct {
		what  string
		facts map[string]bool
	}{
		{"the key's metadata_cas_required is set", map[string]bool{c14FieldKey(M, "MetadataCasRequired"): true, c14NilKey(M): false}},
		{"the engine's metadata_cas_required is set", map[string]bool{c14FieldKey(CFG, "MetadataCasRequired"): true}},
	} {
		site := "on{" + r.what + "} metadata write only with metadata_cas"
		h, exhausted := c14Walk(f, r.facts, present, eng.IsTarget(W))
		switch {
		case exhausted:
			c.Undecided(f, site, wkm[0].Pos(), "state bound reached while walking the handler; not decided")
		case h != nil:
			c.Violation(f, site, h.instr.Pos(), "although "+r.what+", the metadata record can be written by a request that carries no metadata_cas (check-and-set is required when the key OR the engine asks for it)", h.witness)
		default:
			c.OK(f, site, wkm[0].Pos(), "when "+r.what+", every path to writeKeyMetadata crosses the metadata_cas-present edge (phi-sensitive walk)")
		}
	}
}
