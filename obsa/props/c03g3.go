package props

// C03 rules added after round-4 seeds.

import (
	"golang.org/x/tools/go/ssa"

	"obsa/eng"
)

func runC03Gaps3(c *eng.Ctx) {
	c03gGlobTailOnlyLastSegment(c)
}

// C03.4 (seed C03-d): in the per-segment matcher of segment-wildcard patterns a
// literal pattern segment matches a request segment by equality; only the LAST
// segment of a pattern that ends in "*" may match by prefix, after which the
// rest of the request path is accepted wholesale. Structural form: the append
// that accepts the tail of the request path (pathParts[i:]) is reached only
// across (a) the pattern-is-a-prefix test, (b) "i is the last index of the
// pattern's segments" — the length compared is that of the split *pattern*, not
// of the request path — and (c) the HasPrefix test of the two segments.
func c03gGlobTailOnlyLastSegment(c *eng.Ctx) {
	f := c.Fn("policy.(*ACL).CheckAllowedFromNonExactPaths")
	if f == nil {
		return
	}
	c.Clause("R2", "C03.4")
	var tails []ssa.Instruction
	for _, cl := range eng.Calls(f, `^append$`) {
		args := cl.Common().Args
		if len(args) != 2 {
			continue
		}
		if sl, ok := args[1].(*ssa.Slice); ok && sl.Low != nil && sl.High == nil {
			// the tail of the split request path, not the single-element varargs slice
			if _, fromSplit := sl.X.(*ssa.Extract); fromSplit || eng.Expr(sl.X) == "strings.Split()" {
				tails = append(tails, cl)
			}
		}
	}
	if !c.Floor(f, "acceptance of the request path's tail (append(segments, pathParts[i:]...))", len(tails), 1) {
		return
	}
	c.Cut(f, "tail of the request path accepted", tails, eng.G(f, `pd\.isPrefix$`, true), nil)
	c.Cut(f, "tail of the request path accepted", tails,
		eng.GD(f, `^\(\(φrangeindex\{.*\}\) \+ 1\) == \(\(len\(strings\.Split\(φ?currWCPath.*, "/"\)\)\) - 1\)$`, true), nil)
	c.Cut(f, "tail of the request path accepted", tails, eng.G(f, `^strings\.HasPrefix\(\)$`, true), nil)
}
