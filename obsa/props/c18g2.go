package props

import (
	"go/constant"
	"go/token"
	"go/types"
	"regexp"
	"sort"
	"strings"

	"golang.org/x/tools/go/ssa"

	"obsa/eng"
)

// runC18Gaps2: second-tier mechanisms of C18 (clauses C18.6 .. C18.11): the
// visibility of a used-up token to the lookups the single use rests on, the
// decision to wrap (and its login / non-login siblings that turn a requested
// wrap TTL into WrapInfo), the creation path across a rewrap, the error legs
// of wrapInCubbyhole, the rewrap handler's promise to wrap again, and the
// built-in policy a wrapping token carries.
func runC18Gaps2(c *eng.Ctx) {
	c18UsedUpInvisible(c)
	c18WrapDecision(c)
	c18CreationPath(c)
	c18FailedWrapCleansUp(c)
	c18RewrapWrapsAgain(c)
	c18Policy(c)
	c18LookupNamespace(c)
	c18RewrapNamespace(c)
	c18RevokeByEntryID(c)
}

// ---------- C18.13 a rewrap consumes, reads and revokes in the wrapping token's namespace
// (the request context carries the CALLER's namespace: UseTokenByID finds the
// namespace from the id, but the cubbyhole mount and the salt revokeOrphan
// uses are the context's; unwrap and lookup switch, rewrap must as well)
func c18RewrapNamespace(c *eng.Ctx) {
	f := c.Fn("vault.(*SystemBackend).handleWrappingRewrap")
	if f == nil {
		return
	}
	c.Clause("R5", "C18.13")
	n := 0
	seen := map[*ssa.Call]bool{}
	for _, pat := range []string{`^vault\.\(\*TokenStore\)\.UseTokenByID$`, `^vault\.\(\*TokenStore\)\.revokeOrphan$`, `^routing\.\(\*Router\)\.Route$`} {
		for _, cl := range eng.Calls(f, pat) {
			n++
			ctxArg := cl.Common().Args[1]
			if !c.Prov(f, "context of "+eng.CalleeName(cl.Common())+" = the wrapping token's namespace", cl, ctxArg, `^call:namespace\.ContextWithNamespace$`) {
				continue
			}
			for _, o := range eng.Origins(ctxArg) {
				if cw, isCall := o.Val.(*ssa.Call); isCall && !seen[cw] {
					seen[cw] = true
					c.Prov(f, "namespace the rewrap context is switched to", cw, cw.Call.Args[1], `^call:vault\.\(\*Core\)\.NamespaceByID#0$`)
				}
			}
		}
	}
	c.Floor(f, "namespace-sensitive steps of the rewrap (UseTokenByID, revokeOrphan, two cubbyhole reads)", n, 4)
	for _, nb := range eng.Calls(f, `^vault\.\(\*Core\)\.NamespaceByID$`) {
		a := nb.Common().Args
		s := eng.Expr(a[len(a)-1])
		if strings.HasSuffix(s, ".NamespaceID") && strings.Contains(s, "lookupTainted()#0") {
			c.OK(f, "namespace looked up = the wrapping token's", nb.Pos(), s)
		} else {
			c.Violation(f, "namespace looked up = the wrapping token's", nb.Pos(), "NamespaceByID("+s+")", nil)
		}
	}
}

// ---------- C18.14 the revocation after a third-party unwrap / rewrap names the entry's own ID
// (revokeOrphan salts what it is given; the token named in a request body is
// in its external, signed form, which salts to nothing that is stored)
func c18RevokeByEntryID(c *eng.Ctx) {
	for _, fn := range []string{"vault.(*SystemBackend).handleWrappingRewrap", "vault.(*SystemBackend).responseWrappingUnwrap"} {
		f := c.Fn(fn)
		if f == nil {
			continue
		}
		c.Clause("R5", "C18.14")
		revs := c18CallsOf(f, c.P.Func("vault.(*TokenStore).revokeOrphan"))
		if !c.Floor(f, "revokeOrphan of the consumed wrapping token", len(revs), 1) {
			continue
		}
		for _, r := range revs {
			c.Prov(f, "token revoked after the payload was read = the looked-up entry's ID", r.At, r.Args[2],
				`^field:te\.ID$`, `^field:vault\.\(\*TokenStore\)\.lookupTainted\(\)#0\.ID$`)
		}
	}
}

// ---------- C18.12 lookup reads the wrap info in the wrapping token's namespace
func c18LookupNamespace(c *eng.Ctx) {
	f := c.Fn("vault.(*SystemBackend).handleWrappingLookup")
	if f == nil {
		return
	}
	c.Clause("R5", "C18.12")
	routes := eng.Calls(f, `^routing\.\(\*Router\)\.Route$`)
	if !c.Floor(f, "cubbyhole read", len(routes), 1) {
		return
	}
	for _, r := range routes {
		ctxArg := r.Common().Args[1]
		if !c.Prov(f, "wrap info is read in the wrapping token's namespace", r, ctxArg, `^call:namespace\.ContextWithNamespace$`) {
			continue
		}
		for _, o := range eng.Origins(ctxArg) {
			if cw, isCall := o.Val.(*ssa.Call); isCall {
				c.Prov(f, "namespace the lookup context is switched to", cw, cw.Call.Args[1], `^call:vault\.\(\*Core\)\.NamespaceByID#0$`)
			}
		}
	}
	for _, nb := range eng.Calls(f, `^vault\.\(\*Core\)\.NamespaceByID$`) {
		a := nb.Common().Args
		s := eng.Expr(a[len(a)-1])
		if strings.HasSuffix(s, ".NamespaceID") && strings.Contains(s, "lookupTainted()#0") {
			c.OK(f, "namespace looked up = the wrapping token's", nb.Pos(), s)
		} else {
			c.Violation(f, "namespace looked up = the wrapping token's", nb.Pos(), "NamespaceByID("+s+")", nil)
		}
	}
}

// ---------- C18.6 a token whose use was consumed is invisible to the re-read the decrement is made on
func c18UsedUpInvisible(c *eng.Ctx) {
	if f := c.Fn("vault.(*TokenStore).UseToken"); f != nil {
		c.Clause("R12", "C18.6")
		rr := eng.Calls(f, `vault\.\(\*TokenStore\)\.lookupInternal$`)
		if c.Floor(f, "locked re-read (lookupInternal)", len(rr), 1) {
			for _, l := range rr {
				a := l.Common().Args
				site := "const{lookupInternal(tainted=false)} for the locked re-read"
				if s := eng.Expr(a[len(a)-1]); s == "false" {
					c.OK(f, site, l.Pos(), "the re-read does not return an entry already marked used-up: the second of two racing unwraps finds nothing")
				} else {
					c.Violation(f, site, l.Pos(), "the re-read under the token lock is made with tainted="+s+": it also returns an entry whose last use was just consumed, which is then decremented again and handed back as usable", nil)
				}
			}
		}
	}
	if f := c.Fn("vault.(*TokenStore).lookupInternal"); f != nil {
		c.Clause("R2", "C18.6")
		var withEntry []ssa.Instruction
		for _, r := range eng.Returns(f) {
			if r.Block().Comment == "recover" || len(r.Results) == 0 || eng.AllNilThroughPhi(r.Results[0]) {
				continue
			}
			batch := false
			for _, o := range eng.Origins(r.Results[0]) {
				if o.Kind == "call" && strings.Contains(o.Desc, "lookupBatchToken") {
					batch = true
				}
			}
			if !batch {
				withEntry = append(withEntry, r)
			}
		}
		if c.Floor(f, "returns handing out the stored entry", len(withEntry), 2) {
			c.Cut(f, "stored entry returned", withEntry, eng.Or(eng.G(f, `\.NumUses < 0$`, false), eng.G(f, `^tainted$`, true)), nil)
		}
	}
}

// c18Conjuncts: for `x := a && b && ...; if x`, the tests a path must pass to
// take the true edge of the If in block b (whose condition is the && phi).
type c18Conjunct struct {
	nc   eng.NormCond
	want bool
	pos  token.Pos
}

func c18Conjuncts(ifb *ssa.BasicBlock) ([]c18Conjunct, bool) {
	ifi := eng.IfOf(ifb)
	if ifi == nil {
		return nil, false
	}
	phi, ok := ifi.Cond.(*ssa.Phi)
	if !ok || phi.Block() != ifb {
		return nil, false
	}
	var out []c18Conjunct
	for i, e := range phi.Edges {
		pred := ifb.Preds[i]
		if k, isConst := e.(*ssa.Const); isConst {
			if eng.Expr(k) != "false" {
				return nil, false // a disjunction: not the shape this rule decides
			}
			pi := eng.IfOf(pred)
			if pi == nil {
				return nil, false
			}
			nc := eng.Normalize(pi.Cond)
			// the conjunct holds on the successor that does NOT short-circuit to the phi
			want := nc.Pol
			if pred.Succs[0] == ifb {
				want = !nc.Pol
			}
			out = append(out, c18Conjunct{nc, want, pi.Pos()})
			continue
		}
		nc := eng.Normalize(e)
		out = append(out, c18Conjunct{nc, nc.Pol, e.Pos()})
	}
	return out, true
}

// ---------- C18.7 every response that carries a wrap TTL is wrapped
func c18WrapDecision(c *eng.Ctx) {
	if f := c.Fn("vault.(*Core).handleCancelableRequest"); f != nil {
		c.Clause("R2", "C18.7")
		wc := instrsOf(eng.Calls(f, `vault\.\(\*Core\)\.wrapInCubbyhole$`))
		site := "the decision to wrap tests nothing but the tabled facts"
		if c.Floor(f, "wrapInCubbyhole call", len(wc), 1) {
			// the If that decides: wrapInCubbyhole is reachable from its true edge only
			var decide *ssa.BasicBlock
			for _, b := range f.Blocks {
				ifi := eng.IfOf(b)
				if ifi == nil {
					continue
				}
				if phi, ok := ifi.Cond.(*ssa.Phi); !ok || phi.Block() != b {
					continue
				}
				t := eng.Reach(eng.Query{Fn: f, StartEdges: []eng.Edge{{From: b, Succ: 0}}, Target: eng.IsTarget(wc)})
				e := eng.Reach(eng.Query{Fn: f, StartEdges: []eng.Edge{{From: b, Succ: 1}}, Target: eng.IsTarget(wc)})
				if t != nil && e == nil {
					decide = b
				}
			}
			if decide == nil {
				c.Undecided(f, site, wc[0].Pos(), "no single conjunction decides whether wrapInCubbyhole runs (anchor moved?)")
			} else if cj, ok := c18Conjuncts(decide); !ok {
				c.Undecided(f, site, wc[0].Pos(), "the wrap decision is not a plain conjunction")
			} else {
				// fact tested -> value it must have for the response to be wrapped
				table := []struct {
					pat  string
					want bool
					what string
				}{
					{`^φresp\{.*\} == nil$`, false, "there is a response"},
					{`^φerr\{.*\} == nil$`, true, "the request did not fail"},
					{`^logical\.\(\*Response\)\.IsError\(\)$`, false, "the response is not an error response"},
					{`^φresp\{.*\}\.WrapInfo == nil$`, false, "wrap info present"},
					{`^φresp\{.*\}\.WrapInfo\.TTL == 0$`, false, "a wrap TTL is set"},
					{`^φresp\{.*\}\.WrapInfo\.Token == ""$`, true, "not wrapped already"},
				}
				seen := map[string]bool{}
				bad := ""
				for _, x := range cj {
					hit := false
					for _, t := range table {
						if x.nc.Matches(regexp.MustCompile(t.pat)) && x.want == t.want {
							hit = true
							seen[t.what] = true
						}
					}
					if !hit {
						bad = x.nc.Base + " == " + map[bool]string{true: "true", false: "false"}[x.want]
					}
				}
				switch {
				case bad != "":
					c.Violation(f, site, decide.Instrs[len(decide.Instrs)-1].Pos(), "a response with a wrap TTL is only wrapped if also ["+bad+"]: otherwise it is returned to the requester as it is", nil)
				case !seen["wrap info present"] || !seen["a wrap TTL is set"]:
					c.Undecided(f, site, wc[0].Pos(), "the wrap decision no longer tests resp.WrapInfo / resp.WrapInfo.TTL (anchor moved?)")
				default:
					c.OK(f, site, decide.Instrs[len(decide.Instrs)-1].Pos(), "wrapping ⇔ resp != nil ∧ err == nil ∧ !IsError ∧ WrapInfo != nil ∧ TTL != 0 ∧ Token == \"\"")
				}
			}
		}
	}
	// the two request handlers turn an effective wrap TTL into WrapInfo, whatever else the response holds
	for _, fn := range []string{"vault.(*Core).handleRequest", "vault.(*Core).handleLoginRequest"} {
		f := c.Fn(fn)
		if f == nil {
			continue
		}
		c.Clause("R4", "C18.7")
		var set []ssa.Instruction
		for _, st := range eng.Stores(f, `\.WrapInfo$`) {
			if a, ok := st.Val.(*ssa.Alloc); ok && len(eng.StructLitField(a, "TTL")) > 0 {
				set = append(set, st)
			}
		}
		if c.Floor(f, "resp.WrapInfo = &ResponseWrapInfo{TTL: wrapTTL, ...}", len(set), 1) {
			c.CleanupOnEdges(f, "an effective wrap TTL exists (wrapTTL > 0)", eng.CondEdges(f, `^0 < φwrapTTL\{.*\}$`, true), "resp.WrapInfo is set", set)
		}
	}
}

// ---------- C18.8 the creation path survives a rewrap
func c18CreationPath(c *eng.Ctx) {
	f := c.Fn("vault.(*Core).wrapInCubbyhole")
	if f == nil {
		return
	}
	c.Clause("R2", "C18.8")
	notRewrap := eng.G(f, `^req\.Path == "sys/wrapping/rewrap"$`, false)
	isRewrap := eng.G(f, `^req\.Path == "sys/wrapping/rewrap"$`, true)
	fromReq := func(v ssa.Value) bool {
		ok, _, _ := eng.OriginsMatch(v, `^field:req\.Path$`)
		return ok
	}
	for _, st := range eng.Stores(f, `^resp\.WrapInfo\.CreationPath$`) {
		if fromReq(st.Val) {
			c.Cut(f, "resp.WrapInfo.CreationPath = req.Path", []ssa.Instruction{st}, notRewrap, nil)
		}
	}
	var own, kept []ssa.Instruction
	for _, b := range f.Blocks {
		for _, in := range b.Instrs {
			mu, ok := in.(*ssa.MapUpdate)
			if !ok || eng.Expr(mu.Key) != `"creation_path"` {
				continue
			}
			if fromReq(mu.Value) {
				own = append(own, in)
			} else if ok, _, _ := eng.OriginsMatch(mu.Value, `^field:resp\.WrapInfo\.CreationPath$`); ok {
				kept = append(kept, in)
			} else {
				c.Violation(f, "stored creation_path", in.Pos(), "the creation path stored for lookup is "+eng.ExprDeep(mu.Value)+", neither the request path nor the path carried over by the rewrap", nil)
			}
		}
	}
	if c.Floor(f, `wrapinfo["creation_path"] = req.Path`, len(own), 1) {
		c.Cut(f, `stored creation_path = req.Path`, own, notRewrap, nil)
	}
	if c.Floor(f, `wrapinfo["creation_path"] = resp.WrapInfo.CreationPath`, len(kept), 1) {
		c.Cut(f, `stored creation_path = the path carried over`, kept, isRewrap, nil)
	}
}

// ---------- C18.9 a wrap that fails after the token was created leaves no token (and so no payload) behind
func c18FailedWrapCleansUp(c *eng.Ctx) {
	f := c.Fn("vault.(*Core).wrapInCubbyhole")
	if f == nil {
		return
	}
	c.Clause("R4", "C18.9")
	ct := eng.Calls(f, `vault\.\(\*Core\)\.CreateToken$`)
	rev := eng.Calls(f, `vault\.\(\*TokenStore\)\.revokeOrphan$`)
	if !c.Floor(f, "CreateToken call", len(ct), 1) || !c.Floor(f, "revokeOrphan calls on the failure legs", len(rev), 3) {
		return
	}
	for _, r := range rev {
		c.Prov(f, "token revoked on a failed wrap", r, r.Common().Args[2], `^field:&te\.ID$`)
	}
	failing := func(in ssa.Instruction) bool {
		r, ok := in.(*ssa.Return)
		if !ok || in.Block().Comment == "recover" {
			return false
		}
		for _, v := range r.Results {
			if !eng.AllNilThroughPhi(v) {
				return true
			}
		}
		return false
	}
	site := "after{CreateToken} every failing return revokes the wrapping token"
	if h := eng.Reach(eng.Query{Fn: f, StartEdges: eng.CallOKEdges(ct[0]), Barriers: instrsOf(rev), Target: failing}); h != nil {
		c.Violation(f, site, h.Instr.Pos(), "wrapInCubbyhole can fail after the wrapping token was created without revoking it: a token (and whatever was already written to its cubbyhole) is left with no lease to expire it", h.Witness)
	} else if len(eng.CallOKEdges(ct[0])) == 0 {
		c.Undecided(f, site, ct[0].Pos(), "no success edge found for CreateToken")
	} else {
		c.OK(f, site, ct[0].Pos(), "every return of an error / error response after CreateToken passes revokeOrphan(te.ID)")
	}
}

// ---------- C18.10 a rewrap hands the payload on wrapped, never in the clear
func c18RewrapWrapsAgain(c *eng.Ctx) {
	f := c.Fn("vault.(*SystemBackend).handleWrappingRewrap")
	if f == nil {
		return
	}
	c.Clause("R12", "C18.10")
	n := 0
	for _, b := range f.Blocks {
		for _, in := range b.Instrs {
			a, ok := in.(*ssa.Alloc)
			if !ok || !c18IsResponseAlloc(a) {
				continue
			}
			carries := false
			for _, d := range eng.StructLitField(a, "Data") {
				if refs := d.Referrers(); refs != nil {
					for _, r := range *refs {
						if mu, ok := r.(*ssa.MapUpdate); ok && eng.Expr(mu.Key) == `"response"` {
							carries = true
						}
					}
				}
			}
			if !carries {
				continue
			}
			n++
			site := "the response carrying the payload asks to be wrapped"
			wi := eng.StructLitField(a, "WrapInfo")
			if len(wi) == 0 {
				c.Violation(f, site, a.Pos(), "the rewrap response carries the old token's payload but no WrapInfo: it is returned to the caller in the clear", nil)
				continue
			}
			for _, w := range wi {
				lit, isLit := w.(*ssa.Alloc)
				if !isLit {
					c.Violation(f, site, a.Pos(), "WrapInfo of the rewrap response is "+eng.ExprDeep(w)+", not a literal that is always present: when it is nil the payload read out of the old token is returned in the clear", nil)
					continue
				}
				ttls := eng.StructLitField(lit, "TTL")
				if len(ttls) == 0 {
					c.Violation(f, site, a.Pos(), "WrapInfo of the rewrap response sets no TTL (a zero TTL means: do not wrap)", nil)
					continue
				}
				for _, t := range ttls {
					c.Prov(f, "wrap TTL of the rewrapped payload = the stored creation TTL", in, t, `json\.Number\)\.Int64#0$`)
				}
			}
		}
	}
	c.Floor(f, "responses carrying the payload", n, 1)
}

// c18IsResponseAlloc: a is a local logical.Response (safe for allocs of
// universe types such as error, which have no package).
func c18IsResponseAlloc(a *ssa.Alloc) bool {
	t := a.Type()
	if p, ok := t.Underlying().(*types.Pointer); ok {
		t = p.Elem()
	}
	n, ok := t.(*types.Named)
	return ok && n.Obj().Pkg() != nil && eng.Short(n.Obj().Pkg().Path()+"."+n.Obj().Name()) == "logical.Response"
}

// ---------- C18.11 the policy a wrapping token carries
func c18Policy(c *eng.Ctx) {
	c.Clause("R12", "C18.11")
	site := "const{policy.ResponseWrappingPolicy} grants exactly the payload read and the unwrap call"
	if txt, ok := c.P.ConstValue("policy.ResponseWrappingPolicy"); !ok {
		c.Unresolved("policy.ResponseWrappingPolicy")
	} else {
		want := map[string]string{"cubbyhole/response": "create,read", "sys/wrapping/unwrap": "update"}
		got := map[string]string{}
		stanza := regexp.MustCompile(`(?s)path\s+"([^"]*)"\s*\{(.*?)\}`)
		caps := regexp.MustCompile(`(?s)capabilities\s*=\s*\[(.*?)\]`)
		word := regexp.MustCompile(`"([^"]*)"`)
		for _, m := range stanza.FindAllStringSubmatch(txt, -1) {
			var cs []string
			if cm := caps.FindStringSubmatch(m[2]); cm != nil {
				for _, w := range word.FindAllStringSubmatch(cm[1], -1) {
					cs = append(cs, w[1])
				}
			}
			sort.Strings(cs)
			got[m[1]] = strings.Join(cs, ",")
		}
		bad := ""
		for p, cs := range got {
			if want[p] != cs {
				bad = `path "` + p + `" [` + cs + `]`
			}
		}
		for p := range want {
			if _, ok := got[p]; !ok {
				bad = `path "` + p + `" missing`
			}
		}
		if strings.Count(txt, "path") != len(got) {
			bad = "a path stanza that does not parse"
		}
		if bad != "" {
			c.Violation(nil, site, token.NoPos, "the built-in response-wrapping policy differs from the reviewed table ("+bad+"): a wrapping token grants something other than retrieving its payload", nil)
		} else {
			c.OK(nil, site, token.NoPos, `cubbyhole/response [create read], sys/wrapping/unwrap [update]`)
		}
	}
	name, okName := c.P.ConstValue("policy.ResponseWrappingPolicyName")
	site = "table{policy.immutablePolicies} contains the response-wrapping policy"
	if vals, _, ok := c.P.VarLitConsts("policy", "immutablePolicies"); !ok || !okName {
		c.Unresolved("policy.immutablePolicies")
	} else {
		found := false
		for _, v := range vals {
			if v == name {
				found = true
			}
		}
		if found {
			c.OK(nil, site, token.NoPos, "response-wrapping cannot be rewritten or deleted through the policy API")
		} else {
			c.Violation(nil, site, token.NoPos, "response-wrapping is not among the immutable policies: it can be rewritten through sys/policy, after which every wrapping token grants whatever was written", nil)
		}
	}
	// ... and the table is what SetPolicy refuses on
	if f := c.Fn("policy.(*Store).SetPolicy"); f != nil {
		c.Clause("R2", "C18.11")
		sinks := instrsOf(eng.Calls(f, `policy\.\(\*Store\)\.setPolicyInternal$`))
		if c.Floor(f, "setPolicyInternal call", len(sinks), 1) {
			c.Cut(f, "policy written", sinks, eng.GD(f, `^slices\.Contains(\[.*\])?\(policy\.immutablePolicies, `, false), nil)
		}
	}
}

// ---------------------------------------------------------------------------
// Sites selected by what they are rather than by how they are written.

// c18Site is a call of a target function that belongs to f: written in f
// directly, called in f through a method value bound in f (route := r.Route;
// route(...)), or written in a closure that f defers, where it is executed on
// every path of that closure (defer func() { _ = ts.revokeOrphan(...) }()).
type c18Site struct {
	Call ssa.CallInstruction // the call of the target itself
	At   ssa.Instruction     // the instruction of f that stands for it: the call, or the defer of the closure
	// Deferred: the target runs when f returns (defer target(...), or inside a
	// deferred closure).
	Deferred bool
	// Args are the call's arguments, receiver first. A free variable read inside
	// a deferred closure is replaced by the cell of f it is bound to (whose
	// origins are the values f stores into it).
	Args []ssa.Value
}

func c18ResolvesTo(call ssa.CallInstruction, target *ssa.Function) (ok bool, bound *ssa.MakeClosure) {
	g := call.Common().StaticCallee()
	if g == nil || target == nil {
		return false, nil
	}
	if g == target || g.Origin() == target {
		return true, nil
	}
	if g.Synthetic != "" && g.Object() != nil && g.Object() == target.Object() {
		mc, _ := call.Common().Value.(*ssa.MakeClosure)
		return true, mc
	}
	return false, nil
}

func c18CallsOf(f, target *ssa.Function) []c18Site {
	var out []c18Site
	if f == nil || target == nil {
		return nil
	}
	argsOf := func(call ssa.CallInstruction, bound *ssa.MakeClosure) []ssa.Value {
		a := call.Common().Args
		if bound != nil {
			// the receiver of a bound method value is the closure's only binding
			return append(append([]ssa.Value{}, bound.Bindings...), a...)
		}
		return append([]ssa.Value{}, a...)
	}
	for _, b := range f.Blocks {
		for _, in := range b.Instrs {
			ci, ok := in.(ssa.CallInstruction)
			if !ok {
				continue
			}
			if ok, bound := c18ResolvesTo(ci, target); ok {
				_, isDefer := ci.(*ssa.Defer)
				out = append(out, c18Site{Call: ci, At: ci, Deferred: isDefer, Args: argsOf(ci, bound)})
				continue
			}
			// a closure of f that f defers
			d, isDefer := ci.(*ssa.Defer)
			if !isDefer {
				continue
			}
			mc, ok := d.Call.Value.(*ssa.MakeClosure)
			if !ok {
				continue
			}
			cl, ok := mc.Fn.(*ssa.Function)
			if !ok || cl.Parent() != f {
				continue
			}
			for _, cb := range cl.Blocks {
				for _, cin := range cb.Instrs {
					cc, ok := cin.(*ssa.Call)
					if !ok {
						continue
					}
					ok, bound := c18ResolvesTo(cc, target)
					if !ok {
						continue
					}
					// executed whenever the closure runs
					if h := eng.Reach(eng.Query{Fn: cl, Barriers: []ssa.Instruction{cc}, Target: func(x ssa.Instruction) bool { _, r := x.(*ssa.Return); return r }}); h != nil {
						continue
					}
					args := argsOf(cc, bound)
					for i, a := range args {
						if u, ok := a.(*ssa.UnOp); ok && u.Op == token.MUL {
							if fv, ok := u.X.(*ssa.FreeVar); ok {
								for k, v := range cl.FreeVars {
									if v == fv && k < len(mc.Bindings) {
										args[i] = mc.Bindings[k]
									}
								}
							}
						}
					}
					out = append(out, c18Site{Call: cc, At: d, Deferred: true, Args: args})
				}
			}
		}
	}
	return out
}

func c18SiteInstrs(ss []c18Site) []ssa.Instruction {
	var out []ssa.Instruction
	for _, s := range ss {
		out = append(out, s.At)
	}
	return out
}

// c18G is eng.G extended to a condition that is first kept in a boolean
// variable: `ok := a != nil && f(a); if ok {...}` builds a boolean phi whose
// other incoming values are the constant false. Crossing the true edge of an If
// on such a phi implies that one of the non-constant incoming edges was taken;
// the edge is added to the guard when every such incoming edge either carries
// a value that is itself the wanted condition, or leaves a block that cannot be
// reached without crossing an edge of the guard (dually for `||` and the false
// edge). The description — and with it the obligation's key — stays eng.G's.
func c18G(f *ssa.Function, pat string, want bool) eng.Guard {
	g := eng.G(f, pat, want)
	re := regexp.MustCompile(pat)
	have := map[eng.Edge]bool{}
	for _, e := range g.Edges {
		have[e] = true
	}
	for changed := true; changed; {
		changed = false
		for _, b := range f.Blocks {
			ifi := eng.IfOf(b)
			if ifi == nil {
				continue
			}
			nc := eng.Normalize(ifi.Cond)
			phi, ok := nc.Val.(*ssa.Phi)
			if !ok {
				continue
			}
			// the branch on which the phi is true, and the one on which it is false
			for _, phiVal := range []bool{true, false} {
				edge := eng.Edge{From: b, Succ: 1}
				if phiVal == nc.Pol {
					edge.Succ = 0
				}
				if have[edge] {
					continue
				}
				implied, some := true, false
				for i, in := range phi.Edges {
					if cst, ok := in.(*ssa.Const); ok && cst.Value != nil && cst.Value.Kind() == constant.Bool {
						if constant.BoolVal(cst.Value) != phiVal {
							continue // this incoming edge gives the phi the other value
						}
						implied = false // the phi has this value without any test
						break
					}
					some = true
					vn := eng.Normalize(in)
					if vn.Matches(re) && (vn.Pol == want) == phiVal {
						continue // the incoming value is the wanted condition itself
					}
					pred := phi.Block().Preds[i]
					term := pred.Instrs[len(pred.Instrs)-1]
					if len(g.Edges) > 0 && eng.Reach(eng.Query{Fn: f, Blocked: g.Edges, Target: func(x ssa.Instruction) bool { return x == term }}) == nil {
						continue // that edge is only taken behind the guard
					}
					implied = false
					break
				}
				if implied && some {
					g.Edges = append(g.Edges, edge)
					have[edge] = true
					changed = true
				}
			}
		}
	}
	return g
}
