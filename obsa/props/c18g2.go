package props

import (
	"fmt"
	"go/constant"
	"go/token"
	"go/types"
	"regexp"
	"sort"
	"strings"

	"golang.org/x/tools/go/ssa"

	"obsa/eng"
)

// runC18Gaps2: second-tier mechanisms of C18 (clauses C18.6 .. C18.11): the
// visibility of a used-up token to the lookups the single use rests on, the
// decision to wrap (and its login / non-login siblings that turn a requested
// wrap TTL into WrapInfo), the creation path across a rewrap, the error legs
// of wrapInCubbyhole, the rewrap handler's promise to wrap again, and the
// built-in policy a wrapping token carries.
func runC18Gaps2(c *eng.Ctx) {
	c18UsedUpInvisible(c)
	c18WrapDecision(c)
	c18CreationPath(c)
	c18FailedWrapCleansUp(c)
	c18RewrapWrapsAgain(c)
	c18Policy(c)
	c18LookupNamespace(c)
	c18RewrapNamespace(c)
	c18RevokeByEntryID(c)
	c18Carrier(c)
}

// ---------- C18.13 a rewrap consumes, reads and revokes in the wrapping token's namespace
// (the request context carries the CALLER's namespace: UseTokenByID finds the
// namespace from the id, but the cubbyhole mount and the salt revokeOrphan
// uses are the context's; unwrap and lookup switch, rewrap must as well)
func c18RewrapNamespace(c *eng.Ctx) {
	f := c.Fn("vault.(*SystemBackend).handleWrappingRewrap")
	if f == nil {
		return
	}
	c.Clause("R5", "C18.13")
	n := 0
	seen := map[*ssa.Call]bool{}
	for _, pat := range []string{`^vault\.\(\*TokenStore\)\.UseTokenByID$`, `^vault\.\(\*TokenStore\)\.revokeOrphan$`, `^routing\.\(\*Router\)\.Route$`} {
		for _, cl := range c18Calls(f, pat) {
			n++
			for _, e := range cl.Effs {
				c18SwitchedCtx(c, f, "context of "+e.Call.Name+" = the wrapping token's namespace", "namespace the rewrap context is switched to", cl.At, e.Call.Args[1], e.Fr, seen)
			}
		}
	}
	c.Floor(f, "namespace-sensitive steps of the rewrap (UseTokenByID, revokeOrphan, two cubbyhole reads)", n, 4)
	c18NamespaceLookedUp(c, f)
}

// c18SwitchedCtx: the context handed to a namespace-sensitive step is the
// result of namespace.ContextWithNamespace on every path, and the namespace
// given to that call is NamespaceByID's result.
func c18SwitchedCtx(c *eng.Ctx, f *ssa.Function, site, nsSite string, at ssa.Instruction, ctxArg ssa.Value, fr *nfFrame, seen map[*ssa.Call]bool) bool {
	if !c18Prov(c, f, site, at, ctxArg, fr, `^call:namespace\.ContextWithNamespace$`) {
		return false
	}
	for _, o := range c18Origins(ctxArg, fr) {
		cw, isCall := o.Val.(*ssa.Call)
		if !isCall || (seen != nil && seen[cw]) {
			continue
		}
		if seen != nil {
			seen[cw] = true
		}
		a := nfCallOf(cw).Args
		c18Prov(c, f, nsSite, cw, a[len(a)-1], o.Fr, `^call:vault\.\(\*Core\)\.NamespaceByID#0$`)
	}
	return true
}

// c18NamespaceLookedUp: every NamespaceByID of f is given the NamespaceID field
// of the entry lookupTainted returned.
func c18NamespaceLookedUp(c *eng.Ctx, f *ssa.Function) {
	for _, nb := range c18Calls(f, `^vault\.\(\*Core\)\.NamespaceByID$`) {
		for _, e := range nb.Effs {
			a := e.Call.Args
			v, fr := c18Val(a[len(a)-1], e.Fr)
			s := eng.Expr(v)
			good := strings.HasSuffix(s, ".NamespaceID") && strings.Contains(s, "lookupTainted()#0")
			if base, isField := c18FieldLoad(v, "NamespaceID"); isField && !good {
				good, _, _ = c18OriginsMatch(base, fr, `^call:vault\.\(\*TokenStore\)\.lookupTainted#0$`)
			}
			if good {
				c.OK(f, "namespace looked up = the wrapping token's", nb.At.Pos(), s)
			} else {
				c.Violation(f, "namespace looked up = the wrapping token's", nb.At.Pos(), "NamespaceByID("+s+")", nil)
			}
		}
	}
}

// ---------- C18.14 the revocation after a third-party unwrap / rewrap names the entry's own ID
// (revokeOrphan salts what it is given; the token named in a request body is
// in its external, signed form, which salts to nothing that is stored)
func c18RevokeByEntryID(c *eng.Ctx) {
	for _, fn := range []string{"vault.(*SystemBackend).handleWrappingRewrap", "vault.(*SystemBackend).responseWrappingUnwrap"} {
		f := c.Fn(fn)
		if f == nil {
			continue
		}
		c.Clause("R5", "C18.14")
		revs := c18Calls(f, `^vault\.\(\*TokenStore\)\.revokeOrphan$`)
		if !c.Floor(f, "revokeOrphan of the consumed wrapping token", len(revs), 1) {
			continue
		}
		for _, r := range revs {
			for _, e := range r.Effs {
				c18Prov(c, f, "token revoked after the payload was read = the looked-up entry's ID", r.At, e.Call.Args[2], e.Fr,
					`^field:te\.ID$`, `^field:vault\.\(\*TokenStore\)\.lookupTainted\(\)#0\.ID$`)
			}
		}
	}
}

// ---------- C18.12 lookup reads the wrap info in the wrapping token's namespace
func c18LookupNamespace(c *eng.Ctx) {
	f := c.Fn("vault.(*SystemBackend).handleWrappingLookup")
	if f == nil {
		return
	}
	c.Clause("R5", "C18.12")
	routes := c18Calls(f, `^routing\.\(\*Router\)\.Route$`)
	if !c.Floor(f, "cubbyhole read", len(routes), 1) {
		return
	}
	for _, r := range routes {
		for _, e := range r.Effs {
			c18SwitchedCtx(c, f, "wrap info is read in the wrapping token's namespace", "namespace the lookup context is switched to", r.At, e.Call.Args[1], e.Fr, nil)
		}
	}
	c18NamespaceLookedUp(c, f)
}

// ---------- C18.6 a token whose use was consumed is invisible to the re-read the decrement is made on
func c18UsedUpInvisible(c *eng.Ctx) {
	if f := c.Fn("vault.(*TokenStore).UseToken"); f != nil {
		c.Clause("R12", "C18.6")
		var rr []nfEff
		for _, s := range c18Calls(f, `vault\.\(\*TokenStore\)\.lookupInternal$`) {
			rr = append(rr, s.Effs...)
		}
		if c.Floor(f, "locked re-read (lookupInternal)", len(rr), 1) {
			for _, le := range rr {
				l := le.Call.In
				a := le.Call.Args
				tainted, _ := c18Val(a[len(a)-1], le.Fr)
				site := "const{lookupInternal(tainted=false)} for the locked re-read"
				if s := eng.Expr(tainted); s == "false" {
					c.OK(f, site, l.Pos(), "the re-read does not return an entry already marked used-up: the second of two racing unwraps finds nothing")
				} else {
					c.Violation(f, site, l.Pos(), "the re-read under the token lock is made with tainted="+s+": it also returns an entry whose last use was just consumed, which is then decremented again and handed back as usable", nil)
				}
			}
		}
	}
	if f := c.Fn("vault.(*TokenStore).lookupInternal"); f != nil {
		c.Clause("R2", "C18.6")
		var withEntry []ssa.Instruction
		for _, r := range eng.Returns(f) {
			if r.Block().Comment == "recover" || len(r.Results) == 0 || eng.AllNilThroughPhi(r.Results[0]) {
				continue
			}
			batch := false
			for _, o := range eng.Origins(r.Results[0]) {
				if o.Kind == "call" && strings.Contains(o.Desc, "lookupBatchToken") {
					batch = true
				}
			}
			if !batch {
				withEntry = append(withEntry, r)
			}
		}
		if c.Floor(f, "returns handing out the stored entry", len(withEntry), 2) {
			c.Cut(f, "stored entry returned", withEntry, eng.Or(c18G(f, `\.NumUses < 0$`, false), c18G(f, `^tainted$`, true)), nil)
		}
	}
}

// c18Conjuncts: for `x := a && b && ...; if x`, the tests a path must pass to
// take the true edge of the If in block b (whose condition is the && phi).
type c18Conjunct struct {
	nc   eng.NormCond
	want bool
	pos  token.Pos
}

func c18Conjuncts(ifb *ssa.BasicBlock) ([]c18Conjunct, bool) {
	ifi := eng.IfOf(ifb)
	if ifi == nil {
		return nil, false
	}
	phi, ok := ifi.Cond.(*ssa.Phi)
	if !ok || phi.Block() != ifb {
		return nil, false
	}
	var out []c18Conjunct
	for i, e := range phi.Edges {
		pred := ifb.Preds[i]
		if k, isConst := e.(*ssa.Const); isConst {
			if eng.Expr(k) != "false" {
				return nil, false // a disjunction: not the shape this rule decides
			}
			pi := eng.IfOf(pred)
			if pi == nil {
				return nil, false
			}
			nc := eng.Normalize(pi.Cond)
			// the conjunct holds on the successor that does NOT short-circuit to the phi
			want := nc.Pol
			if pred.Succs[0] == ifb {
				want = !nc.Pol
			}
			out = append(out, c18Conjunct{nc, want, pi.Pos()})
			continue
		}
		nc := eng.Normalize(e)
		out = append(out, c18Conjunct{nc, nc.Pol, e.Pos()})
	}
	return out, true
}

// ---------- C18.7 every response that carries a wrap TTL is wrapped
func c18WrapDecision(c *eng.Ctx) {
	if f := c.Fn("vault.(*Core).handleCancelableRequest"); f != nil {
		c.Clause("R2", "C18.7")
		wc := c18Ats(c18Plain(c18Calls(f, `vault\.\(\*Core\)\.wrapInCubbyhole$`)))
		site := "the decision to wrap tests nothing but the tabled facts"
		if c.Floor(f, "wrapInCubbyhole call", len(wc), 1) {
			// the If that decides: wrapInCubbyhole is reachable from its true edge only
			var decide *ssa.BasicBlock
			for _, b := range f.Blocks {
				ifi := eng.IfOf(b)
				if ifi == nil {
					continue
				}
				if phi, ok := ifi.Cond.(*ssa.Phi); !ok || phi.Block() != b {
					continue
				}
				t := eng.Reach(eng.Query{Fn: f, StartEdges: []eng.Edge{{From: b, Succ: 0}}, Target: eng.IsTarget(wc)})
				e := eng.Reach(eng.Query{Fn: f, StartEdges: []eng.Edge{{From: b, Succ: 1}}, Target: eng.IsTarget(wc)})
				if t != nil && e == nil {
					decide = b
				}
			}
			if decide == nil {
				c.Undecided(f, site, wc[0].Pos(), "no single conjunction decides whether wrapInCubbyhole runs (anchor moved?)")
			} else if cj, ok := c18Conjuncts(decide); !ok {
				c.Undecided(f, site, wc[0].Pos(), "the wrap decision is not a plain conjunction")
			} else {
				// fact tested -> value it must have for the response to be wrapped
				table := []struct {
					pat  string
					want bool
					what string
				}{
					{`^φresp\{.*\} == nil$`, false, "there is a response"},
					{`^φerr\{.*\} == nil$`, true, "the request did not fail"},
					{`^logical\.\(\*Response\)\.IsError\(\)$`, false, "the response is not an error response"},
					{`^φresp\{.*\}\.WrapInfo == nil$`, false, "wrap info present"},
					{`^φresp\{.*\}\.WrapInfo\.TTL == 0$`, false, "a wrap TTL is set"},
					{`^φresp\{.*\}\.WrapInfo\.Token == ""$`, true, "not wrapped already"},
				}
				seen := map[string]bool{}
				bad := ""
				for _, x := range cj {
					hit := false
					for _, t := range table {
						if re := regexp.MustCompile(t.pat); (re.MatchString(c18Unbound(x.nc.Base)) || (x.nc.Alt != "" && re.MatchString(c18Unbound(x.nc.Alt)))) && x.want == t.want {
							hit = true
							seen[t.what] = true
						}
					}
					if !hit {
						bad = x.nc.Base + " == " + map[bool]string{true: "true", false: "false"}[x.want]
					}
				}
				switch {
				case bad != "":
					c.Violation(f, site, decide.Instrs[len(decide.Instrs)-1].Pos(), "a response with a wrap TTL is only wrapped if also ["+bad+"]: otherwise it is returned to the requester as it is", nil)
				case !seen["wrap info present"] || !seen["a wrap TTL is set"]:
					c.Undecided(f, site, wc[0].Pos(), "the wrap decision no longer tests resp.WrapInfo / resp.WrapInfo.TTL (anchor moved?)")
				default:
					c.OK(f, site, decide.Instrs[len(decide.Instrs)-1].Pos(), "wrapping ⇔ resp != nil ∧ err == nil ∧ !IsError ∧ WrapInfo != nil ∧ TTL != 0 ∧ Token == \"\"")
				}
			}
		}
	}
	// the two request handlers turn an effective wrap TTL into WrapInfo, whatever else the response holds
	for _, fn := range []string{"vault.(*Core).handleRequest", "vault.(*Core).handleLoginRequest"} {
		f := c.Fn(fn)
		if f == nil {
			continue
		}
		c.Clause("R4", "C18.7")
		var set []ssa.Instruction
		for _, st := range eng.Stores(f, `\.WrapInfo$`) {
			if a, ok := st.Val.(*ssa.Alloc); ok && len(eng.StructLitField(a, "TTL")) > 0 {
				set = append(set, st)
			}
		}
		if c.Floor(f, "resp.WrapInfo = &ResponseWrapInfo{TTL: wrapTTL, ...}", len(set), 1) {
			c.CleanupOnEdges(f, "an effective wrap TTL exists (wrapTTL > 0)", eng.CondEdges(f, `^0 < φwrapTTL\{.*\}$`, true), "resp.WrapInfo is set", set)
		}
	}
}

// ---------- C18.8 the creation path survives a rewrap
func c18CreationPath(c *eng.Ctx) {
	f := c.Fn("vault.(*Core).wrapInCubbyhole")
	if f == nil {
		return
	}
	c.Clause("R2", "C18.8")
	notRewrap := c18G(f, `^req\.Path == "sys/wrapping/rewrap"$`, false)
	isRewrap := c18G(f, `^req\.Path == "sys/wrapping/rewrap"$`, true)
	fromReq := func(v ssa.Value) bool {
		ok, _, _ := eng.OriginsMatch(v, `^field:req\.Path$`)
		return ok
	}
	for _, st := range eng.Stores(f, `^resp\.WrapInfo\.CreationPath$`) {
		if fromReq(st.Val) {
			c.Cut(f, "resp.WrapInfo.CreationPath = req.Path", []ssa.Instruction{st}, notRewrap, nil)
		}
	}
	var own, kept []ssa.Instruction
	for _, b := range f.Blocks {
		for _, in := range b.Instrs {
			mu, ok := in.(*ssa.MapUpdate)
			if !ok || eng.Expr(mu.Key) != `"creation_path"` {
				continue
			}
			if fromReq(mu.Value) {
				own = append(own, in)
			} else if ok, _, _ := eng.OriginsMatch(mu.Value, `^field:resp\.WrapInfo\.CreationPath$`); ok {
				kept = append(kept, in)
			} else {
				c.Violation(f, "stored creation_path", in.Pos(), "the creation path stored for lookup is "+eng.ExprDeep(mu.Value)+", neither the request path nor the path carried over by the rewrap", nil)
			}
		}
	}
	if c.Floor(f, `wrapinfo["creation_path"] = req.Path`, len(own), 1) {
		c.Cut(f, `stored creation_path = req.Path`, own, notRewrap, nil)
	}
	if c.Floor(f, `wrapinfo["creation_path"] = resp.WrapInfo.CreationPath`, len(kept), 1) {
		c.Cut(f, `stored creation_path = the path carried over`, kept, isRewrap, nil)
	}
}

// ---------- C18.9 a wrap that fails after the token was created leaves no token (and so no payload) behind
func c18FailedWrapCleansUp(c *eng.Ctx) {
	f := c.Fn("vault.(*Core).wrapInCubbyhole")
	if f == nil {
		return
	}
	c.Clause("R4", "C18.9")
	ct := c18Plain(c18Calls(f, `vault\.\(\*Core\)\.CreateToken$`))
	rev := c18Plain(c18Calls(f, `vault\.\(\*TokenStore\)\.revokeOrphan$`))
	if !c.Floor(f, "CreateToken call", len(ct), 1) || !c.Floor(f, "revokeOrphan calls on the failure legs", len(rev), 3) {
		return
	}
	for _, r := range rev {
		for _, e := range r.Effs {
			c18Prov(c, f, "token revoked on a failed wrap", r.At, e.Call.Args[2], e.Fr, `^field:&te\.ID$`)
		}
	}
	var created []eng.Edge
	if ct[0].Fwd {
		created = eng.CallOKEdges(ct[0].At.(ssa.CallInstruction))
	}
	failing := func(in ssa.Instruction) bool {
		r, ok := in.(*ssa.Return)
		if !ok || in.Block().Comment == "recover" {
			return false
		}
		for _, v := range r.Results {
			if !eng.AllNilThroughPhi(v) {
				return true
			}
		}
		return false
	}
	site := "after{CreateToken} every failing return revokes the wrapping token"
	if len(created) == 0 {
		c.Undecided(f, site, ct[0].At.Pos(), "no success edge found for CreateToken")
	} else if h := eng.Reach(eng.Query{Fn: f, StartEdges: created, Barriers: c18Ats(rev), Target: failing}); h != nil {
		c.Violation(f, site, h.Instr.Pos(), "wrapInCubbyhole can fail after the wrapping token was created without revoking it: a token (and whatever was already written to its cubbyhole) is left with no lease to expire it", h.Witness)
	} else {
		c.OK(f, site, ct[0].At.Pos(), "every return of an error / error response after CreateToken passes revokeOrphan(te.ID)")
	}
}

// ---------- C18.10 a rewrap hands the payload on wrapped, never in the clear
func c18RewrapWrapsAgain(c *eng.Ctx) {
	f := c.Fn("vault.(*SystemBackend).handleWrappingRewrap")
	if f == nil {
		return
	}
	c.Clause("R12", "C18.10")
	n := 0
	for _, b := range f.Blocks {
		for _, in := range b.Instrs {
			a, ok := in.(*ssa.Alloc)
			if !ok || !c18IsResponseAlloc(a) {
				continue
			}
			carries := false
			for _, d := range eng.StructLitField(a, "Data") {
				if refs := d.Referrers(); refs != nil {
					for _, r := range *refs {
						if mu, ok := r.(*ssa.MapUpdate); ok && eng.Expr(mu.Key) == `"response"` {
							carries = true
						}
					}
				}
			}
			if !carries {
				continue
			}
			n++
			site := "the response carrying the payload asks to be wrapped"
			wi := eng.StructLitField(a, "WrapInfo")
			if len(wi) == 0 {
				c.Violation(f, site, a.Pos(), "the rewrap response carries the old token's payload but no WrapInfo: it is returned to the caller in the clear", nil)
				continue
			}
			for _, w := range wi {
				lit, isLit := w.(*ssa.Alloc)
				if !isLit {
					c.Violation(f, site, a.Pos(), "WrapInfo of the rewrap response is "+eng.ExprDeep(w)+", not a literal that is always present: when it is nil the payload read out of the old token is returned in the clear", nil)
					continue
				}
				ttls := eng.StructLitField(lit, "TTL")
				if len(ttls) == 0 {
					c.Violation(f, site, a.Pos(), "WrapInfo of the rewrap response sets no TTL (a zero TTL means: do not wrap)", nil)
					continue
				}
				for _, t := range ttls {
					c.Prov(f, "wrap TTL of the rewrapped payload = the stored creation TTL", in, t, `json\.Number\)\.Int64#0$`)
				}
			}
		}
	}
	c.Floor(f, "responses carrying the payload", n, 1)
}

// c18IsResponseAlloc: a is a local logical.Response (safe for allocs of
// universe types such as error, which have no package).
func c18IsResponseAlloc(a *ssa.Alloc) bool {
	t := a.Type()
	if p, ok := t.Underlying().(*types.Pointer); ok {
		t = p.Elem()
	}
	n, ok := t.(*types.Named)
	return ok && n.Obj().Pkg() != nil && eng.Short(n.Obj().Pkg().Path()+"."+n.Obj().Name()) == "logical.Response"
}

// ---------- C18.11 the policy a wrapping token carries
func c18Policy(c *eng.Ctx) {
	c.Clause("R12", "C18.11")
	site := "const{policy.ResponseWrappingPolicy} grants exactly the payload read and the unwrap call"
	if txt, ok := c.P.ConstValue("policy.ResponseWrappingPolicy"); !ok {
		c.Unresolved("policy.ResponseWrappingPolicy")
	} else {
		want := map[string]string{"cubbyhole/response": "create,read", "sys/wrapping/unwrap": "update"}
		got := map[string]string{}
		stanza := regexp.MustCompile(`(?s)path\s+"([^"]*)"\s*\{(.*?)\}`)
		caps := regexp.MustCompile(`(?s)capabilities\s*=\s*\[(.*?)\]`)
		word := regexp.MustCompile(`"([^"]*)"`)
		for _, m := range stanza.FindAllStringSubmatch(txt, -1) {
			var cs []string
			if cm := caps.FindStringSubmatch(m[2]); cm != nil {
				for _, w := range word.FindAllStringSubmatch(cm[1], -1) {
					cs = append(cs, w[1])
				}
			}
			sort.Strings(cs)
			got[m[1]] = strings.Join(cs, ",")
		}
		bad := ""
		for p, cs := range got {
			if want[p] != cs {
				bad = `path "` + p + `" [` + cs + `]`
			}
		}
		for p := range want {
			if _, ok := got[p]; !ok {
				bad = `path "` + p + `" missing`
			}
		}
		if strings.Count(txt, "path") != len(got) {
			bad = "a path stanza that does not parse"
		}
		if bad != "" {
			c.Violation(nil, site, token.NoPos, "the built-in response-wrapping policy differs from the reviewed table ("+bad+"): a wrapping token grants something other than retrieving its payload", nil)
		} else {
			c.OK(nil, site, token.NoPos, `cubbyhole/response [create read], sys/wrapping/unwrap [update]`)
		}
	}
	name, okName := c.P.ConstValue("policy.ResponseWrappingPolicyName")
	site = "table{policy.immutablePolicies} contains the response-wrapping policy"
	if vals, _, ok := c.P.VarLitConsts("policy", "immutablePolicies"); !ok || !okName {
		c.Unresolved("policy.immutablePolicies")
	} else {
		found := false
		for _, v := range vals {
			if v == name {
				found = true
			}
		}
		if found {
			c.OK(nil, site, token.NoPos, "response-wrapping cannot be rewritten or deleted through the policy API")
		} else {
			c.Violation(nil, site, token.NoPos, "response-wrapping is not among the immutable policies: it can be rewritten through sys/policy, after which every wrapping token grants whatever was written", nil)
		}
	}
	// ... and the table is what SetPolicy refuses on
	if f := c.Fn("policy.(*Store).SetPolicy"); f != nil {
		c.Clause("R2", "C18.11")
		sinks := c18Ats(c18Plain(c18Calls(f, `policy\.\(\*Store\)\.setPolicyInternal$`)))
		if c.Floor(f, "setPolicyInternal call", len(sinks), 1) {
			c.Cut(f, "policy written", sinks, eng.GD(f, `^slices\.Contains(\[.*\])?\(policy\.immutablePolicies, `, false), nil)
		}
	}
}

// ---------------------------------------------------------------------------
// Sites selected by what they are rather than by how they are written. Built
// on the resolution helpers of c04follow.go (nfMust / nfOrigins): every C18
// rule that locates a call goes through c18Calls, every provenance test of an
// argument through c18Prov / c18OriginsMatch, every guard through c18G /
// c18GCallOK.

// c18Site is an instruction of f that stands for a call whose resolved callee
// matches a pattern: the call itself (written directly or through a bound
// method value), a call of a closure of f / of an unexported helper of the
// package that performs it on every path, or — Kind "defer" — the defer of the
// call, of such a closure or of such a helper. Effs are the calls of the target
// behind the site, each with the call chain that leads to it (so that an
// argument that is a parameter or a captured variable there can be followed
// back into f).
type c18Site struct {
	At   ssa.Instruction
	Kind string // "call", "defer", "go"
	Effs []nfEff
	// Fwd: the error result of At is the verdict of the target.
	Fwd bool
}

// Self: At is the call of the target itself (direct or through a method value).
func (s c18Site) Self() bool { return len(s.Effs) == 1 && s.Effs[0].Call.In == s.At }

func c18Calls(f *ssa.Function, pat string) []c18Site { return c18CallsIn(f, nil, pat) }

// c18CallsIn is c18Calls for a function that was itself entered through the
// call chain fr (a helper followed from the anchored function): arguments of
// the sites can then be followed back through the helper's parameters.
func c18CallsIn(f *ssa.Function, fr *nfFrame, pat string) []c18Site {
	if f == nil {
		return nil
	}
	is := nfNamed(pat)
	byAt := map[ssa.Instruction]nfSite{}
	for _, s := range nfMust(f, fr, is, 2) {
		byAt[s.At] = s
	}
	kindOf := func(in ssa.Instruction) string {
		switch in.(type) {
		case *ssa.Defer:
			return "defer"
		case *ssa.Go:
			return "go"
		}
		return "call"
	}
	var out []c18Site
	for _, ci := range nfAllCalls(f) {
		if s, ok := byAt[ci]; ok {
			out = append(out, c18Site{At: ci, Kind: kindOf(ci), Effs: s.Effs, Fwd: s.Fwd})
			continue
		}
		// a deferred closure / helper that performs the call on every path
		d, isDefer := ci.(*ssa.Defer)
		if !isDefer {
			continue
		}
		g := nfBody(d, f)
		if g == nil {
			continue
		}
		inner := nfMust(g, &nfFrame{call: d, up: fr}, is, 1)
		if len(inner) == 0 || eng.Reach(eng.Query{Fn: g, Barriers: nfAts(inner), Target: nfIsNormalReturn}) != nil {
			continue
		}
		out = append(out, c18Site{At: d, Kind: "defer", Effs: nfEffs(inner)})
	}
	return out
}

func c18Ats(ss []c18Site) []ssa.Instruction {
	var out []ssa.Instruction
	for _, s := range ss {
		out = append(out, s.At)
	}
	return out
}

// c18Plain keeps the sites that have happened when the instruction completes.
func c18Plain(ss []c18Site) []c18Site {
	var out []c18Site
	for _, s := range ss {
		if s.Kind == "call" {
			out = append(out, s)
		}
	}
	return out
}

// c18GCallOK is eng.GCallOK over resolved sites (same description, same key).
func c18GCallOK(f *ssa.Function, pat string) eng.Guard { return nfGCallOK(f, pat) }

// c18Val follows a value that is a parameter of a closure / helper to the
// argument passed for it, and a read of a captured or local variable that is
// assigned once to the value assigned — e.g. to the literal a request is built
// in, so that its fields can be looked at.
func c18Val(v ssa.Value, fr *nfFrame) (ssa.Value, *nfFrame) {
	for depth := 0; depth < 6 && v != nil; depth++ {
		nv, nfr := c18Step(v, fr)
		if nv == nil {
			break
		}
		v, fr = nv, nfr
	}
	return v, fr
}

var c18BoundRe = regexp.MustCompile(`closure:((?:[\w./\-]+|\(\*?[\w./\-\[\], ]+\))+)\$bound`)

// c18Unbound renders a call through a bound method value as the call of the
// method (closure:pkg.(*T).M$bound -> pkg.(*T).M).
func c18Unbound(s string) string {
	if !strings.Contains(s, "$bound") {
		return s
	}
	return c18BoundRe.ReplaceAllString(s, "$1")
}

// c18Origins: the origins of v (nfOrigins: across captured variables and the
// parameters of the call chain), with call origins named by their resolved
// callee.
func c18Origins(v ssa.Value, fr *nfFrame) []nfOriginF {
	os := nfOriginsF(v, fr)
	for i := range os {
		// a field read through a local alias / a captured variable of the entry
		// is the field of the value the variable holds
		if os[i].Kind == "field" {
			if ld, ok := os[i].Val.(*ssa.UnOp); ok {
				if fa, ok := ld.X.(*ssa.FieldAddr); ok {
					if d := c18FieldPath(fa, os[i].Fr); d != "" {
						os[i].Desc = d
					}
				}
			}
		}
		os[i].Desc = c18Unbound(os[i].Desc)
		// a field of a struct variable read inside a closure that captured the
		// variable (^te.ID) is the field of that variable (&te.ID)
		if os[i].Kind == "field" && strings.HasPrefix(os[i].Desc, "^") {
			if ld, ok := os[i].Val.(*ssa.UnOp); ok {
				base := ld.X
				for {
					fa, isFA := base.(*ssa.FieldAddr)
					if !isFA {
						break
					}
					base = fa.X
				}
				if fv, ok := base.(*ssa.FreeVar); ok && nfCellOf(fv) != nil {
					os[i].Desc = "&" + os[i].Desc[1:]
				}
			}
		}
	}
	return os
}

// c18OriginsMatch is eng.OriginsMatch over c18Origins.
func c18OriginsMatch(v ssa.Value, fr *nfFrame, allowed ...string) (bool, string, []string) {
	var res []*regexp.Regexp
	for _, a := range allowed {
		res = append(res, regexp.MustCompile(a))
	}
	var all []string
	okAll, bad := true, ""
	for _, o := range c18Origins(v, fr) {
		s := o.Kind + ":" + o.Desc
		all = append(all, s)
		ok := false
		for _, re := range res {
			if re.MatchString(s) {
				ok = true
				break
			}
		}
		if !ok && okAll {
			okAll, bad = false, s
		}
	}
	if len(all) == 0 {
		return false, "no origin", nil
	}
	return okAll, bad, all
}

// c18Prov is Ctx.Prov (same site, same key, same texts) over c18Origins.
func c18Prov(c *eng.Ctx, fn *ssa.Function, site string, at ssa.Instruction, v ssa.Value, fr *nfFrame, allowed ...string) bool {
	site = "prov{" + site + "}"
	if v == nil {
		c.Undecided(fn, site, token.NoPos, "value not found")
		return false
	}
	pos := token.NoPos
	if at != nil {
		pos = at.Pos()
	}
	ok, bad, all := c18OriginsMatch(v, fr, allowed...)
	if !ok {
		c.Violation(fn, site, pos, fmt.Sprintf("value may originate from %s; allowed origins: %v; all origins: %v", bad, allowed, all), nil)
		return false
	}
	c.OK(fn, site, pos, fmt.Sprintf("origins %v ⊆ allowed %v", all, allowed))
	return true
}

// c18G is eng.G extended to a condition that is first kept in a boolean
// variable: `ok := a != nil && f(a); if ok {...}` builds a boolean phi whose
// other incoming values are the constant false. Crossing the true edge of an If
// on such a phi implies that one of the non-constant incoming edges was taken;
// the edge is added to the guard when every such incoming edge either carries
// a value that is itself the wanted condition, or leaves a block that cannot be
// reached without crossing an edge of the guard (dually for `||` and the false
// edge). The description — and with it the obligation's key — stays eng.G's.
func c18G(f *ssa.Function, pat string, want bool) eng.Guard {
	re := regexp.MustCompile(pat)
	g := eng.Guard{Desc: fmt.Sprintf("[%s]=%v", pat, want)}
	matches := func(nc eng.NormCond) bool {
		return re.MatchString(c18Unbound(nc.Base)) || (nc.Alt != "" && re.MatchString(c18Unbound(nc.Alt)))
	}
	for _, b := range f.Blocks {
		if ifi := eng.IfOf(b); ifi != nil {
			if nc := eng.Normalize(ifi.Cond); matches(nc) {
				e := eng.Edge{From: b, Succ: 1}
				if nc.Pol == want {
					e.Succ = 0
				}
				g.Edges = append(g.Edges, e)
			}
		}
	}
	have := map[eng.Edge]bool{}
	for _, e := range g.Edges {
		have[e] = true
	}
	for changed := true; changed; {
		changed = false
		for _, b := range f.Blocks {
			ifi := eng.IfOf(b)
			if ifi == nil {
				continue
			}
			nc := eng.Normalize(ifi.Cond)
			phi, ok := nc.Val.(*ssa.Phi)
			if !ok {
				continue
			}
			// the branch on which the phi is true, and the one on which it is false
			for _, phiVal := range []bool{true, false} {
				edge := eng.Edge{From: b, Succ: 1}
				if phiVal == nc.Pol {
					edge.Succ = 0
				}
				if have[edge] {
					continue
				}
				implied, some := true, false
				for i, in := range phi.Edges {
					if cst, ok := in.(*ssa.Const); ok && cst.Value != nil && cst.Value.Kind() == constant.Bool {
						if constant.BoolVal(cst.Value) != phiVal {
							continue // this incoming edge gives the phi the other value
						}
						implied = false // the phi has this value without any test
						break
					}
					some = true
					vn := eng.Normalize(in)
					if matches(vn) && (vn.Pol == want) == phiVal {
						continue // the incoming value is the wanted condition itself
					}
					pred := phi.Block().Preds[i]
					term := pred.Instrs[len(pred.Instrs)-1]
					if len(g.Edges) > 0 && eng.Reach(eng.Query{Fn: f, Blocked: g.Edges, Target: func(x ssa.Instruction) bool { return x == term }}) == nil {
						continue // that edge is only taken behind the guard
					}
					implied = false
					break
				}
				if implied && some {
					g.Edges = append(g.Edges, edge)
					have[edge] = true
					changed = true
				}
			}
		}
	}
	return g
}

// c18MapRead: v is m[key] for the constant key (possibly through the comma-ok
// form, a type assertion or an interface conversion); returns m.
func c18MapRead(v ssa.Value, key string) (ssa.Value, bool) {
	for depth := 0; depth < 8 && v != nil; depth++ {
		switch x := v.(type) {
		case *ssa.Extract:
			v = x.Tuple
		case *ssa.TypeAssert:
			v = x.X
		case *ssa.ChangeInterface:
			v = x.X
		case *ssa.MakeInterface:
			v = x.X
		case *ssa.Lookup:
			if k, ok := x.Index.(*ssa.Const); ok && eng.Expr(k) == key {
				return x.X, true
			}
			return nil, false
		default:
			return nil, false
		}
	}
	return nil, false
}

// c18ResultOfSites: every origin of v is result idx of one of the sites — of
// the call itself, or of a closure / helper of which every normal return hands
// on result idx of the target call it performs.
func c18ResultOfSites(v ssa.Value, sites []c18Site, idx int) bool {
	os := eng.Origins(v)
	if len(os) == 0 {
		return false
	}
	for _, o := range os {
		var call *ssa.Call
		switch x := o.Val.(type) {
		case *ssa.Extract:
			if cl, ok := x.Tuple.(*ssa.Call); ok && x.Index == idx {
				call = cl
			}
		case *ssa.Call:
			if idx == 0 {
				call = x
			}
		}
		if call == nil {
			return false
		}
		ok := false
		for _, s := range sites {
			if s.At != ssa.Instruction(call) {
				continue
			}
			if s.Self() {
				ok = true
				break
			}
			g := nfBody(call, call.Parent())
			if g == nil {
				break
			}
			hands := true
			n := 0
			for _, r := range eng.Returns(g) {
				if r.Block().Comment == "recover" || idx >= len(r.Results) {
					continue
				}
				n++
				vals, _, escaped := eng.ReturnVals(r, idx)
				if escaped || len(vals) == 0 {
					hands = false
				}
				for _, rv := range vals {
					is := false
					for _, e := range s.Effs {
						if e.Fn == g && rv != nil && rv == eng.ResultValue(e.Call.In, idx) {
							is = true
						}
					}
					if !is {
						hands = false
					}
				}
			}
			ok = hands && n > 0
			break
		}
		if !ok {
			return false
		}
	}
	return true
}

// c18FieldVal is a value stored into a field, with the call chain of the
// function the store stands in.
type c18FieldVal struct {
	V  ssa.Value
	Fr *nfFrame
}

// c18LitField: the values stored into field `name` of the struct v points to —
// eng.StructLitField at every hop of c18Val, so that a store made through the
// parameter of a forwarding closure / helper counts as well as the literal the
// caller built.
func c18LitField(v ssa.Value, fr *nfFrame, name string) []c18FieldVal {
	var out []c18FieldVal
	for depth := 0; depth < 6 && v != nil; depth++ {
		for _, x := range eng.StructLitField(v, name) {
			out = append(out, c18FieldVal{x, fr})
		}
		nv, nfr := c18Step(v, fr)
		if nv == nil {
			break
		}
		v, fr = nv, nfr
	}
	return out
}

// c18Step is one hop of c18Val (nil: no further hop).
func c18Step(v ssa.Value, fr *nfFrame) (ssa.Value, *nfFrame) {
	switch x := v.(type) {
	case *ssa.Parameter:
		if fr == nil {
			return nil, nil
		}
		if a := nfArgFor(fr.call, x); a != nil {
			return a, fr.up
		}
	case *ssa.UnOp:
		if x.Op == token.MUL {
			if _, isFA := x.X.(*ssa.FieldAddr); !isFA {
				if cell := nfCellOf(x.X); cell != nil {
					if vals := nfStoresTo(cell); len(vals) == 1 {
						if fr != nil && fr.call != nil && nfValueFn(vals[0]) == fr.call.Parent() {
							fr = fr.up
						}
						return vals[0], fr
					}
				}
			}
		}
	}
	return nil, nil
}

// c18FieldPath renders x.f1.f2 with the variable x replaced by the value it
// holds, when x is a (captured) local that is assigned once; "" otherwise.
func c18FieldPath(fa *ssa.FieldAddr, fr *nfFrame) string {
	var names []string
	var base ssa.Value = fa
	for {
		a, ok := base.(*ssa.FieldAddr)
		if !ok {
			break
		}
		if fv := eng.FieldVar(a); fv != nil {
			names = append([]string{fv.Name()}, names...)
		} else {
			return ""
		}
		base = a.X
	}
	rb, _ := c18Val(base, fr)
	if rb == nil || rb == base {
		return ""
	}
	return eng.Expr(rb) + "." + strings.Join(names, ".")
}

// ---------- C18.15 what wrapInCubbyhole reads out of resp.WrapInfo reaches it
//
// The WrapInfo of a backend's response travels to wrapInCubbyhole through a
// chain of rebuilds: handleRequest and handleLoginRequest replace it by a fresh
// literal ("no wrap info other than, possibly, the TTL"), and a rewrap hands the
// old token's stored creation path on in exactly that structure. Writer / reader
// agreement along the chain, by field identity:
//   - reader: the fields of the structure wrapInCubbyhole loads through
//     resp.WrapInfo, and — for those it loads only on the rewrap arm and files
//     under a constant key of the stored wrap info — the (field, key) pair;
//   - carriers: every rebuild literal assigned to a response's WrapInfo in
//     handleRequest / handleLoginRequest sets each of those fields, from (among
//     others) the same field of the WrapInfo it replaces;
//   - producer: handleWrappingRewrap's WrapInfo literal sets each rewrap-arm
//     field from the stored wrap info's entry under the paired key.
//
// (Seed C18-g dropped CreationPath from handleRequest's rebuild: a rewrapped
// token's stored creation_path became "".)
func c18Carrier(c *eng.Ctx) {
	wiField := c.P.Field("logical.Response.WrapInfo")
	if wiField == nil {
		c.Unresolved("logical.Response.WrapInfo")
		return
	}
	wiType := wiField.Type()
	if p, ok := wiType.Underlying().(*types.Pointer); ok {
		wiType = p.Elem()
	}
	wiStruct, _ := wiType.Underlying().(*types.Struct)
	if wiStruct == nil {
		c.Unresolved("the structure of logical.Response.WrapInfo")
		return
	}
	fieldIdx := map[*types.Var]int{}
	for i := 0; i < wiStruct.NumFields(); i++ {
		fieldIdx[wiStruct.Field(i)] = i
	}
	wiFieldOf := func(fa *ssa.FieldAddr) *types.Var {
		fv := eng.FieldVar(fa)
		if fv == nil {
			return nil
		}
		if _, ok := fieldIdx[fv]; ok {
			return fv
		}
		if _, ok := fieldIdx[fv.Origin()]; ok {
			return fv.Origin()
		}
		return nil
	}
	// v reads field F of a response's WrapInfo structure
	readOf := func(v ssa.Value) (*types.Var, *ssa.FieldAddr) {
		ld, ok := v.(*ssa.UnOp)
		if !ok || ld.Op != token.MUL {
			return nil, nil
		}
		fa, ok := ld.X.(*ssa.FieldAddr)
		if !ok {
			return nil, nil
		}
		return wiFieldOf(fa), fa
	}
	isWIAlloc := func(v ssa.Value) (*ssa.Alloc, bool) {
		a, ok := v.(*ssa.Alloc)
		if !ok {
			return nil, false
		}
		t := a.Type()
		if p, ok := t.Underlying().(*types.Pointer); ok {
			t = p.Elem()
		}
		return a, types.Identical(t, wiType)
	}
	sameVar := func(a, b *types.Var) bool {
		return a != nil && b != nil && (a == b || a.Origin() == b || a == b.Origin())
	}

	// ---- reader
	cons := c.Fn("vault.(*Core).wrapInCubbyhole")
	if cons == nil {
		return
	}
	c.Clause("R6", "C18.15")
	reads := map[*types.Var][]*ssa.UnOp{}
	var order []*types.Var
	for _, in := range eng.Instrs(cons, func(in ssa.Instruction) bool { _, ok := in.(*ssa.UnOp); return ok }) {
		ld := in.(*ssa.UnOp)
		fv, fa := readOf(ld)
		if fv == nil {
			continue
		}
		// through resp.WrapInfo: the structure is read out of a response's WrapInfo field
		through := false
		for _, o := range eng.Origins(fa.X) {
			if b, ok := o.Val.(*ssa.UnOp); ok {
				if bfa, ok := b.X.(*ssa.FieldAddr); ok && sameVar(eng.FieldVar(bfa), wiField) {
					through = true
					continue
				}
			}
			through = false
			break
		}
		if !through {
			continue
		}
		if reads[fv] == nil {
			order = append(order, fv)
		}
		reads[fv] = append(reads[fv], ld)
	}
	sort.Slice(order, func(i, j int) bool { return fieldIdx[order[i]] < fieldIdx[order[j]] })
	if !c.Floor(cons, "fields wrapInCubbyhole reads out of resp.WrapInfo", len(order), 1) {
		return
	}
	// the rewrap arm: fields loaded only behind "this is a rewrap", and the key they are filed under
	rewrap := c18G(cons, `^req\.Path == "sys/wrapping/rewrap"$`, true)
	type pair struct {
		f   *types.Var
		key string
	}
	var pairs []pair
	for _, fv := range order {
		for _, ld := range reads[fv] {
			if len(rewrap.Edges) == 0 || eng.Reach(eng.Query{Fn: cons, Blocked: rewrap.Edges, Target: func(x ssa.Instruction) bool { return x == ssa.Instruction(ld) }}) != nil {
				continue
			}
			for _, in := range eng.Instrs(cons, func(in ssa.Instruction) bool { _, ok := in.(*ssa.MapUpdate); return ok }) {
				mu := in.(*ssa.MapUpdate)
				k, isConst := mu.Key.(*ssa.Const)
				if !isConst {
					if mi, ok := mu.Key.(*ssa.MakeInterface); ok {
						k, isConst = mi.X.(*ssa.Const)
					}
				}
				if !isConst {
					continue
				}
				for _, o := range eng.Origins(mu.Value) {
					if o.Val == ssa.Value(ld) {
						pairs = append(pairs, pair{fv, eng.Expr(k)})
					}
				}
			}
		}
	}
	c.Floor(cons, "fields read on the rewrap arm and filed in the stored wrap info (CreationPath -> \"creation_path\")", len(pairs), 1)
	var names []string
	for _, fv := range order {
		names = append(names, fv.Name())
	}
	c.OK(cons, "fields read out of the inbound WrapInfo", cons.Pos(), strings.Join(names, ", "))

	// ---- carriers
	for _, fn := range []string{"vault.(*Core).handleRequest", "vault.(*Core).handleLoginRequest"} {
		f := c.Fn(fn)
		if f == nil {
			continue
		}
		c.Clause("R6", "C18.15")
		var lits []*ssa.Alloc
		var at []ssa.Instruction
		for _, in := range eng.Instrs(f, func(in ssa.Instruction) bool { _, ok := in.(*ssa.Store); return ok }) {
			st := in.(*ssa.Store)
			fa, ok := st.Addr.(*ssa.FieldAddr)
			if !ok || !sameVar(eng.FieldVar(fa), wiField) {
				continue
			}
			if a, ok := isWIAlloc(st.Val); ok {
				lits = append(lits, a)
				at = append(at, st)
			}
		}
		if !c.Floor(f, "rebuild of the response's WrapInfo (fresh literal)", len(lits), 1) {
			continue
		}
		for i, lit := range lits {
			for _, fv := range order {
				site := "the rebuilt WrapInfo carries " + fv.Name()
				vals := eng.StructLitField(lit, fv.Name())
				if len(vals) == 0 {
					c.Violation(f, site, at[i].Pos(), "wrapInCubbyhole reads resp.WrapInfo."+fv.Name()+", but the WrapInfo this function rebuilds for the response does not set it: whatever the backend (a rewrap: the old token's creation path) put there is lost before it is wrapped", nil)
					continue
				}
				ok := true
				for _, v := range vals {
					copied := false
					os, opaque := c18OriginsThroughHelpers(v, f)
					for _, o := range os {
						if g, _ := readOf(o.Val); sameVar(g, fv) {
							copied = true
						}
					}
					switch {
					case copied:
					case opaque:
						ok = false
						c.Undecided(f, site, at[i].Pos(), "the rebuilt WrapInfo sets "+fv.Name()+" to a value computed by a call that is not followed ("+eng.Expr(v)+"): whether the "+fv.Name()+" of the WrapInfo it replaces is among its sources cannot be evaluated")
					default:
						ok = false
						c.Violation(f, site, at[i].Pos(), "the rebuilt WrapInfo sets "+fv.Name()+" to "+eng.ExprDeep(v)+", never to the "+fv.Name()+" of the WrapInfo it replaces", nil)
					}
				}
				if ok {
					c.OK(f, site, at[i].Pos(), fv.Name()+" is copied from the WrapInfo that is replaced")
				}
			}
		}
	}

	// ---- producer
	if f := c.Fn("vault.(*SystemBackend).handleWrappingRewrap"); f != nil && len(pairs) > 0 {
		c.Clause("R5", "C18.15")
		routes := c18Plain(c18Calls(f, `routing\.\(\*Router\)\.Route$`))
		var lits []*ssa.Alloc
		for _, in := range eng.Instrs(f, func(in ssa.Instruction) bool { _, ok := in.(*ssa.Alloc); return ok }) {
			if a, ok := isWIAlloc(in.(*ssa.Alloc)); ok {
				lits = append(lits, a)
			}
		}
		if c.Floor(f, "WrapInfo literal of the rewrap response", len(lits), 1) {
			for _, lit := range lits {
				for _, p := range pairs {
					site := "the rewrap response carries the stored " + p.key + " in WrapInfo." + p.f.Name()
					vals := eng.StructLitField(lit, p.f.Name())
					if len(vals) == 0 {
						c.Violation(f, site, lit.Pos(), "wrapInCubbyhole files resp.WrapInfo."+p.f.Name()+" as "+p.key+" of a rewrapped token, but the rewrap response does not set it", nil)
						continue
					}
					for _, v := range vals {
						src, keyed := c18MapRead(v, p.key)
						from := false
						if keyed {
							if base, isData := c18FieldLoad(src, "Data"); isData {
								from = c18ResultOfSites(base, routes, 0)
							}
						}
						switch {
						case from:
							c.OK(f, site, lit.Pos(), "read from the old token's stored wrap info: "+eng.ExprDeep(v))
						case keyed:
							c.Undecided(f, site, lit.Pos(), p.key+" is read out of a map that could not be traced to the response of a cubbyhole read ("+eng.ExprDeep(v)+"): the rule cannot be evaluated")
						default:
							c.Violation(f, site, lit.Pos(), "WrapInfo."+p.f.Name()+" of the rewrap response is "+eng.ExprDeep(v)+", not the "+p.key+" stored with the old token", nil)
						}
					}
				}
			}
		}
	}
}

// c18WithHelpers extends a who-may-call table: a function that is not tabled,
// is never used as a function value and is called only by tabled functions (or
// by such helpers) is a piece of its callers — a block extracted into a helper —
// and holds their role. Fixpoint over the sites' functions.
func c18WithHelpers(c *eng.Ctx, sites []eng.CallSite, allowed map[string]string) map[string]string {
	out := map[string]string{}
	for k, v := range allowed {
		out[k] = v
	}
	for changed := true; changed; {
		changed = false
		for _, s := range sites {
			n := eng.FuncName(eng.TopFunc(s.Fn))
			if _, ok := out[n]; ok {
				continue
			}
			m, miss := c.P.StaticCallee(n)
			if len(miss) > 0 || len(c.P.FuncValueUses(n)) > 0 {
				continue
			}
			callers := c.P.FindCalls(m, nil)
			ok := len(callers) > 0
			var roles []string
			seen := map[string]bool{}
			for _, k := range callers {
				cn := eng.FuncName(eng.TopFunc(k.Fn))
				role, tabled := out[cn]
				if !tabled {
					ok = false
					break
				}
				if !seen[cn] {
					seen[cn] = true
					roles = append(roles, cn+": "+role)
				}
			}
			if ok {
				sort.Strings(roles)
				out[n] = "called only by " + strings.Join(roles, "; ")
				changed = true
			}
		}
	}
	return out
}

// c18OriginsThroughHelpers: eng.Origins continued through the results of
// functions of the same package / closures of f that merely compute a value
// from their arguments (a merge of two settings extracted into a helper): the
// result of such a call originates from whatever its returns hand back, the
// helper's parameters being followed to the arguments of that call. opaque:
// some origin is the result of a call that could not be followed.
func c18OriginsThroughHelpers(v ssa.Value, f *ssa.Function) (out []eng.Origin, opaque bool) {
	type item struct {
		o     eng.Origin
		depth int
	}
	var work []item
	for _, o := range eng.Origins(v) {
		work = append(work, item{o, 0})
	}
	seen := map[ssa.Value]bool{}
	for len(work) > 0 {
		it := work[0]
		work = work[1:]
		if it.o.Val == nil || seen[it.o.Val] {
			continue
		}
		seen[it.o.Val] = true
		if it.o.Kind != "call" {
			out = append(out, it.o)
			continue
		}
		var cl *ssa.Call
		idx := 0
		switch x := it.o.Val.(type) {
		case *ssa.Extract:
			cl, _ = x.Tuple.(*ssa.Call)
			idx = x.Index
		case *ssa.Call:
			cl = x
		}
		var g *ssa.Function
		if cl != nil && it.depth < 3 {
			g = nfBody(cl, f)
		}
		if g == nil {
			opaque = true
			out = append(out, it.o)
			continue
		}
		for _, r := range eng.Returns(g) {
			if r.Block().Comment == "recover" || idx >= len(r.Results) {
				continue
			}
			vals, _, escaped := eng.ReturnVals(r, idx)
			if escaped {
				opaque = true
			}
			for _, rv := range vals {
				for _, oo := range nfOriginsF(rv, &nfFrame{call: cl}) {
					work = append(work, item{oo.Origin, it.depth + 1})
				}
			}
		}
	}
	return out, opaque
}
