package props

import (
	"go/token"
	"go/types"
	"sort"
	"strings"

	"golang.org/x/tools/go/ssa"

	"obsa/eng"
)

// runC11Gaps2: second-tier mechanisms of C11 (helpers, sibling stacks, error
// legs, exemption-list plumbing, device family) that the first-tier rules do
// not reach.
func runC11Gaps2(c *eng.Ctx) {
	c11gHashMapForwards(c)
	c11gWalkerStacks(c)
	c11gNoWriteAfterHash(c)
	c11gExemptionLists(c)
	c11gCachePublishedAfterConfigChange(c)
	c11gResponseFrozenAfterAudit(c)
	c11gApplyConfig(c)
	c11gBearerScrub(c)
	c11gDevices(c)
}

// ---------- C11.5 hashMap hands on the very map, callback and exemption list it was given
func c11gHashMapForwards(c *eng.Ctx) {
	f := c.Fn("audit.hashMap")
	if f == nil {
		return
	}
	c.Clause("R5", "C11.5")
	hs := eng.Calls(f, `^audit\.HashStructure$`)
	if !c.Floor(f, "HashStructure call in hashMap", len(hs), 1) {
		return
	}
	for _, h := range hs {
		a := h.Common().Args
		// the parameter itself: a clone, a nil or a literal has another origin
		c.Prov(f, "structure hashMap hands to HashStructure", h, a[0], `^param:data$`)
		c.Prov(f, "callback hashMap hands to HashStructure", h, a[1], `^param:fn$`)
		c.Prov(f, "exemption list hashMap hands to HashStructure", h, a[2], `^param:nonHMACDataKeys$`)
	}
	for _, r := range eng.Returns(f) {
		c.Prov(f, "hashMap result", r, r.Results[0], `^call:audit\.HashStructure$`)
	}
}

// ---------- C11.5 the walker's container / index stacks stay aligned: the write-back
// target is w.cs[top] at w.csKey[len(w.cs)-1], so every Exit must pop what the
// matching Map/Slice/MapElem/SliceElem pushed
func c11gWalkerStacks(c *eng.Ctx) {
	ex := c.Fn("audit.(*hashWalker).Exit")
	if ex == nil {
		return
	}
	rw := "github.com/mitchellh/reflectwalk"
	type leg struct{ loc, field string }
	legs := []leg{{"Map", "cs"}, {"Slice", "cs"}, {"MapValue", "csKey"}, {"SliceElem", "csKey"}}
	for _, l := range legs {
		c.Clause("R4", "C11.5")
		k, ok := c.P.ImportedConst("audit", rw, l.loc)
		if !ok {
			c.Unresolved("reflectwalk." + l.loc)
			continue
		}
		var pops []ssa.Instruction
		for _, st := range eng.Stores(ex, `^w\.`+l.field+`$`) {
			if c11gIsPopOf(st, l.field) {
				pops = append(pops, st)
			}
		}
		c.CleanupOnEdges(ex, "leaving a "+l.loc, eng.CondEdges(ex, `^loc == `+k+`$`, true), "pop of w."+l.field, pops)
	}
	// pushes
	for _, p := range []struct{ fn, field string }{
		{"audit.(*hashWalker).Map", "cs"}, {"audit.(*hashWalker).Slice", "cs"},
		{"audit.(*hashWalker).MapElem", "csKey"}, {"audit.(*hashWalker).SliceElem", "csKey"},
	} {
		f := c.Fn(p.fn)
		if f == nil {
			continue
		}
		c.Clause("R3", "C11.5")
		var push []ssa.Instruction
		for _, st := range eng.Stores(f, `^w\.`+p.field+`$`) {
			if ok, _, _ := eng.OriginsMatch(st.Val, `^call:append$`); ok {
				push = append(push, st)
			}
		}
		c.Before(f, "push on w."+p.field, push, "accepting return", eng.SuccessReturns(f, 0))
	}
	// writers of the two stacks
	c.Clause("R6", "C11.5")
	for field, allowed := range map[string]map[string]bool{
		"cs":    {"audit.(*hashWalker).Map": true, "audit.(*hashWalker).Slice": true, "audit.(*hashWalker).Exit": true},
		"csKey": {"audit.(*hashWalker).MapElem": true, "audit.(*hashWalker).SliceElem": true, "audit.(*hashWalker).Exit": true},
	} {
		fv := c.P.Field("audit.hashWalker." + field)
		if fv == nil {
			c.Unresolved("audit.hashWalker." + field)
			continue
		}
		for _, w := range c.P.FieldWriters(fv) {
			if allowed[eng.FuncName(eng.TopFunc(w.Fn))] {
				c.OK(w.Fn, "writer{hashWalker."+field+"}", w.Store.Pos(), "tabled writer")
			} else {
				c.Violation(w.Fn, "writer{hashWalker."+field+"}", w.Store.Pos(), "unexpected writer of the walker's "+field+" stack: the write-back of a hashed leaf would land on another container/key", nil)
			}
		}
	}
}

// c11gIsPopOf: st stores x.field[:...] back into x.field.
func c11gIsPopOf(st *ssa.Store, field string) bool {
	sl, ok := st.Val.(*ssa.Slice)
	if !ok || sl.Low != nil || sl.High == nil {
		return false
	}
	ld, ok := sl.X.(*ssa.UnOp)
	if !ok || ld.Op != token.MUL {
		return false
	}
	fa, ok := ld.X.(*ssa.FieldAddr)
	return ok && eng.FieldVar(fa) != nil && eng.FieldVar(fa).Name() == field
}

// ---------- C11.5 nothing is written into the hashed copy once it has been hashed
func c11gNoWriteAfterHash(c *eng.Ctx) {
	for _, fn := range []string{"audit.HashRequest", "audit.HashResponse"} {
		f := c.Fn(fn)
		if f == nil {
			continue
		}
		c.Clause("R3", "C11.5")
		for _, hm := range eng.Calls(f, `^audit\.hashMap$`) {
			m := c11Strip(hm.Common().Args[1])
			later := eng.Instrs(f, func(in ssa.Instruction) bool {
				switch x := in.(type) {
				case *ssa.MapUpdate:
					return c11Strip(x.Map) == m
				case ssa.CallInstruction:
					if in == ssa.Instruction(hm) {
						return false
					}
					for _, a := range x.Common().Args {
						if c11Strip(a) == m {
							return true
						}
					}
				}
				return false
			})
			c.NotAfter(f, "hashMap(copy)", []ssa.Instruction{hm}, "write into / hand-off of the hashed copy", later)
		}
	}
}

// ---------- C11.4 / C11.2 exemption lists: request list for request data, response list
// for response data, each read from the matched mount's cache under the key
// under which MountEntry.SyncCache publishes the corresponding Config field
func c11gExemptionLists(c *eng.Ctx) {
	// every call of the two data sanitisers in package audit (the formatters or a helper extracted
	// from them): the list is the matching field of a LogInput parameter
	c.Clause("R5", "C11.4")
	nReq, nResp := 0, 0
	listOf := func(v ssa.Value) string { // "" or the LogInput field v is loaded from (of a parameter)
		for _, name := range []string{"NonHMACReqDataKeys", "NonHMACRespDataKeys"} {
			if ld, base := c14LoadOfField(v, name); ld != nil && structTypeName(base.Type()) == "logical.LogInput" {
				if _, isParam := base.(*ssa.Parameter); isParam {
					return name
				}
			}
		}
		return ""
	}
	for _, f := range c.P.Funcs {
		if !eng.InPkg(f, "audit") || strings.Contains(eng.FuncName(eng.TopFunc(f)), "esting") {
			continue
		}
		for _, h := range eng.Calls(f, `^audit\.Hash(Request|Response)$`) {
			want, site := "NonHMACReqDataKeys", "exemption list for request data"
			if strings.HasSuffix(eng.CalleeName(h.Common()), "HashResponse") {
				want, site = "NonHMACRespDataKeys", "exemption list for response data"
				nResp++
			} else {
				nReq++
			}
			if got := listOf(h.Common().Args[3]); got == want {
				c.OK(f, "prov{"+site+"}", h.Pos(), "LogInput."+want+" of the input being formatted")
			} else {
				c.Violation(f, "prov{"+site+"}", h.Pos(), "the sanitiser is given "+eng.ExprDeep(h.Common().Args[3])+" instead of LogInput."+want+" of the input being formatted: fields exempted for the other direction (or not at all) are left in plaintext", nil)
			}
		}
	}
	c.Floor(nil, "HashRequest calls in package audit", nReq, 2)
	c.Floor(nil, "HashResponse calls in package audit", nResp, 1)
	// key -> Config field, from SyncCache
	sc := c.Fn("routing.(*MountEntry).SyncCache")
	if sc == nil {
		return
	}
	keyOf := map[string]string{} // Config field name -> cache key (quoted constant)
	for _, st := range eng.Calls(sc, `^sync\.\(\*Map\)\.Store$`) {
		a := st.Common().Args
		k, ok := c11Strip(a[1]).(*ssa.Const)
		if !ok {
			continue
		}
		if ld, ok := c11Strip(a[2]).(*ssa.UnOp); ok && ld.Op == token.MUL {
			if fa, ok := ld.X.(*ssa.FieldAddr); ok && eng.FieldVar(fa) != nil {
				keyOf[eng.FieldVar(fa).Name()] = eng.Expr(k)
			}
		}
	}
	c.Clause("R5", "C11.2")
	want := map[string]string{"NonHMACReqDataKeys": "AuditNonHMACRequestKeys", "NonHMACRespDataKeys": "AuditNonHMACResponseKeys"}
	for _, cf := range want {
		if keyOf[cf] == "" {
			c.Undecided(sc, "SyncCache publishes Config."+cf, sc.Pos(), "no SynthesizedConfigCache.Store of a constant key with Config."+cf+" found; the exemption-list rule cannot be evaluated")
			return
		}
	}
	n := 0
	for _, fn := range []string{"vault.(*Core).handleRequest", "vault.(*Core).handleLoginRequest", "vault.(*Core).handleCancelableRequest"} {
		f := c.Fn(fn)
		if f == nil {
			continue
		}
		for _, au := range append(c11BrokerCalls(f, "LogRequest"), c11BrokerCalls(f, "LogResponse")...) {
			lr := au.call
			for li, cf := range want {
				vals, literal, traced := c11AuditVals(f, au, li)
				if !literal && len(vals) == 0 && traced {
					continue // the list is not set in this input (request audits carry no response list)
				}
				n++
				site := "LogInput." + li + " read from the mount's " + cf
				if !traced {
					c.Undecided(f, site, lr.Pos(), "the list put into the LogInput inside a closure / helper could not be traced back to this function's values; the rule cannot be evaluated")
					continue
				}
				var bad []string
				for _, l := range vals {
					if eng.IsNilConst(l) {
						continue
					}
					if why := c11gCacheLoad(l, keyOf[cf]); why != "" {
						bad = append(bad, why)
					}
				}
				sort.Strings(bad)
				if len(bad) > 0 {
					c.Violation(f, site, lr.Pos(), "the exemption list put into the audit input is not the matched mount's cached "+cf+" (key "+keyOf[cf]+"): "+strings.Join(bad, "; "), nil)
				} else {
					c.OK(f, site, lr.Pos(), "nil or Load("+keyOf[cf]+") on the mount entry matched for the request path")
				}
			}
		}
	}
	c.Floor(nil, "exemption lists put into audit inputs", n, 5)
}

// c11gCacheLoad: v is x.(T) of the first result of a sync.Map Load(key) on the
// cache of the mount entry returned by Router.MatchingMountEntry; returns ""
// or the reason it is not.
func c11gCacheLoad(v ssa.Value, key string) string {
	ta, ok := c11Strip(v).(*ssa.TypeAssert)
	if !ok {
		return "not read out of the cache: " + eng.Expr(v)
	}
	ex, ok := ta.X.(*ssa.Extract)
	if !ok || ex.Index != 0 {
		return "not read out of the cache: " + eng.Expr(v)
	}
	cl, ok := ex.Tuple.(*ssa.Call)
	if !ok || eng.CalleeName(&cl.Call) != "sync.(*Map).Load" {
		return "not a cache Load: " + eng.Expr(v)
	}
	if k, ok := c11Strip(cl.Call.Args[1]).(*ssa.Const); !ok || eng.Expr(k) != key {
		return "cache key " + eng.Expr(cl.Call.Args[1]) + " is not " + key
	}
	// receiver: &entry.SynthesizedConfigCache with entry = MatchingMountEntry(...)
	fa, ok := cl.Call.Args[0].(*ssa.FieldAddr)
	if !ok {
		return "cache receiver not a field of the mount entry"
	}
	if ok, bad, _ := eng.OriginsMatch(fa.X, `^call:routing\.\(\*Router\)\.MatchingMountEntry$`); !ok {
		return "mount entry originates from " + bad
	}
	return ""
}

// ---------- C11.2 the audited response is not rewritten between the audit and its disclosure
func c11gResponseFrozenAfterAudit(c *eng.Ctx) {
	f := c.Fn("vault.(*Core).handleCancelableRequest")
	if f == nil {
		return
	}
	c.Clause("R3", "C11.2")
	lrs := c11AuditInstrs(c11BrokerCalls(f, "LogResponse"))
	writes := eng.Instrs(f, c11gWritesResponse)
	c.Floor(f, "writes into a logical.Response before the audit", len(writes), 2)
	c.NotAfter(f, "AuditBroker.LogResponse", lrs, "write into a logical.Response (fields, auth block, data map)", writes)
}

// c11gWritesResponse: in stores into a field reachable from a *logical.Response
// (resp.X, resp.Auth.X, resp.Secret.X, ...) or updates/deletes in its Data map.
func c11gWritesResponse(in ssa.Instruction) bool {
	isResp := func(v ssa.Value) bool { return structTypeName(v.Type()) == "logical.Response" }
	var under func(v ssa.Value, d int) bool
	under = func(v ssa.Value, d int) bool {
		if d > 6 || v == nil {
			return false
		}
		switch x := v.(type) {
		case *ssa.FieldAddr:
			return isResp(x.X) || under(x.X, d+1)
		case *ssa.UnOp:
			if x.Op == token.MUL {
				return under(x.X, d+1)
			}
		case *ssa.IndexAddr:
			return under(x.X, d+1)
		}
		return false
	}
	switch x := in.(type) {
	case *ssa.Store:
		return under(x.Addr, 0)
	case *ssa.MapUpdate:
		return under(x.Map, 0)
	case ssa.CallInstruction:
		if b, ok := x.Common().Value.(*ssa.Builtin); ok && b.Name() == "delete" && len(x.Common().Args) > 0 {
			return under(x.Common().Args[0], 0)
		}
	}
	return false
}

// ---------- C11.3 header transformation: a header configured for HMAC is never handed on
// unhashed, also not when hashing fails
func c11gApplyConfig(c *eng.Ctx) {
	f := c.Fn("vault.(*AuditedHeadersConfig).ApplyConfig")
	if f == nil || len(f.Params) < 4 {
		return
	}
	hashFn := f.Params[3]
	var hashCalls []ssa.CallInstruction
	for _, cl := range eng.Instrs(f, func(in ssa.Instruction) bool {
		ci, ok := in.(ssa.CallInstruction)
		return ok && ci.Common().Value == ssa.Value(hashFn)
	}) {
		hashCalls = append(hashCalls, cl.(ssa.CallInstruction))
	}
	c.Clause("R4", "C11.3")
	if !c.Floor(f, "calls of the device's hash function", len(hashCalls), 1) {
		return
	}
	for _, hc := range hashCalls {
		c.NilResultOnEdges(f, "hashing a header value failed", eng.CallFailEdges(hc), 0, "header map")
	}
	// the hashed value replaces the element; the replacement is what HMAC==true leads to
	c.Clause("R2", "C11.3")
	var repl []ssa.Instruction
	for _, in := range eng.Instrs(f, func(in ssa.Instruction) bool {
		st, ok := in.(*ssa.Store)
		if !ok {
			return false
		}
		if _, ok := st.Addr.(*ssa.IndexAddr); !ok {
			return false
		}
		ex, ok := st.Val.(*ssa.Extract)
		if !ok || ex.Index != 0 {
			return false
		}
		cl, ok := ex.Tuple.(*ssa.Call)
		return ok && cl.Call.Value == ssa.Value(hashFn)
	}) {
		repl = append(repl, in)
	}
	if c.Floor(f, "header value replaced by its HMAC", len(repl), 1) {
		c.Cut(f, "header value replaced by its HMAC", repl, eng.G(f, `\.HMAC$`, true), nil)
		// what is published is the slice the replacement wrote into
		c.Clause("R5", "C11.3")
		target := repl[0].(*ssa.Store).Addr.(*ssa.IndexAddr).X
		n := 0
		for _, in := range eng.Instrs(f, func(in ssa.Instruction) bool { _, ok := in.(*ssa.MapUpdate); return ok }) {
			mu := in.(*ssa.MapUpdate)
			if !c11gResultMap(f, mu) {
				continue
			}
			n++
			if c11Strip(mu.Value) == c11Strip(target) {
				c.OK(f, "header values published = the (hashed) copy", mu.Pos(), eng.Expr(mu.Value))
			} else {
				c.Violation(f, "header values published = the (hashed) copy", mu.Pos(), "the header map handed to the device receives "+eng.ExprDeep(mu.Value)+", not the copy whose elements are replaced by their HMAC", nil)
			}
		}
		c.Floor(f, "updates of the result header map", n, 1)
	}
}

// c11gResultMap: mu updates the map that ApplyConfig returns (its first
// result): the two share a non-constant origin.
func c11gResultMap(f *ssa.Function, mu *ssa.MapUpdate) bool {
	ret := map[ssa.Value]bool{}
	for _, r := range eng.Returns(f) {
		vals, _, _ := eng.ReturnVals(r, 0)
		for _, v := range vals {
			for _, o := range eng.Origins(v) {
				if _, isConst := o.Val.(*ssa.Const); !isConst {
					ret[o.Val] = true
				}
			}
		}
	}
	for _, o := range eng.Origins(mu.Map) {
		if ret[o.Val] {
			return true
		}
	}
	return false
}

// ---------- C11.6 every builtin audit device reports success for an entry only if the
// formatter produced it, using the device's configured formatter settings
func c11gDevices(c *eng.Ctx) {
	pref := eng.ModMain + "/internal/builtin/audit/"
	n := 0
	var names []string
	byName := map[string]*ssa.Function{}
	for _, f := range c.P.Funcs {
		if !strings.HasPrefix(eng.PkgPathOf(f), pref) || f.Signature.Recv() == nil {
			continue
		}
		if f.Name() != "LogRequest" && f.Name() != "LogResponse" {
			continue
		}
		names = append(names, eng.FuncName(f))
		byName[eng.FuncName(f)] = f
	}
	sort.Strings(names)
	for _, name := range names {
		f := byName[name]
		what := strings.TrimPrefix(f.Name(), "Log")
		fc := eng.Calls(f, `^audit\.\(\*AuditFormatter\)\.Format`+what+`$`)
		c.Clause("R2", "C11.6")
		if len(fc) == 0 {
			c.Violation(f, "device formats the entry", f.Pos(), "audit device method "+name+" does not call AuditFormatter.Format"+what+": the sanitising formatter is bypassed", nil)
			continue
		}
		n++
		g := eng.GCallOK(f, `^audit\.\(\*AuditFormatter\)\.Format`+what+`$`)
		// tabled: the file device configured to discard everything never formats
		if d := eng.G(f, `^b\.path == "discard"$`, true); len(d.Edges) > 0 && strings.HasSuffix(eng.PkgPathOf(f), "/audit/file") {
			g = eng.Or(g, d)
			g.Desc = "success edge of Format" + what + " OR file device set to discard"
		}
		c.Cut(f, "device reports the entry as accepted", eng.SuccessReturns(f, 0), g, nil)
		c.Clause("R5", "C11.6")
		for _, h := range fc {
			a := h.Common().Args
			c.Prov(f, "formatter settings used", h, a[3], `^field:b\.formatConfig$`)
			c.Prov(f, "input formatted", h, a[4], `^param:in$`)
		}
	}
	c.Clause("R2", "C11.6")
	c.Floor(nil, "builtin audit device Log methods that format their entry", n, 8)
}

// ---------- C11.2 the mount's exemption lists reach request handling only through
// SynthesizedConfigCache, which MountEntry.SyncCache fills from Config: whenever a live
// entry's Config (or one of its two exemption lists) is assigned, SyncCache on that entry
// runs afterwards — and when the assignment comes with a deferred restore (rollback), the
// SyncCache must itself be deferred and registered BEFORE the restore, so that (LIFO) it
// publishes what is left after the restore, not the rejected value
func c11gCachePublishedAfterConfigChange(c *eng.Ctx) {
	reqF := c.P.Field("routing.MountConfig.AuditNonHMACRequestKeys")
	respF := c.P.Field("routing.MountConfig.AuditNonHMACResponseKeys")
	cfgF := c.P.Field("routing.MountEntry.Config")
	if reqF == nil || respF == nil || cfgF == nil {
		c.Clause("R3", "C11.2")
		c.Unresolved("routing.MountConfig.AuditNonHMACRequestKeys / AuditNonHMACResponseKeys / routing.MountEntry.Config")
		return
	}
	const sync = "routing.(*MountEntry).SyncCache"
	same := func(a, b ssa.Value) bool { return a == b || eng.ExprDeep(a) == eng.ExprDeep(b) }
	// entryOf: the *MountEntry whose Config the address lies in (nil: a free-standing MountConfig)
	entryOf := func(fa *ssa.FieldAddr) ssa.Value {
		if eng.FieldVar(fa) == cfgF {
			return fa.X
		}
		if in, ok := fa.X.(*ssa.FieldAddr); ok && eng.FieldVar(in) == cfgF {
			return in.X
		}
		return nil
	}
	syncDefers := func(f *ssa.Function, entry ssa.Value) []ssa.Instruction {
		return eng.Instrs(f, func(in ssa.Instruction) bool {
			d, ok := in.(*ssa.Defer)
			if !ok {
				return false
			}
			if eng.CalleeName(&d.Call) == sync && len(d.Call.Args) > 0 {
				return same(d.Call.Args[0], entry)
			}
			// defer func() { ...; entry.SyncCache() }()
			if mc, ok := d.Call.Value.(*ssa.MakeClosure); ok {
				if fn, ok := mc.Fn.(*ssa.Function); ok && len(eng.Calls(fn, `^routing\.\(\*MountEntry\)\.SyncCache$`)) > 0 {
					return true
				}
			}
			return false
		})
	}
	syncCalls := func(f *ssa.Function, entry ssa.Value) []ssa.Instruction {
		return eng.Instrs(f, func(in ssa.Instruction) bool {
			cl, ok := in.(*ssa.Call)
			return ok && eng.CalleeName(&cl.Call) == sync && len(cl.Call.Args) > 0 && same(cl.Call.Args[0], entry)
		})
	}
	isRet := func(in ssa.Instruction) bool { _, ok := in.(*ssa.Return); return ok }
	n, nRestore := 0, 0
	for _, f := range c.P.Funcs {
		if !strings.HasPrefix(eng.PkgPathOf(f), eng.ModMain+"/internal/vault") || strings.Contains(eng.FuncName(eng.TopFunc(f)), "esting") {
			continue
		}
		for _, b := range f.Blocks {
			for _, in := range b.Instrs {
				var entry ssa.Value
				var what string
				var restore []ssa.Instruction
				switch x := in.(type) {
				case *ssa.Store:
					fa, ok := x.Addr.(*ssa.FieldAddr)
					if !ok {
						continue
					}
					fv := eng.FieldVar(fa)
					if fv != cfgF && fv != reqF && fv != respF {
						continue
					}
					entry = entryOf(fa)
					if entry == nil {
						continue // a MountConfig value that is not (yet) part of an entry
					}
					if _, fresh := entry.(*ssa.Alloc); fresh {
						continue // entry under construction: published by the mount path
					}
					what = "assignment of " + eng.Expr(x.Addr)
				case *ssa.Call:
					// the address of an exemption list handed to a callee that assigns it (rollback helper)
					for _, a := range x.Call.Args {
						if fa, ok := a.(*ssa.FieldAddr); ok && (eng.FieldVar(fa) == reqF || eng.FieldVar(fa) == respF) {
							if e := entryOf(fa); e != nil {
								entry, what = e, eng.CalleeName(&x.Call)+"(&"+eng.Expr(fa)+", …)"
							}
						}
					}
					if entry == nil {
						continue
					}
					// its result deferred: the restore
					restore = eng.Instrs(f, func(d ssa.Instruction) bool {
						df, ok := d.(*ssa.Defer)
						return ok && df.Call.Value == ssa.Value(x)
					})
				default:
					continue
				}
				n++
				c.Clause("R3", "C11.2")
				sd := syncDefers(f, entry)
				if len(restore) > 0 {
					nRestore++
					c.Before(f, "defer SyncCache() of the entry", sd, "deferred restore registered by "+what, restore)
					continue
				}
				site := "SyncCache after " + what
				// either a deferred SyncCache is already registered, or a direct one follows on every path
				if len(sd) > 0 && eng.Reach(eng.Query{Fn: f, Barriers: sd, Target: func(i ssa.Instruction) bool { return i == in }}) == nil {
					c.OK(f, site, in.Pos(), "a deferred SyncCache of the entry is registered on every path to the assignment")
				} else if h := eng.Reach(eng.Query{Fn: f, StartAfter: in, Barriers: syncCalls(f, entry), Target: isRet}); h == nil {
					c.OK(f, site, in.Pos(), "every path from the assignment to a return calls SyncCache on the entry")
				} else {
					c.Violation(f, site, in.Pos(), "a live mount entry's configuration is replaced and the function can return without SyncCache: request handling keeps reading the old exemption lists from SynthesizedConfigCache", h.Witness)
				}
			}
		}
	}
	c.Clause("R3", "C11.2")
	c.Floor(nil, "assignments of a live mount entry's Config / exemption lists", n, 4)
	c.Floor(nil, "exemption-list assignments with a deferred restore", nRestore, 2)
}

// ===================== shape-independent helpers (ROBUST.md) =====================

// c11Audit is one place where fn hands an entry to the audit broker: the call
// instruction in fn after which the broker call has certainly happened and whose
// error result is the broker's verdict — the broker method itself (called directly
// or through a bound method value), or a closure of fn / a function of the same
// package that performs it on every path and reports success only across its
// success (props/c04follow.go: nfSites / nfForwards). effs are the broker calls
// behind the site, each with the call chain that leads to it.
type c11Audit struct {
	call ssa.CallInstruction
	in   ssa.Value // the LogInput handed over, when the broker call stands in fn itself
	effs []nfEff
}

func c11BrokerCalls(fn *ssa.Function, method string) []c11Audit {
	var out []c11Audit
	for _, s := range nfPlain(nfSites(fn, `^vault\.\(\*AuditBroker\)\.`+method+`$`)) {
		if !s.Fwd {
			continue // the call's result is not the broker's verdict: useless as a guard
		}
		au := c11Audit{call: s.At.(ssa.CallInstruction), effs: s.Effs}
		if len(s.Effs) == 1 && s.Effs[0].Fn == fn && len(s.Effs[0].Call.Args) > 2 {
			au.in = s.Effs[0].Call.Args[2]
		}
		out = append(out, au)
	}
	return out
}

// c11AuditVals: the values the audit puts into field `field` of the LogInput(s) it hands to the
// broker, expressed in terms of fn: phis and local cells are read through, a parameter of the
// closure / helper the broker call stands in is replaced by the argument passed for it.
// literal=false: some LogInput is not a literal that sets the field; traced=false: some value
// could not be carried back into fn.
func c11AuditVals(fn *ssa.Function, au c11Audit, field string) (vals []ssa.Value, literal, traced bool) {
	literal, traced = true, true
	seen := map[ssa.Value]bool{}
	var back func(v ssa.Value, fr *nfFrame, depth int)
	back = func(v ssa.Value, fr *nfFrame, depth int) {
		leaves := map[ssa.Value]bool{}
		c11CellLeaves(v, leaves)
		for l := range leaves {
			if p, ok := l.(*ssa.Parameter); ok && p.Parent() != fn {
				if fr != nil && depth < 4 {
					if arg := nfArgFor(fr.call, p); arg != nil {
						back(arg, fr.up, depth+1)
						continue
					}
				}
				traced = false
				continue
			}
			if in, ok := l.(ssa.Instruction); ok && in.Parent() != fn {
				// a value computed inside the helper (or read from a captured variable)
				if ld, ok := l.(*ssa.UnOp); ok && ld.Op == token.MUL {
					if cell := nfCellOf(ld.X); cell != nil && cell.Parent() == fn {
						for _, sv := range nfStoresTo(cell) {
							back(sv, nil, depth+1)
						}
						continue
					}
				}
				if _, isConst := l.(*ssa.Const); !isConst {
					traced = false
					continue
				}
			}
			if !seen[l] {
				seen[l] = true
				vals = append(vals, l)
			}
		}
	}
	for _, e := range au.effs {
		if len(e.Call.Args) < 3 {
			literal = false
			continue
		}
		// the LogInput itself may be a parameter of the closure / helper: find the literal in the caller
		in, fr := e.Call.Args[2], e.Fr
		for d := 0; d < 4; d++ {
			p, ok := in.(*ssa.Parameter)
			if !ok || fr == nil {
				break
			}
			arg := nfArgFor(fr.call, p)
			if arg == nil {
				break
			}
			in, fr = arg, fr.up
		}
		fs := eng.StructLitField(in, field)
		if len(fs) == 0 {
			if _, isParam := in.(*ssa.Parameter); isParam {
				traced = false // handed in from a caller the rule cannot see
			} else {
				literal = false
			}
		}
		for _, v := range fs {
			back(v, fr, 0)
		}
	}
	return vals, literal, traced
}

// c11AuditGuard: "the broker call executed and returned nil" over the given audits.
func c11AuditGuard(desc string, audits []c11Audit) eng.Guard {
	g := eng.Guard{Desc: desc}
	for _, a := range audits {
		g.Edges = append(g.Edges, eng.CallOKEdges(a.call)...)
		g.Pass = append(g.Pass, a.call)
	}
	return g
}

func c11AuditInstrs(audits []c11Audit) []ssa.Instruction {
	var out []ssa.Instruction
	for _, a := range audits {
		out = append(out, a.call)
	}
	return out
}

// c11CellLeaves is c11PhiLeaves that also reads local memory cells (named
// results of a function with a defer): a load of a local is replaced by the
// values that can be in the cell when the load executes. escaped: some cell's
// address is visible to other code, the leaves are a lower bound.
func c11CellLeaves(v ssa.Value, out map[ssa.Value]bool) (escaped bool) {
	seen := map[ssa.Value]bool{}
	var walk func(v ssa.Value)
	walk = func(v ssa.Value) {
		if v == nil || seen[v] {
			return
		}
		seen[v] = true
		switch x := v.(type) {
		case *ssa.Phi:
			for _, e := range x.Edges {
				walk(e)
			}
			return
		case *ssa.UnOp:
			if a, ok := x.X.(*ssa.Alloc); ok && x.Op == token.MUL {
				vals, esc := eng.ReachingStores(a, x)
				if esc {
					escaped = true
				}
				if len(vals) > 0 {
					for _, s := range vals {
						if s != nil {
							walk(s)
						}
					}
					return
				}
			}
		}
		out[v] = true
	}
	walk(v)
	return escaped
}

// c11ZeroTestEdges returns, for every branch of f that compares a subject value
// with zero/false (x, !x, x == 0, x != 0, x > 0, 0 < x, x <= 0, x >= 1, …), the
// edge on which the subject is non-zero (nonzero=true) or zero (nonzero=false).
func c11ZeroTestEdges(f *ssa.Function, subject func(ssa.Value) bool, nonzero bool) []eng.Edge {
	isZero := func(v ssa.Value) bool {
		k, ok := v.(*ssa.Const)
		if !ok {
			return false
		}
		s := eng.Expr(k)
		return s == "0" || s == "false"
	}
	isOne := func(v ssa.Value) bool { k, ok := v.(*ssa.Const); return ok && eng.Expr(k) == "1" }
	var out []eng.Edge
	for _, b := range f.Blocks {
		ifi := eng.IfOf(b)
		if ifi == nil {
			continue
		}
		// succNZ: successor index on which the subject is non-zero; -1 = not a zero test
		succNZ := -1
		cond := ifi.Cond
		flip := false
		for {
			if u, ok := cond.(*ssa.UnOp); ok && u.Op == token.NOT {
				cond, flip = u.X, !flip
				continue
			}
			break
		}
		switch x := cond.(type) {
		case *ssa.BinOp:
			l, r := x.X, x.Y
			switch {
			case x.Op == token.EQL && (subject(l) && isZero(r) || subject(r) && isZero(l)):
				succNZ = 1
			case x.Op == token.NEQ && (subject(l) && isZero(r) || subject(r) && isZero(l)):
				succNZ = 0
			case x.Op == token.GTR && subject(l) && isZero(r), x.Op == token.LSS && isZero(l) && subject(r),
				x.Op == token.GEQ && subject(l) && isOne(r), x.Op == token.LEQ && isOne(l) && subject(r):
				succNZ = 0
			case x.Op == token.LEQ && subject(l) && isZero(r), x.Op == token.GEQ && isZero(l) && subject(r),
				x.Op == token.LSS && subject(l) && isOne(r), x.Op == token.GTR && isOne(l) && subject(r):
				succNZ = 1
			}
		default:
			if subject(cond) {
				succNZ = 0
			}
		}
		if succNZ < 0 {
			continue
		}
		if flip {
			succNZ = 1 - succNZ
		}
		if nonzero {
			out = append(out, eng.Edge{From: b, Succ: succNZ})
		} else {
			out = append(out, eng.Edge{From: b, Succ: 1 - succNZ})
		}
	}
	return out
}

// c11Web is a success accumulator of a function: a family of phis of a local
// bool/int (a flag or a counter) that starts at false/0 and otherwise only
// receives `true`, a non-zero constant or itself + a positive constant.
type c11Web struct {
	phis map[*ssa.Phi]bool
	sets []ssa.Instruction // program points (terminators of the feeding blocks) of the non-zero assignments
}

func c11SuccessWebs(f *ssa.Function) []*c11Web {
	parent := map[*ssa.Phi]*ssa.Phi{}
	var find func(p *ssa.Phi) *ssa.Phi
	find = func(p *ssa.Phi) *ssa.Phi {
		if parent[p] == p {
			return p
		}
		parent[p] = find(parent[p])
		return parent[p]
	}
	var phis []*ssa.Phi
	for _, b := range f.Blocks {
		for _, in := range b.Instrs {
			p, ok := in.(*ssa.Phi)
			if !ok {
				break
			}
			if bt, ok := p.Type().Underlying().(*types.Basic); ok && bt.Info()&(types.IsBoolean|types.IsInteger) != 0 {
				phis = append(phis, p)
				parent[p] = p
			}
		}
	}
	incOf := func(v ssa.Value) *ssa.Phi { // v = phi + positive const
		bo, ok := v.(*ssa.BinOp)
		if !ok || bo.Op != token.ADD {
			return nil
		}
		p, ok := bo.X.(*ssa.Phi)
		if !ok || parent[p] == nil {
			return nil
		}
		if k, ok := bo.Y.(*ssa.Const); !ok || strings.HasPrefix(eng.Expr(k), "-") || eng.Expr(k) == "0" {
			return nil
		}
		return p
	}
	for _, p := range phis {
		for _, e := range p.Edges {
			if q, ok := e.(*ssa.Phi); ok && parent[q] != nil {
				parent[find(p)] = find(q)
			} else if q := incOf(e); q != nil {
				parent[find(p)] = find(q)
			}
		}
	}
	webs := map[*ssa.Phi]*c11Web{}
	bad := map[*ssa.Phi]bool{}
	for _, p := range phis {
		r := find(p)
		w := webs[r]
		if w == nil {
			w = &c11Web{phis: map[*ssa.Phi]bool{}}
			webs[r] = w
		}
		w.phis[p] = true
		for i, e := range p.Edges {
			if q, ok := e.(*ssa.Phi); ok && parent[q] != nil {
				continue
			}
			set := false
			if k, ok := e.(*ssa.Const); ok {
				s := eng.Expr(k)
				if s == "0" || s == "false" {
					continue
				}
				if strings.HasPrefix(s, "-") {
					bad[r] = true
					continue
				}
				set = true
			} else if incOf(e) != nil {
				set = true
			}
			if !set {
				bad[r] = true
				continue
			}
			pb := p.Block().Preds[i]
			w.sets = append(w.sets, pb.Instrs[len(pb.Instrs)-1])
		}
	}
	var out []*c11Web
	for r, w := range webs {
		if !bad[r] && len(w.sets) > 0 {
			out = append(out, w)
		}
	}
	sort.Slice(out, func(i, j int) bool { return out[i].sets[0].Pos() < out[j].sets[0].Pos() })
	return out
}

// c11ForwardedRoots: a root that is result #i of a call to a function of the same package
// is replaced by the roots of that function's i-th results (nil constants on its refusing
// returns aside), one level deep — "the block was extracted into a helper".
func c11ForwardedRoots(pkgOf *ssa.Function, r ssa.Value) ([]ssa.Value, bool) {
	var cl *ssa.Call
	idx := 0
	switch x := r.(type) {
	case *ssa.Extract:
		cl, _ = x.Tuple.(*ssa.Call)
		idx = x.Index
	case *ssa.Call:
		cl = x
	}
	if cl == nil {
		return nil, false
	}
	g := cl.Call.StaticCallee()
	if g == nil || g.Pkg == nil || g.Pkg != pkgOf.Pkg || len(g.Blocks) == 0 {
		return nil, false
	}
	var out []ssa.Value
	for _, ret := range eng.Returns(g) {
		if idx >= len(ret.Results) {
			return nil, false
		}
		vals, _, _ := eng.ReturnVals(ret, idx)
		for _, v := range vals {
			if v == nil || eng.IsNilConst(v) {
				continue
			}
			out = append(out, eng.Roots(v, nil)...)
		}
	}
	return out, len(out) > 0
}

// c11HashingHelpers: functions of f's package that f calls statically and that contain a call
// matching pat (a sanitiser): candidates for "the sanitising block was extracted".
func c11HashingHelpers(f *ssa.Function, pat string) map[*ssa.Function][]ssa.CallInstruction {
	out := map[*ssa.Function][]ssa.CallInstruction{}
	for _, b := range f.Blocks {
		for _, in := range b.Instrs {
			cl, ok := in.(*ssa.Call)
			if !ok {
				continue
			}
			g := cl.Call.StaticCallee()
			if g == nil || g == f || g.Pkg == nil || g.Pkg != f.Pkg || len(g.Blocks) == 0 {
				continue
			}
			if len(eng.Calls(g, pat)) > 0 {
				out[g] = append(out[g], cl)
			}
		}
	}
	return out
}

// ---------- C11.4 the bearer credential is scrubbed from the request headers before they can be
// audited: where CheckToken rebuilds req.Headers[<key>] from the values it looked up under that
// key, a value is KEPT only across strings.HasPrefix(<that value>, <the scheme prefix the HTTP
// layer strips the token from>) being false — a predicate on the header value and a constant
// only, never on req.ClientToken (which differs from the header text after trimming, JWT
// unwrapping, SSC decoding); every success return for a token taken from that header lies after
// the rebuilt slice was stored back
func c11gBearerScrub(c *eng.Ctx) {
	f := c.Fn("vault.(*Core).CheckToken")
	if f == nil {
		return
	}
	hdrF := c.P.Field("logical.Request.Headers")
	srcK, okK := c.P.ConstValue("logical.ClientTokenFromAuthzHeader")
	if hdrF == nil || !okK {
		c.Clause("R2", "C11.4")
		c.Unresolved("logical.Request.Headers / logical.ClientTokenFromAuthzHeader")
		return
	}
	// the scheme prefixes the HTTP layer recognises when it takes the token out of the header
	prefixes := map[string]bool{}
	if g := c.P.Func("http.getTokenFromReq"); g != nil {
		for _, hp := range eng.Calls(g, `^strings\.(HasPrefix|CutPrefix)$`) {
			if k, ok := hp.Common().Args[1].(*ssa.Const); ok {
				prefixes[eng.Expr(k)] = true
			}
		}
	}
	isHeaders := func(v ssa.Value) bool {
		ld, ok := v.(*ssa.UnOp)
		if !ok || ld.Op != token.MUL {
			return false
		}
		fa, ok := ld.X.(*ssa.FieldAddr)
		return ok && eng.FieldVar(fa) == hdrF
	}
	nScrub := 0
	for _, in := range eng.Instrs(f, func(in ssa.Instruction) bool { _, ok := in.(*ssa.MapUpdate); return ok }) {
		mu := in.(*ssa.MapUpdate)
		key, isConst := mu.Key.(*ssa.Const)
		if !isHeaders(mu.Map) || !isConst {
			continue
		}
		// the rebuilt slice: appends that can flow into the stored value
		leaves := map[ssa.Value]bool{}
		var appends []ssa.Instruction
		var walk func(v ssa.Value)
		walk = func(v ssa.Value) {
			if v == nil || leaves[v] {
				return
			}
			leaves[v] = true
			switch x := v.(type) {
			case *ssa.Phi:
				for _, e := range x.Edges {
					walk(e)
				}
			case *ssa.Call:
				if bi, ok := x.Call.Value.(*ssa.Builtin); ok && bi.Name() == "append" {
					appends = append(appends, x)
					walk(x.Call.Args[0])
				}
			}
		}
		walk(mu.Value)
		if len(appends) == 0 {
			continue
		}
		nScrub++
		c.Clause("R2", "C11.4")
		// elements appended, and the tests made on exactly those elements
		var edges []eng.Edge
		for _, ap := range appends {
			var elems []ssa.Value
			if sl, ok := ap.(*ssa.Call).Call.Args[1].(*ssa.Slice); ok {
				if arr, ok := sl.X.(*ssa.Alloc); ok && arr.Referrers() != nil {
					for _, r := range *arr.Referrers() {
						if ia, ok := r.(*ssa.IndexAddr); ok && ia.Referrers() != nil {
							for _, rr := range *ia.Referrers() {
								if st, ok := rr.(*ssa.Store); ok && st.Addr == ssa.Value(ia) {
									elems = append(elems, st.Val)
								}
							}
						}
					}
				}
			}
			for _, hp := range eng.Calls(f, `^strings\.(HasPrefix|CutPrefix)$`) {
				a := hp.Common().Args
				k, isK := a[1].(*ssa.Const)
				if !isK || len(prefixes) > 0 && !prefixes[eng.Expr(k)] {
					continue
				}
				onElem := false
				for _, e := range elems {
					if e == a[0] || eng.ExprDeep(e) == eng.ExprDeep(a[0]) {
						onElem = true
					}
				}
				if !onElem || hp.Value() == nil {
					continue
				}
				if strings.HasSuffix(eng.CalleeName(hp.Common()), "HasPrefix") {
					edges = append(edges, eng.BoolEdges(hp.Value(), false)...)
				} else if refs := hp.Value().Referrers(); refs != nil {
					for _, r := range *refs {
						if ex, ok := r.(*ssa.Extract); ok && ex.Index == 1 {
							edges = append(edges, eng.BoolEdges(ex, false)...)
						}
					}
				}
			}
		}
		c.Cut(f, "value kept in the rebuilt req.Headers["+eng.Expr(key)+"]", appends, eng.Guard{Desc: "HasPrefix(<the header value>, <bearer scheme prefix>) == false", Edges: edges}, nil)
		// every success return for a token from that header lies after the store (or the header is absent)
		c.Clause("R3", "C11.4")
		var absent []eng.Edge
		for _, lk := range eng.Instrs(f, func(in ssa.Instruction) bool {
			l, ok := in.(*ssa.Lookup)
			if !ok || !l.CommaOk || !isHeaders(l.X) {
				return false
			}
			k, ok := l.Index.(*ssa.Const)
			return ok && eng.Expr(k) == eng.Expr(key)
		}) {
			if refs := lk.(*ssa.Lookup).Referrers(); refs != nil {
				for _, r := range *refs {
					if ex, ok := r.(*ssa.Extract); ok && ex.Index == 1 {
						absent = append(absent, eng.BoolEdges(ex, false)...)
					}
				}
			}
		}
		start := eng.CondEdges(f, `\.ClientTokenSource == `+reQuote(srcK)+`$`, true)
		site := "success return for an Authorization-header token lies after the scrub"
		succ := eng.SuccessReturns(f, 4)
		switch {
		case len(start) == 0 || len(succ) == 0:
			c.Undecided(f, site, mu.Pos(), "no branch on ClientTokenSource == ClientTokenFromAuthzHeader / no success return found (moved?); the rule cannot be evaluated")
		default:
			if h := eng.Reach(eng.Query{Fn: f, StartEdges: start, Barriers: []ssa.Instruction{mu}, Blocked: absent, Target: eng.IsTarget(succ)}); h != nil {
				c.Violation(f, site, h.Instr.Pos(), "CheckToken can report success for a token taken from the Authorization header without storing the scrubbed header values back: the credential stays in the headers handed to the audit broker", h.Witness)
			} else {
				c.OK(f, site, mu.Pos(), "every success return reachable from ClientTokenSource == AuthzHeader passes the store of the rebuilt slice (or the header is absent)")
			}
		}
	}
	c.Clause("R2", "C11.4")
	c.Floor(f, "header value lists rebuilt and stored back into req.Headers", nScrub, 1)
}
